(* Reference semantics of makefiles WITH directives (bmake: cond.c, for.c,
   parse.c, var.c), on top of the assignment semantics of Spec/MakeEval.v.
   Independent of the model: it works on the text of the lines.

     .if [!]defined(X)    X is in the variable table at this moment
     .if [!]empty(X)      X is undefined, or its full expansion is the empty string
     .if 1 / .if 0        constants
     .else / .endif       one .else per .if; conditions inside a branch that is
                          not taken are not evaluated
     .undef X Y           removes the variables from the table (if the line is executed)
     .for i in w1 .. wn   the body is read n times (textual expansion; the loop
                          variable is not used in the bodies of this fragment);
                          the number of items is static here
     .include             is the splice of the included file (done by the caller)

   Anything malformed (.else/.endif without .if, unterminated .if/.for, a
   condition whose expansion fails) makes make abort: every final value is None. *)
From PV Require Import Lib.Bytes Spec.MakeEval.

Inductive scond := SCDefined (x : str) | SCEmpty (x : str) | SCConst (b : bool).

Inductive sdline :=
| SDAssign (a : sassign)
| SDUndef (xs : list str)
| SDIf (neg : bool) (c : scond)
| SDElse
| SDEndif
| SDFor (n : nat)
| SDEndfor
| SDNop.
Definition sdprogram := list sdline.

(* ----- .for: textual repetition, innermost first ----- *)

Fixpoint repeat_app {A} (n : nat) (l : list A) : list A :=
  match n with O => [] | S k => l ++ repeat_app k l end.

(* stack: the open loops, innermost first, each with its item count and its
   body so far (reversed); out: the lines outside every loop (reversed) *)
Fixpoint unroll_from (stack : list (nat * list sdline)) (out : list sdline) (p : sdprogram)
  : option sdprogram :=
  match p with
  | [] => match stack with [] => Some (rev out) | _ :: _ => None end
  | l :: r =>
    match l with
    | SDFor n => unroll_from ((n, []) :: stack) out r
    | SDEndfor =>
        match stack with
        | [] => None
        | (n, body) :: stack' =>
            let ex := rev (repeat_app n (rev body)) in
            match stack' with
            | [] => unroll_from [] (ex ++ out) r
            | (m, b2) :: s2 => unroll_from ((m, ex ++ b2) :: s2) out r
            end
        end
    | _ =>
        match stack with
        | [] => unroll_from [] (l :: out) r
        | (n, body) :: s' => unroll_from ((n, l :: body) :: s') out r
        end
    end
  end.
Definition unroll (p : sdprogram) : option sdprogram := unroll_from [] [] p.

(* ----- conditionals ----- *)

Record frame := mkFrame { f_parent : bool; f_cond : bool; f_else : bool }.
Definition frame_active (f : frame) : bool := f_parent f && xorb (f_cond f) (f_else f).

Record dstate := mkD { d_store : store; d_stack : list frame; d_err : bool }.
Definition dinit : dstate := mkD empty_store [] false.
Definition active (s : dstate) : bool :=
  match d_stack s with [] => true | f :: _ => frame_active f end.

Definition eval_cond (fuel : nat) (st : store) (neg : bool) (c : scond) : option bool :=
  match c with
  | SCConst b => Some (xorb neg b)
  | SCDefined x => Some (xorb neg (match st x with Some _ => true | None => false end))
  | SCEmpty x =>
      match expand (S fuel) false st [TRef x] with
      | Some [] => Some (negb neg)
      | Some (_ :: _) => Some neg
      | None => None
      end
  end.

Definition sremove (st : store) (xs : list str) : store :=
  fun k => if existsb (str_eqb k) xs then None else st k.

Definition fail (s : dstate) : dstate := mkD (d_store s) (d_stack s) true.

Definition exec_dline (fuel : nat) (s : dstate) (l : sdline) : dstate :=
  if d_err s then s else
  match l with
  | SDNop => s
  | SDAssign a =>
      if active s then mkD (exec_assign fuel (d_store s) a) (d_stack s) false else s
  | SDUndef xs =>
      if active s then mkD (sremove (d_store s) xs) (d_stack s) false else s
  | SDIf neg c =>
      if active s then
        match eval_cond fuel (d_store s) neg c with
        | Some b => mkD (d_store s) (mkFrame true b false :: d_stack s) false
        | None => fail s
        end
      else mkD (d_store s) (mkFrame false false false :: d_stack s) false
  | SDElse =>
      match d_stack s with
      | [] => fail s
      | f :: r => if f_else f then fail s
                  else mkD (d_store s) (mkFrame (f_parent f) (f_cond f) true :: r) false
      end
  | SDEndif =>
      match d_stack s with
      | [] => fail s
      | _ :: r => mkD (d_store s) r false
      end
  | SDFor _ | SDEndfor => fail s   (* unroll leaves none *)
  end.

Definition exec_d (fuel : nat) (q : sdprogram) : dstate := fold_left (exec_dline fuel) q dinit.

(* what "make -V x" prints after reading the makefile; None = make aborts *)
Definition final_d (fuel : nat) (p : sdprogram) (x : str) : option str :=
  match unroll p with
  | None => None
  | Some q =>
      let s := exec_d fuel q in
      if d_err s then None else
      match d_stack s with
      | _ :: _ => None
      | [] => expand (S fuel) false (d_store s) [TRef x]
      end
  end.

(* the lines [is] removed (replaced by nothing: the other lines keep their index) *)
Fixpoint blank_from (idx : nat) (is : list nat) (p : sdprogram) : sdprogram :=
  match p with
  | [] => []
  | l :: r => (if existsb (Nat.eqb idx) is then SDNop else l) :: blank_from (S idx) is r
  end.
Definition blank (is : list nat) (p : sdprogram) : sdprogram := blank_from 0 is p.

(* a program without directives *)
Definition lift_line (l : option sassign) : sdline :=
  match l with None => SDNop | Some a => SDAssign a end.
Definition lift (p : sprogram) : sdprogram := map lift_line p.
