(* Specification for C09 "loading loses nothing".  Independent of Model/Lines.v:
   it talks about what a loader must deliver, as a list of observed lines
   (line number, text, physical lines), not about how the loop computes it.
   Everything is executable: the boolean checkers are run by the harness on the
   output of the real convertToLogicalLines. *)
From PV Require Import Lib.Bytes.
Open Scope N_scope.

(* what is observed of a logical line: (Location.lineno, Text, raw[i].orignl) *)
Definition obs_line : Type := (N * str * list str)%type.
Definition o_lineno (l : obs_line) : N := fst (fst l).
Definition o_text (l : obs_line) : str := snd (fst l).
Definition o_raws (l : obs_line) : list str := snd l.

Definition all_raws (ls : list obs_line) : list str := flat_map o_raws ls.

Definition nilb (s : str) : bool := match s with [] => true | _ => false end.
Definition is_nl (c : N) : bool := c =? 10.
Definition is_bs (c : N) : bool := c =? 92.
Definition is_hash (c : N) : bool := c =? 35.

(* ---- 1. partition -------------------------------------------------------- *)

Definition partition_ok (input : str) (ls : list obs_line) : bool :=
  str_eqb (concat (all_raws ls)) input.

(* ---- 2. shape of the physical lines -------------------------------------- *)

Definition ends_nl (r : str) : bool := is_nl (last r 0).
(* non-empty, and a line feed can only be the last byte *)
Definition raw_ok (r : str) : bool := negb (nilb r) && negb (existsb is_nl (removelast r)).
(* every physical line except the very last one ends in a line feed *)
Fixpoint all_but_last (p : str -> bool) (rs : list str) : bool :=
  match rs with
  | [] => true
  | [_] => true
  | r :: rest => p r && all_but_last p rest
  end.
Definition raws_shape_ok (ls : list obs_line) : bool :=
  forallb raw_ok (all_raws ls) && all_but_last ends_nl (all_raws ls).

(* ---- 3. numbering -------------------------------------------------------- *)

(* line k reports 1 + the number of physical lines before it *)
Fixpoint numbering_from (start : N) (ls : list obs_line) : bool :=
  match ls with
  | [] => true
  | l :: rest => (o_lineno l =? start) && numbering_from (start + N.of_nat (length (o_raws l))) rest
  end.
Definition numbering_ok (ls : list obs_line) : bool := numbering_from 1 ls.

(* ---- 4. grouping --------------------------------------------------------- *)

(* the physical line without its line feed *)
Definition content (r : str) : str := if ends_nl r then removelast r else r.

(* number of bytes satisfying p at the very end of s *)
Definition trailing_count (p : N -> bool) (s : str) : nat :=
  fold_left (fun n c => if p c then S n else O) s O.

(* a physical line asks for a continuation: odd number of trailing backslashes *)
Definition continues (r : str) : bool := Nat.odd (trailing_count is_bs (content r)).

(* makefile mode: within a logical line every physical line but the last
   continues; the last one does not, unless the file ends there *)
Fixpoint group_ok (file_ends_here : bool) (rs : list str) : bool :=
  match rs with
  | [] => false
  | [r] => negb (continues r) || file_ends_here
  | r :: rest => continues r && group_ok file_ends_here rest
  end.
Fixpoint grouping_mk (ls : list obs_line) : bool :=
  match ls with
  | [] => true
  | l :: rest => group_ok (match rest with [] => true | _ => false end) (o_raws l) && grouping_mk rest
  end.
(* plain mode: one physical line per line *)
Definition grouping_plain (ls : list obs_line) : bool :=
  forallb (fun l => Nat.eqb (length (o_raws l)) 1) ls.
Definition grouping_ok (mk : bool) (ls : list obs_line) : bool :=
  if mk then grouping_mk ls else grouping_plain ls.

(* ---- 5. text ------------------------------------------------------------- *)

(* A physical line's content splits uniquely (Proofs: decomp_unique) into
     indent ++ body ++ outdent ++ cont
   cont    = the continuation backslash: "\" iff the number of trailing backslashes is odd
   outdent = all blanks immediately before cont
   indent  = all blanks at the start of what remains
   body    = the rest; it neither starts nor ends with a blank *)
Record parts : Type := mk_parts { p_indent : str; p_body : str; p_outdent : str; p_cont : str }.

Definition head_is (p : N -> bool) (s : str) : bool := match s with c :: _ => p c | [] => false end.
Definition last_is (p : N -> bool) (s : str) : bool := head_is p (rev s).

Definition decomp_ok (o : str) (p : parts) : bool :=
  str_eqb o (p_indent p ++ p_body p ++ p_outdent p ++ p_cont p)
  && forallb is_hspace (p_indent p) && forallb is_hspace (p_outdent p)
  && (if Nat.odd (trailing_count is_bs o) then str_eqb (p_cont p) [92] else nilb (p_cont p))
  && negb (head_is is_hspace (p_body p)) && negb (last_is is_hspace (p_body p))
  && (negb (nilb (p_body p)) || nilb (p_indent p)).

(* the decomposition, computed front to back *)
Fixpoint drop_while_end (p : N -> bool) (s : str) : str :=
  match s with
  | [] => []
  | c :: t => let r := drop_while_end p t in if p c && nilb r then [] else c :: r
  end.
Definition spec_parts (o : str) : parts :=
  let cont := if Nat.odd (trailing_count is_bs o) then [92] else [] in
  let core := firstn (length o - length cont) o in
  let stripped := drop_while_end is_hspace core in
  let outdent := skipn (length stripped) core in
  let (indent, body) := span is_hspace stripped in
  mk_parts indent body outdent cont.

(* the comment marker repeated on a continued comment line is dropped *)
Definition body_after (prev cur : parts) : str :=
  if head_is is_hash (p_body prev) && head_is is_hash (p_body cur) then tl (p_body cur) else p_body cur.

Fixpoint join_with (sep : str) (xs : list str) : str :=
  match xs with
  | [] => []
  | [x] => x
  | x :: rest => x ++ sep ++ join_with sep rest
  end.

(* Text of a logical line whose physical lines decompose into ps:
   indent_0 body_0 " " body'_1 " " ... " " body'_n outdent_n cont_n
   i.e. every junction  outdent_i cont_i "\n" indent_i+1 [marker]  became one space *)
Definition joined (ps : list parts) : str :=
  match ps with
  | [] => []
  | p0 :: rest =>
    let pn := last ps p0 in
    p_indent p0
    ++ join_with [32] (p_body p0 :: map (fun pc => body_after (fst pc) (snd pc)) (combine ps rest))
    ++ p_outdent pn ++ p_cont pn
  end.

(* the relation the theorem is stated against *)
Definition text_rel (rs : list str) (t : str) : Prop :=
  exists ps, Forall2 (fun r p => decomp_ok (content r) p = true) rs ps /\ t = joined ps.

(* its executable form *)
Definition spec_text (rs : list str) : str := joined (map (fun r => spec_parts (content r)) rs).

Definition text_ok (mk : bool) (ls : list obs_line) : bool :=
  forallb (fun l => str_eqb (o_text l)
                      (if mk then spec_text (o_raws l)
                       else match o_raws l with [r] => content r | _ => o_text l end)) ls.

(* ---- all clauses, as run against the implementation ---------------------- *)

Definition spec_check (mk : bool) (input : str) (ls : list obs_line) : list bool :=
  [ partition_ok input ls; raws_shape_ok ls; numbering_ok ls; grouping_ok mk ls; text_ok mk ls ].

Definition spec_holds (mk : bool) (input : str) (ls : list obs_line) : bool :=
  forallb (fun b => b) (spec_check mk input ls).

(* ---- saving -------------------------------------------------------------- *)

(* What a save must write when the lines in `fixed` (by position) were replaced
   by the given strings and all others are untouched: the untouched lines'
   physical lines, byte for byte, in order. *)
Fixpoint spec_saved (ls : list (obs_line * option (list str))) : str :=
  match ls with
  | [] => []
  | (l, None) :: rest => concat (o_raws l) ++ spec_saved rest
  | (_, Some replacement) :: rest => concat replacement ++ spec_saved rest
  end.
