(* History-level vocabulary for the Scope theorems: what a caller knows about the Define
   operations it issued, without looking into the scope's data structure. *)
From Coq Require Import List NArith Bool.
From PV Require Import Lib.Bytes Model.Scope.
Import ListNotations.

(* Define(name, _) also defines the canonical form of name *)
Definition touches (name v : str) : bool := str_eqb name v || str_eqb (varname_canon name) v.

(* the lines of the Define operations that reach variable v, oldest first *)
Fixpoint defs_of (v : str) (h : list sop) : list sline :=
  match h with
  | [] => []
  | ODefine n l :: t => if touches n v then l :: defs_of v t else defs_of v t
  | _ :: t => defs_of v t
  end.

Fixpoint last_opt {A} (l : list A) : option A :=
  match l with
  | [] => None
  | x :: t => match last_opt t with Some y => Some y | None => Some x end
  end.

Definition is_shell_assign (l : sline) : bool := is_varassign l && (sl_op l =? 1)%N.

(* DefineAll(other) seen as a history of Define operations: per name of `other`, in sorted order,
   its first and its last defining line *)
Definition define_all_hist (other : sstate) : list sop :=
  flat_map (fun k => match slookup other k with
                     | Some x => match v_first x, v_last x with
                                 | Some f, Some l => [ODefine k f; ODefine k l]
                                 | _, _ => []
                                 end
                     | None => []
                     end) (varnames other).
