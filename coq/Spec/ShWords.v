(* Specification vocabulary for splitIntoShellTokens (shell.go): what the token
   strings are allowed to look like, and the interleaving of tokens and skipped
   text.  Uses the atom vocabulary of Model/ShTok.v (types, quoting states), not
   its functions. *)
From PV Require Import Lib.Bytes Model.ShTok Spec.ShPartition.
Open Scope N_scope.

(* every blank (space, tab) of s directly follows a backslash that is not itself
   escaped: scanning from the left, a backslash protects the next byte *)
Fixpoint blanks_escaped (s : str) : bool :=
  match s with
  | [] => true
  | c :: t =>
    if c =? 92 then (match t with _ :: t' => blanks_escaped t' | [] => true end)
    else negb (is_hspace c) && blanks_escaped t
  end.

(* An atom that ShAtom produced when called in quoting state q and that ended up in
   a token.  Outside quotes, backticks and subshells (q = plain) it is never a
   space atom, and unless it is a make expression ${...}, a shell expression $${...}
   or a comment, its text has no blank except directly after a backslash. *)
Definition atom_blank_ok (q : quoting) (a : atom) : Prop :=
  q = QPlain ->
  a_type a <> ShtSpace /\
  (a_type a = ShtExpr \/ a_type a = ShtShExpr \/ a_type a = ShtComment \/
   blanks_escaped (a_text a) = true).

(* the atoms of one token: the first is produced in the plain state, each further
   one in the state its predecessor left *)
Fixpoint atoms_chain (q : quoting) (l : list atom) : Prop :=
  match l with
  | [] => True
  | a :: tl => atom_blank_ok q a /\ atoms_chain (a_quot a) tl
  end.

(* text = gap_0 ++ tok_1 ++ gap_1 ++ ... ++ tok_n ++ gap_n ++ rest *)
Fixpoint weave (gaps toks : list str) (rest : str) : str :=
  match gaps, toks with
  | g :: gs, t :: ts => g ++ t ++ weave gs ts rest
  | g :: _, [] => g ++ rest
  | [], _ => rest
  end.

(* a gap consists of blanks and copies of ${_ULIMIT_CMD} only *)
Definition gap_ok (g : str) : Prop :=
  exists pieces, Forall skipped_ok pieces /\ g = concat pieces.

(* ---------- simple words: the fragment C11's printer produces ----------

   A word is scanned from the left in one of three states (outside quotes, inside
   "...", inside '...').  `rx` recognises a make expression at the start of its
   argument and returns what follows it (e.g. ${NAME}); which expressions it may
   recognise is a hypothesis of the theorem about split_tokens, not part of this
   definition. *)
Inductive wq : Set := WPlain | WDq | WSq.

Definition is_wtext (c : N) : bool := is_text_byte c && negb (c =? 35).   (* no '#' outside quotes *)
Definition is_dq_inner (c : N) : bool := is_text_byte c || is_dq_byte c.
Definition is_sq_inner (c : N) : bool := is_text_byte c || is_sq_byte c || (c =? 96).

(* what follows `$$` in a shell variable: a digit, one of ! # * - ? @, a name,
   or {name} / {name<op>text} -- returns the text after the variable
   (`$$$$`, the process id, is left out: in the middle of a text the tokenizer reads
   it as two escaped dollars, at its start as a variable) *)
Definition shvar_rest (w : str) : option str :=
  match w with
  | [] => None
  | d :: t =>
    if is_digit d then Some t
    else if d =? 36 then None
    else match op_byte 123 w with
         | Some w1 =>
           match re_shvarname w1 with
           | Some w2 => op_byte 125 (match re_shmodifier w2 with Some r => r | None => w2 end)
           | None => None
           end
         | None => re_shvarname w
         end
  end.

Section Words.
Variable rx : str -> option str.

Inductive wordp : wq -> str -> Prop :=
| WP_end : wordp WPlain []
| WP_text c u : is_wtext c = true -> wordp WPlain u -> wordp WPlain (c :: u)
| WP_dq u : wordp WDq u -> wordp WPlain (34 :: u)
| WP_sq u : wordp WSq u -> wordp WPlain (39 :: u)
| WD_close u : wordp WPlain u -> wordp WDq (34 :: u)
| WD_byte c u : is_dq_inner c = true -> wordp WDq u -> wordp WDq (c :: u)
| WS_close u : wordp WPlain u -> wordp WSq (39 :: u)
| WS_byte c u : is_sq_inner c = true -> wordp WSq u -> wordp WSq (c :: u)
| W_esc q d u : q <> WSq -> (d =? 36) = false -> (d <? 128) = true -> wordp q u -> wordp q (92 :: d :: u)
| W_escdd q u : q <> WSq -> wordp q u -> wordp q (92 :: 36 :: 36 :: u)
| W_shvar q w r : q <> WSq -> shvar_rest w = Some r -> wordp q r -> wordp q (36 :: 36 :: w)
| W_mk q w r : q <> WSq -> rx (36 :: w) = Some r -> wordp q r -> wordp q (36 :: w).

(* the same as a test *)
Fixpoint word_scan (fuel : nat) (q : wq) (u : str) : bool :=
  match fuel with
  | O => false
  | S f =>
    match u with
    | [] => match q with WPlain => true | _ => false end
    | c :: t =>
      match q with
      | WSq => if c =? 39 then word_scan f WPlain t else is_sq_inner c && word_scan f WSq t
      | _ =>
        if c =? 34 then word_scan f (match q with WPlain => WDq | _ => WPlain end) t
        else if (match q with WPlain => c =? 39 | _ => false end) then word_scan f WSq t
        else if c =? 92 then
          match t with
          | d :: t1 =>
            if d =? 36 then (match t1 with e :: t2 => (e =? 36) && word_scan f q t2 | [] => false end)
            else (d <? 128) && word_scan f q t1
          | [] => false
          end
        else if c =? 36 then
          match t with
          | d :: w =>
            if d =? 36 then (match shvar_rest w with Some r => word_scan f q r | None => false end)
            else (match rx u with Some r => word_scan f q r | None => false end)
          | [] => false
          end
        else (match q with WPlain => is_wtext c | _ => is_dq_inner c end) && word_scan f q t
      end
    end
  end.

(* operator tokens: ; ;; & && | || ( )  and  [digits] < <& > >& >> <> >| << <<- *)
Definition plain_operators : list str :=
  [ [59]; [59; 59]; [38]; [38; 38]; [124]; [124; 124]; [40]; [41] ].
Definition is_operator_word (w : str) : bool :=
  existsb (str_eqb w) plain_operators ||
  existsb (str_eqb (snd (span is_digit w))) redirect_ops.

Definition simple_word (w : str) : Prop :=
  w <> [] /\ (wordp WPlain w \/ is_operator_word w = true).

Definition simple_word_b (w : str) : bool :=
  nonempty w && (word_scan (S (S (length w))) WPlain w || is_operator_word w).

(* words joined by single blanks *)
Fixpoint unwords (ws : list str) : str :=
  match ws with
  | [] => []
  | [w] => w
  | w :: tl => w ++ 32 :: unwords tl
  end.

End Words.

(* a recogniser for the plainest make expressions, ${NAME} with NAME over
   [A-Za-z0-9_] -- except the one expression that ShToken skips *)
Definition is_name_byte (c : N) : bool := is_alnum c || (c =? 95).
Definition ulimit_name : str := [95; 85; 76; 73; 77; 73; 84; 95; 67; 77; 68].
Definition mkvar_rx (s : str) : option str :=
  match s with
  | a :: b :: t =>
    if (a =? 36) && (b =? 123) then
      match span is_name_byte t with
      | (c :: name, d :: r) =>
        if (d =? 125) && negb (str_eqb (c :: name) ulimit_name) then Some r else None
      | _ => None
      end
    else None
  | _ => None
  end.
