(* Specification vocabulary for splitIntoShellTokens (shell.go): what the token
   strings are allowed to look like, and the interleaving of tokens and skipped
   text.  Uses the atom vocabulary of Model/ShTok.v (types, quoting states), not
   its functions. *)
From PV Require Import Lib.Bytes Model.ShTok Spec.ShPartition.
Open Scope N_scope.

(* every blank (space, tab) of s directly follows a backslash that is not itself
   escaped: scanning from the left, a backslash protects the next byte *)
Fixpoint blanks_escaped (s : str) : bool :=
  match s with
  | [] => true
  | c :: t =>
    if c =? 92 then (match t with _ :: t' => blanks_escaped t' | [] => true end)
    else negb (is_hspace c) && blanks_escaped t
  end.

(* An atom that ShAtom produced when called in quoting state q and that ended up in
   a token.  Outside quotes, backticks and subshells (q = plain) it is never a
   space atom, and unless it is a make expression ${...}, a shell expression $${...}
   or a comment, its text has no blank except directly after a backslash. *)
Definition atom_blank_ok (q : quoting) (a : atom) : Prop :=
  q = QPlain ->
  a_type a <> ShtSpace /\
  (a_type a = ShtExpr \/ a_type a = ShtShExpr \/ a_type a = ShtComment \/
   blanks_escaped (a_text a) = true).

(* the atoms of one token: the first is produced in the plain state, each further
   one in the state its predecessor left *)
Fixpoint atoms_chain (q : quoting) (l : list atom) : Prop :=
  match l with
  | [] => True
  | a :: tl => atom_blank_ok q a /\ atoms_chain (a_quot a) tl
  end.

(* text = gap_0 ++ tok_1 ++ gap_1 ++ ... ++ tok_n ++ gap_n ++ rest *)
Fixpoint weave (gaps toks : list str) (rest : str) : str :=
  match gaps, toks with
  | g :: gs, t :: ts => g ++ t ++ weave gs ts rest
  | g :: _, [] => g ++ rest
  | [], _ => rest
  end.

(* a gap consists of blanks and copies of ${_ULIMIT_CMD} only *)
Definition gap_ok (g : str) : Prop :=
  exists pieces, Forall skipped_ok pieces /\ g = concat pieces.
