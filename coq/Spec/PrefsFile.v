(* C14, file level: WHEN is a variable defined while bmake reads a makefile fragment?
   Independent of the model (Model/CondFile.v); shares only the line syntax [fline].

   Reference facts (pkgsrc; the property's text "the include of a prefs file defines
   the prefs variables, nothing else does"):
     - the files that load the user preferences when they are included, by basename:
     bsd.prefs.mk           mk/bsd.prefs.mk: the file that loads the user preferences (mk.conf) and defines OPSYS, OS_VERSION, LOWER_OPSYS, PKGPATH, ...
     bsd.fast.prefs.mk      mk/bsd.fast.prefs.mk: includes bsd.prefs.mk unless BSD_PKG_MK is already defined (then it has been loaded)
     bsd.builtin.mk         mk/buildlink3/bsd.builtin.mk: starts with .include "../../mk/bsd.fast.prefs.mk"
     pkgconfig-builtin.mk   mk/buildlink3/pkgconfig-builtin.mk: includes bsd.fast.prefs.mk / bsd.builtin.mk
     pkg-build-options.mk   mk/pkg-build-options.mk: starts with .include "../../mk/bsd.fast.prefs.mk"
     compiler.mk            mk/compiler.mk: .include "bsd.fast.prefs.mk"
     options.mk             options.mk of a package: by convention (and checked by pkglint) includes ../../mk/bsd.options.mk
     bsd.options.mk         mk/bsd.options.mk: .include "bsd.fast.prefs.mk"
     - pkglint's standing assumption (util.go: "Just assume that every pkgsrc
       infrastructure file includes bsd.prefs.mk, at least indirectly"): every file
       below a directory named mk.  Taken over as a reference fact, see docs/C14.md.
   Nothing else loads the preferences: in particular not buildlink3.mk, builtin.mk,
   Makefile.common, version.mk or any other fragment of a package directory.

   What bmake guarantees about a line: it is executed for sure iff every enclosing
   .if/.for block is the file's multiple-inclusion guard (whose condition holds
   whenever the file is read at all).  An assignment or include inside any other
   block may or may not happen. *)
From PV Require Import Lib.Bytes Spec.BmakeCond.
Open Scope N_scope.

(* ---------- the lines of a fragment, as far as they matter here ---------- *)
Inductive fline :=
| FInclude (path : str)     (* .include "path" (also .sinclude, -include) *)
| FAssign (v : str)         (* V= / V?= / V+= / V:= / V!= ... *)
| FOpen (guard : bool)      (* .if .ifdef .ifndef .ifmake .ifnmake .for; guard: the file's
                               multiple-inclusion guard *)
| FClose                    (* .endif .endfor *)
| FUndef (v : str)          (* .undef V *)
| FOther.                   (* .else .elif, comments, rules, shell commands, empty lines *)

(* ---------- which included files load the preferences ---------- *)
Definition prefs_reference : list str :=
  [[98; 115; 100; 46; 112; 114; 101; 102; 115; 46; 109; 107] (* bsd.prefs.mk *);
   [98; 115; 100; 46; 102; 97; 115; 116; 46; 112; 114; 101; 102; 115; 46; 109; 107] (* bsd.fast.prefs.mk *);
   [98; 115; 100; 46; 98; 117; 105; 108; 116; 105; 110; 46; 109; 107] (* bsd.builtin.mk *);
   [112; 107; 103; 99; 111; 110; 102; 105; 103; 45; 98; 117; 105; 108; 116; 105; 110; 46; 109; 107] (* pkgconfig-builtin.mk *);
   [112; 107; 103; 45; 98; 117; 105; 108; 100; 45; 111; 112; 116; 105; 111; 110; 115; 46; 109; 107] (* pkg-build-options.mk *);
   [99; 111; 109; 112; 105; 108; 101; 114; 46; 109; 107] (* compiler.mk *);
   [111; 112; 116; 105; 111; 110; 115; 46; 109; 107] (* options.mk *);
   [98; 115; 100; 46; 111; 112; 116; 105; 111; 110; 115; 46; 109; 107] (* bsd.options.mk *)].

Definition infrastructure_dir : str := [109; 107].   (* mk *)

(* the components of a path: the pieces between slashes *)
Fixpoint comps (s : str) : list str :=
  match s with
  | [] => [[]]
  | c :: r =>
    if c =? 47 then [] :: comps r
    else match comps r with
         | h :: t => (c :: h) :: t
         | [] => [[c]]
         end
  end.

Definition nonempty_str (s : str) : bool := match s with [] => false | _ => true end.

Definition components (p : str) : list str := filter nonempty_str (comps p).

Definition in_strs (x : str) (l : list str) : bool := existsb (str_eqb x) l.

(* the file named by the last component is one of the reference files, or the path
   leads through a directory mk *)
Definition really_loads_prefs (p : str) : bool :=
  in_strs (last (components p) []) prefs_reference || in_strs infrastructure_dir (components p).

(* ---------- what is guaranteed after the lines [pre] ---------- *)
Record sure := mksure {
  su_prefs : bool;          (* the preferences have been loaded for sure *)
  su_assigned : list str;   (* variables assigned for sure *)
  su_open : list bool;      (* the open blocks, innermost first: is it the guard? *)
  su_undef : list str       (* variables an .undef may have removed since (and no assignment for sure re-made) *)
}.

Definition remove_str (v : str) (l : list str) : list str := filter (fun x => negb (str_eqb v x)) l.

Definition executed_for_sure (s : sure) : bool := forallb (fun g => g) (su_open s).

Definition sure_step (s : sure) (l : fline) : sure :=
  match l with
  | FInclude p =>
    mksure (su_prefs s || (executed_for_sure s && really_loads_prefs p)) (su_assigned s) (su_open s) (su_undef s)
  | FAssign v =>
    if executed_for_sure s
    then mksure (su_prefs s) (v :: su_assigned s) (su_open s) (remove_str v (su_undef s))
    else s
  | FOpen g => mksure (su_prefs s) (su_assigned s) (g :: su_open s) (su_undef s)
  | FClose => mksure (su_prefs s) (su_assigned s) (tl (su_open s)) (su_undef s)
  | FUndef v => mksure (su_prefs s) (su_assigned s) (su_open s) (v :: su_undef s)   (* wherever it stands *)
  | FOther => s
  end.

Definition sure_after (pre : list fline) : sure := fold_left sure_step pre (mksure false [] [] []).

(* An environment (values of all variables when bmake evaluates the condition that
   follows the lines [pre]) is possible iff
     - the variables that are always defined (make built-ins, the environment pkgsrc
       guarantees: [always]) are defined,
     - the variables assigned for sure are defined,
     - if the preferences have been loaded for sure, the variables bsd.prefs.mk defines
       ([by_prefs]) are defined.
   None of this holds for a variable that an .undef has touched since.
   Everything else is open: any other variable may be undefined, empty, or anything. *)
Definition possible_env (always by_prefs : str -> bool) (pre : list fline) (e : env) : Prop :=
  forall v, in_strs v (su_undef (sure_after pre)) = false ->
    (always v = true -> e v <> None) /\
    (in_strs v (su_assigned (sure_after pre)) = true -> e v <> None) /\
    (su_prefs (sure_after pre) = true -> by_prefs v = true -> e v <> None).

(* a prefs-loading include inside a conditional block: may or may not happen *)
Fixpoint conditional_prefs_include (s : sure) (ls : list fline) : bool :=
  match ls with
  | [] => false
  | l :: r =>
    (match l with
     | FInclude p => negb (executed_for_sure s) && really_loads_prefs p
     | _ => false
     end) || conditional_prefs_include (sure_step s l) r
  end.
