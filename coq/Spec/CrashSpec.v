(* C05 specification: "old or new at every instant".  Independent of the save
   protocol: it looks only at the original tree, the contents the run wanted to
   install, and the tree found afterwards.  Executable (it is also applied to
   snapshots of real, killed pkglint runs). *)
From PV Require Import Lib.Bytes Model.FsProto.
Open Scope N_scope.

(* the complete contents that a run may legitimately install at path p:
   every content it saves for p (a file may be saved several times in one run) *)
Fixpoint versions (prog : list action) (p : path) : list str :=
  match prog with
  | [] => []
  | ASave f new :: rest => if str_eqb f p then new :: versions rest p else versions rest p
  | AChmod _ _ :: rest => versions rest p
  | AIfSaved _ f new :: rest => if str_eqb f p then new :: versions rest p else versions rest p
  end.

(* Prop form: every original path still exists and holds its complete old
   content or one of the complete new contents *)
Definition atomic_at (init : fsmap) (prog : list action) (cur : fsmap) : Prop :=
  forall p f0, lookup p init = Some f0 ->
    exists f1, lookup p cur = Some f1 /\ In (f_data f1) (f_data f0 :: versions prog p).

Definition no_file_lost (init cur : fsmap) : Prop :=
  forall p f0, lookup p init = Some f0 -> exists f1, lookup p cur = Some f1.

(* boolean form, entry by entry; returns the first offending path *)
Fixpoint first_bad (entries : fsmap) (init : fsmap) (prog : list action) (cur : fsmap) : option path :=
  match entries with
  | [] => None
  | (p, _) :: rest =>
    let ok := match lookup p init, lookup p cur with
              | Some f0, Some f1 => existsb (str_eqb (f_data f1)) (f_data f0 :: versions prog p)
              | Some _, None => false
              | None, _ => true
              end in
    if ok then first_bad rest init prog cur else Some p
  end.

Definition atomic_okb (init : fsmap) (prog : list action) (cur : fsmap) : bool :=
  match first_bad init init prog cur with None => true | Some _ => false end.

(* a mode change is a single system call: at every instant the file has its old
   mode or the requested mode, and its content is untouched *)
Definition mode_atomic_at (init : fsmap) (p : path) (newmode : N) (cur : fsmap) : Prop :=
  forall f0, lookup p init = Some f0 ->
    exists f1, lookup p cur = Some f1 /\ f_data f1 = f_data f0 /\
               (f_mode f1 = f_mode f0 \/ f_mode f1 = newmode).

(* the guard under which the property can hold at all: no original file bears
   the temporary name of a file that is going to be saved *)
Fixpoint saved_paths (prog : list action) : list path :=
  match prog with
  | [] => []
  | ASave f _ :: rest => f :: saved_paths rest
  | AChmod _ _ :: rest => saved_paths rest
  | AIfSaved _ f _ :: rest => f :: saved_paths rest
  end.

Definition tmp_free (init : fsmap) (prog : list action) : Prop :=
  forall f, In f (saved_paths prog) -> lookup (tmp_name f) init = None.

Definition tmp_freeb (init : fsmap) (prog : list action) : bool :=
  forallb (fun f => match lookup (tmp_name f) init with None => true | Some _ => false end)
          (saved_paths prog).

(* ---------- foreign entries ---------- *)

(* the paths whose mode a run may change *)
Fixpoint chmod_paths (prog : list action) : list path :=
  match prog with
  | [] => []
  | ASave _ _ :: rest => chmod_paths rest
  | AChmod f _ :: rest => f :: chmod_paths rest
  | AIfSaved _ _ _ :: rest => chmod_paths rest
  end.

(* a path is foreign to a run when the run neither saves it nor fixes its mode.  A foreign
   path may well be NAMED f.pkglint.tmp for a saved file f: such an entry of the initial
   tree (of any kind) does not belong to the run either *)
Definition foreign (prog : list action) (p : path) : Prop :=
  ~ In p (saved_paths prog) /\ ~ In p (chmod_paths prog).

(* the names of the temporary files the run may create *)
Definition run_tmps (prog : list action) : list path := map tmp_name (saved_paths prog).

(* after a COMPLETE run (ended normally, or went on after a failing system call) every
   foreign path has exactly the entry it had: same kind, same bytes, same mode, or is
   absent as before -- so no temporary file created by the run is left, and a
   pre-existing f.pkglint.tmp is still there, unmodified *)
Definition foreign_untouched (prog : list action) (init cur : fsmap) : Prop :=
  forall p, foreign prog p -> lookup p cur = lookup p init.

(* at a crash point the same holds for every foreign path except a temporary name that
   was free when the run started (the file under construction) *)
Definition foreign_untouched_crash (prog : list action) (init cur : fsmap) : Prop :=
  forall p, foreign prog p ->
    (lookup p init <> None \/ ~ In p (run_tmps prog)) -> lookup p cur = lookup p init.

(* boolean form, applied to snapshots of real runs *)
Definition kind_eqb (a b : kind) : bool :=
  match a, b with KReg, KReg | KDir, KDir | KSymlink, KSymlink => true | _, _ => false end.

Definition entry_eqb (a b : option file) : bool :=
  match a, b with
  | None, None => true
  | Some x, Some y => kind_eqb (f_kind x) (f_kind y) && str_eqb (f_data x) (f_data y) && (f_mode x =? f_mode y)
  | _, _ => false
  end.

Definition is_foreignb (prog : list action) (p : path) : bool :=
  negb (existsb (str_eqb p) (saved_paths prog)) && negb (existsb (str_eqb p) (chmod_paths prog)).

(* complete = false: a crash snapshot *)
Fixpoint foreign_bad_in (entries : fsmap) (complete : bool) (init : fsmap) (prog : list action) (cur : fsmap)
  : option path :=
  match entries with
  | [] => None
  | (p, _) :: rest =>
    let ok := negb (is_foreignb prog p)
              || entry_eqb (lookup p cur) (lookup p init)
              || (negb complete && existsb (str_eqb p) (run_tmps prog)
                  && match lookup p init with None => true | Some _ => false end) in
    if ok then foreign_bad_in rest complete init prog cur else Some p
  end.

(* looks at every path that occurs in the old or in the new tree *)
Definition foreign_bad (complete : bool) (init : fsmap) (prog : list action) (cur : fsmap) : option path :=
  match foreign_bad_in init complete init prog cur with
  | Some p => Some p
  | None => foreign_bad_in cur complete init prog cur
  end.

(* ---------- crash points of an operation list ---------- *)

(* the operation lists a killed process may have completed: every prefix, and
   every prefix followed by a partially performed write *)
Inductive crash_of (ops : list op) : list op -> Prop :=
| crash_prefix : forall k, crash_of ops (firstn k ops)
| crash_partial : forall k fd data n,
    nth_error ops k = Some (Write fd data) ->
    crash_of ops (firstn k ops ++ [Write fd (firstn n data)]).

(* executable enumeration used on observed traces: all prefixes, and for every
   write the states after 0 bytes, half of the bytes *)
Fixpoint crash_list_from (done : list op) (rest : list op) : list (list op) :=
  match rest with
  | [] => [done]
  | o :: rest' =>
    done ::
    match o with
    | Write fd data => [done ++ [Write fd (firstn (Nat.div2 (length data)) data)]]
    | _ => []
    end ++ crash_list_from (done ++ [o]) rest'
  end.

Definition crash_list (ops : list op) : list (list op) := crash_list_from [] ops.

(* index of the first crash point (in crash_list order) that violates the spec *)
Fixpoint find_bad_crash (init : state) (prog : list action) (cs : list (list op)) (i : nat)
  : option (nat * list op * path) :=
  match cs with
  | [] => None
  | c :: cs' =>
    match first_bad (st_fs init) (st_fs init) prog (st_fs (exec c init)) with
    | Some p => Some (i, c, p)
    | None => find_bad_crash init prog cs' (S i)
    end
  end.

Definition check_crashes (init : state) (prog : list action) (ops : list op) : option (nat * list op * path) :=
  find_bad_crash init prog (crash_list ops) 0.
