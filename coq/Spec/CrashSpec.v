(* C05 specification: "old or new at every instant".  Independent of the save
   protocol: it looks only at the original tree, the contents the run wanted to
   install, and the tree found afterwards.  Executable (it is also applied to
   snapshots of real, killed pkglint runs). *)
From PV Require Import Lib.Bytes Model.FsProto.
Open Scope N_scope.

(* the complete contents that a run may legitimately install at path p:
   every content it saves for p (a file may be saved several times in one run) *)
Fixpoint versions (prog : list action) (p : path) : list str :=
  match prog with
  | [] => []
  | ASave f new :: rest => if str_eqb f p then new :: versions rest p else versions rest p
  | AChmod _ _ :: rest => versions rest p
  | AIfSaved _ f new :: rest => if str_eqb f p then new :: versions rest p else versions rest p
  end.

(* Prop form: every original path still exists and holds its complete old
   content or one of the complete new contents *)
Definition atomic_at (init : fsmap) (prog : list action) (cur : fsmap) : Prop :=
  forall p f0, lookup p init = Some f0 ->
    exists f1, lookup p cur = Some f1 /\ In (f_data f1) (f_data f0 :: versions prog p).

Definition no_file_lost (init cur : fsmap) : Prop :=
  forall p f0, lookup p init = Some f0 -> exists f1, lookup p cur = Some f1.

(* boolean form, entry by entry; returns the first offending path *)
Fixpoint first_bad (entries : fsmap) (init : fsmap) (prog : list action) (cur : fsmap) : option path :=
  match entries with
  | [] => None
  | (p, _) :: rest =>
    let ok := match lookup p init, lookup p cur with
              | Some f0, Some f1 => existsb (str_eqb (f_data f1)) (f_data f0 :: versions prog p)
              | Some _, None => false
              | None, _ => true
              end in
    if ok then first_bad rest init prog cur else Some p
  end.

Definition atomic_okb (init : fsmap) (prog : list action) (cur : fsmap) : bool :=
  match first_bad init init prog cur with None => true | Some _ => false end.

(* a mode change is a single system call: at every instant the file has its old
   mode or the requested mode, and its content is untouched *)
Definition mode_atomic_at (init : fsmap) (p : path) (newmode : N) (cur : fsmap) : Prop :=
  forall f0, lookup p init = Some f0 ->
    exists f1, lookup p cur = Some f1 /\ f_data f1 = f_data f0 /\
               (f_mode f1 = f_mode f0 \/ f_mode f1 = newmode).

(* the guard under which the property can hold at all: no original file bears
   the temporary name of a file that is going to be saved *)
Fixpoint saved_paths (prog : list action) : list path :=
  match prog with
  | [] => []
  | ASave f _ :: rest => f :: saved_paths rest
  | AChmod _ _ :: rest => saved_paths rest
  | AIfSaved _ f _ :: rest => f :: saved_paths rest
  end.

Definition tmp_free (init : fsmap) (prog : list action) : Prop :=
  forall f, In f (saved_paths prog) -> lookup (tmp_name f) init = None.

Definition tmp_freeb (init : fsmap) (prog : list action) : bool :=
  forallb (fun f => match lookup (tmp_name f) init with None => true | Some _ => false end)
          (saved_paths prog).

(* ---------- crash points of an operation list ---------- *)

(* the operation lists a killed process may have completed: every prefix, and
   every prefix followed by a partially performed write *)
Inductive crash_of (ops : list op) : list op -> Prop :=
| crash_prefix : forall k, crash_of ops (firstn k ops)
| crash_partial : forall k fd data n,
    nth_error ops k = Some (Write fd data) ->
    crash_of ops (firstn k ops ++ [Write fd (firstn n data)]).

(* executable enumeration used on observed traces: all prefixes, and for every
   write the states after 0 bytes, half of the bytes *)
Fixpoint crash_list_from (done : list op) (rest : list op) : list (list op) :=
  match rest with
  | [] => [done]
  | o :: rest' =>
    done ::
    match o with
    | Write fd data => [done ++ [Write fd (firstn (Nat.div2 (length data)) data)]]
    | _ => []
    end ++ crash_list_from (done ++ [o]) rest'
  end.

Definition crash_list (ops : list op) : list (list op) := crash_list_from [] ops.

(* index of the first crash point (in crash_list order) that violates the spec *)
Fixpoint find_bad_crash (init : state) (prog : list action) (cs : list (list op)) (i : nat)
  : option (nat * list op * path) :=
  match cs with
  | [] => None
  | c :: cs' =>
    match first_bad (st_fs init) (st_fs init) prog (st_fs (exec c init)) with
    | Some p => Some (i, c, p)
    | None => find_bad_crash init prog cs' (S i)
    end
  end.

Definition check_crashes (init : state) (prog : list action) (ops : list op) : option (nat * list op * path) :=
  find_bad_crash init prog (crash_list ops) 0.
