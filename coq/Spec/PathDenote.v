(* Specification for C19: what a slash-separated path *means*.

   `denote cwd p` is the absolute, normalised list of directory-entry names
   that the path p denotes when the working directory is cwd: resolution is
   purely lexical (no symbolic links), "" and "." elements mean "stay", ".."
   means "go to the parent", and the parent of the root is the root ("/.." = "/").

   `components p` is the list of path components used when two paths are
   compared component-wise: the names in order, "" and "." elements dropped,
   preceded by one empty component iff the path starts at the root.  The empty
   path and "." both have no components.

   Independent of Model/Paths.v: nothing of the model is imported. *)
From PV Require Import Lib.Bytes.
Open Scope N_scope.

(* the maximal slash-free segments of p, in order *)
Definition segs (p : str) : list str :=
  fold_right (fun c acc =>
                if c =? 47 then [] :: acc
                else match acc with
                     | h :: t => (c :: h) :: t
                     | [] => [[c]]
                     end) [[]] p.

Definition seg_is_empty (s : str) : bool := match s with [] => true | _ => false end.
Definition seg_is_dot (s : str) : bool := str_eqb s [46].
Definition seg_is_dotdot (s : str) : bool := str_eqb s [46; 46].
Definition seg_is_name (s : str) : bool := negb (seg_is_empty s) && negb (seg_is_dot s).

Definition rooted (p : str) : bool := match p with c :: _ => c =? 47 | [] => false end.

(* walk from the directory `at_` (names, innermost first) along the segments *)
Definition walk_step (at_ : list str) (s : str) : list str :=
  if seg_is_empty s || seg_is_dot s then at_
  else if seg_is_dotdot s then tl at_          (* tl [] = []: the root is its own parent *)
  else s :: at_.
Definition walk (at_ : list str) (ss : list str) : list str := fold_left walk_step ss at_.

Definition denote (cwd p : str) : list str :=
  rev (walk (if rooted p then [] else walk [] (segs cwd)) (segs p)).

(* "from / rel" as pkglint builds it (JoinNoClean) *)
Definition join_path (a b : str) : str := a ++ 47 :: b.

(* from lies in the tree below topdir *)
Fixpoint list_prefixb (a b : list str) : bool :=
  match a with
  | [] => true
  | x :: a' => match b with
               | [] => false
               | y :: b' => str_eqb x y && list_prefixb a' b'
               end
  end.
Fixpoint list_infixb (a b : list str) : bool :=
  list_prefixb a b || match b with [] => false | _ :: b' => list_infixb a b' end.
Definition list_suffixb (a b : list str) : bool := list_prefixb (rev a) (rev b).

Definition inside (cwd topdir from : str) : bool :=
  list_prefixb (denote cwd topdir) (denote cwd from).

Definition components (p : str) : list str :=
  (if rooted p then [[]] else []) ++ filter seg_is_name (segs p).

(* a relative path is never a prefix of a rooted one (and vice versa): "." is an
   ancestor of "a/b", not of "/a/b" *)
Definition path_prefixb (prefix p : str) : bool :=
  Bool.eqb (rooted prefix) (rooted p) && list_prefixb (components prefix) (components p).
Definition path_infixb (sub p : str) : bool := list_infixb (components sub) (components p).
Definition path_suffixb (suffix p : str) : bool := list_suffixb (components suffix) (components p).

Fixpoint list_eqb (a b : list str) : bool :=
  match a, b with
  | [], [] => true
  | x :: a', y :: b' => str_eqb x y && list_eqb a' b'
  | _, _ => false
  end.
Definition same_denotation (cwd p q : str) : bool := list_eqb (denote cwd p) (denote cwd q).
