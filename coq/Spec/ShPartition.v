(* The partition law of property C10, as an executable test on what a tokenizer
   returned: the pieces are non-empty and, in order, followed by the reported
   rest, they are the input.  Independent of the model: it only looks at outputs. *)
From PV Require Import Lib.Bytes.

Definition nonempty (s : str) : bool := match s with [] => false | _ :: _ => true end.

Definition partition_ok (input : str) (pieces : list str) (rest : str) : bool :=
  forallb nonempty pieces && str_eqb (concat pieces ++ rest) input.

(* ShToken also drops blanks and `${_ULIMIT_CMD}` between tokens: `after` lists the
   rest reported after each token; token i must be a suffix of the text that lies
   between the previous rest and its own rest, and what precedes it there must
   consist of blanks (space, tab) and copies of the skipped expression only. *)
Definition ulimit_text : str := [36; 123; 95; 85; 76; 73; 77; 73; 84; 95; 67; 77; 68; 125].

Fixpoint only_skipped (fuel : nat) (s : str) : bool :=
  match fuel with
  | O => false
  | S f =>
    match s with
    | [] => true
    | c :: t =>
      if is_hspace c then only_skipped f t
      else match strip_prefix ulimit_text s with
           | Some r => only_skipped f r
           | None => false
           end
    end
  end.

(* before = skipped ++ text ++ after ? *)
Definition token_ok (before text after : str) : bool :=
  nonempty text &&
  (length (text ++ after) <=? length before)%nat &&
  let n := (length before - length (text ++ after))%nat in
  str_eqb (skipn n before) (text ++ after) && only_skipped (S (length before)) (firstn n before).

Fixpoint tokens_ok (before : str) (toks : list (str * str)) (final_rest : str) : bool :=
  match toks with
  | [] =>
    (length final_rest <=? length before)%nat &&
    let n := (length before - length final_rest)%nat in
    str_eqb (skipn n before) final_rest && only_skipped (S (length before)) (firstn n before)
  | (text, after) :: tl => token_ok before text after && tokens_ok after tl final_rest
  end.

(* The same law as a proposition (what Props/C10sh.v states about repeated ShToken
   calls): l lists, per token, its text, the texts of its atoms and the rest
   reported after the call; `final` is the rest after the last call (the one that
   returned nil). *)
Definition skipped_ok (p : str) : Prop :=
  p <> [] /\ (forallb is_hspace p = true \/ p = ulimit_text).

Fixpoint chain_ok (before : str) (l : list (str * list str * str)) (final : str) : Prop :=
  match l with
  | [] => exists pieces, Forall skipped_ok pieces /\ before = concat pieces ++ final
  | (text, atoms, after) :: tl =>
    (exists pieces, Forall skipped_ok pieces /\ before = concat pieces ++ text ++ after) /\
    text <> [] /\ text = concat atoms /\ atoms <> [] /\ Forall (fun a => a <> []) atoms /\
    chain_ok after tl final
  end.
