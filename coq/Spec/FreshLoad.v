(* Specification of loading WITHOUT a cache: what files.go:Load computes when it
   reads the file itself.  This is what the property compares every Load with.
   Independent of Model.FileCache's cache, heap and views: it only looks at the
   disk.  (The types lval / lobs and the option bits are shared with the model.) *)
From PV Require Import Lib.Bytes Model.FileCache.
Open Scope N_scope.

Section Spec.
Variable convert : str -> N -> list lval.

(* a freshly created Line: lineno, Text, raw as converted, no fix attached *)
Definition fresh_line (v : lval) : lobs := let '(no, text, raw) := v in (no, text, raw, false).

(* None = Load returns nil (unreadable, or empty with NotEmpty) *)
Definition fresh_read (disk : list (N * str)) (fn : fname) (o : N) : option (list lobs) :=
  match map_get (key fn) disk with
  | None => None
  | Some raw =>
    match raw with
    | [] => if has_opt o NotEmpty then None else Some (map fresh_line (convert raw o))
    | _ => Some (map fresh_line (convert raw o))
    end
  end.
End Spec.
