(* Specification of the SeparatorWriter, stated on the bytes the callers write
   (independent of the writer's state numbering). *)
From Coq Require Import List NArith Bool.
From PV Require Import Lib.Bytes Model.SepWriter.
Import ListNotations.
Open Scope N_scope.

(* the bytes an event asks to be written *)
Definition ev_bytes (e : sw_event) : str :=
  match e with
  | EWrite s => s
  | EWriteLine s => s ++ [10]
  | ESeparate | EFlush => []
  end.

Definition written (evs : list sw_event) : str := concat (map ev_bytes evs).

(* the text written so far stops in the middle of a line *)
Definition in_line (s : str) : bool := negb (last s 10 =? 10).

(* every Separate() comes when the text written so far is empty or ends in a newline *)
Fixpoint disciplined (prev : str) (evs : list sw_event) : bool :=
  match evs with
  | [] => true
  | ESeparate :: r => negb (in_line prev) && disciplined prev r
  | e :: r => disciplined (prev ++ ev_bytes e) r
  end.

(* o is a with some newline bytes inserted (nothing lost, nothing else invented, order kept) *)
Inductive InsNL : str -> str -> Prop :=
| ins_nil : InsNL [] []
| ins_keep b a o : InsNL a o -> InsNL (b :: a) (b :: o)
| ins_nl a o : InsNL a o -> InsNL a (10 :: o).

Definition count_sep (evs : list sw_event) : nat :=
  length (filter (fun e => match e with ESeparate => true | _ => false end) evs).

(* The call shapes of logging.go / package.go / util.go:
   Write(text) with text = "" or ending in "\n" (Logf, TechErrorf, TechFatalf, ShowSummary,
   setUpProfiling), WriteLine(text), Write("\t") immediately followed by WriteLine (Explain),
   Separate, Flush. *)
Inductive log_call :=
| LWrite (s : str)       (* s = [] or ends in newline: see log_call_ok *)
| LWriteLine (s : str)
| LTabLine (s : str)
| LSeparate
| LFlush.

Definition log_call_ok (c : log_call) : bool :=
  match c with LWrite s => negb (in_line s) | _ => true end.

Definition log_events (c : log_call) : list sw_event :=
  match c with
  | LWrite s => [EWrite s]
  | LWriteLine s => [EWriteLine s]
  | LTabLine s => [EWrite [9]; EWriteLine s]
  | LSeparate => [ESeparate]
  | LFlush => [EFlush]
  end.
