(* Reference semantics of make variable assignments (bmake, var.c / parse.c),
   for straight-line makefiles in a closed world.  Independent of the model:
   it works on the text of the lines.

     VAR =  text    store the text; it is expanded when VAR is used       (lazy)
     VAR += text    append a space and the text; defines VAR if undefined
     VAR ?= text    like '=' if VAR is undefined, otherwise nothing
     VAR := text    expand now and store the result.  bmake expands with
                    VARE_KEEP_UNDEF here: a reference to a variable that is
                    undefined at this moment is kept as "${X}" and expanded
                    later; and VAR itself is first set to the empty string if it
                    is undefined
     VAR != cmd     expand cmd now (undefined = empty), run it, store the output;
                    the output is an unknown but deterministic function of the
                    command text, represented as "<cmd>"

   Final value of a variable = its full expansion after the last line;
   an undefined variable expands to the empty string.  A recursive variable
   (bmake: "... X is recursive", make aborts) is the error value [None]; it is
   detected by fuel: more nested lookups than [fuel]. *)
From PV Require Import Lib.Bytes.

Inductive sop := SAssign | SAppend | SDefault | SEval | SShell.
Record sassign := mkSAssign { s_name : str; s_op : sop; s_text : str }.
(* a line that is not an assignment is [None] *)
Definition sprogram := list (option sassign).

(* the text of a value, cut into bytes and ${NAME} references.  Everything else
   that starts with '$' ($$, $X, $(X), modifiers, unterminated) is outside the
   fragment: TBad, whose expansion is the error value. *)
Inductive tok := TByte (b : N) | TRef (name : str) | TBad.

(* in_ref = Some acc: inside "${", acc = reversed name so far *)
Fixpoint tokenize_from (in_ref : option str) (t : str) : list tok :=
  match in_ref with
  | Some acc =>
      match t with
      | [] => [TBad]
      | c :: t' =>
          if c =? 125 then TRef (rev acc) :: tokenize_from None t'
          else if (c =? 36) || (c =? 123) || (c =? 58) then [TBad]
          else tokenize_from (Some (c :: acc)) t'
      end
  | None =>
      match t with
      | [] => []
      | c :: t' =>
          if c =? 36 then
            match t' with
            | d :: t'' => if d =? 123 then tokenize_from (Some []) t'' else [TBad]
            | [] => [TBad]
            end
          else TByte c :: tokenize_from None t'
      end
  end.
Definition tokenize (t : str) : list tok := tokenize_from None t.

Inductive sval := Txt (t : str) | Err.
Definition store := str -> option sval.
Definition empty_store : store := fun _ => None.
Definition supd (st : store) (k : str) (x : sval) : store :=
  fun k' => if str_eqb k k' then Some x else st k'.

Definition ref_text (x : str) : str := [36; 123] ++ x ++ [125].

(* keep = VARE_KEEP_UNDEF *)
Fixpoint expand (fuel : nat) (keep : bool) (st : store) : list tok -> option str :=
  fix go (ts : list tok) : option str :=
    match ts with
    | [] => Some []
    | TByte b :: r => match go r with Some e => Some (b :: e) | None => None end
    | TBad :: _ => None
    | TRef x :: r =>
        match st x with
        | None =>
            match go r with
            | Some e => Some ((if keep then ref_text x else []) ++ e)
            | None => None
            end
        | Some Err => None
        | Some (Txt t) =>
            match fuel with
            | O => None
            | S f =>
                match expand f keep st (tokenize t), go r with
                | Some e, Some e' => Some (e ++ e')
                | _, _ => None
                end
            end
        end
    end.

(* a text without '$' is its own expansion *)
Definition no_dollar (s : str) : bool := forallb (fun c => negb (c =? 36)) s.

Definition sh_output (cmd : str) : str := [60] ++ cmd ++ [62].

Definition exec_assign (fuel : nat) (st : store) (a : sassign) : store :=
  let x := s_name a in
  let t := s_text a in
  match s_op a with
  | SAssign => supd st x (Txt t)
  | SAppend =>
      match st x with
      | None => supd st x (Txt t)
      | Some (Txt old) => supd st x (Txt (old ++ [32] ++ t))
      | Some Err => st
      end
  | SDefault =>
      match st x with
      | None => supd st x (Txt t)
      | Some _ => st
      end
  | SEval =>
      let st0 := match st x with None => supd st x (Txt []) | Some _ => st end in
      match expand fuel true st0 (tokenize t) with
      | Some e => supd st x (Txt e)
      | None => supd st x Err
      end
  | SShell =>
      match expand fuel false st (tokenize t) with
      | Some e => supd st x (Txt (sh_output e))
      | None => supd st x Err
      end
  end.

Definition exec_line (fuel : nat) (st : store) (l : option sassign) : store :=
  match l with None => st | Some a => exec_assign fuel st a end.

Definition exec (fuel : nat) (p : sprogram) : store := fold_left (exec_line fuel) p empty_store.

(* what "make -V x" prints after reading the file; None = make aborts *)
Definition final (fuel : nat) (p : sprogram) (x : str) : option str :=
  expand (S fuel) false (exec fuel p) [TRef x].

Fixpoint delete_nth {A} (n : nat) (l : list A) : list A :=
  match l with
  | [] => []
  | x :: l' => match n with O => l' | S n' => x :: delete_nth n' l' end
  end.
