(* Specification side of C11: the fragment of the POSIX shell grammar (XCU 2.10)
   the property talks about, as an abstract syntax tree, with a printer to the
   list of token strings of a one-line program.

   Words are abstract: a word is a token text plus its [wkind]; what matters is
   how it is classified by the predicates below (operator-like, io-number-like,
   comment-like, reserved, assignment-shaped).  Nothing here mentions the lexer
   state of pkglint; [print] attaches to every printed token the terminal(s) of
   shell.y it is *meant* to be (the reading POSIX gives it), so that
     tokens p = the program text, token by token
     terms  p = the terminal string a correct lexer has to produce.

   Newlines do not occur (one-line programs), so `linebreak` is always empty. *)
From Coq Require Import NArith List Bool.
From PV Require Import Lib.Bytes Gen.ShellGrammar Model.ShellLex.
Import ListNotations.

(* ---------- syntax ---------- *)

Inductive rop : Set := RLt | RLtAnd | RGt | RGtAnd | RGtGt | RLtGt | RGtPipe | RLtLt | RLtLtDash.
Record redir : Set := mkRedir { r_fd : option str; r_op : rop; r_target : tok }.
Inductive sitem : Set := SWord (w : tok) | SRedir (r : redir).
Inductive sep : Set := SepSemi | SepAmp.
(* for n do ... | for n ; do ... | for n in w... ; do ... *)
Inductive formode : Set := ForDo | ForSemiDo | ForIn (ws : list tok).

Inductive cmd : Set :=
| CSimple (assigns : list tok) (items : list sitem)   (* the first word item is the command name *)
| CCompound (k : compound) (rs : list redir)
| CFuncDef (name : tok) (body : compound) (rs : list redir)
with compound : Set :=
| KBrace (l : clist)
| KSubshell (l : clist)
| KFor (name : tok) (m : formode) (body : clist)
| KCase (w : tok) (items : caseitems)
| KIf (c t : clist) (e : elsepart)
| KWhile (c b : clist)
| KUntil (c b : clist)
with elsepart : Set :=
| ENone
| EElse (l : clist)
| EElif (c t : clist) (e : elsepart)
with caseitems : Set :=
| CINil                                                                   (* esac *)
| CILast (lp : bool) (p : tok) (ps : list tok) (body : cbody)             (* last item, no `;;` *)
| CICons (lp : bool) (p : tok) (ps : list tok) (body : cbody) (rest : caseitems)  (* item `;;` rest *)
with cbody : Set :=
| BNone
| BSome (l : clist)
with pipe : Set :=
| PCmd (c : cmd)
| PPipe (p : pipe) (c : cmd)
with andor : Set :=
| AOne (bang : bool) (p : pipe)
| AAnd (a : andor) (bang : bool) (p : pipe)
| AOr (a : andor) (bang : bool) (p : pipe)
with seq : Set :=
| QOne (a : andor)
| QSeq (q : seq) (s : sep) (a : andor)
with clist : Set :=
| CL (q : seq) (last : option sep).

Definition program : Set := clist.

(* ---------- printing ---------- *)

(* a printed token with the terminal(s) it is meant to be; only `2>`-like
   tokens stand for two terminals *)
Inductive ptok : Set := P1 (t : tok) (x : term) | P2 (t : tok) (x y : term).
Definition ptok_tok (p : ptok) : tok := match p with P1 t _ => t | P2 t _ _ => t end.
Definition ptok_terms (p : ptok) : list term := match p with P1 _ x => [x] | P2 _ x y => [x; y] end.

Definition kw (s : str) (x : term) : ptok := P1 (mkTok s WkPlain) x.

Definition rop_text (o : rop) : str :=
  match o with
  | RLt => s_lt | RLtAnd => s_ltand | RGt => s_gt | RGtAnd => s_gtand | RGtGt => s_gtgt
  | RLtGt => s_ltgt | RGtPipe => s_gtpipe | RLtLt => s_ltlt | RLtLtDash => s_ltltdash
  end.
Definition rop_term (o : rop) : term :=
  match o with
  | RLt => tkLT | RLtAnd => tkLTAND | RGt => tkGT | RGtAnd => tkGTAND | RGtGt => tkGTGT
  | RLtGt => tkLTGT | RGtPipe => tkGTPIPE | RLtLt => tkLTLT | RLtLtDash => tkLTLTDASH
  end.

Definition print_redir (r : redir) : list ptok :=
  match r_fd r with
  | None => [kw (rop_text (r_op r)) (rop_term (r_op r)); P1 (r_target r) tkWORD]
  | Some ds => [P2 (mkTok (ds ++ rop_text (r_op r)) WkPlain) tkIO_NUMBER (rop_term (r_op r));
                P1 (r_target r) tkWORD]
  end.
Definition print_redirs (rs : list redir) : list ptok := flat_map print_redir rs.
Definition print_sitem (i : sitem) : list ptok :=
  match i with SWord w => [P1 w tkWORD] | SRedir r => print_redir r end.
Definition print_words (ws : list tok) : list ptok := map (fun w => P1 w tkWORD) ws.
Definition print_sep (s : sep) : ptok :=
  match s with SepSemi => kw s_semi tkSEMI | SepAmp => kw s_amp tkBACKGROUND end.
Definition print_bang (b : bool) : list ptok := if b then [kw s_bang tkEXCLAM] else [].
Definition print_lp (b : bool) : list ptok := if b then [kw s_lparen tkLPAREN] else [].
Fixpoint print_pats (ps : list tok) : list ptok :=
  match ps with [] => [] | p :: r => kw s_pipe tkPIPE :: P1 p tkWORD :: print_pats r end.
Definition print_selector (lp : bool) (p : tok) (ps : list tok) : list ptok :=
  print_lp lp ++ P1 p tkWORD :: print_pats ps ++ [kw s_rparen tkRPAREN].

Fixpoint print_cmd (c : cmd) : list ptok :=
  match c with
  | CSimple assigns items =>
      map (fun w => P1 w tkASSIGNMENT_WORD) assigns ++ flat_map print_sitem items
  | CCompound k rs => print_compound k ++ print_redirs rs
  | CFuncDef name body rs =>
      P1 name tkWORD :: kw s_lparen tkLPAREN :: kw s_rparen tkRPAREN :: print_compound body ++ print_redirs rs
  end
with print_compound (k : compound) : list ptok :=
  match k with
  | KBrace l => kw s_lbrace tkLBRACE :: print_clist l ++ [kw s_rbrace tkRBRACE]
  | KSubshell l => kw s_lparen tkLPAREN :: print_clist l ++ [kw s_rparen tkRPAREN]
  | KFor name m body =>
      kw s_for tkFOR :: P1 name tkWORD ::
      (match m with
       | ForDo => []
       | ForSemiDo => [kw s_semi tkSEMI]
       | ForIn ws => kw s_in tkIN :: print_words ws ++ [kw s_semi tkSEMI]
       end) ++ kw s_do tkDO :: print_clist body ++ [kw s_done tkDONE]
  | KCase w items => kw s_case tkCASE :: P1 w tkWORD :: kw s_in tkIN :: print_items items
  | KIf c t e => kw s_if tkIF :: print_clist c ++ kw s_then tkTHEN :: print_clist t ++ print_else e
  | KWhile c b => kw s_while tkWHILE :: print_clist c ++ kw s_do tkDO :: print_clist b ++ [kw s_done tkDONE]
  | KUntil c b => kw s_until tkUNTIL :: print_clist c ++ kw s_do tkDO :: print_clist b ++ [kw s_done tkDONE]
  end
with print_else (e : elsepart) : list ptok :=
  match e with
  | ENone => [kw s_fi tkFI]
  | EElse l => kw s_else tkELSE :: print_clist l ++ [kw s_fi tkFI]
  | EElif c t e' => kw s_elif tkELIF :: print_clist c ++ kw s_then tkTHEN :: print_clist t ++ print_else e'
  end
with print_items (i : caseitems) : list ptok :=
  match i with
  | CINil => [kw s_esac tkESAC]
  | CILast lp p ps body => print_selector lp p ps ++ print_body body ++ [kw s_esac tkESAC]
  | CICons lp p ps body rest =>
      print_selector lp p ps ++ print_body body ++ kw s_semisemi tkSEMISEMI :: print_items rest
  end
with print_body (b : cbody) : list ptok :=
  match b with BNone => [] | BSome l => print_clist l end
with print_pipe (p : pipe) : list ptok :=
  match p with
  | PCmd c => print_cmd c
  | PPipe p' c => print_pipe p' ++ kw s_pipe tkPIPE :: print_cmd c
  end
with print_andor (a : andor) : list ptok :=
  match a with
  | AOne bang p => print_bang bang ++ print_pipe p
  | AAnd a' bang p => print_andor a' ++ kw s_andand tkAND :: print_bang bang ++ print_pipe p
  | AOr a' bang p => print_andor a' ++ kw s_oror tkOR :: print_bang bang ++ print_pipe p
  end
with print_seq (q : seq) : list ptok :=
  match q with
  | QOne a => print_andor a
  | QSeq q' s a => print_seq q' ++ print_sep s :: print_andor a
  end
with print_clist (l : clist) : list ptok :=
  match l with
  | CL q None => print_seq q
  | CL q (Some s) => print_seq q ++ [print_sep s]
  end.

Definition tokens (p : program) : list tok := map ptok_tok (print_clist p).
Definition terms (p : program) : list term := flat_map ptok_terms (print_clist p).

(* ---------- classification of words ---------- *)

Definition operator_texts : list str :=
  [s_semi; s_semisemi; s_nl; s_amp; s_pipe; s_lparen; s_rparen; s_andand; s_oror;
   s_gt; s_gtand; s_lt; s_ltand; s_ltgt; s_gtgt; s_ltlt; s_ltltdash; s_gtpipe].
Definition redirect_texts : list str :=
  [s_lt; s_ltand; s_gt; s_gtand; s_gtgt; s_ltgt; s_gtpipe; s_ltlt; s_ltltdash].
Definition reserved_texts : list str :=
  [s_if; s_then; s_elif; s_else; s_fi; s_for; s_while; s_until; s_do; s_done; s_in;
   s_case; s_esac; s_lbrace; s_rbrace; s_bang].

Definition mem (s : str) (l : list str) : bool := existsb (str_eqb s) l.

Definition is_operator (s : str) : bool := mem s operator_texts.
Definition is_reserved (s : str) : bool := mem s reserved_texts.
(* digits followed by a redirection operator, e.g. 2> *)
Definition io_number_shaped (s : str) : bool :=
  let (ds, r) := span is_digit s in
  negb (match ds with [] => true | _ => false end) && mem r redirect_texts.
(* NAME= ... with NAME = [A-Za-z_][A-Za-z0-9_]* *)
Definition is_name_start (c : N) : bool := is_alpha c || (c =? 95)%N.
Definition is_name_char (c : N) : bool := is_alnum c || (c =? 95)%N.
Definition assignment_like (s : str) : bool :=
  match s with
  | c :: r => is_name_start c && match snd (span is_name_char r) with (61%N) :: _ => true | _ => false end
  | [] => false
  end.
Definition comment_like (s : str) : bool := match s with (35%N) :: _ => true | _ => false end.

(* a word that may stand in argument position (also: redirection target,
   `for` name and list, `case` subject) *)
Definition arg_ok (w : tok) : bool :=
  match t_kind w with WkPlain => true | _ => false end &&
  negb (is_operator (t_text w)) && negb (io_number_shaped (t_text w)) && negb (comment_like (t_text w)).
(* POSIX recognises a reserved word only as the *first* word of a command, and an
   assignment word only before the command name. *)
(* the first word of a command: a command name without assignments before it, a function name *)
Definition name_ok (w : tok) : bool :=
  arg_ok w && negb (is_reserved (t_text w)) && negb (assignment_like (t_text w)).
(* a command name after at least one assignment word: may be spelled like a reserved
   word (`VAR=x fi` runs a command named fi) *)
Definition later_name_ok (w : tok) : bool := arg_ok w && negb (assignment_like (t_text w)).
(* a case pattern: any word, also one spelled like a reserved word or an assignment;
   only `esac` would end the case clause *)
Definition pattern_ok (w : tok) : bool := arg_ok w && negb (str_eqb (t_text w) s_esac).
Definition assign_ok (w : tok) : bool := arg_ok w && assignment_like (t_text w).

Definition fd_ok (fd : option str) : bool :=
  match fd with None => true | Some [] => false | Some ds => forallb is_digit ds end.
Definition redir_ok (r : redir) : bool := fd_ok (r_fd r) && arg_ok (r_target r).
Definition sitem_ok (i : sitem) : bool :=
  match i with SWord w => arg_ok w | SRedir r => redir_ok r end.
Definition simple_ok (assigns : list tok) (items : list sitem) : bool :=
  forallb assign_ok assigns &&
  match items with
  | SWord w :: r => (match assigns with [] => name_ok w | _ => later_name_ok w end) && forallb sitem_ok r
  | _ => forallb sitem_ok items
  end &&
  negb (match assigns, items with [], [] => true | _, _ => false end).

(* every word of the program is of the class its position demands *)
Fixpoint wf_cmd (c : cmd) : bool :=
  match c with
  | CSimple assigns items => simple_ok assigns items
  | CCompound k rs => wf_compound k && forallb redir_ok rs
  | CFuncDef name body rs => name_ok name && wf_compound body && forallb redir_ok rs
  end
with wf_compound (k : compound) : bool :=
  match k with
  | KBrace l => wf_clist l
  | KSubshell l => wf_clist l
  | KFor name m body =>
      arg_ok name && match m with ForIn ws => forallb arg_ok ws | _ => true end && wf_clist body
  | KCase w items => arg_ok w && wf_items items
  | KIf c t e => wf_clist c && wf_clist t && wf_else e
  | KWhile c b => wf_clist c && wf_clist b
  | KUntil c b => wf_clist c && wf_clist b
  end
with wf_else (e : elsepart) : bool :=
  match e with
  | ENone => true
  | EElse l => wf_clist l
  | EElif c t e' => wf_clist c && wf_clist t && wf_else e'
  end
with wf_items (i : caseitems) : bool :=
  match i with
  | CINil => true
  | CILast _ p ps body => pattern_ok p && forallb pattern_ok ps && wf_body body
  | CICons _ p ps body rest => pattern_ok p && forallb pattern_ok ps && wf_body body && wf_items rest
  end
with wf_body (b : cbody) : bool :=
  match b with BNone => true | BSome l => wf_clist l end
with wf_pipe (p : pipe) : bool :=
  match p with PCmd c => wf_cmd c | PPipe p' c => wf_pipe p' && wf_cmd c end
with wf_andor (a : andor) : bool :=
  match a with
  | AOne _ p => wf_pipe p
  | AAnd a' _ p => wf_andor a' && wf_pipe p
  | AOr a' _ p => wf_andor a' && wf_pipe p
  end
with wf_seq (q : seq) : bool :=
  match q with QOne a => wf_andor a | QSeq q' _ a => wf_seq q' && wf_andor a end
with wf_clist (l : clist) : bool :=
  match l with CL q _ => wf_seq q end.

Definition wf_words (p : program) : bool := wf_clist p.
(* the word discipline above is POSIX's own; the name recalls that earlier versions of this
   development needed a stricter one *)
Definition wf_words_posix (p : program) : bool := wf_words p.

(* ---------- is the tree the POSIX reading of its own text? ----------

   POSIX recognises a reserved word only in command position.  A list that is
   followed by a closing reserved word (then, elif, else, fi, do, done, esac,
   closing brace) must therefore end in a separator or in a compound command
   without redirections; otherwise the printed closing word would be read as an
   argument and the text would denote some other tree (if any).  The harness
   counts a program for the property only when this holds. *)
Definition no_redirs (rs : list redir) : bool := match rs with [] => true | _ => false end.
Definition ends_cmd (c : cmd) : bool :=
  match c with CSimple _ _ => false | CCompound _ rs => no_redirs rs | CFuncDef _ _ rs => no_redirs rs end.
Definition ends_pipe (p : pipe) : bool := match p with PCmd c => ends_cmd c | PPipe _ c => ends_cmd c end.
Definition ends_andor (a : andor) : bool :=
  match a with AOne _ p => ends_pipe p | AAnd _ _ p => ends_pipe p | AOr _ _ p => ends_pipe p end.
Definition ends_seq (q : seq) : bool := match q with QOne a => ends_andor a | QSeq _ _ a => ends_andor a end.
Definition closed_clist (l : clist) : bool :=
  match l with CL _ (Some _) => true | CL q None => ends_seq q end.

Fixpoint faithful_cmd (c : cmd) : bool :=
  match c with
  | CSimple _ _ => true
  | CCompound k _ => faithful_compound k
  | CFuncDef _ body _ => faithful_compound body
  end
with faithful_compound (k : compound) : bool :=
  match k with
  | KBrace l => closed_clist l && faithful_clist l
  | KSubshell l => faithful_clist l
  | KFor _ _ body => closed_clist body && faithful_clist body
  | KCase _ items => faithful_items items
  | KIf c t e => closed_clist c && faithful_clist c && closed_clist t && faithful_clist t && faithful_else e
  | KWhile c b => closed_clist c && faithful_clist c && closed_clist b && faithful_clist b
  | KUntil c b => closed_clist c && faithful_clist c && closed_clist b && faithful_clist b
  end
with faithful_else (e : elsepart) : bool :=
  match e with
  | ENone => true
  | EElse l => closed_clist l && faithful_clist l
  | EElif c t e' => closed_clist c && faithful_clist c && closed_clist t && faithful_clist t && faithful_else e'
  end
with faithful_items (i : caseitems) : bool :=
  match i with
  | CINil => true
  | CILast _ _ _ BNone => true
  | CILast _ _ _ (BSome l) => closed_clist l && faithful_clist l
  | CICons _ _ _ BNone rest => faithful_items rest
  | CICons _ _ _ (BSome l) rest => faithful_clist l && faithful_items rest
  end
with faithful_pipe (p : pipe) : bool :=
  match p with PCmd c => faithful_cmd c | PPipe p' c => faithful_pipe p' && faithful_cmd c end
with faithful_andor (a : andor) : bool :=
  match a with
  | AOne _ p => faithful_pipe p
  | AAnd a' _ p => faithful_andor a' && faithful_pipe p
  | AOr a' _ p => faithful_andor a' && faithful_pipe p
  end
with faithful_seq (q : seq) : bool :=
  match q with QOne a => faithful_andor a | QSeq q' _ a => faithful_seq q' && faithful_andor a end
with faithful_clist (l : clist) : bool :=
  match l with CL q _ => faithful_seq q end.

Definition faithful (p : program) : bool := faithful_clist p.

(* ---------- no further guard ----------

   With the repairs in /repo (for name ; do in shell.y; reserved words only in
   command position) every tree that is the POSIX reading of its own text is
   accepted; [supported] is kept as a name for that. *)
Definition supported (p : program) : bool := faithful p.
