(* Specification: pkgtools/pkg_install/files/lib/dewey.c (mkcomponent, mkversion,
   vtest), transcribed over unbounded integers.  Independent of Model/Vercmp.v:
   it works on the original string with case-insensitive comparison
   (strncasecmp / tolower / isalpha in the C locale) and has its own table. *)
From PV Require Import Lib.Bytes.
Open Scope Z_scope.

(* const test_t modifiers[] of dewey.c, in its order; Alpha=-3 Beta=-2 RC=-1 Dot=0 *)
Definition modifiers : list (str * Z) :=
  [ ([97; 108; 112; 104; 97]%N, -3); ([98; 101; 116; 97]%N, -2); ([112; 114; 101]%N, -1);
    ([114; 99]%N, -1); ([112; 108]%N, 0); ([95]%N, 0); ([46]%N, 0) ].

(* strncasecmp(num, k, len k) == 0, returning what follows *)
Fixpoint strip_prefix_ci (k s : str) : option str :=
  match k with
  | [] => Some s
  | x :: k' => match s with
               | y :: s' => if N.eqb x (to_lower y) then strip_prefix_ci k' s' else None
               | [] => None
               end
  end.

Fixpoint find_mod (tbl : list (str * Z)) (s : str) : option (Z * str) :=
  match tbl with
  | [] => None
  | (k, w) :: t => match strip_prefix_ci k s with
                   | Some r => Some (w, r)
                   | None => find_mod t s
                   end
  end.

(* mkcomponent: numbers appended to ap->v, new ap->netbsd if assigned, rest *)
Definition mkcomponent (s : str) : option (list Z * option Z * str) :=
  match s with
  | [] => None
  | c :: s' =>
    if is_digit c then
      let (ds, r) := span is_digit s in Some ([dec_value ds], None, r)
    else match find_mod modifiers s with
         | Some (w, r) => Some ([w], None, r)
         | None =>
           match strip_prefix_ci [110; 98]%N s with
           | Some r => let (ds, r') := span is_digit r in Some ([], Some (dec_value ds), r')
           | None =>
             if is_alpha c then Some ([0; Z.of_N (to_lower c) - 97 + 1], None, s')
             else Some ([], None, s')
           end
         end
  end.

Fixpoint mkversion_loop (fuel : nat) (s : str) (v : list Z) (nb : Z) : option (list Z * Z) :=
  match fuel with
  | O => None
  | S f =>
    match mkcomponent s with
    | None => Some (v, nb)
    | Some (adds, nbo, r) =>
      mkversion_loop f r (v ++ adds) (match nbo with Some n => n | None => nb end)
    end
  end.

Definition mkversion (s : str) : option (list Z * Z) := mkversion_loop (S (length s)) s [] 0.

(* DIGIT(v, c, n) *)
Definition DIGIT (v : list Z) (n : nat) : Z := nth n v 0.

(* vtest: sign of the first non-zero difference, then of the netbsd difference *)
Fixpoint vtest_from (n i : nat) (l r : list Z) : Z :=
  match n with
  | O => 0
  | S n' => let d := DIGIT l i - DIGIT r i in
            if d =? 0 then vtest_from n' (S i) l r else d
  end.

Definition vtest (l r : list Z * Z) : Z :=
  let d := vtest_from (Nat.max (length (fst l)) (length (fst r))) 0 (fst l) (fst r) in
  if d =? 0 then snd l - snd r else d.

Definition dewey_cmp (a b : str) : option Z :=
  match mkversion a, mkversion b with
  | Some va, Some vb => Some (Z.sgn (vtest va vb))
  | _, _ => None
  end.
