(* C03 -- independent, executable specification: "apply the printed AUTOFIX log
   to the old file".

   Nothing here mentions pkglint's data structures.  The inputs are what a user
   can see: the bytes of a file before the run, the AUTOFIX lines printed for
   that file (line number + action, the action parsed from the printed message)
   and the bytes of the file after the run.

     Replacing "from" with "to".              ARepl from to
     Inserting a line "t" above this line.    AAbove t
     Inserting a line "t" below this line.    ABelow t
     Deleting this line.                      ADelete
     Sorting the whole file.                  ASort
     Clearing executable bits                 AChmod   (no effect on the content)

   [consistent old log new] holds iff [new] can be obtained from [old] by
   applying the actions, in log order, each at its printed ORIGINAL physical
   line number:
     - a replacement replaces exactly ONE occurrence of "from" in the current
       text of that physical line (which occurrence is not printed, hence a
       search over the occurrences);
     - a deletion empties the physical line (terminator included);
     - an insertion adds a complete line "t\n" directly above / below the
       physical line (several insertions at the same place keep log order);
     - an action that is printed again, identically (same line number, same
       text), may stand for the same change (a file that was examined twice):
       a repeated entry is applied or skipped;
     - sorting permutes whole original lines, each together with the lines
       inserted next to it;
     - every other byte is kept: physical lines that are not named in the log
       are copied verbatim, including their terminator or the missing
       terminator of the last line;
     - an inserted line is a line of its own: when the FIRST line is inserted
       below a physical line whose current text is non-empty and has no
       terminator (the last line of a file without final newline), the missing
       "\n" is added to that text; this newline is part of the logged insertion.
       (Gluing the inserted line to the text is NOT consistent.)  Sorting never
       puts a piece without terminator in front of another piece. *)
From PV Require Import Lib.Bytes.
Open Scope N_scope.

Inductive action :=
| ARepl (from to : str)
| AAbove (t : str)
| ABelow (t : str)
| ADelete
| ASort
| AChmod.

Definition entry := (N * action)%type. (* printed line number (0 = none), action *)

Definition action_eqb (a b : action) : bool :=
  match a, b with
  | ARepl f t, ARepl f' t' => str_eqb f f' && str_eqb t t'
  | AAbove t, AAbove t' => str_eqb t t'
  | ABelow t, ABelow t' => str_eqb t t'
  | ADelete, ADelete => true
  | ASort, ASort => true
  | AChmod, AChmod => true
  | _, _ => false
  end.

Definition entry_eqb (a b : entry) : bool := (fst a =? fst b) && action_eqb (snd a) (snd b).

(* physical lines, each including its "\n"; only the last one may lack it;
   there is no empty line:  strings.SplitAfter(s, "\n") without the empty tail *)
Fixpoint phys_lines (s : str) : list str :=
  match s with
  | [] => []
  | c :: s' =>
    if c =? 10 then [c] :: phys_lines s'
    else match phys_lines s' with
         | [] => [[c]]
         | l :: ls => (c :: l) :: ls
         end
  end.

(* one original physical line and what was put around it *)
Record block := Block { b_above : list str; b_text : str; b_below : list str }.

Definition init_blocks (old : str) : list block := map (fun l => Block [] l []) (phys_lines old).

Definition nl : str := [10].

(* all ways of replacing exactly one occurrence of [from] in [s] by [to] *)
Fixpoint replace_each (from to s : str) : list str :=
  (match strip_prefix from s with Some r => [to ++ r] | None => [] end)
  ++ match s with
     | [] => []
     | c :: s' => map (cons c) (replace_each from to s')
     end.

Definition ends_nl (s : str) : bool :=
  match rev s with c :: _ => c =? 10 | [] => false end.

Definition is_nil {A} (l : list A) : bool := match l with [] => true | _ => false end.

(* the text of the line directly above the first line inserted below it gets its
   missing terminator *)
Definition terminate_for_insert (b : block) : str :=
  if is_nil (b_below b) && negb (is_nil (b_text b)) && negb (ends_nl (b_text b))
  then b_text b ++ nl else b_text b.

Definition act_block (a : action) (b : block) : list block :=
  match a with
  | ARepl f t => map (fun x => Block (b_above b) x (b_below b)) (replace_each f t (b_text b))
  | AAbove t => [Block (b_above b ++ [t ++ nl]) (b_text b) (b_below b)]
  | ABelow t => [Block (b_above b) (terminate_for_insert b) (b_below b ++ [t ++ nl])]
  | ADelete => [Block (b_above b) [] (b_below b)]
  | ASort => [b]
  | AChmod => [b]
  end.

(* apply f to the element number n (0-based); no candidate if there is none *)
Fixpoint at_index {A} (n : nat) (f : A -> list A) (l : list A) : list (list A) :=
  match l with
  | [] => []
  | x :: l' =>
    match n with
    | O => map (fun y => y :: l') (f x)
    | S n' => map (cons x) (at_index n' f l')
    end
  end.

Definition needs_line (a : action) : bool :=
  match a with ASort => false | AChmod => false | _ => true end.

Definition act_entry (e : entry) (st : list block) : list (list block) :=
  if needs_line (snd e) then
    match fst e with
    | 0 => []                                    (* a line action without line number *)
    | k => at_index (N.to_nat (k - 1)) (act_block (snd e)) st
    end
  else [st].

(* ---- the definition, line by line ----
   Entries that name different physical lines do not interfere, so the log is
   applied per original physical line number: the entries of line k, in log order,
   are run on the block of line k; [new] must be the concatenation, line after
   line, of one result per line (for a sorted file: in any order). *)

(* the entries that name physical line k *)
Definition line_log (k : N) (log : list entry) : list entry :=
  filter (fun e => needs_line (snd e) && (fst e =? k)) log.

(* all results of running the entries of one line on its block; [seen] = the
   entries before this one: an entry that was printed before may be skipped *)
Fixpoint run_block (seen log : list entry) (b : block) : list block :=
  match log with
  | [] => [b]
  | e :: log' =>
    let applied := flat_map (run_block (e :: seen) log') (act_block (snd e) b) in
    if existsb (entry_eqb e) seen then applied ++ run_block (e :: seen) log' b else applied
  end.

Definition flat_block (b : block) : str := concat (b_above b) ++ b_text b ++ concat (b_below b).
Definition flat_blocks (st : list block) : str := concat (map flat_block st).

(* per physical line (numbered from k): the possible bytes of that line afterwards *)
Fixpoint line_cands (k : N) (log : list entry) (lines : list str) : list (list str) :=
  match lines with
  | [] => []
  | l :: ls => map flat_block (run_block [] (line_log k log) (Block [] l [])) :: line_cands (k + 1) log ls
  end.

(* a line action must name an existing line *)
Definition entry_in_range (n : nat) (e : entry) : bool :=
  negb (needs_line (snd e)) || ((1 <=? fst e) && (fst e <=? N.of_nat n)).

(* s = one candidate of the first line ++ one of the second ++ ... *)
Fixpoint match_lines (cands : list (list str)) (s : str) : bool :=
  match cands with
  | [] => is_nil s
  | cs :: rest =>
    existsb (fun c => match strip_prefix c s with
                      | Some r => match_lines rest r
                      | None => false
                      end) cs
  end.

Fixpoint pick_each {A} (l : list A) : list (A * list A) :=
  match l with
  | [] => []
  | x :: l' => (x, l') :: map (fun p => (fst p, x :: snd p)) (pick_each l')
  end.

(* the same in any order of the lines; a non-empty piece without terminator can
   only be the end of the file *)
Fixpoint match_perm (n : nat) (cands : list (list str)) (s : str) : bool :=
  match cands with
  | [] => is_nil s
  | _ =>
    match n with
    | O => false
    | S n' =>
      existsb (fun p =>
        existsb (fun c => match strip_prefix c s with
                          | Some r => (is_nil c || ends_nl c || is_nil r) && match_perm n' (snd p) r
                          | None => false
                          end) (fst p)) (pick_each cands)
    end
  end.

Definition has_sort (log : list entry) : bool :=
  existsb (fun e => match snd e with ASort => true | _ => false end) log.

Definition consistent (old : str) (log : list entry) (new : str) : bool :=
  let lines := phys_lines old in
  forallb (entry_in_range (length lines)) log &&
  (let cands := line_cands 1 log lines in
   if has_sort log then match_perm (length cands) cands new else match_lines cands new).

(* ---- the same set of results, as whole-file states (used for histories with a
   save in between, below) ---- *)

(* run the log; [seen] = the entries before this one *)
Fixpoint run_log (seen : list entry) (log : list entry) (st : list block) : list (list block) :=
  match log with
  | [] => [st]
  | e :: log' =>
    let applied := flat_map (run_log (e :: seen) log') (act_entry e st) in
    if existsb (entry_eqb e) seen
    then applied ++ run_log (e :: seen) log' st   (* printed again: may be the same change *)
    else applied
  end.

(* The same with a bounded number of "save and load again" points: the file is
   written and read again between two log entries; the later entries then use
   the line numbers of the intermediate file.  [consistent_hist 0] = [consistent]. *)
Fixpoint consistent_hist (reloads : nat) (old : str) (log : list entry) (new : str) : bool :=
  consistent old log new ||
  match reloads with
  | O => false
  | S r =>
    (* split the log into a non-empty first segment and a non-empty rest *)
    existsb (fun k =>
      let l1 := firstn k log in
      let l2 := skipn k log in
      negb (has_sort l1) &&
      existsb (fun st => consistent_hist r (flat_blocks st) l2 new)
              (run_log [] l1 (init_blocks old)))
      (seq 1 (length log - 1))
  end.
