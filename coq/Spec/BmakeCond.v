(* Specification: the value of a bmake condition, for the fragment of conditions
   that pkglint's MkCondSimplifier / MkCondChecker.checkAnd read and write.

   Written from bmake's sources (usr.bin/make, 2023/2024):
     cond.c   TryParseNumber, EvalTruthy (was EvalNotEmpty), EvalCompare,
              CondParser_Leaf / CondParser_StringExpr (undefined variable in an
              unquoted expression = "Malformed conditional"), ParseEmptyArg /
              FuncEmpty, FuncDefined, CondParser_And / _Or / _Term;
     var.c    ApplyModifier_Match / ModifyWord_Match / ModifyWord_NoMatch,
              ApplyModifier_To (:tl), ApplyModifier_Defined (:U), DEF_* states;
     str.c    Str_Match (1.99), with *, ?, [...], [^...], ranges, backslash.
   Independent of Model/CondSimp.v (which only *uses* the syntax tree below to
   say what its texts mean).  Everything is executable; the harness evaluates
   the conditions the real program reads and writes with [eval_text].

   Three truth values: true, false, malformed (bmake stops with an error).
   [None] everywhere means "outside the fragment" (never a truth value).

   Not modelled, stated where it matters: double rounding/overflow in strtod
   (numbers are exact rationals), quotes/backslashes inside variable values
   (Str_Words would group them).  "$" inside the pattern of :M / :N: only the
   nested reference ${NAME} (expanded before matching, see [expand_pat]); every
   other use of "$" there ($$, $(..), ${NAME:mod}, a lone $) is outside. *)
From PV Require Import Lib.Bytes.
Open Scope N_scope.

Inductive tri := TTrue | TFalse | TMalformed.
Definition tri_of_bool (b : bool) : tri := if b then TTrue else TFalse.
Definition tri_not (t : tri) : tri :=
  match t with TTrue => TFalse | TFalse => TTrue | TMalformed => TMalformed end.

(* ------------------------------------------------------------------ *)
(* str.c: Str_Match(word, pattern)                                     *)

Definition in_range (a b c : N) : bool :=
  ((a <=? c) && (c <=? b)) || ((b <=? c) && (c <=? a)).

(* scanning a character list for the byte c; p is what follows "[" or "[^".
   ClsHit q: c is in the list, q = the list from the element that matched
   (bmake then skips to the first ']' from there); ClsEnd r: the closing ']'
   was reached without a hit, r follows it; ClsErr: unfinished list/range. *)
Inductive cls := ClsErr | ClsHit (q : str) | ClsEnd (r : str).

Fixpoint class_scan (p : str) (c : N) : cls :=
  match p with
  | [] => ClsErr
  | x :: r =>
    if x =? 93 then ClsEnd r
    else if x =? c then ClsHit p
    else match r with
         | d :: r1 =>
           if d =? 45 then
             match r1 with
             | [] => ClsErr
             | hi :: r2 => if in_range x hi c then ClsHit p else class_scan r2 c
             end
           else class_scan r c
         | [] => class_scan r c
         end
  end.

Fixpoint skip_rbracket (p : str) : option str :=
  match p with
  | [] => None
  | x :: r => if x =? 93 then Some r else skip_rbracket r
  end.

(* declarative backtracking; bmake's loop restarts only after the last '*',
   which decides the same relation *)
Fixpoint sm (fuel : nat) (w p : str) : bool :=
  match fuel with
  | O => false
  | S f =>
    match p with
    | [] => match w with [] => true | _ => false end
    | pc :: p' =>
      if pc =? 42 (* '*' *) then
        sm f w p' || match w with [] => false | _ :: w' => sm f w' p end
      else match w with
      | [] => false
      | c :: w' =>
        if pc =? 63 (* '?' *) then sm f w' p'
        else if pc =? 91 (* '[' *) then
          let neg := match p' with x :: _ => x =? 94 | [] => false end in
          let body := if neg then tl p' else p' in
          match class_scan body c with
          | ClsErr => false
          | ClsHit q => if neg then false
                        else match skip_rbracket q with Some r => sm f w' r | None => false end
          | ClsEnd r => if neg then sm f w' r else false
          end
        else if pc =? 92 (* '\' *) then
          match p' with
          | e :: p'' => (c =? e) && sm f w' p''
          | [] => (c =? 92) && sm f w' []
          end
        else (c =? pc) && sm f w' p'
      end
    end
  end.

Definition str_match (w p : str) : bool := sm (S (length w + length p)) w p.

(* ------------------------------------------------------------------ *)
(* words of a value (no quotes or backslashes in values, see header)   *)

Definition is_ws (c : N) : bool := (c =? 32) || (c =? 9) || (c =? 10).

(* cur = the word being collected, in order *)
Fixpoint split_ws (s cur : str) : list str :=
  match s with
  | [] => match cur with [] => [] | _ => [cur] end
  | c :: r =>
    if is_ws c then match cur with [] => split_ws r [] | _ => cur :: split_ws r [] end
    else split_ws r (cur ++ [c])
  end.
Definition words (s : str) : list str := split_ws s [].

Fixpoint join_sp (ws : list str) : str :=
  match ws with
  | [] => []
  | [w] => w
  | w :: rest => w ++ 32 :: join_sp rest
  end.

(* ------------------------------------------------------------------ *)
(* modifiers and ${V:mods}                                             *)

(* [pat] of ModM / ModN is the pattern as written: literal bytes and nested
   references ${NAME}; see [expand_pat] *)
Inductive modifier :=
| ModM (pat : str) | ModN (pat : str) | ModTl | ModU (dflt : str) | ModOther (text : str).

Definition env := str -> option str.

Definition is_name_char (c : N) : bool := is_alnum c || (c =? 95) || (c =? 46).

(* var.c ParseModifier_Match / ApplyModifier_Match: a pattern that contains '$'
   goes through Var_Subst before Str_Match sees it.  The pattern as the parser
   hands it over is a sequence of literal bytes and nested references; the only
   nested form in the fragment is ${NAME}.  VarSubstExpr: an undefined nested
   variable yields nothing (neither VARE_WANTRES of empty() nor VARE_UNDEFERR of
   a bare expression keeps the reference or stops the evaluation).  The value is
   spliced in as it is, so glob characters in it act as glob characters. *)
Inductive ppart := PPByte (c : N) | PPRef (v : str).

Fixpoint parse_pat (fuel : nat) (p : str) : option (list ppart) :=
  match fuel with
  | O => None
  | S f =>
    match p with
    | [] => Some []
    | c :: r =>
      if c =? 36 then
        match r with
        | b :: r1 =>
          if b =? 123 then
            let (name, r2) := span is_name_char r1 in
            match name, r2 with
            | _ :: _, d :: r3 =>
              if d =? 125 then option_map (cons (PPRef name)) (parse_pat f r3) else None
            | _, _ => None
            end
          else None
        | [] => None
        end
      else option_map (cons (PPByte c)) (parse_pat f r)
    end
  end.

Definition nested_value (e : env) (v : str) : str := match e v with Some s => s | None => [] end.

Fixpoint expand_parts (e : env) (ps : list ppart) : str :=
  match ps with
  | [] => []
  | PPByte c :: r => c :: expand_parts e r
  | PPRef v :: r => nested_value e v ++ expand_parts e r
  end.

(* the pattern Str_Match gets; None = a use of '$' outside the fragment *)
Definition expand_pat (e : env) (p : str) : option str :=
  option_map (expand_parts e) (parse_pat (S (length p)) p).

(* var.c: DEF_REGULAR, DEF_UNDEF, DEF_DEFINED *)
Inductive defstate := DRegular | DUndef | DDefined.

Definition apply_mod (e : env) (m : modifier) (st : defstate * str) : option (defstate * str) :=
  let (d, s) := st in
  match m with
  | ModM pat =>
    match expand_pat e pat with
    | Some q => Some (d, join_sp (filter (fun w => str_match w q) (words s)))
    | None => None
    end
  | ModN pat =>
    match expand_pat e pat with
    | Some q => Some (d, join_sp (filter (fun w => negb (str_match w q)) (words s)))
    | None => None
    end
  | ModTl => Some (d, lower s)
  | ModU dflt =>
    (* ApplyModifier_Defined: the default is used unless the variable is
       DEF_REGULAR; afterwards the expression counts as defined *)
    match d with
    | DRegular => Some (DRegular, s)
    | _ => Some (DDefined, dflt)
    end
  | ModOther _ => None
  end.

Fixpoint apply_mods (e : env) (ms : list modifier) (st : defstate * str) : option (defstate * str) :=
  match ms with
  | [] => Some st
  | m :: r => match apply_mod e m st with Some st' => apply_mods e r st' | None => None end
  end.

Definition eval_expr (e : env) (v : str) (ms : list modifier) : option (defstate * str) :=
  match e v with
  | Some s => apply_mods e ms (DRegular, s)
  | None => apply_mods e ms (DUndef, [])
  end.

(* ------------------------------------------------------------------ *)
(* cond.c: TryParseNumber, over exact rationals                        *)

Record num := mknum { nnum : Z; nden : Z }. (* nden > 0 *)
Definition num_eqb (a b : num) : bool := (nnum a * nden b =? nnum b * nden a)%Z.
Definition num_is_zero (a : num) : bool := (nnum a =? 0)%Z.
Definition num_ltb (a b : num) : bool := (nnum a * nden b <? nnum b * nden a)%Z.

Definition is_cspace (c : N) : bool := (c =? 32) || ((9 <=? c) && (c <=? 13)).
Fixpoint skip_cspace (s : str) : str :=
  match s with
  | c :: r => if is_cspace c then skip_cspace r else s
  | [] => []
  end.

Definition is_hexdigit (c : N) : bool :=
  is_digit c || ((97 <=? c) && (c <=? 102)) || ((65 <=? c) && (c <=? 70)).
Definition hexdigit_val (c : N) : Z :=
  if is_digit c then Z.of_N c - 48
  else if (97 <=? c) then Z.of_N c - 87 else Z.of_N c - 55.
Definition hex_value (ds : str) : Z :=
  fold_left (fun acc c => acc * 16 + hexdigit_val c)%Z ds 0%Z.

(* optional sign: (negative, rest) *)
Definition take_sign (s : str) : bool * str :=
  match s with
  | c :: r => if c =? 45 then (true, r) else if c =? 43 then (false, r) else (false, s)
  | [] => (false, s)
  end.

Definition is_x (c : N) : bool := (c =? 120) || (c =? 88).

(* strtoul(s, &end, base) for base 10 or 16: (converted?, negative?, magnitude, end) *)
Definition strtoul (s : str) (hex : bool) : bool * bool * Z * str :=
  let s1 := skip_cspace s in
  let (neg, s2) := take_sign s1 in
  if hex then
    let s3 := match s2 with
              | z :: x :: h :: _ => if (z =? 48) && is_x x && is_hexdigit h then tl (tl s2) else s2
              | _ => s2
              end in
    let (ds, r) := span is_hexdigit s3 in
    match ds with
    | [] => (false, false, 0%Z, s)
    | _ => (true, neg, hex_value ds, r)
    end
  else
    let (ds, r) := span is_digit s2 in
    match ds with
    | [] => (false, false, 0%Z, s)
    | _ => (true, neg, dec_value ds, r)
    end.

Definition two64 : Z := 18446744073709551616%Z.

(* optional exponent introduced by one of the two marker bytes: (exponent, rest);
   an incomplete exponent is not consumed *)
Definition take_exponent (m1 m2 : N) (s : str) : Z * str :=
  match s with
  | c :: r =>
    if (c =? m1) || (c =? m2) then
      let (neg, r1) := take_sign r in
      let (ds, r2) := span is_digit r1 in
      match ds with
      | [] => (0%Z, s)
      | _ => ((if neg then - dec_value ds else dec_value ds)%Z, r2)
      end
    else (0%Z, s)
  | [] => (0%Z, s)
  end.

Definition scale (m : Z) (base : Z) (e : Z) : num :=
  if (0 <=? e)%Z then mknum (m * base ^ e) 1 else mknum m (base ^ (- e)).
Definition num_div (a : num) (d : Z) : num := mknum (nnum a) (nden a * d).

(* strtod(s, &end): (value, end); "no conversion" returns end = s.
   inf/nan are not recognised: TryParseNumber only calls strtod when strtoul
   stopped at '.', 'e', 'E' or the end, so they cannot get here. *)
Definition strtod (s : str) : num * str :=
  let s1 := skip_cspace s in
  let (neg, s2) := take_sign s1 in
  let sgn (m : Z) : Z := if neg then (- m)%Z else m in
  let hexform :=
    match s2 with
    | z :: x :: r =>
      if (z =? 48) && is_x x then
        let (ip, r1) := span is_hexdigit r in
        let (fp, r2) := match r1 with
                        | d :: r1' => if d =? 46 then span is_hexdigit r1' else ([], r1)
                        | [] => ([], r1)
                        end in
        match ip ++ fp with
        | [] => None
        | _ =>
          let (ex, r3) := take_exponent 112 80 r2 in
          Some (num_div (scale (sgn (hex_value (ip ++ fp))) 2 ex) (16 ^ Z.of_nat (length fp)), r3)
        end
      else None
    | _ => None
    end in
  match hexform with
  | Some res => res
  | None =>
    let (ip, r1) := span is_digit s2 in
    let (fp, r2) := match r1 with
                    | d :: r1' => if d =? 46 then span is_digit r1' else ([], r1)
                    | [] => ([], r1)
                    end in
    match ip ++ fp with
    | [] => (mknum 0 1, s)
    | _ =>
      let (ex, r3) := take_exponent 101 69 r2 in
      (num_div (scale (sgn (dec_value (ip ++ fp))) 10 ex) (10 ^ Z.of_nat (length fp)), r3)
    end
  end.

Definition try_parse_number (s : str) : option num :=
  match s with
  | [] => Some (mknum 0 1) (* "XXX: why is an empty string a number?" *)
  | c0 :: _ =>
    let hex := match s with _ :: x :: _ => x =? 120 | _ => false end in
    match strtoul s hex with
    | (conv, neg, mag, rest) =>
      let erange := (two64 <=? mag)%Z in
      match rest with
      | [] =>
        if negb erange then
          (* str[0] == '-' ? -(double)-ul_val : (double)ul_val *)
          Some (mknum (if c0 =? 45 then (- mag)%Z
                       else if neg && negb (mag =? 0)%Z then (two64 - mag)%Z else mag) 1)
        else
          match strtod s with (v, r') => match r' with [] => Some v | _ => None end end
      | e :: _ =>
        if (e =? 46) || (e =? 101) || (e =? 69) then
          match strtod s with (v, r') => match r' with [] => Some v | _ => None end end
        else None
      end
    end
  end.

(* ------------------------------------------------------------------ *)
(* conditions                                                          *)

Inductive part := PLit (s : str) | PExpr (v : str) (ms : list modifier).

Inductive leaf :=
| LExpr (v : str) (ms : list modifier)   (* ${V:mods}, unquoted *)
| LQuoted (ps : list part)               (* "text${V:mods}text" *)
| LWord (s : str).                       (* unquoted word or number *)

Inductive cond :=
| CEmpty (v : str) (ms : list modifier)
| CDefined (v : str)
| CLeaf (l : leaf)
| CCmp (l : leaf) (eq : bool) (r : leaf)
| CCmpOrd (l : leaf) (less orEqual : bool) (r : leaf)   (* < <= > >= *)
| CNot (c : cond)
| CAnd (a b : cond)
| COr (a b : cond)
| CSyntaxError.   (* text that cond.c rejects: a further token after a complete condition *)

(* value of a leaf: Some (Some (text, quoted)) | Some None = malformed | None = outside *)
Fixpoint eval_parts (e : env) (ps : list part) : option str :=
  match ps with
  | [] => Some []
  | PLit s :: r => option_map (app s) (eval_parts e r)
  | PExpr v ms :: r =>
    (* inside quotes an undefined variable expands to the empty string *)
    match eval_expr e v ms with
    | Some (_, s) => option_map (app s) (eval_parts e r)
    | None => None
    end
  end.

Definition eval_leaf (e : env) (l : leaf) : option (option (str * bool)) :=
  match l with
  | LExpr v ms =>
    match eval_expr e v ms with
    | Some (DUndef, _) => Some None
    | Some (_, s) => Some (Some (s, false))
    | None => None
    end
  | LQuoted ps => match eval_parts e ps with Some s => Some (Some (s, true)) | None => None end
  | LWord s => Some (Some (s, false))
  end.

Definition nonempty (s : str) : bool := match s with [] => false | _ => true end.

(* EvalTruthy *)
Definition truthy (s : str) (quoted : bool) : bool :=
  if quoted then nonempty s
  else match try_parse_number s with
       | Some n => negb (num_is_zero n)
       | None => nonempty s
       end.

(* EvalCompare for == and != *)
Definition compare_eq (l : str) (lq : bool) (r : str) (rq : bool) : bool :=
  if negb lq && negb rq then
    match try_parse_number l, try_parse_number r with
    | Some a, Some b => num_eqb a b
    | _, _ => str_eqb l r
    end
  else str_eqb l r.

Fixpoint eval (e : env) (c : cond) : option tri :=
  match c with
  | CEmpty v ms =>
    (* ParseEmptyArg: undefined counts as empty; leading whitespace is skipped *)
    match eval_expr e v ms with
    | Some (_, s) => Some (tri_of_bool (negb (nonempty (skip_cspace s))))
    | None => None
    end
  | CDefined v => Some (tri_of_bool (match e v with Some _ => true | None => false end))
  | CLeaf (LWord s) =>
    (* a bare word is defined(word) in .if; only numbers are in the fragment *)
    match try_parse_number s with
    | Some n => match s with [] => None | _ => Some (tri_of_bool (negb (num_is_zero n))) end
    | None => None
    end
  | CLeaf l =>
    match eval_leaf e l with
    | Some (Some (s, q)) => Some (tri_of_bool (truthy s q))
    | Some None => Some TMalformed
    | None => None
    end
  | CCmp l eq r =>
    match l with
    | LWord _ => None
    | _ =>
      match eval_leaf e l, eval_leaf e r with
      | Some (Some (ls, lq)), Some (Some (rs, rq)) =>
        let b := compare_eq ls lq rs rq in Some (tri_of_bool (if eq then b else negb b))
      | Some None, Some _ => Some TMalformed
      | Some _, Some None => Some TMalformed
      | _, _ => None
      end
    end
  | CCmpOrd l less orEqual r =>
    (* EvalCompare: < <= > >= are numeric only; on strings they are an error *)
    match l with
    | LWord _ => None
    | _ =>
      match eval_leaf e l, eval_leaf e r with
      | Some (Some (ls, lq)), Some (Some (rs, rq)) =>
        if negb lq && negb rq then
          match try_parse_number ls, try_parse_number rs with
          | Some a, Some b =>
            let lt := if less then num_ltb a b else num_ltb b a in
            Some (tri_of_bool (lt || (orEqual && num_eqb a b)))
          | _, _ => Some TMalformed
          end
        else Some TMalformed
      | Some None, Some _ => Some TMalformed
      | Some _, Some None => Some TMalformed
      | _, _ => None
      end
    end
  | CNot c1 => option_map tri_not (eval e c1)
  | CAnd a b =>
    match eval e a with
    | Some TTrue => eval e b
    | Some TFalse => match eval e b with Some _ => Some TFalse | None => None end
    | other => other
    end
  | COr a b =>
    match eval e a with
    | Some TFalse => eval e b
    | Some TTrue => match eval e b with Some _ => Some TTrue | None => None end
    | other => other
    end
  | CSyntaxError => Some TMalformed
  end.

(* ------------------------------------------------------------------ *)
(* reading a condition from text (the fragment only)                   *)

Definition classify_mod (m : str) : modifier :=
  match m with
  | 77 :: p => ModM p
  | 78 :: p => ModN p
  | [116; 108] => ModTl
  | 85 :: d => ModU d
  | _ => ModOther m
  end.

(* bytes that end or complicate a modifier: $ \ ( ) { } double-quote and the closer *)
Definition plain_mod_char (close c : N) : bool :=
  negb ((c =? 58) || (c =? close) || (c =? 36) || (c =? 92) || (c =? 40) || (c =? 41)
        || (c =? 123) || (c =? 125) || (c =? 34)).

(* one modifier: plain bytes and nested references ${NAME}, which are copied as
   they are (the braces of a nested reference do not end the modifier) *)
Fixpoint scan_seg (fuel : nat) (close : N) (s : str) : str * str :=
  match fuel with
  | O => ([], s)
  | S f =>
    match s with
    | c :: r =>
      if plain_mod_char close c then let (seg, r') := scan_seg f close r in (c :: seg, r')
      else if c =? 36 then
        match r with
        | b :: r1 =>
          if b =? 123 then
            let (name, r2) := span is_name_char r1 in
            match name, r2 with
            | _ :: _, d :: r3 =>
              if d =? 125 then
                let (seg, r') := scan_seg f close r3 in (36 :: 123 :: name ++ 125 :: seg, r')
              else ([], s)
            | _, _ => ([], s)
            end
          else ([], s)
        | [] => ([], s)
        end
      else ([], s)
    | [] => ([], s)
    end
  end.

(* nested references are in the fragment only inside the pattern of :M and :N *)
Definition seg_ok (seg : str) : bool :=
  negb (existsb (N.eqb 36) seg)
  || match seg with c :: _ => (c =? 77) || (c =? 78) | [] => false end.

(* after the name: (":" segment)* close *)
Fixpoint parse_mods (fuel : nat) (close : N) (s : str) : option (list modifier * str) :=
  match fuel with
  | O => None
  | S f =>
    match s with
    | c :: r =>
      if c =? close then Some ([], r)
      else if c =? 58 then
        let (seg, r1) := scan_seg (S (length r)) close r in
        if negb (seg_ok seg) then None else
        match parse_mods f close r1 with
        | Some (ms, r2) => Some (classify_mod seg :: ms, r2)
        | None => None
        end
      else None
    | [] => None
    end
  end.

Definition parse_name_mods (close : N) (s : str) : option (str * list modifier * str) :=
  let (name, r) := span is_name_char s in
  match name with
  | [] => None
  | _ => match parse_mods (S (length r)) close r with
         | Some (ms, r2) => Some (name, ms, r2)
         | None => None
         end
  end.

Fixpoint skip_hspace (s : str) : str :=
  match s with
  | c :: r => if is_hspace c then skip_hspace r else s
  | [] => []
  end.

(* the inside of a quoted string up to the closing quote *)
Definition plain_quoted_char (c : N) : bool := negb ((c =? 34) || (c =? 36) || (c =? 92)).
Fixpoint parse_quoted (fuel : nat) (s : str) : option (list part * str) :=
  match fuel with
  | O => None
  | S f =>
    match s with
    | [] => None
    | c :: r =>
      if c =? 34 then Some ([], r)
      else if c =? 36 then
        match r with
        | b :: r1 =>
          if b =? 123 then
            match parse_name_mods 125 r1 with
            | Some (v, ms, r2) =>
              match parse_quoted f r2 with
              | Some (ps, r3) => Some (PExpr v ms :: ps, r3)
              | None => None
              end
            | None => None
            end
          else None
        | [] => None
        end
      else if c =? 92 then None
      else
        let (lit, r1) := span plain_quoted_char s in
        match parse_quoted f r1 with
        | Some (ps, r2) => Some (PLit lit :: ps, r2)
        | None => None
        end
    end
  end.

(* cond.c CondParser_Leaf: an unquoted word ends at white space or one of ) ! = > < ;
   words containing $ double-quote \ & | are outside the fragment *)
Definition word_char (c : N) : bool :=
  negb (is_hspace c || (c =? 41) || (c =? 33) || (c =? 61) || (c =? 62) || (c =? 60)
        || (c =? 36) || (c =? 34) || (c =? 92) || (c =? 38) || (c =? 124) || (c =? 40)).

Definition parse_leaf (s : str) : option (leaf * str) :=
  match s with
  | c :: r =>
    if c =? 36 then
      match r with
      | b :: r1 => if b =? 123 then
                     match parse_name_mods 125 r1 with
                     | Some (v, ms, r2) => Some (LExpr v ms, r2)
                     | None => None
                     end
                   else None
      | [] => None
      end
    else if c =? 34 then
      match parse_quoted (S (length r)) r with
      | Some (ps, r1) => Some (LQuoted ps, r1)
      | None => None
      end
    else
      let (w, r1) := span word_char s in
      match w with [] => None | _ => Some (LWord w, r1) end
  | [] => None
  end.

Definition str_defined_lp : str := [100; 101; 102; 105; 110; 101; 100; 40].
Definition str_empty_lp : str := [101; 109; 112; 116; 121; 40].

(* one fuel for the mutually recursive or / and / term *)
Fixpoint parse_or (fuel : nat) (s : str) : option (cond * str) :=
  match fuel with
  | O => None
  | S f =>
    let parse_term :=
      (fix parse_term (g : nat) (s : str) : option (cond * str) :=
         match g with
         | O => None
         | S g' =>
           let s := skip_hspace s in
           match s with
           | [] => None
           | c :: r =>
             if (c =? 33) && negb (match r with d :: _ => d =? 61 | [] => false end) then
               match parse_term g' r with
               | Some (t, r1) => Some (CNot t, r1)
               | None => None
               end
             else if c =? 40 then
               match parse_or f r with
               | Some (t, r1) =>
                 match skip_hspace r1 with
                 | d :: r2 => if d =? 41 then Some (t, r2) else None
                 | [] => None
                 end
               | None => None
               end
             else match strip_prefix str_defined_lp s with
             | Some r1 =>
               let (name, r2) := span is_name_char r1 in
               match name, r2 with
               | _ :: _, d :: r3 => if d =? 41 then Some (CDefined name, r3) else None
               | _, _ => None
               end
             | None =>
             match strip_prefix str_empty_lp s with
             | Some r1 =>
               match parse_name_mods 41 r1 with
               | Some (v, ms, r2) => Some (CEmpty v ms, r2)
               | None => None
               end
             | None =>
               match parse_leaf s with
               | Some (l, r1) =>
                 let r2 := skip_hspace r1 in
                 match r2 with
                 | o1 :: o2 :: r3 =>
                   if ((o1 =? 61) || (o1 =? 33)) && (o2 =? 61) then
                     match parse_leaf (skip_hspace r3) with
                     | Some (rl, r4) => Some (CCmp l (o1 =? 61) rl, r4)
                     | None => None
                     end
                   else if (o1 =? 60) || (o1 =? 62) then
                     let orEqual := o2 =? 61 in
                     match parse_leaf (skip_hspace (if orEqual then r3 else o2 :: r3)) with
                     | Some (rl, r4) => Some (CCmpOrd l (o1 =? 60) orEqual rl, r4)
                     | None => None
                     end
                   else Some (CLeaf l, r1)
                 | _ => Some (CLeaf l, r1)
                 end
               | None => None
               end
             end
             end
           end
         end) in
    let parse_and :=
      (fix parse_and (g : nat) (s : str) : option (cond * str) :=
         match g with
         | O => None
         | S g' =>
           match parse_term f s with
           | Some (t, r) =>
             match skip_hspace r with
             | a :: b :: r1 =>
               if (a =? 38) && (b =? 38) then
                 match parse_and g' r1 with
                 | Some (t2, r2) => Some (CAnd t t2, r2)
                 | None => None
                 end
               else Some (t, r)
             | _ => Some (t, r)
             end
           | None => None
           end
         end) in
    match parse_and f s with
    | Some (t, r) =>
      match skip_hspace r with
      | a :: b :: r1 =>
        if (a =? 124) && (b =? 124) then
          match parse_or f r1 with
          | Some (t2, r2) => Some (COr t t2, r2)
          | None => None
          end
        else Some (t, r)
      | _ => Some (t, r)
      end
    | None => None
    end
  end.

(* CondParser_Eval: after a complete condition the next token must be the end of
   the line.  Anything that starts a leaf there (a word, a number, a quoted string,
   an expression: every byte except the operator bytes & | ) = ! < >) is a token and
   makes the whole line a "Malformed conditional"; a rest starting with an operator
   byte may be syntax this reader does not cover, so it is left outside. *)
Definition starts_leaf (r : str) : bool :=
  match r with
  | c :: _ => negb ((c =? 38) || (c =? 124) || (c =? 41) || (c =? 61) || (c =? 33) || (c =? 60) || (c =? 62))
  | [] => false
  end.

Definition parse_cond (s : str) : option cond :=
  match parse_or (S (S (length s))) s with
  | Some (c, r) =>
    match skip_hspace r with
    | [] => Some c
    | r' => if starts_leaf r' then Some CSyntaxError else None
    end
  | None => None
  end.

(* the value of the condition text [s] when the variable [name] has the value
   [v] (None = undefined) and every other variable is undefined *)
Definition env1 (name : str) (v : option str) : env :=
  fun n => if str_eqb n name then v else None.

Definition eval_text (s name : str) (v : option str) : option tri :=
  match parse_cond s with
  | Some c => eval (env1 name v) c
  | None => None
  end.

(* ... and when several variables are bound (the subject and the variables that
   patterns refer to); the first binding of a name counts, every name that is
   not listed is undefined *)
Fixpoint env_of (binds : list (str * option str)) : env :=
  fun n => match binds with
           | [] => None
           | (k, v) :: r => if str_eqb n k then v else env_of r n
           end.

Definition eval_text_env (s : str) (binds : list (str * option str)) : option tri :=
  match parse_cond s with
  | Some c => eval (env_of binds) c
  | None => None
  end.
