(* Derivations of the grammar of shell.y as data, and a checker for the
   shift/reduce trace of an LR run.

   [gderives] is the usual derivation relation over the production *list* of
   Gen/ShellGrammar.v (Proofs/ShellGrammar.v shows it coincides with the
   generated inductive [derives], one constructor per production).

   [check_trace] replays a trace of the table-driven parser (Model/ShellLR.v)
   with a stack of grammar symbols instead of automaton states: a shift pushes
   the next input terminal, `Reduce k` pops the right-hand side of production k
   and pushes its left-hand side; at the end the input is used up and the stack
   is the start symbol.  It looks at the tables not at all, so an accepted trace
   that passes the check is a derivation in the grammar whatever the tables say
   (Proofs/ShellLR.v: check_trace_sound). *)
From Coq Require Import ZArith List Bool.
From PV Require Import Gen.ShellGrammar Gen.ShellTables Model.ShellLR.
Import ListNotations.

Inductive gderives : symbol -> list term -> Prop :=
| GD_term : forall t, gderives (T t) [t]
| GD_prod : forall lhs rhs w, In (lhs, rhs) productions -> gderives_list rhs w -> gderives (NT lhs) w
with gderives_list : list symbol -> list term -> Prop :=
| GDL_nil : gderives_list [] []
| GDL_cons : forall s ss w ws, gderives s w -> gderives_list ss ws -> gderives_list (s :: ss) (w ++ ws).

Definition symbol_beq (a b : symbol) : bool :=
  match a, b with
  | T x, T y => term_beq x y
  | NT x, NT y => nonterm_beq x y
  | _, _ => false
  end.

(* pop the right-hand side (given left to right) off the stack (top first) *)
Fixpoint pop_rhs (rhs_rev : list symbol) (stack : list symbol) : option (list symbol) :=
  match rhs_rev with
  | [] => Some stack
  | s :: r =>
    match stack with
    | x :: stack' => if symbol_beq s x then pop_rhs r stack' else None
    | [] => None
    end
  end.

Definition production_no (k : Z) : option (nonterm * list symbol) :=
  if (k <=? 0)%Z then None else nth_error productions (Z.to_nat (k - 1)).

Fixpoint check_trace (tr : list lr_action) (input : list term) (stack : list symbol) : bool :=
  match tr with
  | [] =>
    match input, stack with
    | [], [NT s] => nonterm_beq s start_symbol
    | _, _ => false
    end
  | Shift k :: tr' =>
    match input with
    | t :: input' => (tok_internal t =? k)%Z && check_trace tr' input' (T t :: stack)
    | [] => false
    end
  | Reduce k :: tr' =>
    match production_no k with
    | Some (lhs, rhs) =>
      match pop_rhs (rev rhs) stack with
      | Some stack' => check_trace tr' input (NT lhs :: stack')
      | None => false
      end
    | None => false
    end
  end.

(* the table-driven parser accepts, and its trace is a derivation *)
Definition lr_accepts_certified (ts : list term) : bool :=
  match lr_parse_terms ts with
  | LrAccept tr => check_trace tr ts []
  | _ => false
  end.
