(* The documented command line syntax of pkglint, written by hand from
   /repo/pkglint.1 (section "Options", "Checks", "Warnings") and the output of
   `pkglint --help`; independent of the Go source.  Gen/Options.v (regenerated from
   ParseCommandLine on every run) must present exactly this interface
   (Props/C08.v, C08_table_is_documented).

   Entry: (short option letter, long name, kind, default, group flags)
   group flag: (name, affected by all/none, default).

   pkglint.1 lists -C -d -e -F -g -h -I -i -n -o -q -r -s -V -W with these long
   names; -f|--show-autofix is mentioned under -s; -p|--profiling and the long
   name --dumpmakefile appear only in `pkglint --help`.  "error" is documented
   as "only affects the exit status" and is the one flag that -Wall does not
   switch on. *)
From PV Require Import Lib.Bytes Model.Getopt.
Open Scope N_scope.

Definition doc_flag := (str * bool * bool)%type.
Definition doc_option := (N * str * kind * bool * list doc_flag)%type.

Definition documented_options : list doc_option :=
  [ (* -C --check *) (67, [99; 104; 101; 99; 107], KGroup, false, [([103; 108; 111; 98; 97; 108] (* global *), true, false)]);
    (* -d --debug *) (100, [100; 101; 98; 117; 103], KBool, false, []);
    (* -e --explain *) (101, [101; 120; 112; 108; 97; 105; 110], KBool, false, []);
    (* -f --show-autofix *) (102, [115; 104; 111; 119; 45; 97; 117; 116; 111; 102; 105; 120], KBool, false, []);
    (* -F --autofix *) (70, [97; 117; 116; 111; 102; 105; 120], KBool, false, []);
    (* -g --gcc-output-format *) (103, [103; 99; 99; 45; 111; 117; 116; 112; 117; 116; 45; 102; 111; 114; 109; 97; 116], KBool, false, []);
    (* -h --help *) (104, [104; 101; 108; 112], KBool, false, []);
    (* -I --dumpmakefile *) (73, [100; 117; 109; 112; 109; 97; 107; 101; 102; 105; 108; 101], KBool, false, []);
    (* -i --import *) (105, [105; 109; 112; 111; 114; 116], KBool, false, []);
    (* -n --network *) (110, [110; 101; 116; 119; 111; 114; 107], KBool, false, []);
    (* -o --only *) (111, [111; 110; 108; 121], KList, false, []);
    (* -p --profiling *) (112, [112; 114; 111; 102; 105; 108; 105; 110; 103], KBool, false, []);
    (* -q --quiet *) (113, [113; 117; 105; 101; 116], KBool, false, []);
    (* -r --recursive *) (114, [114; 101; 99; 117; 114; 115; 105; 118; 101], KBool, false, []);
    (* -s --source *) (115, [115; 111; 117; 114; 99; 101], KBool, false, []);
    (* -V --version *) (86, [118; 101; 114; 115; 105; 111; 110], KBool, false, []);
    (* -W --warning *) (87, [119; 97; 114; 110; 105; 110; 103], KGroup, false, [([101; 114; 114; 111; 114] (* error *), false, false); ([101; 120; 116; 114; 97] (* extra *), true, false); ([112; 101; 114; 109] (* perm *), true, false); ([113; 117; 111; 116; 105; 110; 103] (* quoting *), true, false)]) ].

(* what the documentation can see of a table entry *)
Definition doc_view_flag (f : gflag) : doc_flag := (gf_name f, gf_all f, gf_def f).
Definition doc_view (o : odecl) : doc_option :=
  (o_short o, o_long o, o_kind o, o_def o, map doc_view_flag (o_flags o)).
