(* The weaker guard of C17_verdict_sound_partial2: ':=' / '!=' lines with a '$'
   may stand between the flagged earlier line and the later line, provided they
   do not reach the variable through references.  "Reach" is read off the
   program text: z refers to w when some assignment to z (any operator) among
   the lines before the point of interest has ${w} in its text.  No proofs here. *)
From PV Require Import Lib.Bytes Model.Redundant Spec.MakeEval Spec.VerdictSound.

(* the variables named in the texts assigned to z in the lines [pre] *)
Definition direct (pre : program) (z : var) : list var :=
  flat_map (fun l => match l_body l with
                     | Some a => if str_eqb (a_var a) z then uses (a_val a) else []
                     | None => []
                     end) pre.

Definition mem (w : var) (l : list var) : bool := existsb (str_eqb w) l.

(* everything reachable from [ws] along [direct pre]: one step per round, as
   many rounds as the lines name variables, then the set must be closed *)
Definition reach_step (pre : program) (ws : list var) : list var :=
  set_add_all ws (flat_map (direct pre) ws).
Fixpoint reach_rounds (n : nat) (pre : program) (ws : list var) : list var :=
  match n with O => ws | S k => reach_rounds k pre (reach_step pre ws) end.
Definition reach (pre : program) (ws : list var) : list var :=
  reach_rounds (length (vars_of pre)) pre (set_add_all [] ws).
Definition closed_under (pre : program) (c : list var) : bool :=
  forallb (fun w => mem w c) (flat_map (direct pre) c).

(* x is reachable from the variables ws through the texts of the lines pre
   (also true, to be on the safe side, should the rounds not have sufficed) *)
Definition reaches (pre : program) (ws : list var) (x : var) : bool :=
  let c := reach pre ws in
  negb (closed_under pre c && forallb (fun w => mem w c) ws) || mem x c.

(* line l, standing after the lines pre, is not a ':=' / '!=' with a '$' whose
   text reaches x *)
Definition indep_line (pre : program) (x : var) (l : line) : bool :=
  match l_body l with
  | Some a => if is_eager (a_op a) && negb (no_dollar (render (a_val a)))
              then negb (reaches pre (uses (a_val a)) x) else true
  | None => true
  end.

(* the same for the consecutive lines ls that follow pre *)
Fixpoint indep_lines (x : var) (pre : program) (ls : program) : bool :=
  match ls with
  | [] => true
  | l :: r => indep_line pre x l && indep_lines x (pre ++ [l]) r
  end.

(* The guard of C17_verdict_sound_partial2.  Later line flagged: as in [guard].
   EARLIER line flagged (lines lo < hi, variable x): every ':=' / '!=' with a '$'
   in its text among the lines lo+1 .. hi (the later line included) does not
   reach x through the texts of the lines before it. *)
Definition guard2 (p : program) (vd : verdict) : bool :=
  if Nat.ltb (vd_flagged vd) (vd_because vd) then
    indep_lines (line_var p (vd_flagged vd)) (firstn (S (vd_flagged vd)) p)
                (firstn (vd_because vd - vd_flagged vd) (skipn (S (vd_flagged vd)) p))
  else
    match line_op p (vd_flagged vd) with
    | Some OpDefault => true
    | _ => negb (after_eval_ref (writes_of (line_var p (vd_flagged vd)) 0 (firstn (vd_flagged vd) p)))
    end.

(* The guard of C17_verdict_sound_partial3: for an EARLIER flagged line nothing is
   asked of the lines between the two lines any more; only the later line itself,
   if it is a ':=' / '!=' with a '$', must not reach the variable. *)
Definition guard3 (p : program) (vd : verdict) : bool :=
  if Nat.ltb (vd_flagged vd) (vd_because vd) then
    match nth_error p (vd_because vd) with
    | Some l => indep_line (firstn (vd_because vd) p) (line_var p (vd_flagged vd)) l
    | None => true
    end
  else
    match line_op p (vd_flagged vd) with
    | Some OpDefault => true
    | _ => negb (after_eval_ref (writes_of (line_var p (vd_flagged vd)) 0 (firstn (vd_flagged vd) p)))
    end.

(* The guard of C17_verdict_sound_partial4: no condition at all when an EARLIER
   line is flagged; the condition for a LATER flagged line is the one of [guard]
   (the unrepaired finding "redundant after ':=' with a '$'"). *)
Definition guard4 (p : program) (vd : verdict) : bool :=
  if Nat.ltb (vd_flagged vd) (vd_because vd) then true
  else
    match line_op p (vd_flagged vd) with
    | Some OpDefault => true
    | _ => negb (after_eval_ref (writes_of (line_var p (vd_flagged vd)) 0 (firstn (vd_flagged vd) p)))
    end.
