(* Specification for C18: what pkgsrc's makepatchsum feeds to SHA-1.
   mk/checksum/distinfo.awk, function patchsum: the patch file with every line
   that contains "$NetBSD" deleted, all other bytes verbatim.  A line is a maximal
   run of bytes ending in LF, or the unterminated tail of the file.
   Written directly over the byte string; independent of Model/Lines.v. *)
From PV Require Import Lib.Bytes.
Open Scope N_scope.

Definition tag : str := [36; 78; 101; 116; 66; 83; 68].   (* $NetBSD *)

(* s contains the tag: some suffix of s starts with it *)
Fixpoint suffixes (s : str) : list str :=
  match s with [] => [[]] | _ :: t => s :: suffixes t end.
Definition has_tag (s : str) : bool := existsb (has_prefix tag) (suffixes s).

Definition keep_line (l : str) : str := if has_tag l then [] else l.

(* one pass: cur = the bytes of the current line read so far *)
Fixpoint filter_lines (cur s : str) : str :=
  match s with
  | [] => keep_line cur
  | c :: s' => if c =? 10 then keep_line (cur ++ [c]) ++ filter_lines [] s'
               else filter_lines (cur ++ [c]) s'
  end.

Definition makepatchsum_filter (s : str) : str := filter_lines [] s.

(* the digest makepatchsum records, for a hash function H *)
Definition makepatchsum (H : str -> str) (s : str) : str := H (makepatchsum_filter s).
