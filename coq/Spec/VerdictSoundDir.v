(* The bridge from d-programs (Model/RedundantDir.v) to the text-level makefiles
   with directives of Spec/MakeEvalDir.v, and what "the flagged line can be
   deleted" means there.  No proofs here. *)
From PV Require Import Lib.Bytes Model.Redundant Model.RedundantDir Spec.MakeEval Spec.MakeEvalDir
  Spec.VerdictSound.

Definition spec_cond (c : dcond) : scond :=
  match c with DCDefined x => SCDefined x | DCEmpty x => SCEmpty x | DCConst b => SCConst b end.

Definition spec_dline (l : dline) : sdline :=
  match dl_body l with
  | DAssign a => SDAssign (spec_assign a)
  | DComment | DInclude => SDNop
  | DUndef xs => SDUndef xs
  | DIf n c => SDIf n (spec_cond c)
  | DElse => SDElse
  | DEndif => SDEndif
  | DFor _ n => SDFor n
  | DEndfor => SDEndfor
  end.
Definition to_spec_d (p : dprogram) : sdprogram := map spec_dline p.

(* removing the lines [is] (all copies of one line of one file, when make reads
   that file more than once) leaves the final value of every variable unchanged *)
Definition deletable_d (p : dprogram) (is : list nat) : Prop :=
  forall (fuel : nat) (x : str),
    final_d fuel (blank is (to_spec_d p)) x = final_d fuel (to_spec_d p) x.

Definition vars_of_dline (l : dline) : list var :=
  match dl_body l with
  | DAssign a => a_var a :: uses (a_val a)
  | DUndef xs => xs
  | DIf _ c => cond_vars c
  | DFor used _ => used
  | _ => []
  end.
Definition vars_of_d (p : dprogram) : list var := flat_map vars_of_dline p.

Definition changed_vars_d (fuel : nat) (p : dprogram) (is : list nat) : list var :=
  filter (fun x => negb (ostr_eqb (final_d fuel (blank is (to_spec_d p)) x)
                                  (final_d fuel (to_spec_d p) x)))
         (vars_of_d p).

(* ----- the old fragment inside the new one ----- *)

Definition embed_line (l : line) : dline :=
  mkDLine (l_file l) (l_lineno l) false
          (match l_body l with Some a => DAssign a | None => DComment end).
Definition embed (p : program) : dprogram := map embed_line p.

(* which lines assign x / undefine x *)
Definition d_assigns (x : var) (l : dline) : bool :=
  match dl_body l with DAssign a => str_eqb (a_var a) x | _ => false end.
Definition d_undefs (x : var) (l : dline) : bool :=
  match dl_body l with DUndef xs => existsb (fun y => str_eqb y x) xs | _ => false end.

(* The sections that are open at a line, as a specification of its own (not
   the Indentation of the model): the indices of the .if/.for lines before the
   line that have not been closed yet, innermost first. *)
Fixpoint open_sections_from (idx : nat) (stack : list nat) (pre : dprogram) : list nat :=
  match pre with
  | [] => stack
  | l :: r =>
      open_sections_from (S idx)
        (match dl_body l with
         | DIf _ _ | DFor _ _ => idx :: stack
         | DEndif | DEndfor => match stack with [] => [] | _ :: s => s end
         | _ => stack
         end) r
  end.
Definition open_sections (pre : dprogram) : list nat := open_sections_from 0 [] pre.

(* the line after [pre] is inside a section other than the inclusion guard [g] *)
Definition in_conditional_section (g : option nat) (pre : dprogram) : bool :=
  existsb (fun o => negb (is_guard_line g o)) (open_sections pre).
