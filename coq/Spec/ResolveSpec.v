(* What C01 says about resolveExprs, independent of how the loop is coded. *)
From Coq Require Import List NArith Bool.
From PV Require Import Lib.Bytes Model.Resolve.
Import ListNotations.

(* length of the value a name expands to (0 when the scope does not define it) *)
Definition vlen (sc : rscope) (k : str) : nat :=
  match rlookup sc k with Some x => length x | None => O end.

(* the sum of the value lengths of the distinct variables of the scope *)
Definition value_budget (sc : rscope) : nat :=
  fold_right (fun k acc => (vlen sc k + acc)%nat) O (keys sc).

(* a text on which one more pass (with any visited set) changes nothing: no `${name}` left whose
   name could still be expanded *)
Definition stable (sc : rscope) (vis : list str) (s : str) : Prop := snd (pass sc vis O s) = s.
