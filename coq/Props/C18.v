(* C18 -- distinfo patch checksums are judged exactly as pkgsrc computes them.
   Only statements; every proof is `exact <lemma>`.
   Model: Model/PatchSum.v (distinfo.go computePatchSha1Hex / checkPatchSha1,
   autofix.go Replace), on top of Model/Lines.v.  Spec: Spec/PatchSumSpec.v.
   H is the hash (SHA-1 as lower-case hex); every theorem holds for every H. *)
From PV Require Import Lib.Bytes Model.Lines Model.PatchSum Spec.PatchSumSpec Proofs.PatchSum.
Open Scope N_scope.

(* the bytes pkglint hashes are, for every file content, the file with every line
   containing "$NetBSD" removed and all other bytes verbatim (uses C09) *)
Theorem C18_digest_input_exact : forall (s : str) (mk : bool) ls e,
  convert_to_logical_lines s mk = Ok (ls, e) -> hashed_bytes ls = makepatchsum_filter s.
Proof. exact digest_input_exact. Qed.
Print Assumptions C18_digest_input_exact.

(* checkPatchSha1 never fails to load a readable file *)
Theorem C18_check_total : forall (H : str -> str) p d, check_patch_sha1 H p d <> LoadPanic.
Proof. exact check_total. Qed.
Print Assumptions C18_check_total.

(* silent iff the recorded hash is makepatchsum's digest *)
Theorem C18_accept_iff_equal : forall (H : str -> str) (s d : str),
  check_patch_sha1 H (Some s) d = Silent <-> d = makepatchsum H s.
Proof. exact accept_iff_equal. Qed.
Print Assumptions C18_accept_iff_equal.

(* otherwise a mismatch is reported, naming makepatchsum's digest as the replacement *)
Theorem C18_reject_reports_digest : forall (H : str -> str) (s d : str),
  d <> makepatchsum H s -> check_patch_sha1 H (Some s) d = Differs d (makepatchsum H s).
Proof. exact reject_reports_digest. Qed.
Print Assumptions C18_reject_reports_digest.

(* the fix: what it writes is that digest, the digest is accepted afterwards, and
   Replace changes nothing else: either the texts stay as they are, or exactly
   one occurrence of the stale hash in one text is replaced *)
Theorem C18_fix_then_accept : forall (H : str -> str) (s d h : str),
  check_patch_sha1 H (Some s) d = Differs d h ->
  h = makepatchsum H s /\ check_patch_sha1 H (Some s) h = Silent /\
  forall texts,
    fix_distinfo_line texts (Differs d h) = texts \/
    exists before pre post after,
      texts = before ++ (pre ++ d ++ post) :: after /\
      fix_distinfo_line texts (Differs d h) = before ++ (pre ++ h ++ post) :: after.
Proof. exact fix_then_accept. Qed.
Print Assumptions C18_fix_then_accept.

(* "the fix always writes the digest" is false of the code: Replace refuses when
   the stale hash occurs twice in the line *)
Definition C18_fix_always_full : Prop :=
  forall (H : str -> str) s d h pre post,
    check_patch_sha1 H (Some s) d = Differs d h ->
    fix_distinfo_line [pre ++ d ++ post] (Differs d h) = [pre ++ h ++ post].

Theorem C18_fix_always_refuted : ~ C18_fix_always_full.
Proof. exact fix_always_refuted. Qed.
Print Assumptions C18_fix_always_refuted.

(* with the Replace precondition spelled out (counted once, first = last
   occurrence) the line becomes pre ++ digest ++ post and is accepted *)
Theorem C18_fix_always_partial : forall (H : str -> str) (s d h t : str) (i : nat),
  check_patch_sha1 H (Some s) d = Differs d h ->
  str_count t d = 1 -> str_index t d = Some i -> str_last_index t d = Some i ->
  exists pre post, t = pre ++ d ++ post /\ length pre = i /\
    fix_distinfo_line [t] (Differs d h) = [pre ++ h ++ post] /\
    check_patch_sha1 H (Some s) h = Silent.
Proof. exact fix_then_accept_partial. Qed.
Print Assumptions C18_fix_always_partial.

(* Package.AutofixDistinfo(old, new) runs after a patch file was rewritten by -F.
   "It only rewrites the entry of that patch (line i)" is false of the code: every
   distinfo line that records the same hash is rewritten, also the correct entry
   of another patch with the same digest *)
Definition C18_autofix_distinfo_full : Prop :=
  forall lines old new (i j : nat) texts, j <> i ->
    nth_error lines j = Some texts -> nth_error (autofix_distinfo lines old new) j = Some texts.

Theorem C18_autofix_distinfo_refuted : ~ C18_autofix_distinfo_full.
Proof. exact autofix_distinfo_refuted. Qed.
Print Assumptions C18_autofix_distinfo_refuted.

(* guard: a line in which the old hash is not counted exactly once is left alone *)
Theorem C18_autofix_distinfo_partial : forall lines old new (j : nat) texts,
  nth_error lines j = Some texts ->
  fold_left (fun n t => n + str_count t old) texts 0 <> 1 ->
  nth_error (autofix_distinfo lines old new) j = Some texts.
Proof. exact autofix_distinfo_partial. Qed.
Print Assumptions C18_autofix_distinfo_partial.

(* ---- non-vacuity ----------------------------------------------------------- *)

(* "a\n$NetBSD: x $\r\nb" with H = identity: the tagged CRLF line goes, the
   unterminated tail stays *)
Definition ex_patch : str := [97;10; 36;78;101;116;66;83;68;58;32;120;32;36;13;10; 98].
Example C18_witness_filter : makepatchsum_filter ex_patch = [97;10;98].
Proof. vm_compute. reflexivity. Qed.

Example C18_witness_check :
  check_patch_sha1 (fun x => x) (Some ex_patch) [97;10;98] = Silent /\
  check_patch_sha1 (fun x => x) (Some ex_patch) [48] = Differs [48] [97;10;98].
Proof. split; vm_compute; reflexivity. Qed.

(* the hypotheses of the partial theorem are satisfiable: "SHA1 (patch-aa) = 0\n" *)
Definition ex_entry : str := [83;72;65;49;32;40;112;97;116;99;104;45;97;97;41;32;61;32;48;10].
Example C18_witness_fix :
  str_count ex_entry [48] = 1 /\ str_index ex_entry [48] = Some 18%nat /\
  str_last_index ex_entry [48] = Some 18%nat /\
  fix_distinfo_line [ex_entry] (Differs [48] [49;50]) =
    [[83;72;65;49;32;40;112;97;116;99;104;45;97;97;41;32;61;32;49;50;10]].
Proof. repeat split; vm_compute; reflexivity. Qed.
