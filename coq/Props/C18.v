(* C18 -- distinfo patch checksums are judged exactly as pkgsrc computes them.
   Only statements; every proof is `exact <lemma>`.
   Model: Model/PatchSum.v (distinfo.go computePatchSha1Hex / checkPatchSha1,
   autofix.go Replace), on top of Model/Lines.v.  Spec: Spec/PatchSumSpec.v.
   H is the hash (SHA-1 as lower-case hex); every theorem holds for every H. *)
From PV Require Import Lib.Bytes Model.Lines Model.PatchSum Spec.PatchSumSpec Proofs.PatchSum.
Open Scope N_scope.

(* the bytes pkglint hashes are, for every file content, the file with every line
   containing "$NetBSD" removed and all other bytes verbatim (uses C09) *)
Theorem C18_digest_input_exact : forall (s : str) (mk : bool) ls e,
  convert_to_logical_lines s mk = Ok (ls, e) -> hashed_bytes ls = makepatchsum_filter s.
Proof. exact digest_input_exact. Qed.
Print Assumptions C18_digest_input_exact.

(* checkPatchSha1 never fails to load a readable file *)
Theorem C18_check_total : forall (H : str -> str) p d, check_patch_sha1 H p d <> LoadPanic.
Proof. exact check_total. Qed.
Print Assumptions C18_check_total.

(* silent iff the recorded hash is makepatchsum's digest *)
Theorem C18_accept_iff_equal : forall (H : str -> str) (s d : str),
  check_patch_sha1 H (Some s) d = Silent <-> d = makepatchsum H s.
Proof. exact accept_iff_equal. Qed.
Print Assumptions C18_accept_iff_equal.

(* otherwise a mismatch is reported, naming makepatchsum's digest as the replacement *)
Theorem C18_reject_reports_digest : forall (H : str -> str) (s d : str),
  d <> makepatchsum H s -> check_patch_sha1 H (Some s) d = Differs d (makepatchsum H s).
Proof. exact reject_reports_digest. Qed.
Print Assumptions C18_reject_reports_digest.

(* the fix (ReplaceAfter(") = ", old, new)): what it writes is that digest, the digest
   is accepted afterwards, and nothing else changes: either the texts stay as they
   are, or exactly one occurrence of ") = " ++ stale hash in one text is replaced *)
Theorem C18_fix_then_accept : forall (H : str -> str) (s d h : str),
  check_patch_sha1 H (Some s) d = Differs d h ->
  h = makepatchsum H s /\ check_patch_sha1 H (Some s) h = Silent /\
  forall texts,
    fix_distinfo_line texts (Differs d h) = texts \/
    exists before pre post after,
      texts = before ++ (pre ++ (entry_sep ++ d) ++ post) :: after /\
      fix_distinfo_line texts (Differs d h) = before ++ (pre ++ (entry_sep ++ h) ++ post) :: after.
Proof. exact fix_then_accept. Qed.
Print Assumptions C18_fix_then_accept.

(* the full statement, true since the repair of checkPatchSha1: for every entry
   line SHA1 (name) = d LF of the distinfo grammar (no ")" in the name, no blank in
   the hash) with a wrong hash d, the fix turns the line into SHA1 (name) = digest LF
   and the entry is accepted afterwards -- whatever else the line contains, e.g. the
   stale hash inside the file name *)
Theorem C18_fix_always : forall (H : str -> str) (s d h name : str),
  name_ok name = true -> hash_ok d = true ->
  check_patch_sha1 H (Some s) d = Differs d h ->
  fix_distinfo_line [entry_line name d] (Differs d h) = [entry_line name h] /\
  h = makepatchsum H s /\ check_patch_sha1 H (Some s) h = Silent.
Proof. exact fix_always. Qed.
Print Assumptions C18_fix_always.

(* Package.AutofixDistinfo(old, new) runs after a patch file was rewritten by -F.
   Since its repair the entry of a patch whose own digest is not the new one is
   never touched: a correct entry of another patch with the same old digest stays
   correct *)
Theorem C18_autofix_distinfo_keeps : forall lines old new (j : nat) texts other,
  nth_error lines j = Some (texts, Some other) -> other <> new ->
  nth_error (autofix_distinfo lines old new) j = Some texts.
Proof. exact autofix_distinfo_keeps. Qed.
Print Assumptions C18_autofix_distinfo_keeps.

(* and any line in which the old hash is not counted exactly once is left alone *)
Theorem C18_autofix_distinfo_partial : forall lines old new (j : nat) l,
  nth_error lines j = Some l ->
  fold_left (fun n t => n + str_count t old) (fst l) 0 <> 1 ->
  nth_error (autofix_distinfo lines old new) j = Some (fst l).
Proof. exact autofix_distinfo_partial. Qed.
Print Assumptions C18_autofix_distinfo_partial.

(* ---- non-vacuity ----------------------------------------------------------- *)

(* "a\n$NetBSD: x $\r\nb" with H = identity: the tagged CRLF line goes, the
   unterminated tail stays *)
Definition ex_patch : str := [97;10; 36;78;101;116;66;83;68;58;32;120;32;36;13;10; 98].
Example C18_witness_filter : makepatchsum_filter ex_patch = [97;10;98].
Proof. vm_compute. reflexivity. Qed.

Example C18_witness_check :
  check_patch_sha1 (fun x => x) (Some ex_patch) [97;10;98] = Silent /\
  check_patch_sha1 (fun x => x) (Some ex_patch) [48] = Differs [48] [97;10;98].
Proof. split; vm_compute; reflexivity. Qed.

(* the former counter-example: SHA1 (patch-0) = 0 -- the stale hash also occurs in the
   file name; the fix now writes the digest *)
Example C18_witness_fix :
  name_ok [112;97;116;99;104;45;48] = true /\ hash_ok [48] = true /\
  fix_distinfo_line [entry_line [112;97;116;99;104;45;48] [48]] (Differs [48] [49;50]) =
    [entry_line [112;97;116;99;104;45;48] [49;50]].
Proof. repeat split; vm_compute; reflexivity. Qed.

(* the former twin counter-example: patch-aa was rewritten (its digest is now 1),
   patch-ab still has digest 0: only the first entry follows *)
Definition twin_aa : str := entry_line [112;97;116;99;104;45;97;97] [48].
Definition twin_ab : str := entry_line [112;97;116;99;104;45;97;98] [48].
Example C18_witness_twin :
  autofix_distinfo [([twin_aa], Some [49]); ([twin_ab], Some [48])] [48] [49]
  = [[entry_line [112;97;116;99;104;45;97;97] [49]]; [twin_ab]].
Proof. vm_compute. reflexivity. Qed.
