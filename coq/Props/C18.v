(* C18 -- distinfo patch checksums are judged exactly as pkgsrc computes them.
   Only statements; every proof is `exact <lemma>`.
   Model: Model/PatchSum.v (distinfo.go computePatchSha1Hex / checkPatchSha1,
   autofix.go Replace), on top of Model/Lines.v.  Spec: Spec/PatchSumSpec.v.
   H is the hash (SHA-1 as lower-case hex); every theorem holds for every H. *)
From PV Require Import Lib.Bytes Model.Lines Model.PatchSum Spec.PatchSumSpec Proofs.PatchSum Proofs.PatchSumCvs.
Open Scope N_scope.

(* the bytes pkglint hashes are, for every file content, the file with every line
   containing "$NetBSD" removed and all other bytes verbatim (uses C09) *)
Theorem C18_digest_input_exact : forall (s : str) (mk : bool) ls e,
  convert_to_logical_lines s mk = Ok (ls, e) -> hashed_bytes ls = makepatchsum_filter s.
Proof. exact digest_input_exact. Qed.
Print Assumptions C18_digest_input_exact.

(* checkPatchSha1 never fails to load a readable file *)
Theorem C18_check_total : forall (H : str -> str) p d, check_patch_sha1 H p d <> LoadPanic.
Proof. exact check_total. Qed.
Print Assumptions C18_check_total.

(* silent iff the recorded hash is makepatchsum's digest *)
Theorem C18_accept_iff_equal : forall (H : str -> str) (s d : str),
  check_patch_sha1 H (Some s) d = Silent <-> d = makepatchsum H s.
Proof. exact accept_iff_equal. Qed.
Print Assumptions C18_accept_iff_equal.

(* otherwise a mismatch is reported, naming makepatchsum's digest as the replacement *)
Theorem C18_reject_reports_digest : forall (H : str -> str) (s d : str),
  d <> makepatchsum H s -> check_patch_sha1 H (Some s) d = Differs d (makepatchsum H s).
Proof. exact reject_reports_digest. Qed.
Print Assumptions C18_reject_reports_digest.

(* the fix (ReplaceAfter(") = ", old, new)): what it writes is that digest, the digest
   is accepted afterwards, and nothing else changes: either the texts stay as they
   are, or exactly one occurrence of ") = " ++ stale hash in one text is replaced *)
Theorem C18_fix_then_accept : forall (H : str -> str) (s d h : str),
  check_patch_sha1 H (Some s) d = Differs d h ->
  h = makepatchsum H s /\ check_patch_sha1 H (Some s) h = Silent /\
  forall texts,
    fix_distinfo_line texts (Differs d h) = texts \/
    exists before pre post after,
      texts = before ++ (pre ++ (entry_sep ++ d) ++ post) :: after /\
      fix_distinfo_line texts (Differs d h) = before ++ (pre ++ (entry_sep ++ h) ++ post) :: after.
Proof. exact fix_then_accept. Qed.
Print Assumptions C18_fix_then_accept.

(* the full statement, true since the repair of checkPatchSha1: for every entry
   line SHA1 (name) = d LF of the distinfo grammar (no ")" in the name, no blank in
   the hash) with a wrong hash d, the fix turns the line into SHA1 (name) = digest LF
   and the entry is accepted afterwards -- whatever else the line contains, e.g. the
   stale hash inside the file name *)
Theorem C18_fix_always : forall (H : str -> str) (s d h name : str),
  name_ok name = true -> hash_ok d = true ->
  check_patch_sha1 H (Some s) d = Differs d h ->
  fix_distinfo_line [entry_line name d] (Differs d h) = [entry_line name h] /\
  h = makepatchsum H s /\ check_patch_sha1 H (Some s) h = Silent.
Proof. exact fix_always. Qed.
Print Assumptions C18_fix_always.

(* Package.AutofixDistinfo(old, new) runs after a patch file was rewritten by -F.
   Since its repair the entry of a patch whose own digest is not the new one is
   never touched: a correct entry of another patch with the same old digest stays
   correct *)
Theorem C18_autofix_distinfo_keeps : forall lines old new (j : nat) texts other,
  nth_error lines j = Some (texts, Some other) -> other <> new ->
  nth_error (autofix_distinfo lines old new) j = Some texts.
Proof. exact autofix_distinfo_keeps. Qed.
Print Assumptions C18_autofix_distinfo_keeps.

(* and any line in which the old hash is not counted exactly once is left alone *)
Theorem C18_autofix_distinfo_partial : forall lines old new (j : nat) l,
  nth_error lines j = Some l ->
  fold_left (fun n t => n + str_count t old) (fst l) 0 <> 1 ->
  nth_error (autofix_distinfo lines old new) j = Some (fst l).
Proof. exact autofix_distinfo_partial. Qed.
Print Assumptions C18_autofix_distinfo_partial.

(* ---- the CVS gate (checkUncommittedPatch in front of checkPatchSha1) ---------
   pkg / pd: the CVS/Entries and CVS/Entries.Log bytes (or their absence) of the
   package directory and of the patches directory; name: the patch's base name. *)

(* the gate never fails: loading the CVS files cannot panic *)
Theorem C18_gate_total : forall (H : str -> str) pkg pd name alg p d,
  exists w v, check_entry_cvs H pkg pd name alg p d = Ok (w, v).
Proof. exact gate_total. Qed.
Print Assumptions C18_gate_total.

(* for a SHA1 line the verdict is exactly checkPatchSha1's, in every CVS state *)
Theorem C18_gate_verdict_is_check : forall (H : str -> str) pkg pd name p d,
  exists w, check_entry_cvs H pkg pd name sha1_name p d = Ok (w, Some (check_patch_sha1 H p d)).
Proof. exact gate_verdict_is_check. Qed.
Print Assumptions C18_gate_verdict_is_check.

(* the verdict is a function of (algorithm, patch bytes, recorded hash) only:
   any two CVS states give the same one *)
Theorem C18_verdict_independent_of_cvs : forall (H : str -> str) pkg1 pd1 pkg2 pd2 name alg p d,
  exists w1 w2 v,
    check_entry_cvs H pkg1 pd1 name alg p d = Ok (w1, v) /\
    check_entry_cvs H pkg2 pd2 name alg p d = Ok (w2, v).
Proof. exact verdict_independent_of_cvs. Qed.
Print Assumptions C18_verdict_independent_of_cvs.

(* silent about the hash iff it is makepatchsum's digest, for every CVS state *)
Theorem C18_accept_iff_equal_all_cvs : forall (H : str -> str) pkg pd name (s d : str),
  (exists w, check_entry_cvs H pkg pd name sha1_name (Some s) d = Ok (w, Some Silent))
  <-> d = makepatchsum H s.
Proof. exact accept_iff_equal_all_cvs. Qed.
Print Assumptions C18_accept_iff_equal_all_cvs.

(* and otherwise the mismatch is reported with makepatchsum's digest, for every CVS state *)
Theorem C18_reject_reports_digest_all_cvs : forall (H : str -> str) pkg pd name (s d : str),
  d <> makepatchsum H s ->
  exists w, check_entry_cvs H pkg pd name sha1_name (Some s) d
            = Ok (w, Some (Differs d (makepatchsum H s))).
Proof. exact reject_reports_digest_all_cvs. Qed.
Print Assumptions C18_reject_reports_digest_all_cvs.

(* the extra warning "registered in distinfo but not added to CVS" is emitted iff
   distinfo is committed and the patch is not *)
Theorem C18_uncommitted_warning_exact : forall (H : str -> str) pkg pd name alg p d w v,
  check_entry_cvs H pkg pd name alg p d = Ok (w, v) ->
  (w = true <-> is_committed pkg distinfo_name = Ok true /\ is_committed pd name = Ok false).
Proof. exact uncommitted_warning_exact. Qed.
Print Assumptions C18_uncommitted_warning_exact.

(* without a readable CVS/Entries nothing counts as committed (Entries.Log alone does not) *)
Theorem C18_no_entries_not_committed : forall l b, is_committed (mk_cvs_dir None l) b = Ok false.
Proof. exact is_committed_no_entries. Qed.
Print Assumptions C18_no_entries_not_committed.

(* ---- non-vacuity ----------------------------------------------------------- *)

(* "a\n$NetBSD: x $\r\nb" with H = identity: the tagged CRLF line goes, the
   unterminated tail stays *)
Definition ex_patch : str := [97;10; 36;78;101;116;66;83;68;58;32;120;32;36;13;10; 98].
Example C18_witness_filter : makepatchsum_filter ex_patch = [97;10;98].
Proof. vm_compute. reflexivity. Qed.

Example C18_witness_check :
  check_patch_sha1 (fun x => x) (Some ex_patch) [97;10;98] = Silent /\
  check_patch_sha1 (fun x => x) (Some ex_patch) [48] = Differs [48] [97;10;98].
Proof. split; vm_compute; reflexivity. Qed.

(* the former counter-example: SHA1 (patch-0) = 0 -- the stale hash also occurs in the
   file name; the fix now writes the digest *)
Example C18_witness_fix :
  name_ok [112;97;116;99;104;45;48] = true /\ hash_ok [48] = true /\
  fix_distinfo_line [entry_line [112;97;116;99;104;45;48] [48]] (Differs [48] [49;50]) =
    [entry_line [112;97;116;99;104;45;48] [49;50]].
Proof. repeat split; vm_compute; reflexivity. Qed.

(* the former twin counter-example: patch-aa was rewritten (its digest is now 1),
   patch-ab still has digest 0: only the first entry follows *)
Definition twin_aa : str := entry_line [112;97;116;99;104;45;97;97] [48].
Definition twin_ab : str := entry_line [112;97;116;99;104;45;97;98] [48].
Example C18_witness_twin :
  autofix_distinfo [([twin_aa], Some [49]); ([twin_ab], Some [48])] [48] [49]
  = [[entry_line [112;97;116;99;104;45;97;97] [49]]; [twin_ab]].
Proof. vm_compute. reflexivity. Qed.

(* CVS states: "/distinfo/1.1/modified//" lists distinfo; "/patch-other/1.1/x//" does not
   list patch-aa; Entries.Log "A /patch-aa/0/x//" adds it, a following "R /patch-aa/0/x//"
   removes it again; "D/patches////" and a 4-field line are skipped *)
Definition ex_distinfo_entry : str :=
  [47;100;105;115;116;105;110;102;111;47;49;46;49;47;109;111;100;105;102;105;101;100;47;47;10].
Definition ex_other_entry : str :=
  [47;112;97;116;99;104;45;111;116;104;101;114;47;49;46;49;47;120;47;47;10].
Definition ex_patch_aa : str := [112;97;116;99;104;45;97;97].
Definition ex_log_add : str := [65;32;47;112;97;116;99;104;45;97;97;47;48;47;120;47;47;10].
Definition ex_log_rm : str := [82;32;47;112;97;116;99;104;45;97;97;47;48;47;120;47;47;10].
Definition ex_dir_entry : str := [68;47;112;97;116;99;104;45;97;97;47;47;47;47;10].
Definition ex_short_entry : str := [47;112;97;116;99;104;45;97;97;47;49;47;10].
Example C18_witness_cvs :
  is_committed (mk_cvs_dir (Some ex_distinfo_entry) None) distinfo_name = Ok true /\
  is_committed (mk_cvs_dir (Some ex_other_entry) None) ex_patch_aa = Ok false /\
  is_committed (mk_cvs_dir (Some ex_other_entry) (Some ex_log_add)) ex_patch_aa = Ok true /\
  is_committed (mk_cvs_dir (Some ex_other_entry) (Some (ex_log_add ++ ex_log_rm))) ex_patch_aa = Ok false /\
  is_committed (mk_cvs_dir None (Some ex_log_add)) ex_patch_aa = Ok false /\
  is_committed (mk_cvs_dir (Some (ex_dir_entry ++ ex_short_entry)) None) ex_patch_aa = Ok false.
Proof. repeat split; vm_compute; reflexivity. Qed.

(* the warning is emitted and the wrong hash is still reported; with the patch added
   through Entries.Log only the hash verdict remains *)
Example C18_witness_gate :
  check_entry_cvs (fun x => x) (mk_cvs_dir (Some ex_distinfo_entry) None) (mk_cvs_dir (Some ex_other_entry) None)
    ex_patch_aa sha1_name (Some ex_patch) [48] = Ok (true, Some (Differs [48] [97;10;98])) /\
  check_entry_cvs (fun x => x) (mk_cvs_dir (Some ex_distinfo_entry) None) (mk_cvs_dir (Some ex_other_entry) (Some ex_log_add))
    ex_patch_aa sha1_name (Some ex_patch) [48] = Ok (false, Some (Differs [48] [97;10;98])) /\
  check_entry_cvs (fun x => x) (mk_cvs_dir (Some ex_distinfo_entry) None) (mk_cvs_dir None None)
    ex_patch_aa sha1_name (Some ex_patch) [97;10;98] = Ok (true, Some Silent).
Proof. repeat split; vm_compute; reflexivity. Qed.
