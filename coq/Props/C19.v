(* C19 -- Relative paths in diagnostics and lookups resolve to the file they mean.
   Only statements; every proof is `exact <lemma>`.
   Model: Model/Paths.v (path.go, Pkglint.Abs, Pkgsrc.Relpath, Line.Rel as they are after
   the fix: commits 514c6db, 9dfe426 and the four repairs of CleanDot/CleanPath,
   HasPrefixPath, ContainsPath, HasSuffixPath).  Specification: Spec/PathDenote.v. *)
From PV Require Import Lib.Bytes Model.Paths Spec.PathDenote Proofs.PathsBase Proofs.PathsClean
  Proofs.PathsPrefix Proofs.PathsContains Proofs.PathsSuffix Proofs.PathsRelpath Proofs.PathsRefute
  Proofs.PathsProps.
Open Scope N_scope.

(* ---------- cleaning a path never changes the file it denotes ---------- *)
(* all byte strings, all working directories *)

(* Path.Clean (Go's path.Clean) *)
Theorem C19_clean_denotes : forall cwd p : str, denote cwd (clean p) = denote cwd p.
Proof. exact clean_denotes. Qed.
Print Assumptions C19_clean_denotes.

(* Path.CleanDot (a spelling of the root such as "/." becomes "/") *)
Theorem C19_clean_dot_denotes : forall cwd p : str, denote cwd (clean_dot p) = denote cwd p.
Proof. exact clean_dot_denotes. Qed.
Print Assumptions C19_clean_dot_denotes.

(* Path.CleanPath *)
Theorem C19_clean_path_denotes : forall cwd p : str, denote cwd (clean_path p) = denote cwd p.
Proof. exact clean_path_denotes. Qed.
Print Assumptions C19_clean_path_denotes.

(* ---------- the component-wise tests agree with comparing component lists ---------- *)
(* For non-empty paths: the empty path denotes nothing; the test suite fixes
   "x".HasPrefixPath("") = false and "".HasPrefixPath("") = true.
   Paths may contain any redundant "/", "./", "/." -- no canonical form is assumed. *)

Theorem C19_prefix_is_parts_prefix : forall p q : str,
  p <> [] -> q <> [] ->
  (components q = [] -> is_abs p = rooted p) -> (* for q = ".", "./", ...: p has no Windows drive prefix "X:/" *)
  has_prefix_path p q = path_prefixb q p.
Proof. exact prefix_is_parts_prefix_all. Qed.
Print Assumptions C19_prefix_is_parts_prefix.

Theorem C19_contains_is_parts_infix : forall p sub : str,
  p <> [] -> sub <> [] ->
  (components sub = [] -> ~ In colon p) ->      (* for sub = ".", "./", ...: no ':' in p (same drive rule) *)
  contains_path p sub = path_infixb sub p.
Proof. exact contains_is_parts_infix_all. Qed.
Print Assumptions C19_contains_is_parts_infix.

(* "It doesn't really make sense to ask whether a path ends with the current directory"
   (path_test.go, which fixes "dir".HasSuffixPath(".") = false): the suffix has a component *)
Theorem C19_suffix_is_parts_suffix : forall p suffix : str,
  p <> [] -> suffix <> [] -> components suffix <> [] ->
  has_suffix_path p suffix = path_suffixb suffix p.
Proof. exact suffix_is_parts_suffix_all. Qed.
Print Assumptions C19_suffix_is_parts_suffix.

(* ---------- Pkgsrc.Relpath ---------- *)
(* From every directory inside the pkgsrc tree to every location, inside or outside:
   Relpath does not panic, and from/Relpath(from, to) denotes what `to` denotes.
   cwd = G.cwd (absolute), topdir = the pkgsrc root as given (relative or absolute).
   All seven branches of Relpath are covered. *)
Definition C19_relpath_denotes_full : Prop :=
  forall cwd topdir from to : str,
  rooted cwd = true -> from <> [] -> inside cwd topdir from = true ->
  exists r, relpath cwd topdir from to = Ok r /\ denote cwd (join_path from r) = denote cwd to.
Theorem C19_relpath_denotes_refuted : ~ C19_relpath_denotes_full.
Proof. exact relpath_denotes_refuted. Qed.     (* Relpath("a", "a/c:/x"): NewRelPath("c:/x") panics *)
Print Assumptions C19_relpath_denotes_refuted.
Theorem C19_relpath_denotes_partial : forall cwd topdir from to : str,
  rooted cwd = true ->
  ~ In colon cwd -> ~ In colon topdir -> ~ In colon from -> ~ In colon to ->  (* no ':' anywhere *)
  from <> [] ->
  inside cwd topdir from = true ->
  exists r, relpath cwd topdir from to = Ok r /\ denote cwd (join_path from r) = denote cwd to.
Proof. exact relpath_denotes_partial. Qed.
Print Assumptions C19_relpath_denotes_partial.

(* the shortcut `cfrom == "." && !cto.IsAbs()` is dead code: the HasPrefixPath shortcut takes those pairs *)
Theorem C19_relpath_branch4_dead : forall cwd topdir from to : str,
  fst (relpath_b cwd topdir from to) <> 4%nat.
Proof. exact relpath_branch4_dead. Qed.
Print Assumptions C19_relpath_branch4_dead.

(* Line.Rel (line.go): the path printed in a diagnostic leads from the directory of the
   line's file to the file that is meant *)
Theorem C19_line_rel_denotes : forall cwd topdir filename other : str,
  rooted cwd = true ->
  ~ In colon cwd -> ~ In colon topdir -> ~ In colon (dir filename) -> ~ In colon other ->
  inside cwd topdir (dir filename) = true ->
  exists r, line_rel cwd topdir filename other = Ok r
            /\ denote cwd (join_path (dir filename) r) = denote cwd other.
Proof. exact line_rel_denotes. Qed.
Print Assumptions C19_line_rel_denotes.

(* ---------- the hypotheses are satisfiable, the verdicts non-trivial ---------- *)
Definition ex_cwd : str := [47; 120; 47; 99; 97; 116; 47; 112; 107; 103].          (* "/x/cat/pkg" *)
Definition ex_top : str := [46; 46; 47; 46; 46].                                   (* "../.."      *)
Definition ex_from : str := [46].                                                  (* "."          *)
Definition ex_to : str := [46; 46; 47; 46; 46; 47; 109; 107; 47; 97; 46; 109; 107]. (* "../../mk/a.mk" *)
Example C19_relpath_witness :
  inside ex_cwd ex_top ex_from = true /\
  relpath ex_cwd ex_top ex_from ex_to = Ok ex_to /\
  denote ex_cwd ex_to = [[120]; [109; 107]; [97; 46; 109; 107]].
Proof. repeat split; vm_compute; reflexivity. Qed.

(* 8-10 of DESIGN.md, on the repaired code: Relpath("/x", ".") from /x/cat/pkg is "cat/pkg" *)
Example C19_relpath_absolute_from :
  relpath ex_cwd ex_top [47; 120] [46] = Ok [99; 97; 116; 47; 112; 107; 103].
Proof. vm_compute; reflexivity. Qed.

(* 8-9 of DESIGN.md, on the repaired code *)
Example C19_prefix_trailing_slash :
  has_prefix_path [97; 47; 98] [97; 47] = true /\ has_prefix_path [47; 97] [47] = true.
Proof. split; vm_compute; reflexivity. Qed.

(* the repaired cases *)
Example C19_repaired :
  clean_dot [47; 46] = [47] /\ clean_path [47] = [47] /\                        (* "/." -> "/", "/" -> "/" *)
  has_prefix_path [97] [46; 47] = true /\                                       (* "a" has prefix "./" *)
  contains_path [97; 47; 98] [98; 47] = true /\                                 (* "a/b" contains "b/" *)
  contains_path [97; 47; 47; 98] [47; 98] = false /\                            (* "a//b" does not contain "/b" *)
  has_suffix_path [97; 47; 98; 47] [98] = true /\                               (* "a/b/" ends with "b" *)
  has_suffix_path [120; 47; 47; 97] [47; 97] = false.                           (* "x//a" does not end with "/a" *)
Proof. repeat split; vm_compute; reflexivity. Qed.
