(* C19 -- placeholder while the proofs are being written *)
From PV Require Import Lib.Bytes Model.Paths Spec.PathDenote.
