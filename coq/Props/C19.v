(* C19 -- Relative paths in diagnostics and lookups resolve to the file they mean.
   Only statements; every proof is `exact <lemma>`.
   Model: Model/Paths.v (path.go, Pkglint.Abs, Pkgsrc.Relpath, Line.Rel as they are after
   the fix: commits 514c6db and 9dfe426).  Specification: Spec/PathDenote.v. *)
From PV Require Import Lib.Bytes Model.Paths Spec.PathDenote Proofs.PathsBase Proofs.PathsClean
  Proofs.PathsPrefix Proofs.PathsContains Proofs.PathsSuffix Proofs.PathsRelpath Proofs.PathsRefute
  Proofs.PathsProps.
Open Scope N_scope.

(* ---------- cleaning a path never changes the file it denotes ---------- *)

(* Path.Clean (Go's path.Clean): all byte strings, all working directories *)
Theorem C19_clean_denotes : forall cwd p : str, denote cwd (clean p) = denote cwd p.
Proof. exact clean_denotes. Qed.
Print Assumptions C19_clean_denotes.

(* Path.CleanDot: false for the paths that denote the root and are not written "/"
   ("/.", "//", ...): the result is the empty path *)
Definition C19_clean_dot_denotes_full : Prop :=
  forall cwd p : str, denote cwd (clean_dot p) = denote cwd p.
Theorem C19_clean_dot_denotes_refuted : ~ C19_clean_dot_denotes_full.
Proof. exact clean_dot_denotes_refuted. Qed.
Print Assumptions C19_clean_dot_denotes_refuted.
Theorem C19_clean_dot_denotes_partial : forall cwd p : str,
  components p <> [[]] ->                      (* p is not a spelling of the root directory *)
  denote cwd (clean_dot p) = denote cwd p.
Proof. exact clean_dot_denotes_partial. Qed.
Print Assumptions C19_clean_dot_denotes_partial.

(* Path.CleanPath: the same, and here "/" itself goes wrong too *)
Definition C19_clean_path_denotes_full : Prop :=
  forall cwd p : str, denote cwd (clean_path p) = denote cwd p.
Theorem C19_clean_path_denotes_refuted : ~ C19_clean_path_denotes_full.
Proof. exact clean_path_denotes_refuted. Qed.
Print Assumptions C19_clean_path_denotes_refuted.
Theorem C19_clean_path_denotes_partial : forall cwd p : str,
  components p <> [[]] ->
  denote cwd (clean_path p) = denote cwd p.
Proof. exact clean_path_denotes_partial. Qed.
Print Assumptions C19_clean_path_denotes_partial.

(* ---------- the component-wise tests agree with comparing component lists ---------- *)
(* (for non-empty paths: the empty path denotes nothing; the test suite fixes
   "x".HasPrefixPath("") = false and "".HasPrefixPath("") = true) *)

Definition C19_prefix_is_parts_prefix_full : Prop :=
  forall p q : str, p <> [] -> q <> [] -> has_prefix_path p q = path_prefixb q p.
Theorem C19_prefix_is_parts_prefix_refuted : ~ C19_prefix_is_parts_prefix_full.
Proof. exact prefix_is_parts_prefix_refuted. Qed.          (* "a".HasPrefixPath("./") = false *)
Print Assumptions C19_prefix_is_parts_prefix_refuted.
Theorem C19_prefix_is_parts_prefix_partial : forall p q : str,
  p <> [] -> q <> [] ->
  (components q = [] -> q = dotstr) ->   (* a prefix without any name is the text ".", not "./" or "./." *)
  (q = dotstr -> is_abs p = rooted p) -> (* for q = ".": p has no Windows drive prefix "X:/" *)
  has_prefix_path p q = path_prefixb q p.
Proof. exact prefix_is_parts_prefix_partial. Qed.
Print Assumptions C19_prefix_is_parts_prefix_partial.

Definition C19_contains_is_parts_infix_full : Prop :=
  forall p sub : str, p <> [] -> sub <> [] -> contains_path p sub = path_infixb sub p.
Theorem C19_contains_is_parts_infix_refuted : ~ C19_contains_is_parts_infix_full.
Proof. exact contains_is_parts_infix_refuted. Qed.          (* "a/b".ContainsPath("b/") = false *)
Print Assumptions C19_contains_is_parts_infix_refuted.
Theorem C19_contains_is_parts_infix_partial : forall p sub : str,
  p <> [] ->
  canonical sub ->                        (* sub is written without redundant "/", "./", "/." *)
  (rooted sub = false \/ has_double_slash p = false) ->
  contains_path p sub = path_infixb sub p.
Proof. exact contains_is_parts_infix_partial. Qed.
Print Assumptions C19_contains_is_parts_infix_partial.

Definition C19_suffix_is_parts_suffix_full : Prop :=
  forall p suffix : str, p <> [] -> suffix <> [] -> has_suffix_path p suffix = path_suffixb suffix p.
Theorem C19_suffix_is_parts_suffix_refuted : ~ C19_suffix_is_parts_suffix_full.
Proof. exact suffix_is_parts_suffix_refuted. Qed.           (* "a/b/".HasSuffixPath("b") = false *)
Print Assumptions C19_suffix_is_parts_suffix_refuted.
Theorem C19_suffix_is_parts_suffix_partial : forall p suffix : str,
  canonical p -> canonical suffix -> suffix <> dotstr ->
  has_suffix_path p suffix = path_suffixb suffix p.
Proof. exact suffix_is_parts_suffix_partial. Qed.
Print Assumptions C19_suffix_is_parts_suffix_partial.

(* ---------- Pkgsrc.Relpath ---------- *)
(* From every directory inside the pkgsrc tree to every location, inside or outside:
   Relpath does not panic, and from/Relpath(from, to) denotes what `to` denotes.
   cwd = G.cwd (absolute), topdir = the pkgsrc root as given (relative or absolute).
   All seven branches of Relpath are covered. *)
Definition C19_relpath_denotes_full : Prop :=
  forall cwd topdir from to : str,
  rooted cwd = true -> from <> [] -> inside cwd topdir from = true ->
  exists r, relpath cwd topdir from to = Ok r /\ denote cwd (join_path from r) = denote cwd to.
Theorem C19_relpath_denotes_refuted : ~ C19_relpath_denotes_full.
Proof. exact relpath_denotes_refuted. Qed.     (* Relpath("a", "a/c:/x"): NewRelPath("c:/x") panics *)
Print Assumptions C19_relpath_denotes_refuted.
Theorem C19_relpath_denotes_partial : forall cwd topdir from to : str,
  rooted cwd = true ->
  ~ In colon cwd -> ~ In colon topdir -> ~ In colon from -> ~ In colon to ->  (* no ':' anywhere *)
  from <> [] ->
  inside cwd topdir from = true ->
  exists r, relpath cwd topdir from to = Ok r /\ denote cwd (join_path from r) = denote cwd to.
Proof. exact relpath_denotes_partial. Qed.
Print Assumptions C19_relpath_denotes_partial.

(* the shortcut `cfrom == "." && !cto.IsAbs()` is dead code: the HasPrefixPath shortcut takes those pairs *)
Theorem C19_relpath_branch4_dead : forall cwd topdir from to : str,
  fst (relpath_b cwd topdir from to) <> 4%nat.
Proof. exact relpath_branch4_dead. Qed.
Print Assumptions C19_relpath_branch4_dead.

(* Line.Rel (line.go): the path printed in a diagnostic leads from the directory of the
   line's file to the file that is meant *)
Theorem C19_line_rel_denotes : forall cwd topdir filename other : str,
  rooted cwd = true ->
  ~ In colon cwd -> ~ In colon topdir -> ~ In colon (dir filename) -> ~ In colon other ->
  inside cwd topdir (dir filename) = true ->
  exists r, line_rel cwd topdir filename other = Ok r
            /\ denote cwd (join_path (dir filename) r) = denote cwd other.
Proof. exact line_rel_denotes. Qed.
Print Assumptions C19_line_rel_denotes.

(* ---------- the hypotheses are satisfiable, the verdicts non-trivial ---------- *)
Definition ex_cwd : str := [47; 120; 47; 99; 97; 116; 47; 112; 107; 103].          (* "/x/cat/pkg" *)
Definition ex_top : str := [46; 46; 47; 46; 46].                                   (* "../.."      *)
Definition ex_from : str := [46].                                                  (* "."          *)
Definition ex_to : str := [46; 46; 47; 46; 46; 47; 109; 107; 47; 97; 46; 109; 107]. (* "../../mk/a.mk" *)
Example C19_relpath_witness :
  inside ex_cwd ex_top ex_from = true /\
  relpath ex_cwd ex_top ex_from ex_to = Ok ex_to /\
  denote ex_cwd ex_to = [[120]; [109; 107]; [97; 46; 109; 107]].
Proof. repeat split; vm_compute; reflexivity. Qed.

(* 8-10 of DESIGN.md, on the repaired code: Relpath("/x", ".") from /x/cat/pkg is "cat/pkg" *)
Example C19_relpath_absolute_from :
  relpath ex_cwd ex_top [47; 120] [46] = Ok [99; 97; 116; 47; 112; 107; 103].
Proof. vm_compute; reflexivity. Qed.

(* 8-9 of DESIGN.md, on the repaired code *)
Example C19_prefix_trailing_slash :
  has_prefix_path [97; 47; 98] [97; 47] = true /\ has_prefix_path [47; 97] [47] = true.
Proof. split; vm_compute; reflexivity. Qed.

Example C19_canonical_witness : canonical [97; 47; 98] /\ canonical [47] /\ canonical [46] /\ ~ canonical [97; 47].
Proof. repeat split; try (vm_compute; reflexivity). intro H. vm_compute in H. discriminate. Qed.
