(* C05 -- autofixed files are replaced atomically, even across crashes and I/O errors.
   Only statements; every proof is `exact <lemma>`.

   Model/FsProto.v   file system = map path -> (bytes, mode); system calls Open (O_WRONLY|O_CREAT|
                     O_TRUNC), Write, Close, Rename, Chmod, Unlink; the Go program: write_file
                     (os.WriteFile), save_one (loop body of SaveAutofixChanges), chmod_fix
                     (checkExecutable), run; prog_ops = its system calls when nothing fails.
   Spec/CrashSpec.v  atomic_at init prog cur: every path of `init` exists in `cur` and holds its old
                     content or one of the contents the run saves for it; crash_of ops t: t is a
                     prefix of ops, possibly followed by a partially performed write. *)
From PV Require Import Lib.Bytes Model.FsProto Spec.CrashSpec
  Proofs.FsProto Proofs.FsProtoFault Proofs.FsProtoVariants.
Open Scope N_scope.

(* ---- the full statement (any tree) is false of the faithful model ---- *)

Definition C05_crash_atomic_full : Prop :=
  forall (s : state) (prog : list action) (t : list op),
    crash_of (prog_ops prog) t -> atomic_at (st_fs s) prog (st_fs (exec t s)).

(* witness: the tree holds both `a` and `a.pkglint.tmp`; saving `a` truncates the latter *)
Theorem C05_crash_atomic_refuted : ~ C05_crash_atomic_full.
Proof. exact unguarded_refuted. Qed.
Print Assumptions C05_crash_atomic_refuted.

Definition C05_no_file_disappears_full : Prop :=
  forall (s : state) (prog : list action) (t : list op),
    crash_of (prog_ops prog) t -> no_file_lost (st_fs s) (st_fs (exec t s)).

(* same witness: after the complete run `a.pkglint.tmp` is gone *)
Theorem C05_no_file_disappears_refuted : ~ C05_no_file_disappears_full.
Proof. exact unguarded_no_file_disappears_refuted. Qed.
Print Assumptions C05_no_file_disappears_refuted.

(* ---- with the guard: no original file bears the name <saved file>.pkglint.tmp ---- *)

(* crash: for ALL lists of actions (saves of any files with any contents, mode fixes,
   saves conditional on the result of the previous save), ALL initial trees, and every
   crash point -- every prefix of the system calls, also with the next write only
   partially done -- every original path exists and holds its complete old content or
   one of the complete new contents.  Leftover *.pkglint.tmp files are allowed. *)
Theorem C05_crash_atomic_partial : forall (s : state) (prog : list action) (t : list op),
  tmp_free (st_fs s) prog ->
  crash_of (prog_ops prog) t ->
  atomic_at (st_fs s) prog (st_fs (exec t s)).
Proof. exact crash_atomic. Qed.
Print Assumptions C05_crash_atomic_partial.

Theorem C05_no_file_disappears_partial : forall (s : state) (prog : list action) (t : list op),
  tmp_free (st_fs s) prog ->
  crash_of (prog_ops prog) t ->
  no_file_lost (st_fs s) (st_fs (exec t s)).
Proof. exact no_file_disappears. Qed.
Print Assumptions C05_no_file_disappears_partial.

(* the operation list of the crash theorem is what the Go-like program really issues when
   nothing fails, and `exec` of it is the program's final state *)
Theorem C05_run_is_prog_ops : forall (s : state) (prog : list action),
  let w := run prog (init_world s None) in
  w_st w = exec (prog_ops prog) s /\ map fst (w_trace w) = prog_ops prog.
Proof. exact run_is_prog_ops. Qed.
Print Assumptions C05_run_is_prog_ops.

(* fault: the k-th system call of the run fails with any errno, a failing write after any
   number of bytes already accepted (short write).  The same old-or-new statement holds
   for the final tree, and if the call was reached at all, stderr carries an ERROR line. *)
Theorem C05_fault_atomic_partial : forall (s : state) (prog : list action) (k : nat) (fl : fault),
  tmp_free (st_fs s) prog ->
  let w := run prog (init_world s (Some (k, fl))) in
  atomic_at (st_fs s) prog (st_fs (w_st w)) /\
  ((k < w_count w)%nat -> w_stderr w <> []).
Proof. exact fault_atomic. Qed.
Print Assumptions C05_fault_atomic_partial.

(* the action during which the call fails leaves the content of every original file as
   it was before that action (the failed file keeps its old content), and the rest of
   the program then runs exactly as a program without any fault: later files are still
   processed *)
Theorem C05_fault_local_partial : forall (s : state) (pre post : list action) (a : action) (k : nat) (fl : fault),
  tmp_free (st_fs s) (pre ++ a :: post) ->
  let w1 := run pre (init_world s (Some (k, fl))) in
  let w2 := run_action w1 a in
  (w_count w1 <= k < w_count w2)%nat ->
  (forall p, orig (st_fs s) p -> content (st_fs (w_st w2)) p = content (st_fs (w_st w1)) p) /\
  clear_plan (run (pre ++ a :: post) (init_world s (Some (k, fl)))) = run post (clear_plan w2).
Proof. exact fault_local. Qed.
Print Assumptions C05_fault_local_partial.

(* "Clearing executable bits" is a single chmod: at every crash point the state is the one
   before or the one after it; the file keeps its content and has its old mode or the
   requested mode (mode &^ 0111), never anything else *)
Theorem C05_chmod_atomic : forall (s : state) (f : path) (mode : N) (t : list op),
  crash_of (prog_ops [AChmod f mode]) t ->
  (exec t s = s \/ exec t s = fst (step s (Chmod f (N.ldiff mode 73)))) /\
  mode_atomic_at (st_fs s) f (N.ldiff mode 73) (st_fs (exec t s)).
Proof. exact chmod_atomic. Qed.
Print Assumptions C05_chmod_atomic.

(* non-vacuity of the crash specification: truncate-and-write in place,
   remove-then-rename and copy-back each have a crash point at which the
   original file is neither old nor new (same guard as above) *)
Theorem C05_variants_refuted :
  ~ crash_atomic_for inplace_ops /\ ~ crash_atomic_for remove_rename_ops /\ ~ crash_atomic_for copyback_ops.
Proof. exact variants_refuted. Qed.
Print Assumptions C05_variants_refuted.

(* the boolean checker that the harness applies to snapshots of real, killed runs
   (first_bad / atomic_okb, extracted) implies the specification *)
Theorem C05_atomic_okb_sound : forall init prog cur,
  atomic_okb init prog cur = true -> atomic_at init prog cur.
Proof. exact atomic_okb_sound. Qed.
Print Assumptions C05_atomic_okb_sound.

(* ---- the hypotheses are satisfiable, the conclusions are not trivial ---- *)

Definition ex_mk : path := [77; 107].          (* "Mk" *)
Definition ex_pl : path := [80; 76].           (* "PL" *)
Definition ex_tree : state :=
  mkstate [(ex_mk, mkfile [111; 108; 100] 493); (ex_pl, mkfile [98; 10; 97; 10] 420)] [] 18.
Definition ex_prog : list action :=
  [AChmod ex_mk 493; ASave ex_mk [110; 101; 119]; ASave ex_pl [97; 10; 98; 10];
   AIfSaved false ex_pl [98; 10; 97; 10]; ASave ex_mk [110; 101; 119; 50]].

Example C05_guard_holds : tmp_freeb (st_fs ex_tree) ex_prog = true.
Proof. vm_compute. reflexivity. Qed.

(* nothing fails: 13 system calls, both files new, the temporary files are gone *)
Example C05_run_example :
  let w := run ex_prog (init_world ex_tree None) in
  length (prog_ops ex_prog) = 13%nat /\
  content (st_fs (w_st w)) ex_mk = Some [110; 101; 119; 50] /\
  content (st_fs (w_st w)) ex_pl = Some [97; 10; 98; 10] /\
  lookup (tmp_name ex_pl) (st_fs (w_st w)) = None /\ w_stderr w = [].
Proof. vm_compute. repeat split; reflexivity. Qed.

(* the write of PL's save (system call 6) accepts 2 bytes and then fails with ENOSPC:
   an ERROR line for PL.pkglint.tmp, the fallback save (AIfSaved false) runs, Mk is
   still saved afterwards; the partial temporary file is overwritten by the fallback *)
Example C05_fault_example :
  let w := run ex_prog (init_world ex_tree (Some (6%nat, mkfault 2 ENOSPC))) in
  w_stderr w = [(CannotWrite, tmp_name ex_pl)] /\
  content (st_fs (w_st w)) ex_pl = Some [98; 10; 97; 10] /\
  content (st_fs (w_st w)) ex_mk = Some [110; 101; 119; 50] /\
  w_count w = 16%nat.
Proof. vm_compute. repeat split; reflexivity. Qed.

(* a fault in the last save leaves the short-written temporary file behind, the
   original keeps the content of the earlier save *)
Example C05_fault_leftover :
  let w := run ex_prog (init_world ex_tree (Some (10%nat, mkfault 2 EIO))) in
  content (st_fs (w_st w)) (tmp_name ex_mk) = Some [110; 101] /\
  content (st_fs (w_st w)) ex_mk = Some [110; 101; 119].
Proof. vm_compute. repeat split; reflexivity. Qed.
