(* C05 -- autofixed files are replaced atomically, even across crashes and I/O errors.
   Only statements; every proof is `exact <lemma>`.

   The model follows SaveAutofixChanges after the three repairs (exclusive creation of
   the temporary file; mode of the original carried over; temporary file removed when the
   save fails).  With the exclusive open the former guard "no original file is named
   <saved file>.pkglint.tmp" is gone: the full statements hold.

   Model/FsProto.v   file system = map path -> (bytes, mode); system calls OpenExcl
                     (O_WRONLY|O_CREAT|O_EXCL), Write, Close, Chmod, Rename, Unlink (and Open
                     with O_TRUNC for the refuted variants); the Go program: save_one (loop body
                     of SaveAutofixChanges), chmod_fix (checkExecutable), run; prog_ops s prog =
                     its system calls from state s when no call is made to fail.
   Spec/CrashSpec.v  atomic_at init prog cur: every path of `init` exists in `cur` and holds its old
                     content or one of the contents the run saves for it; crash_of ops t: t is a
                     prefix of ops, possibly followed by a partially performed write. *)
From PV Require Import Lib.Bytes Model.FsProto Spec.CrashSpec
  Proofs.FsProto Proofs.FsProtoFault Proofs.FsProtoVariants Proofs.FsProtoForeign
  Model.FsLinks Proofs.FsLinks.
Open Scope N_scope.

(* crash: for ALL lists of actions (saves of any files with any contents, mode fixes,
   saves conditional on the result of the previous save), ALL initial trees -- also
   trees that contain files named *.pkglint.tmp -- and every crash point (every prefix
   of the system calls, also with the next write only partially done) every original
   path exists and holds its complete old content or one of the complete new contents. *)
Theorem C05_crash_atomic : forall (s : state) (prog : list action) (t : list op),
  crash_of (prog_ops s prog) t ->
  atomic_at (st_fs s) prog (st_fs (exec t s)).
Proof. exact crash_atomic. Qed.
Print Assumptions C05_crash_atomic.

Theorem C05_no_file_disappears : forall (s : state) (prog : list action) (t : list op),
  crash_of (prog_ops s prog) t ->
  no_file_lost (st_fs s) (st_fs (exec t s)).
Proof. exact no_file_disappears. Qed.
Print Assumptions C05_no_file_disappears.

(* the operation list of the crash theorem is what the Go-like program really issues when
   no call is made to fail, and `exec` of it is the program's final state *)
Theorem C05_run_is_prog_ops : forall (s : state) (prog : list action),
  let w := run prog (init_world s None) in
  w_st w = exec (prog_ops s prog) s /\ map fst (w_trace w) = prog_ops s prog.
Proof. exact run_is_prog_ops. Qed.
Print Assumptions C05_run_is_prog_ops.

(* fault: the k-th system call of the run fails with any errno, a failing write after any
   number of bytes already accepted (short write).  The same old-or-new statement holds
   for the final tree, and if the call was reached at all, stderr carries an ERROR line. *)
Theorem C05_fault_atomic : forall (s : state) (prog : list action) (k : nat) (fl : fault),
  let w := run prog (init_world s (Some (k, fl))) in
  atomic_at (st_fs s) prog (st_fs (w_st w)) /\
  ((k < w_count w)%nat -> w_stderr w <> []).
Proof. exact fault_atomic. Qed.
Print Assumptions C05_fault_atomic.

(* the action during which the call fails leaves the content of every original file as
   it was before that action (the failed file keeps its old content), and the rest of
   the program then runs exactly as a program without any fault: later files are still
   processed *)
Theorem C05_fault_local : forall (s : state) (pre post : list action) (a : action) (k : nat) (fl : fault),
  let w1 := run pre (init_world s (Some (k, fl))) in
  let w2 := run_action w1 a in
  (w_count w1 <= k < w_count w2)%nat ->
  (forall p, orig (st_fs s) p -> content (st_fs (w_st w2)) p = content (st_fs (w_st w1)) p) /\
  clear_plan (run (pre ++ a :: post) (init_world s (Some (k, fl)))) = run post (clear_plan w2).
Proof. exact fault_local. Qed.
Print Assumptions C05_fault_local.

(* a save, failed (any fault plan) or not, leaves no temporary file behind: if the
   temporary name was free before, it is free afterwards *)
Theorem C05_no_leftover_tmp : forall (f : path) (new : str) (w : world),
  lookup (tmp_name f) (st_fs (w_st w)) = None ->
  lookup (tmp_name f) (st_fs (w_st (save_one f new w))) = None.
Proof. exact failed_save_no_leftover. Qed.
Print Assumptions C05_no_leftover_tmp.

(* a complete save gives the new file the mode of the file it replaces *)
Theorem C05_save_preserves_mode : forall (s : state) (f : path) (new : str) (old : file),
  lookup (tmp_name f) (st_fs s) = None -> lookup f (st_fs s) = Some old ->
  let s' := exec (save_ops s f new) s in
  lookup f (st_fs s') = Some (mkfile KReg new (f_mode old)) /\ lookup (tmp_name f) (st_fs s') = None.
Proof. exact save_preserves_mode. Qed.
Print Assumptions C05_save_preserves_mode.

(* "Clearing executable bits" is a single chmod: at every crash point the state is the one
   before or the one after it; the file keeps its content and has its old mode or the
   requested mode (mode &^ 0111), never anything else *)
Theorem C05_chmod_atomic : forall (s : state) (f : path) (mode : N) (t : list op),
  crash_of (prog_ops s [AChmod f mode]) t ->
  (exec t s = s \/ exec t s = fst (step s (Chmod f (N.ldiff mode 73)))) /\
  mode_atomic_at (st_fs s) f (N.ldiff mode 73) (st_fs (exec t s)).
Proof. exact chmod_atomic. Qed.
Print Assumptions C05_chmod_atomic.

(* non-vacuity of the crash specification: truncate-and-write in place,
   remove-then-rename and copy-back each have a crash point at which the
   original file is neither old nor new (even when the temporary name is free) *)
Theorem C05_variants_refuted :
  ~ crash_atomic_for inplace_ops /\ ~ crash_atomic_for remove_rename_ops /\ ~ crash_atomic_for copyback_ops.
Proof. exact variants_refuted. Qed.
Print Assumptions C05_variants_refuted.

(* ... and the protocol before the repair (temporary file opened with O_TRUNC) violates
   the unguarded statement: tree {a, a.pkglint.tmp}, save a, crash after the open *)
Theorem C05_trunc_tmp_refuted : ~ trunc_tmp_crash_atomic.
Proof. exact trunc_tmp_refuted. Qed.
Print Assumptions C05_trunc_tmp_refuted.

(* the boolean checker that the harness applies to snapshots of real, killed runs
   (first_bad / atomic_okb, extracted) implies the specification *)
Theorem C05_atomic_okb_sound : forall init prog cur,
  atomic_okb init prog cur = true -> atomic_at init prog cur.
Proof. exact atomic_okb_sound. Qed.
Print Assumptions C05_atomic_okb_sound.

(* ---- entries that do not belong to the run (round 4) ----
   The initial tree is ANY finite map path -> (kind, bytes, mode): regular files (empty
   or not), directories, symbolic links, at any names -- also at F.pkglint.tmp for any
   of the saved files F.  [foreign prog p]: the run neither saves p nor fixes its mode. *)

(* crash: at EVERY crash point (any prefix of the system calls, the next write partially
   done) every foreign path has exactly the entry it had (kind, bytes, mode; or is absent
   as before), except a temporary name that was free when the run started.  In
   particular a pre-existing F.pkglint.tmp of any kind is there, unmodified. *)
Theorem C05_foreign_entries_untouched_crash : forall (s : state) (prog : list action) (t : list op),
  crash_of (prog_ops s prog) t ->
  foreign_untouched_crash prog (st_fs s) (st_fs (exec t s)).
Proof. exact foreign_untouched_at_crash. Qed.
Print Assumptions C05_foreign_entries_untouched_crash.

(* complete runs, with no fault or with ANY single failing system call (any k, any errno,
   any short-write length): every foreign path has exactly the entry it had -- no
   exception: no temporary file created by the run is left *)
Theorem C05_foreign_entries_untouched : forall (s : state) (prog : list action) (plan : option (nat * fault)),
  foreign_untouched prog (st_fs s) (st_fs (w_st (run prog (init_world s plan)))).
Proof. exact foreign_untouched_fault. Qed.
Print Assumptions C05_foreign_entries_untouched.

(* "no temporary file that this run created is left", for whole runs under any fault
   plan: a temporary name that was free before the run (and is not itself a file the
   run saves) is free after it.  (C05_no_leftover_tmp is the same for one save.) *)
Theorem C05_no_created_tmp_left : forall (s : state) (prog : list action) (plan : option (nat * fault)) (f : path),
  ~ In (tmp_name f) (saved_paths prog) ->
  lookup (tmp_name f) (st_fs s) = None ->
  lookup (tmp_name f) (st_fs (w_st (run prog (init_world s plan)))) = None.
Proof. exact no_created_tmp_left. Qed.
Print Assumptions C05_no_created_tmp_left.

(* an entry of ANY kind at F.pkglint.tmp: the save of F is refused -- the whole file
   system is as before (F old, the entry untouched), stderr gets the ERROR line
   "Cannot write" naming F.pkglint.tmp, SaveAutofixChanges reports false -- whatever
   the fault plan *)
Theorem C05_taken_tmp_refused : forall (f : path) (new : str) (w : world) (e : file),
  lookup (tmp_name f) (st_fs (w_st w)) = Some e ->
  let w' := save_one f new w in
  w_st w' = w_st w /\ w_stderr w' = w_stderr w ++ [(CannotWrite, tmp_name f)] /\ w_saved w' = false.
Proof. exact taken_tmp_refused. Qed.
Print Assumptions C05_taken_tmp_refused.

(* the boolean checker the harness applies to snapshots of real runs (complete runs,
   killed runs, runs with an injected errno) implies the two statements above *)
Theorem C05_foreign_bad_sound : forall complete init prog cur,
  foreign_bad complete init prog cur = None ->
  forall p, foreign prog p ->
    (complete = true \/ lookup p init <> None \/ ~ In p (run_tmps prog)) ->
    lookup p cur = lookup p init.
Proof. exact foreign_bad_sound. Qed.
Print Assumptions C05_foreign_bad_sound.

(* ---- the conclusions are not trivial ---- *)

Definition ex_mk : path := [77; 107].          (* "Mk" *)
Definition ex_pl : path := [80; 76].           (* "PL" *)
Definition ex_tree : state :=
  mkstate [(ex_mk, mkfile KReg [111; 108; 100] 493); (ex_pl, mkfile KReg [98; 10; 97; 10] 384)] [] 18.
Definition ex_prog : list action :=
  [AChmod ex_mk 493; ASave ex_mk [110; 101; 119]; ASave ex_pl [97; 10; 98; 10];
   AIfSaved false ex_pl [98; 10; 97; 10]; ASave ex_mk [110; 101; 119; 50]].

(* nothing fails: 1 + 3*5 system calls, both files new, modes kept (0644 after the
   mode fix, 0600), no temporary file *)
Example C05_run_example :
  let w := run ex_prog (init_world ex_tree None) in
  length (prog_ops ex_tree ex_prog) = 16%nat /\
  lookup ex_mk (st_fs (w_st w)) = Some (mkfile KReg [110; 101; 119; 50] 420) /\
  lookup ex_pl (st_fs (w_st w)) = Some (mkfile KReg [97; 10; 98; 10] 384) /\
  lookup (tmp_name ex_pl) (st_fs (w_st w)) = None /\ w_stderr w = [].
Proof. vm_compute. repeat split; reflexivity. Qed.

(* the write of PL's save (system call 7) accepts 2 bytes and then fails with ENOSPC:
   close, ERROR line, unlink; the fallback save (AIfSaved false) runs, Mk is still
   saved afterwards *)
Example C05_fault_example :
  let w := run ex_prog (init_world ex_tree (Some (7%nat, mkfault 2 ENOSPC))) in
  w_stderr w = [(CannotWrite, tmp_name ex_pl)] /\
  content (st_fs (w_st w)) ex_pl = Some [98; 10; 97; 10] /\
  content (st_fs (w_st w)) ex_mk = Some [110; 101; 119; 50] /\
  lookup (tmp_name ex_pl) (st_fs (w_st w)) = None.
Proof. vm_compute. repeat split; reflexivity. Qed.

(* a tree that contains PL.pkglint.tmp: the save of PL is refused with an ERROR line,
   both files keep their content *)
Definition ex_tree2 : state :=
  mkstate [(ex_pl, mkfile KReg [98; 10; 97; 10] 420); (tmp_name ex_pl, mkfile KReg [120] 420)] [] 18.
Example C05_taken_example :
  let w := run [ASave ex_pl [97; 10; 98; 10]] (init_world ex_tree2 None) in
  w_st w = ex_tree2 /\ w_stderr w = [(CannotWrite, tmp_name ex_pl)] /\ w_saved w = false.
Proof. vm_compute. repeat split; reflexivity. Qed.

(* every kind of entry at the temporary names: an empty regular file at Mk.pkglint.tmp,
   a directory at PL.pkglint.tmp; a symbolic link elsewhere.  Both saves are refused, the
   mode fix is done, every entry but Mk's mode is as before *)
Definition ex_lnk : path := [76].
Definition ex_tree3 : state :=
  mkstate [(ex_mk, mkfile KReg [111; 108; 100] 493); (ex_pl, mkfile KReg [98; 10; 97; 10] 384);
           (tmp_name ex_mk, mkfile KReg [] 420); (tmp_name ex_pl, mkfile KDir [] 493);
           (ex_lnk, mkfile KSymlink [47; 120] 511)] [] 18.
Example C05_kinds_example :
  let w := run ex_prog (init_world ex_tree3 None) in
  is_foreignb ex_prog (tmp_name ex_mk) = true /\ is_foreignb ex_prog (tmp_name ex_pl) = true /\
  lookup (tmp_name ex_mk) (st_fs (w_st w)) = Some (mkfile KReg [] 420) /\
  lookup (tmp_name ex_pl) (st_fs (w_st w)) = Some (mkfile KDir [] 493) /\
  lookup ex_lnk (st_fs (w_st w)) = Some (mkfile KSymlink [47; 120] 511) /\
  lookup ex_mk (st_fs (w_st w)) = Some (mkfile KReg [111; 108; 100] 420) /\
  List.length (w_stderr w) = 4%nat /\
  foreign_bad true (st_fs ex_tree3) ex_prog (st_fs (w_st w)) = None.
Proof.
  vm_compute. repeat split; reflexivity.
Qed.

(* the checker is not vacuous: the tree after C02-r3m1's behaviour (the refused save also
   removes the entry at PL.pkglint.tmp) is rejected, and so is a leftover temporary file *)
Example C05_foreign_bad_rejects :
  foreign_bad true (st_fs ex_tree2) [ASave ex_pl [97; 10; 98; 10]] [(ex_pl, mkfile KReg [98; 10; 97; 10] 420)]
    = Some (tmp_name ex_pl) /\
  foreign_bad true (st_fs ex_tree) [ASave ex_pl [97]] ((tmp_name ex_pl, mkfile KReg [97] 420) :: st_fs ex_tree)
    = Some (tmp_name ex_pl) /\
  foreign_bad false (st_fs ex_tree) [ASave ex_pl [97]] ((tmp_name ex_pl, mkfile KReg [97] 420) :: st_fs ex_tree)
    = None.
Proof. vm_compute. repeat split; reflexivity. Qed.


(* ====================== symbolic links (Model/FsLinks.v) ======================

   The saved file F itself, or a file given on the command line, may be a symbolic link.
   Entry names are directory entries in the lstat view; for an entry of kind KSymlink f_data
   is the entry name the link refers to.  lstep: Chmod and Open(O_TRUNC) follow a final link
   (resolve, at most 40 links), OpenExcl/Rename/Unlink act on the link itself, Write/Close on
   the inode of the descriptor.  save_one_l = loop body of SaveAutofixChanges (filename.Stat()
   follows), check_exec_l = Pkglint.Check + checkExecutable for an argument (Lstat).
   Plans: PNone; PFail k fl (system call k fails with its partial effect); PKill k n (the
   process is killed at call k; a write at k has transferred its first n bytes): the final
   state under PKill is the disk at that crash point.
   l_named prog q: q is a saved file, the temporary name of one, or a checked argument. *)

(* an entry the run does not name -- in particular the target of any link, however the link
   is used -- is never changed: all initial trees, programs, faults and crash points *)
Theorem C05_links_unnamed_untouched : forall (s : state) (prog : list laction) (plan : lplan) (q : path),
  ~ l_named prog q ->
  lookup q (st_fs (lw_st (lrun prog (init_lworld s plan)))) = lookup q (st_fs s).
Proof. exact links_unnamed_untouched. Qed.
Print Assumptions C05_links_unnamed_untouched.

(* the target of a link (content, mode, kind) is never modified, truncated or chmod-ed, also
   when the link itself is saved or given on the command line *)
Theorem C05_symlink_target_untouched : forall (s : state) (prog : list laction) (plan : lplan) (F : path) (l : file),
  lookup F (st_fs s) = Some l -> f_kind l = KSymlink -> ~ l_named prog (f_data l) ->
  lookup (f_data l) (st_fs (lw_st (lrun prog (init_lworld s plan)))) = lookup (f_data l) (st_fs s).
Proof. exact symlink_target_untouched. Qed.
Print Assumptions C05_symlink_target_untouched.

(* the same for every entry name on the chain of links that starts at F (chain n F fs = F, what
   F refers to, ... , at most n links; resolve n F fs ends at a member of it: resolve_in_chain) *)
Theorem C05_symlink_chain_untouched : forall (s : state) (prog : list laction) (plan : lplan) (F : path) (n : nat) (q : path),
  In q (chain n F (st_fs s)) -> ~ l_named prog q ->
  lookup q (st_fs (lw_st (lrun prog (init_lworld s plan)))) = lookup q (st_fs s).
Proof. exact symlink_chain_untouched. Qed.
Print Assumptions C05_symlink_chain_untouched.

Theorem C05_resolve_in_chain : forall (n : nat) (p : path) (m : fsmap),
  match resolve n p m with
  | RFound q _ => In q (chain n p m) | RDangling q => In q (chain n p m) | RLoop => True
  end.
Proof. exact resolve_in_chain. Qed.
Print Assumptions C05_resolve_in_chain.

(* one save, from a world in any condition (any plan, any number of earlier calls) *)
Theorem C05_save_one_l_frame : forall (w : lworld) (f : path) (new : str) (q : path),
  q <> f -> q <> tmp_name f ->
  lookup q (st_fs (lw_st (save_one_l f new w))) = lookup q (st_fs (lw_st w)).
Proof. exact save_one_l_frame. Qed.
Print Assumptions C05_save_one_l_frame.

(* the judge for snapshots of real runs (complete, killed, faulty) is sound *)
Theorem C05_l_unnamed_changed_sound : forall (init : fsmap) (prog : list laction) (cur : fsmap),
  l_unnamed_changed init prog cur = None ->
  forall q, ~ l_named prog q -> lookup q cur = lookup q init.
Proof. exact l_unnamed_changed_sound. Qed.
Print Assumptions C05_l_unnamed_changed_sound.

(* NOT the code: a link as save target written in place through the link -- the frame
   statement is false (killed after the open, the target is an empty file) *)
Theorem C05_write_through_link_refuted :
  ~ (forall (s : state) (f : path) (new : str) (plan : lplan) (q : path), q <> f -> q <> tmp_name f ->
       lookup q (st_fs (lw_st (save_through_link f new (init_lworld s plan)))) = lookup q (st_fs s)).
Proof. exact write_through_link_refuted. Qed.
Print Assumptions C05_write_through_link_refuted.

(* what the code does to a link that is saved, no fault: the link is replaced by a regular
   file that carries the mode of the link's target; the target is untouched *)
Theorem C05_save_replaces_link : forall (s : state) (F T : path) (l t : file) (new : str),
  lookup F (st_fs s) = Some l -> f_kind l = KSymlink -> f_data l = T ->
  lookup T (st_fs s) = Some t -> f_kind t = KReg ->
  lookup (tmp_name F) (st_fs s) = None -> F <> T -> tmp_name F <> T ->
  let w := save_one_l F new (init_lworld s PNone) in
  lookup F (st_fs (lw_st w)) = Some (mkfile KReg new (f_mode t)) /\
  lookup T (st_fs (lw_st w)) = Some t /\
  lookup (tmp_name F) (st_fs (lw_st w)) = None /\
  lw_stderr w = [] /\ lw_saved w = true.
Proof. exact save_replaces_link. Qed.
Print Assumptions C05_save_replaces_link.

(* --- examples: the hypotheses are satisfiable, the model does what is claimed --- *)
Definition lk_L : path := [76].                     (* "L" *)
Definition lk_T : path := [84].                     (* "T" *)
Definition lk_X : path := [88].                     (* "X" *)
Definition lk_tree : state :=
  mkstate [(lk_L, mkfile KSymlink lk_T 511);        (* L -> T *)
           (lk_T, mkfile KReg [111; 108; 100] 384); (* T: "old", 0600 *)
           (lk_X, mkfile KReg [120] 493)]           (* X: 0755 *)
          [] 18.
Definition lk_prog : list laction := [LSave lk_L [110; 101; 119]; LCheckExec lk_X].
Definition lk_after : lworld := lrun lk_prog (init_lworld lk_tree PNone).

Example C05_link_save_example :
  lookup lk_L (st_fs (lw_st lk_after)) = Some (mkfile KReg [110; 101; 119] 384) /\
  lookup lk_T (st_fs (lw_st lk_after)) = Some (mkfile KReg [111; 108; 100] 384) /\
  lookup lk_X (st_fs (lw_st lk_after)) = Some (mkfile KReg [120] 420) /\
  lookup (tmp_name lk_L) (st_fs (lw_st lk_after)) = None /\
  lw_stderr lk_after = [] /\ lw_saved lk_after = true /\
  List.length (lw_trace lk_after) = 6%nat /\
  l_unnamed_changed (st_fs lk_tree) lk_prog (st_fs (lw_st lk_after)) = None.
Proof. vm_compute. repeat split; reflexivity. Qed.

(* a link L to an executable T given on the command line: Lstat sees a link, no system call
   is issued at all *)
Definition lk_tree_x : state :=
  mkstate [(lk_L, mkfile KSymlink lk_T 511); (lk_T, mkfile KReg [111; 108; 100] 493)] [] 18.

Example C05_link_argument_example :
  lw_trace (lrun [LCheckExec lk_L] (init_lworld lk_tree_x PNone)) = [] /\
  st_fs (lw_st (lrun [LCheckExec lk_L] (init_lworld lk_tree_x PNone))) = st_fs lk_tree_x.
Proof. vm_compute. split; reflexivity. Qed.

(* the judge is not vacuous: it rejects the tree the through-the-link variant leaves at the
   crash point after the open *)
Example C05_l_unnamed_changed_rejects :
  l_unnamed_changed (st_fs lk_tree) [LSave lk_L [110; 101; 119]]
    (st_fs (lw_st (save_through_link lk_L [110; 101; 119] (init_lworld lk_tree (PKill 1 0))))) = Some lk_T.
Proof. vm_compute. reflexivity. Qed.

(* the frame from a world in any condition (any earlier calls, any plan, any open descriptors) *)
Theorem C05_lrun_frame : forall (prog : list laction) (w : lworld) (q : path),
  ~ l_named prog q ->
  lookup q (st_fs (lw_st (lrun prog w))) = lookup q (st_fs (lw_st w)).
Proof. exact lrun_frame. Qed.
Print Assumptions C05_lrun_frame.

(* the boolean used by the judge decides l_named *)
Theorem C05_l_namedb_spec : forall (prog : list laction) (q : path),
  l_namedb prog q = true <-> l_named prog q.
Proof. exact l_namedb_spec. Qed.
Print Assumptions C05_l_namedb_spec.

(* ====================================================================================
   "... is reported on stderr": the rendering of the failures into the Logger.

   Model/SaveLog.v   report_one / report_all: every entry (kind, path) of w_stderr is one call
                     Logger.TechErrorf(path, "<Cannot write|Cannot overwrite with autofixed
                     content|Cannot clear executable bits>: %s", err) (Model/Logger.v tech_error);
                     stderr_bytes / stdout_bytes = every byte the SeparatorWriter of that stream
                     accepted (passed on, or still in its line buffer); tech_line / error_line =
                     escapePrintable("ERROR: " + path + ": " + msg + "\n"); sep_pending = the
                     blank line a SeparatorWriter in state "separator wanted" puts in front
                     (never the case for stderr in pkglint; kept so that the statements hold for
                     ALL logger states); at_line_start = no partial line buffered, no separator
                     pending (true of the initial writer, and again after every TechErrorf).
   ==================================================================================== *)
From PV Require Import Model.Escape Model.Logger Model.SaveLog Proofs.SaveLog.

(* TechErrorf, for ALL logger states (any suppressDiag/suppressExpl, counters, writer
   states), any location and message.  tech_error has no `opts` argument at all -- no
   option (--only, -q, -g, --source, --explain, --autofix, --show-autofix) can be read;
   `o` and `werror` (-Werror) are quantified only to say so.  Everything but the stderr
   writer is untouched (so is the exit status); the stderr writer accepts exactly the ERROR
   line, drops nothing, and has flushed everything to the underlying stream afterwards. *)
Theorem C05_tech_error_stream : forall (o : opts) (werror : bool) (l : logger) (loc msg : str),
  let l' := Model.Logger.tech_error l loc msg in
  l' = set_err l (l_err l') /\
  l_out l' = l_out l /\ stdout_bytes l' = stdout_bytes l /\
  l_errors l' = l_errors l /\ l_warnings l' = l_warnings l /\ l_notes l' = l_notes l /\
  l_suppress_diag l' = l_suppress_diag l /\ l_suppress_expl l' = l_suppress_expl l /\
  exit_status werror l' = exit_status werror l /\
  stderr_bytes l' = stderr_bytes l ++ sep_pending (l_err l) ++ tech_line loc msg /\
  (exists rest, tech_line loc msg = [69; 82; 82; 79; 82; 58; 32] ++ rest) /\
  at_line_start (l_err l') /\ sw_state (l_err l') <> 1 /\
  sw_out (l_err l') = stderr_bytes l ++ sep_pending (l_err l) ++ tech_line loc msg /\
  (at_line_start (l_err l) -> sw_out (l_err l') = sw_out (l_err l) ++ tech_line loc msg).
Proof. exact tech_error_stream. Qed.
Print Assumptions C05_tech_error_stream.

Theorem C05_at_line_start_initial : at_line_start new_sw /\ at_line_start (l_err new_logger).
Proof. exact (conj at_line_start_new_sw at_line_start_new_sw). Qed.
Print Assumptions C05_at_line_start_initial.

(* location and message printable ASCII (tab, newline allowed): the line is the plain text *)
Theorem C05_tech_line_printable : forall (loc msg : str),
  Forall (fun b => xprint b = true) loc -> Forall (fun b => xprint b = true) msg ->
  tech_line loc msg =
  [69; 82; 82; 79; 82; 58; 32] ++ (loc ++ (if nonempty_list loc then [58; 32] else [])) ++ msg ++ [10].
Proof. exact tech_line_printable. Qed.
Print Assumptions C05_tech_line_printable.

(* the fault theorem joined with the Logger: for every program, tree, fault plan, every
   logger state l0, every error text: if the failing call was reached, stderr has grown;
   stdout, the counters, the exit status and the suppress flags are as before; the bytes
   added to stderr are exactly the ERROR lines of the entries of w_stderr, in order (after
   the pending separator, if any); each entry's line occurs in them; and when l0's stderr
   writer is at a line start, all of it has reached the underlying stream. *)
Theorem C05_save_failure_reported_on_stderr : forall (s : state) (prog : list action) (k : nat) (fl : fault)
    (o : opts) (werror : bool) (l0 : logger) (detail : errkind * path -> str),
  let w := run prog (init_world s (Some (k, fl))) in
  let l := report_all l0 (w_stderr w) detail in
  ((k < w_count w)%nat -> stderr_bytes l <> stderr_bytes l0) /\
  stdout_bytes l = stdout_bytes l0 /\ l_out l = l_out l0 /\
  l_errors l = l_errors l0 /\ l_warnings l = l_warnings l0 /\ l_notes l = l_notes l0 /\
  exit_status werror l = exit_status werror l0 /\
  l_suppress_diag l = l_suppress_diag l0 /\ l_suppress_expl l = l_suppress_expl l0 /\
  stderr_bytes l = stderr_bytes l0 ++ (match w_stderr w with [] => [] | _ :: _ => sep_pending (l_err l0) end)
                                   ++ report_lines (w_stderr w) detail /\
  (forall e, In e (w_stderr w) ->
     exists a b, stderr_bytes l = stderr_bytes l0 ++ a ++ error_line e (detail e) ++ b) /\
  ((k < w_count w)%nat -> at_line_start (l_err l)) /\
  (at_line_start (l_err l0) ->
     at_line_start (l_err l) /\ sw_out (l_err l) = sw_out (l_err l0) ++ report_lines (w_stderr w) detail).
Proof. exact save_failure_reported_on_stderr. Qed.
Print Assumptions C05_save_failure_reported_on_stderr.

(* the same for any list of failures *)
Theorem C05_report_all_on_stderr : forall (o : opts) (werror : bool) (l0 : logger)
    (es : list (errkind * path)) (detail : errkind * path -> str),
  let l := report_all l0 es detail in
  (es <> [] -> stderr_bytes l <> stderr_bytes l0) /\
  stdout_bytes l = stdout_bytes l0 /\ l_out l = l_out l0 /\
  l_errors l = l_errors l0 /\ l_warnings l = l_warnings l0 /\ l_notes l = l_notes l0 /\
  exit_status werror l = exit_status werror l0 /\
  l_suppress_diag l = l_suppress_diag l0 /\ l_suppress_expl l = l_suppress_expl l0 /\
  stderr_bytes l = stderr_bytes l0 ++ (match es with [] => [] | _ :: _ => sep_pending (l_err l0) end)
                                   ++ report_lines es detail /\
  (forall e, In e es ->
     exists a b, stderr_bytes l = stderr_bytes l0 ++ a ++ error_line e (detail e) ++ b) /\
  (es <> [] -> at_line_start (l_err l)) /\
  (at_line_start (l_err l0) ->
     at_line_start (l_err l) /\ sw_out (l_err l) = sw_out (l_err l0) ++ report_lines es detail).
Proof. exact report_all_on_stderr. Qed.
Print Assumptions C05_report_all_on_stderr.

(* reporting through Logf(Error, tmpName, "", ...) instead is NOT such a report: with
   suppressDiag set (left set by Logger.Relevant after an Autofix.Apply whose diagnostic is
   not selected by --only: reached by `log_run`) nothing is written anywhere; otherwise the
   line goes to stdout and is counted as an error (exit status 1). *)
Theorem C05_logf_report_refuted :
  (* suppressDiag set: the failure is reported nowhere *)
  (forall (o : opts) (l : logger) (e : errkind * path) (detail : str),
     l_suppress_diag l = true ->
     stderr_bytes (report_one_logf o l e detail) = stderr_bytes l /\
     stdout_bytes (report_one_logf o l e detail) = stdout_bytes l) /\
  (* such a state is reached: --autofix --only foo, after one Autofix.Apply of a diagnostic "bar" *)
  (exists (o : opts) (l : logger) (e : errkind * path) (detail : str),
     l = log_run o [ex_fix_event] /\ l_suppress_diag l = true /\
     stderr_bytes (report_one_logf o l e detail) = stderr_bytes l /\
     stdout_bytes (report_one_logf o l e detail) = stdout_bytes l /\
     stderr_bytes (report_one l e detail) = stderr_bytes l ++ error_line e detail /\
     error_line e detail = ex_error_text) /\
  (* suppressDiag clear: the line goes to stdout and counts as an error *)
  (forall (o : opts) (l : logger) (e : errkind * path) (detail : str),
     l_suppress_diag l = false ->
     stderr_bytes (report_one_logf o l e detail) = stderr_bytes l /\
     stdout_bytes (report_one_logf o l e detail) <> stdout_bytes l /\
     l_errors (report_one_logf o l e detail) = l_errors l + 1) /\
  (exists (o : opts) (l : logger) (e : errkind * path) (detail : str),
     l_suppress_diag l = false /\
     stderr_bytes (report_one_logf o l e detail) = stderr_bytes l /\
     stdout_bytes (report_one_logf o l e detail) = stdout_bytes l ++ ex_error_text /\
     l_errors (report_one_logf o l e detail) = l_errors l + 1 /\
     exit_status false l = 0 /\ exit_status false (report_one_logf o l e detail) = 1).
Proof. exact logf_report_refuted. Qed.
Print Assumptions C05_logf_report_refuted.

Example C05_tech_error_example :
  let l := Model.Logger.tech_error new_logger ex_tmp ([67; 97; 110; 110; 111; 116; 32; 119; 114; 105; 116; 101; 58; 32] ++ ex_detail) in
  stderr_bytes l = ex_error_text /\ sw_out (l_err l) = ex_error_text /\ stdout_bytes l = [] /\
  l_errors l = 0 /\ exit_status true l = 0.
Proof. exact tech_error_example. Qed.
Print Assumptions C05_tech_error_example.

Example C05_report_one_example :
  report_one new_logger ex_entry ex_detail =
  Model.Logger.tech_error new_logger ex_tmp ([67; 97; 110; 110; 111; 116; 32; 119; 114; 105; 116; 101; 58; 32] ++ ex_detail) /\
  error_line ex_entry ex_detail = ex_error_text /\
  stderr_bytes (report_one ex_suppressed ex_entry ex_detail) = ex_error_text /\
  stdout_bytes (report_one ex_suppressed ex_entry ex_detail) = [].
Proof. exact report_one_example. Qed.
Print Assumptions C05_report_one_example.
