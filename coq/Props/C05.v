(* C05 -- autofixed files are replaced atomically, even across crashes and I/O errors.
   Only statements; every proof is `exact <lemma>`. *)
From PV Require Import Lib.Bytes Model.FsProto Spec.CrashSpec Proofs.FsProtoVariants.
Open Scope N_scope.

(* non-vacuity of the crash specification: truncate-and-write in place,
   remove-then-rename and copy-back each have a crash point at which the
   original file is neither old nor new *)
Theorem C05_variants_refuted :
  ~ crash_atomic_for inplace_ops /\ ~ crash_atomic_for remove_rename_ops /\ ~ crash_atomic_for copyback_ops.
Proof. exact variants_refuted. Qed.
Print Assumptions C05_variants_refuted.
