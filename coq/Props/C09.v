(* C09 -- loading loses nothing. Only statements; every proof is `exact <lemma>`. *)
From PV Require Import Lib.Bytes Model.Lines Spec.LinesSpec Proofs.Lines.
Open Scope N_scope.

Theorem C09_save_nothing_modified : forall ls,
  existsb fix_modified ls = false -> save_autofix_changes ls = None.
Proof. exact save_nothing_modified. Qed.
Print Assumptions C09_save_nothing_modified.
