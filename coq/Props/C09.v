(* C09 -- Loading loses nothing: physical lines partition the file, numbering is exact.
   Only statements; every proof is `exact <lemma>`.
   Model: Model/Lines.v (files.go, line.go, autofix.go).  Spec: Spec/LinesSpec.v.
   `obs l` = (lineno l, text l, raws l), the view of a line the specification talks about. *)
From PV Require Import Lib.Bytes Model.Lines Spec.LinesSpec Proofs.Lines Proofs.LinesLoop Proofs.LinesComplete.
Open Scope N_scope.

(* convertToLogicalLines is defined on every byte string in both modes: no index
   panic (rawLines[index], loglines[len-1]), the loop's fuel never runs out; and
   "File must end with a newline." is logged iff the text is non-empty and does
   not end in a line feed *)
Theorem C09_convert_total : forall (s : str) (mk : bool),
  exists ls, convert_to_logical_lines s mk = Ok (ls, negb (is_empty s) && negb (has_suffix [nl] s)).
Proof. exact convert_total. Qed.
Print Assumptions C09_convert_total.

(* the physical lines of all logical lines, concatenated in order, are the input *)
Theorem C09_raws_partition : forall (s : str) (mk : bool) ls e,
  convert_to_logical_lines s mk = Ok (ls, e) -> concat (flat_map raws ls) = s.
Proof. exact raws_partition. Qed.
Print Assumptions C09_raws_partition.

(* no physical line is empty, a line feed occurs only as the last byte of one,
   and every physical line except the very last one ends in a line feed *)
Theorem C09_raws_nonempty_nl : forall (s : str) (mk : bool) ls e,
  convert_to_logical_lines s mk = Ok (ls, e) ->
  forallb raw_ok (all_raws (map obs ls)) && all_but_last ends_nl (all_raws (map obs ls)) = true.
Proof. exact raws_nonempty_nl. Qed.
Print Assumptions C09_raws_nonempty_nl.

(* logical line k reports 1 + the number of physical lines before it *)
Theorem C09_numbering_exact : forall (s : str) (mk : bool) ls e,
  convert_to_logical_lines s mk = Ok (ls, e) ->
  forall pre l post, ls = pre ++ l :: post ->
  lineno l = 1 + N.of_nat (length (flat_map raws pre)).
Proof. exact numbering_exact_prop. Qed.
Print Assumptions C09_numbering_exact.

(* makefile mode: within a logical line every physical line but the last ends
   (before its line feed) in an odd number of backslashes; the last one does
   not, unless it is the last physical line of the file.  Together with the
   partition: a physical line is followed by a continuation iff it `continues`
   and is not the last. *)
Theorem C09_grouping_exact_mk : forall (s : str) ls e,
  convert_to_logical_lines s true = Ok (ls, e) ->
  forall pre l post, ls = pre ++ l :: post ->
  exists init lst, raws l = init ++ [lst] /\ Forall (fun r => continues r = true) init
                   /\ (continues lst = false \/ post = []).
Proof. exact grouping_exact_mk. Qed.
Print Assumptions C09_grouping_exact_mk.

(* plain mode: one physical line per line, the text is that line without its line feed *)
Theorem C09_grouping_exact_plain : forall (s : str) ls e,
  convert_to_logical_lines s false = Ok (ls, e) ->
  Forall (fun l => exists r, raws l = [r] /\ text l = content r) ls.
Proof. exact grouping_exact_plain. Qed.
Print Assumptions C09_grouping_exact_plain.

(* the decomposition content = indent ++ body ++ outdent ++ cont that the text
   rule is stated with is unique, so text_rel determines the text *)
Theorem C09_decomp_unique : forall o p q, decomp_ok o p = true -> decomp_ok o q = true -> p = q.
Proof. exact decomp_ok_unique. Qed.
Print Assumptions C09_decomp_unique.

Theorem C09_text_rel_functional : forall rs t1 t2, text_rel rs t1 -> text_rel rs t2 -> t1 = t2.
Proof. exact text_rel_functional. Qed.
Print Assumptions C09_text_rel_functional.

(* makefile mode: the text is indent_0 body_0 " " body'_1 " " ... body'_n outdent_n cont_n:
   every junction (blanks, backslash, line feed, blanks, repeated comment marker) became one space *)
Theorem C09_text_exact : forall (s : str) ls e,
  convert_to_logical_lines s true = Ok (ls, e) ->
  Forall (fun l => text_rel (raws l) (text l)) ls.
Proof. exact text_exact_mk. Qed.
Print Assumptions C09_text_exact.

(* the executable specification that the harness runs on the real
   convertToLogicalLines accepts the model's output on every input *)
Theorem C09_model_meets_spec : forall (s : str) (mk : bool) ls e,
  convert_to_logical_lines s mk = Ok (ls, e) -> spec_holds mk s (map obs ls) = true.
Proof. exact model_meets_spec. Qed.
Print Assumptions C09_model_meets_spec.

(* and the specification is complete: whatever passes the five clauses for input s
   is the model's output -- the clauses pin the loader down, byte for byte *)
Theorem C09_spec_complete : forall (s : str) (mk : bool) ls e (O : list obs_line),
  convert_to_logical_lines s mk = Ok (ls, e) -> spec_holds mk s O = true -> O = map obs ls.
Proof. exact spec_complete. Qed.
Print Assumptions C09_spec_complete.

(* saving: when no line was modified (no fix, or a fix created by line.Autofix()
   and left alone) nothing is written, and the strings SaveAutofixChanges
   collects are the input byte for byte *)
Theorem C09_save_untouched : forall (s : str) (mk : bool) ls e fls,
  convert_to_logical_lines s mk = Ok (ls, e) -> map fst fls = ls -> Forall untouched fls ->
  save_autofix_changes fls = None /\ concat (flat_map chlines_of fls) = s.
Proof. exact save_untouched. Qed.
Print Assumptions C09_save_untouched.

(* partial save: an untouched line's physical lines are written verbatim, between
   what is written for the lines before and after it *)
Theorem C09_save_partial : forall pre fl post out,
  untouched fl -> save_autofix_changes (pre ++ fl :: post) = Some out ->
  out = concat (flat_map chlines_of pre) ++ concat (raws (fst fl)) ++ concat (flat_map chlines_of post).
Proof. exact save_partial. Qed.
Print Assumptions C09_save_partial.

(* what is written is the specification's spec_saved: modified lines replaced by
   above ++ texts ++ below, all others reproduced from their physical lines *)
Theorem C09_save_is_spec_saved : forall fls out,
  Forall fix_wf fls -> save_autofix_changes fls = Some out -> out = spec_saved (map save_view fls).
Proof. exact save_is_spec_saved. Qed.
Print Assumptions C09_save_is_spec_saved.

(* ---- non-vacuity ----------------------------------------------------------- *)

(* "A=\t1 \\\n\t# c \\\n\t#d\nB\\\\\n\\" : a three-line continuation with a repeated
   comment marker, a line ending in two backslashes, a continuation at EOF *)
Definition ex_input : str :=
  [65;61;9;49;32;92;10; 9;35;32;99;32;92;10; 9;35;100;10; 66;92;92;10; 92]%N.
Definition ex_lines : list line :=
  [ mk_line 1 [65;61;9;49;32;35;32;99;32;100] [[65;61;9;49;32;92;10]; [9;35;32;99;32;92;10]; [9;35;100;10]];
    mk_line 4 [66;92;92] [[66;92;92;10]];
    mk_line 5 [92] [[92]] ].
Example C09_witness_mk : convert_to_logical_lines ex_input true = Ok (ex_lines, true).
Proof. vm_compute. reflexivity. Qed.

(* "#a \\\n #b" : the marker is dropped once *)
Example C09_witness_marker :
  convert_to_logical_lines [35;97;32;92;10;32;35;98] true
  = Ok ([mk_line 1 [35;97;32;98] [[35;97;32;92;10]; [32;35;98]]], true).
Proof. vm_compute. reflexivity. Qed.

Example C09_witness_plain :
  convert_to_logical_lines [97;92;10;13;10] false
  = Ok ([mk_line 1 [97;92] [[97;92;10]]; mk_line 2 [13] [[13;10]]], false).
Proof. vm_compute. reflexivity. Qed.

(* a partial save with a modified first line and an untouched second line *)
Example C09_witness_save :
  let l1 := mk_line 1 [97] [[97;10]] in
  let l2 := mk_line 2 [98] [[98]] in
  untouched (l2, None) /\ fix_wf (l1, Some (mk_autofix [] [[120;10]] [] true)) /\
  save_autofix_changes [(l1, Some (mk_autofix [] [[120;10]] [] true)); (l2, None)] = Some [120;10;98].
Proof. split; [left; reflexivity|]. split; [intros H; discriminate|reflexivity]. Qed.
