(* C03 -- the AUTOFIX log exactly accounts for what --autofix did to each file.
   Only statements; every proof is `exact <lemma>`.

   Model   : Model/Autofix.v   (v23/autofix.go, line.go, plist.go sorter, checkExecutable)
   Spec    : Spec/ApplyLog.v   (apply the printed log to the old bytes)
   A history is any list of events: fix transactions (line.Autofix(); diag; any
   operations; Apply) on any lines in any order, SaveAutofixChanges, the
   executable-bit check; [wf_groups] says that the logical lines are a partition
   of the physical lines of the file (any grouping into continuation lines). *)
From PV Require Import Lib.Bytes Spec.ApplyLog Model.Autofix Proofs.ApplyLog Proofs.Autofix Proofs.AutofixViews Proofs.AutofixSort Proofs.AutofixSorted Proofs.AutofixCustom Gen.ReplaceArgs.
From Coq Require Import Permutation.
Open Scope Z_scope.

(* what SaveAutofixChanges writes for the file is consistent with the AUTOFIX lines
   printed for it: for ALL files, groupings, option sets with --autofix, histories *)
Theorem C03_save_consistent_with_log :
  forall o keys file content groups evs st,
    o_autofix o = true -> wf_groups content groups -> Forall no_sort_event evs ->
    run o keys evs (init_state file groups) = Ok st ->
    consistent content (entries_of file (s_log st)) (file_content file (s_store st)) = true.
Proof. exact save_consistent_with_log. Qed.
Print Assumptions C03_save_consistent_with_log.

(* ... and so are the bytes on disk (tmp file + rename, or nothing written at all)
   after any history that ends with a save *)
Theorem C03_disk_consistent_with_log :
  forall o keys file content groups evs st,
    o_autofix o = true -> wf_groups content groups -> Forall no_sort_event evs ->
    run o keys (evs ++ [ESave]) (init_state file groups) = Ok st ->
    consistent content (entries_of file (s_log st)) (disk_after file content None (s_ops st)) = true.
Proof. exact disk_consistent_with_log. Qed.
Print Assumptions C03_disk_consistent_with_log.

(* a raw line whose bytes changed has a logged action with its line number; lines are
   inserted above / below only with a logged action at the first / last raw line *)
Theorem C03_nothing_unlogged :
  forall o keys file content groups evs st,
    o_autofix o = true -> wf_groups content groups -> Forall no_sort_event evs ->
    run o keys evs (init_state file groups) = Ok st ->
    forall l, In l (s_store st) ->
      (forall j, nth_error (cur_texts l) j <> nth_error (l_raw l) j ->
         exists g, In g (s_log st) /\ g_file g = file /\ g_lineno g = l_lineno l + Z.of_nat j) /\
      (cur_above l <> [] -> exists g, In g (s_log st) /\ g_file g = file /\ g_lineno g = l_lineno l) /\
      (cur_below l <> [] -> exists g, In g (s_log st) /\ g_file g = file /\
                                       g_lineno g = l_lineno l + Z.of_nat (length (l_raw l)) - 1).
Proof. exact nothing_unlogged. Qed.
Print Assumptions C03_nothing_unlogged.

(* a logical line none of whose physical line numbers occurs in the log is written
   back byte for byte (terminators and a missing final newline included) *)
Theorem C03_untouched_preserved :
  forall o keys file content groups evs st,
    o_autofix o = true -> wf_groups content groups -> Forall no_sort_event evs ->
    run o keys evs (init_state file groups) = Ok st ->
    forall l, In l (s_store st) ->
      (forall g, In g (s_log st) -> g_file g = file ->
         ~ (l_lineno l <= g_lineno g < l_lineno l + Z.of_nat (length (l_raw l)))) ->
      line_bytes l = l_raw l.
Proof. exact untouched_preserved. Qed.
Print Assumptions C03_untouched_preserved.

(* the PLIST sorter: either nothing happens, or exactly one line gets a fix object
   with the single action "Sorting the whole file." and what is saved is a
   permutation of the file's lines, each line as a whole (with everything earlier
   fixes put into it) *)
Theorem C03_sort_permutes_whole_lines :
  forall o keys store store' printed ops af,
    length keys = length store -> Forall idle store ->
    plist_sort o keys store = Ok (store', printed, ops, af) ->
    (store' = store /\ printed = [] /\ ops = [] /\ af = false) \/
    (exists view i l, Permutation view store' /\ (ops, af) = save o view /\
       nth_error store' i = Some l /\ (forall k, k <> i -> nth_error store' k = nth_error store k) /\
       (printed = [] \/ printed = [Log (l_file l) DSort (l_lineno l)])).
Proof. exact sort_permutes_whole_lines. Qed.
Print Assumptions C03_sort_permutes_whole_lines.

(* histories that END WITH THE SORTER (as PlistChecker.Check runs it: once, after all
   other checks): the bytes on disk are consistent with the log, which now contains
   "Sorting the whole file." -- under the guard [no_newline_args], a boolean predicate
   on the history: no argument of Replace / ReplaceAfter / ReplaceAt contains a
   newline, and the text ReplaceAfter looks for (prefix ++ from) is not empty *)
Theorem C03_save_consistent_with_log_sorted_partial :
  forall o keys file content groups evs st,
    o_autofix o = true -> wf_groups content groups -> length keys = length groups ->
    Forall no_sort_event evs -> no_newline_args evs = true ->
    run o keys (evs ++ [ESort]) (init_state file groups) = Ok st ->
    consistent content (entries_of file (s_log st)) (disk_after file content None (s_ops st)) = true.
Proof. exact save_consistent_with_log_sorted_partial. Qed.
Print Assumptions C03_save_consistent_with_log_sorted_partial.

(* without the guard the statement is FALSE of the model: PLIST "b\na\n", a fix replaces
   the terminator of line 2 by nothing, the sorter puts the unterminated "a" in front
   of "b\n", the file is "ab\n" (witness by vm_compute) *)
Theorem C03_save_consistent_with_log_sorted_refuted : ~ save_consistent_with_log_sorted_full.
Proof. exact save_consistent_with_log_sorted_refuted. Qed.
Print Assumptions C03_save_consistent_with_log_sorted_refuted.

(* any number of serial views: view k+1 is loaded from what view k saved; the final
   bytes are consistent with the concatenated log with n save-and-load-again points *)
Theorem C03_multi_view_serial_n :
  forall o file content log final n,
    o_autofix o = true -> serial o file content log final n ->
    consistent_hist n content log final = true.
Proof. exact multi_view_serial_n. Qed.
Print Assumptions C03_multi_view_serial_n.

(* several views of one file, serially: the second view is loaded from what the first
   one saved (its line numbers are those of the intermediate file); the final bytes
   are consistent with the concatenated log, with one save-and-load-again point *)
Theorem C03_multi_view_serial :
  forall o file content groupsA evsA stA groupsB evsB stB,
    o_autofix o = true ->
    wf_groups content groupsA -> Forall no_sort_event evsA ->
    view_run o file content groupsA evsA = Ok stA ->
    let mid := view_disk file content stA in
    wf_groups mid groupsB -> Forall no_sort_event evsB ->
    view_run o file mid groupsB evsB = Ok stB ->
    entries_of file (s_log stA) <> [] -> entries_of file (s_log stB) <> [] ->
    consistent_hist 1 content (entries_of file (s_log stA) ++ entries_of file (s_log stB))
                    (view_disk file mid stB) = true.
Proof. exact multi_view_serial. Qed.
Print Assumptions C03_multi_view_serial.

(* interleaved views (both loaded from the same bytes, saved one after the other):
   the full statement is FALSE of the model -- the first view's update is lost.
   Whether pkglint ever interleaves views is checked on real runs (docs/C03.md). *)
Theorem C03_multi_view_interleaved_refuted : ~ multi_view_interleaved_full.
Proof. exact multi_view_interleaved_refuted. Qed.
Print Assumptions C03_multi_view_interleaved_refuted.

(* non-vacuity: a file with a continuation line, two transactions (several operations
   on one line, a deletion), a save; the hypotheses hold, the run succeeds, three
   actions are logged and the file is rewritten *)
Definition ex_file : str := [47;102]%N.                                           (* "/f" *)
Definition ex_content : str := [65;61;32;98;32;92;10; 9;99;10; 88;61;49;10]%N.    (* "A= b \\\n\tc\nX=1\n" *)
Definition ex_groups : list (list str * str) :=
  [ ([[65;61;32;98;32;92;10]%N; [9;99;10]%N], [65;61;32;98;32;99]%N);            (* lines 1--2, Text "A= b c" *)
    ([[88;61;49;10]%N], [88;61;49]%N) ].                                          (* line 3 *)
Definition ex_events : list event :=
  [ ETxn (Txn 0 [68;105;97;103;46]%N [OReplaceAfter [] [98]%N [66]%N; OInsertBelow [110;101;119]%N]);
    ETxn (Txn 1 [68;105;97;103;46]%N [ODelete]);
    ESave ].
Example C03_witness :
  wf_groups ex_content ex_groups /\
  exists st, run (Opts true false []) [] ex_events (init_state ex_file ex_groups) = Ok st /\
    map (fun g => (g_lineno g, g_descr g)) (s_log st) =
      [(1, DRepl [98]%N [66]%N); (2, DBelow [110;101;119]%N); (3, DDelete)] /\
    disk_after ex_file ex_content None (s_ops st) =
      [65;61;32;66;32;92;10; 9;99;10; 110;101;119;10]%N.                          (* "A= B \\\n\tc\nnew\n" *)
Proof.
  split.
  - split; [vm_compute; reflexivity|]. repeat constructor; discriminate.
  - eexists. split; [vm_compute; reflexivity|]. split; vm_compute; reflexivity.
Qed.

(* ---- Autofix.Custom and --only (round 4) ----
   Custom as coded: `if fix.skip() { return }; fixer(Opts.ShowAutofix, Opts.Autofix)`.
   The fixer has an effect outside the line's texts (checkExecutable: chmod when autofix). *)

(* the fixer runs iff the diagnostic of the fix is selected by --only; if it does not
   run, the line (texts, actions) is untouched *)
Theorem C03_custom_runs_iff_selected :
  forall o ri d l l' ran f,
    l_fix l = Some f -> custom o ri d l = Ok (l', ran) ->
    ran = shall_be_logged o (f_diag f) /\ (ran = false -> l' = l).
Proof. exact custom_runs_iff_selected. Qed.
Print Assumptions C03_custom_runs_iff_selected.

(* a Custom fixer had its effect (the executable bits were cleared) ==> --autofix was
   given, "Should not be executable." is selected by --only, and exactly the AUTOFIX line
   "Clearing executable bits" was printed for that file: for ALL option records *)
Theorem C03_custom_effect_implies_logged :
  forall o file x c printed ops,
    check_executable o file x c = Ok (printed, ops) -> ops <> [] ->
    ops = [OpChmod file] /\ printed = [(DChmod, 0)] /\ o_autofix o = true /\
    shall_be_logged o not_executable_format = true.
Proof. exact custom_effect_implies_logged. Qed.
Print Assumptions C03_custom_effect_implies_logged.

(* deselected by --only: neither a chmod nor a line, whatever the other options *)
Theorem C03_custom_skipped_no_effect :
  forall o file x c,
    shall_be_logged o not_executable_format = false ->
    check_executable o file x c = Ok ([], []).
Proof. exact custom_skipped_no_effect. Qed.
Print Assumptions C03_custom_skipped_no_effect.

(* non-vacuity: --autofix --only "Trailing whitespace" on an executable, uncommitted
   file does nothing; without --only the mode is fixed and logged *)
Example C03_custom_witness :
  check_executable (Opts true false [[84;114;97;105;108]%N]) ex_file true false = Ok ([], []) /\
  check_executable (Opts true false []) ex_file true false = Ok ([(DChmod, 0)], [OpChmod ex_file]) /\
  check_executable (Opts false true []) ex_file true false = Ok ([(DChmod, 0)], []).
Proof. vm_compute. repeat split; reflexivity. Qed.

(* the static side of the guard (gen/c03.go, regenerated on every run): the only string
   literals with a newline that are passed to Replace / ReplaceAfter / ReplaceAt are
   those of the CR fix for patch hunk headers ("\r\n" -> "\n", keeps the terminator,
   PatchChecker: never followed by the PLIST sorter); the non-literal arguments are
   listed in Gen/ReplaceArgs.v as the residual assumption *)
From Coq Require Import String.
Theorem C03_replace_newline_literals :
  replace_newline_literal_sites =
  ["patches.go PatchChecker.checktextUniHunkCr Replace(""\n"")"%string;
   "patches.go PatchChecker.checktextUniHunkCr Replace(""\r\n"")"%string]%list.
Proof. exact (eq_refl _). Qed.
Print Assumptions C03_replace_newline_literals.

