(* C03 -- the AUTOFIX log exactly accounts for what --autofix did to each file.
   Only statements; every proof is `exact <lemma>`. *)
From PV Require Import Lib.Bytes Spec.ApplyLog.
