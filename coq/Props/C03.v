(* C03 -- the AUTOFIX log exactly accounts for what --autofix did to each file.
   Only statements; every proof is `exact <lemma>`.

   Model   : Model/Autofix.v   (v23/autofix.go, line.go, plist.go sorter, checkExecutable)
   Spec    : Spec/ApplyLog.v   (apply the printed log to the old bytes)
   A history is any list of events: fix transactions (line.Autofix(); diag; any
   operations; Apply) on any lines in any order, SaveAutofixChanges, the
   executable-bit check; [wf_groups] says that the logical lines are a partition
   of the physical lines of the file (any grouping into continuation lines). *)
From PV Require Import Lib.Bytes Spec.ApplyLog Model.Autofix Proofs.ApplyLog Proofs.Autofix.
Open Scope Z_scope.

(* what SaveAutofixChanges writes for the file is consistent with the AUTOFIX lines
   printed for it: for ALL files, groupings, option sets with --autofix, histories *)
Theorem C03_save_consistent_with_log :
  forall o keys file content groups evs st,
    o_autofix o = true -> wf_groups content groups -> Forall no_sort_event evs ->
    run o keys evs (init_state file groups) = Ok st ->
    consistent content (entries_of file (s_log st)) (file_content file (s_store st)) = true.
Proof. exact save_consistent_with_log. Qed.
Print Assumptions C03_save_consistent_with_log.

(* ... and so are the bytes on disk (tmp file + rename, or nothing written at all)
   after any history that ends with a save *)
Theorem C03_disk_consistent_with_log :
  forall o keys file content groups evs st,
    o_autofix o = true -> wf_groups content groups -> Forall no_sort_event evs ->
    run o keys (evs ++ [ESave]) (init_state file groups) = Ok st ->
    consistent content (entries_of file (s_log st)) (disk_after file content None (s_ops st)) = true.
Proof. exact disk_consistent_with_log. Qed.
Print Assumptions C03_disk_consistent_with_log.
