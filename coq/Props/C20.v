(* C20 -- The file cache is transparent: cached loads equal fresh loads, never stale.
   Only statements; every proof is `exact <lemma>`.

   Model/FileCache.v: FileCache (Put, removeOldEntries, Get, Evict, key), Load,
   Line.Autofix and the five fix operations, SaveAutofixChanges, over an explicit
   heap of Line objects.  A history is any list of
     OLoad fn o | OFix view line fixop | OSave view failing-files | OModify file content (+ Evict);
   overflow of the cache is what loads of further *.mk files do.
   `reach convert is_mk md cap disk s`: s is reachable from a fresh G (cache of
   capacity cap, files as in disk) in mode md (default / --show-autofix / --autofix)
   by SOME history; convert stands for convertToLogicalLines, is_mk for the
   ".mk" suffix test; both are arbitrary. *)
From PV Require Import Lib.Bytes Model.FileCache Model.FileCacheLines Spec.FreshLoad
  Proofs.FileCacheWf Proofs.FileCacheInv Proofs.FileCache Proofs.FileCacheSim Proofs.FileCachePrivate
  Proofs.FileCacheModes.
From PV Require Model.Lines Spec.LinesSpec.
From Coq Require Import Permutation.
Open Scope N_scope.

(* table and mapping are in bijection, after every history *)
Theorem C20_table_mapping_bijection :
  forall convert is_mk md cap disk s, (1 <= cap)%nat -> reach convert is_mk md cap disk s ->
  let c := st_cache s in
  (forall k eid, map_get k (c_map c) = Some eid <->
                 In eid (c_table c) /\ e_key (entry_at (c_store c) eid) = k) /\
  NoDup (c_table c) /\ NoDup (map fst (c_map c)) /\
  (forall eid, In eid (c_table c) -> (eid < length (c_store c))%nat).
Proof. exact table_mapping_bijection. Qed.
Print Assumptions C20_table_mapping_bijection.

(* the table never holds more than NewFileCache's size; cap(table) never changes *)
Theorem C20_capacity_respected :
  forall convert is_mk md cap disk s, (1 <= cap)%nat -> reach convert is_mk md cap disk s ->
  (length (c_table (st_cache s)) <= cap)%nat /\ c_cap (st_cache s) = cap.
Proof. exact capacity_respected. Qed.
Print Assumptions C20_capacity_respected.

(* sort.Slice is unstable: whichever descending permutation of the table it
   produces, removeOldEntries evicts the same keys, halves the same counts and
   keeps the same set of entries; the model's insertion sort is one such result *)
Theorem C20_evicted_set_order_independent : forall c s1 s2 c1 c2,
  NoDup (c_table c) ->
  Permutation (c_table c) s1 -> desc_sorted (c_store c) s1 ->
  Permutation (c_table c) s2 -> desc_sorted (c_store c) s2 ->
  remove_old_entries_sorted c s1 = Ok c1 ->
  remove_old_entries_sorted c s2 = Ok c2 ->
  c_map c1 = c_map c2 /\ c_store c1 = c_store c2 /\ Permutation (c_table c1) (c_table c2) /\
  c_cap c1 = c_cap c2 /\ c_hits c1 = c_hits c2 /\ c_misses c1 = c_misses c2.
Proof. exact evicted_set_order_independent. Qed.
Print Assumptions C20_evicted_set_order_independent.

Theorem C20_model_sort_admissible : forall c,
  Permutation (c_table c) (sort_desc (c_store c) (c_table c)) /\
  desc_sorted (c_store c) (sort_desc (c_store c) (c_table c)).
Proof. exact model_sort_admissible. Qed.
Print Assumptions C20_model_sort_admissible.

(* Load panics in no reachable state (the index in removeOldEntries is safe);
   it stops only through TechFatalf when MustSucceed is given *)
Theorem C20_load_never_panics :
  forall convert is_mk md cap disk s fn o w, (1 <= cap)%nat -> reach convert is_mk md cap disk s ->
  load convert is_mk s fn o = Stop w -> w = Fatal /\ has_opt o MustSucceed = true.
Proof. exact load_never_panics. Qed.
Print Assumptions C20_load_never_panics.

(* TRANSPARENCY, under the protocol guard.  After any history, in any mode: if no
   view of this file through which a fix was made is still unsaved
   (guard_step: "each fixed view is saved before the file is loaded again"), then
   Load returns exactly the lines of convert (disk f) o, with no fix attached --
   what Spec.FreshLoad.fresh_read computes from the disk alone -- or nil exactly
   when a load without cache returns nil; and it leaves the disk alone. *)
Theorem C20_load_transparent_partial :
  forall convert is_mk md cap disk s fn o s' r, (1 <= cap)%nat -> reach convert is_mk md cap disk s ->
  guard_step s (OLoad fn o) = true ->
  load convert is_mk s fn o = Ok (s', r) ->
  load_obs s' r = fresh_read convert (st_disk s) fn o /\ st_disk s' = st_disk s.
Proof. exact load_transparent. Qed.
Print Assumptions C20_load_transparent_partial.

(* The same for whole histories: if the guard holds at every Load of a history
   (`guarded`: evaluated along the run of the machine with the cache), then the
   run shows exactly what the run of the machine WITHOUT a cache shows (no_mk:
   nothing is ever Put, every Load reads the disk): the same observation for every
   operation (lines returned by each Load, bytes written by each save), the same
   panic / fatal stop if any, and the same disk at the end. *)
Theorem C20_cache_unobservable :
  forall convert is_mk md cap disk h, (1 <= cap)%nat ->
  guarded convert is_mk md (init_state cap disk) h = true ->
  snd (fst (run convert is_mk md (init_state cap disk) h)) =
  snd (fst (run convert no_mk md (init_state cap disk) h)) /\
  snd (run convert is_mk md (init_state cap disk) h) =
  snd (run convert no_mk md (init_state cap disk) h) /\
  st_disk (fst (fst (run convert is_mk md (init_state cap disk) h))) =
  st_disk (fst (fst (run convert no_mk md (init_state cap disk) h))).
Proof. exact cache_unobservable. Qed.
Print Assumptions C20_cache_unobservable.

(* TRANSPARENCY ACROSS LOAD MODES (round 5).  The model run with the C09 model of
   convertToLogicalLines (Model/FileCacheLines.v: convert_lines raw o =
   Lines.convert_to_logical_lines raw (o & Makefile != 0)), so that the lines of a
   Load depend on the REQUESTED options.  After any history -- loads of any files
   under any of the 16 option sets in any order (Makefile mode then plain mode of
   the same file, plain then Makefile, sub- and supersets), fixes, saves, failing
   saves, modifications, overflow -- under the same protocol guard as above:
   Load(f, o) returns nil exactly when f is unreadable or empty with NotEmpty, and
   otherwise exactly the logical lines of the file's present content converted in
   the mode that THIS call asks for (mode_read, Proofs/FileCacheModes.v, spelled
   out with Lines.convert_to_logical_lines; the conversion never panics), no fix
   attached.  What an earlier Load of the file asked for does not matter. *)
Theorem C20_load_transparent_mixed_modes :
  forall is_mk md cap disk s fn o s' r, (1 <= cap)%nat -> reach convert_lines is_mk md cap disk s ->
  guard_step s (OLoad fn o) = true ->
  load convert_lines is_mk s fn o = Ok (s', r) ->
  match map_get (key fn) (st_disk s) with
  | None => load_obs s' r = None
  | Some raw =>
    if FileCache.is_empty raw && has_opt o NotEmpty then load_obs s' r = None
    else exists ls e,
        Model.Lines.convert_to_logical_lines raw (has_opt o Makefile) = Model.Lines.Ok (ls, e) /\
        load_obs s' r = Some (map lobs_of_line ls)
  end /\ st_disk s' = st_disk s.
Proof. exact load_transparent_mixed_modes. Qed.
Print Assumptions C20_load_transparent_mixed_modes.

(* ... in particular a plain-mode Load (no Makefile bit) returns one logical line
   per physical line, line k numbered k, Text = the physical line without its
   line feed -- also for a *.mk file with continuation lines that is in the cache
   from a Makefile-mode load (C09's clause for plain mode, through the cache) *)
Theorem C20_plain_load_one_line_per_physical_line :
  forall is_mk md cap disk s fn o s' r obs, (1 <= cap)%nat -> reach convert_lines is_mk md cap disk s ->
  guard_step s (OLoad fn o) = true ->
  has_opt o Makefile = false ->
  load convert_lines is_mk s fn o = Ok (s', r) ->
  load_obs s' r = Some obs ->
  Forall (fun ob : lobs => let '(no, text, raw, fx) := ob in
            exists p, raw = [p] /\ text = Spec.LinesSpec.content p /\ fx = false) obs /\
  (forall k ob, nth_error obs k = Some ob -> fst (fst (fst ob)) = 1 + N.of_nat k).
Proof. exact plain_load_one_line_per_physical_line. Qed.
Print Assumptions C20_plain_load_one_line_per_physical_line.

(* the options are part of the cache key EXACTLY: a Load is served by the cache
   (hits goes up by one; otherwise it stays) iff the file is in the mapping with an
   entry that was stored with exactly the requested options -- for every state,
   every convert *)
Theorem C20_hit_same_options : forall convert is_mk s fn o s' r,
  load convert is_mk s fn o = Ok (s', r) ->
  (c_hits (st_cache s') = c_hits (st_cache s) \/ c_hits (st_cache s') = c_hits (st_cache s) + 1) /\
  (c_hits (st_cache s') = c_hits (st_cache s) + 1 <->
   exists eid, map_get (key fn) (c_map (st_cache s)) = Some eid /\
               e_opts (entry_at (c_store (st_cache s)) eid) = o).
Proof. exact hit_same_options. Qed.
Print Assumptions C20_hit_same_options.

(* why exact equality is needed: the variant of Get whose hit condition is
   `entry.options&options == options` (Model/FileCacheLines.v: get_superset,
   load_superset; otherwise the same Load) is NOT transparent, already for two
   loads on a fresh G without any fix: f.mk = "A= \\\n b\nC= d\n"; Load(f, Makefile);
   Load(f, 0) is served the two joined lines instead of the three physical ones *)
Definition C20_superset_hit_variant : Prop := superset_hit_transparent.
Theorem C20_superset_hit_refuted : ~ C20_superset_hit_variant.
Proof. exact superset_hit_refuted. Qed.
Print Assumptions C20_superset_hit_refuted.

(* The full statement (no guard) is FALSE of the faithful model: FileCache.Put keeps
   the caller's *Lines, ReplaceAt edits Line.Text of those objects in every mode,
   and Get copies that Text.  Witness (any mode): a.mk = "V= 1\n";
   Load(a.mk); ReplaceAt(0, 2, " ", "\t") through the returned view; Load(a.mk)
   returns Text "V=\t1" next to the raw line "V= 1\n". *)
Definition C20_load_transparent_full : Prop := load_transparent_full.
Theorem C20_load_transparent_refuted : ~ C20_load_transparent_full.
Proof. exact load_transparent_refuted. Qed.
Print Assumptions C20_load_transparent_refuted.

(* SaveAutofixChanges evicts: every file it rewrites, and in every mode the file
   of every line with a modified fix, is out of the cache afterwards, so the next
   Load of it reads the disk -- unconditionally *)
Theorem C20_no_stale_after_save :
  forall convert is_mk md cap disk s v fail s' w, (1 <= cap)%nat -> reach convert is_mk md cap disk s ->
  step convert is_mk md s (OSave v fail) = Ok (s', ObsSave w) ->
  (forall k x, In (k, x) w -> map_get k (c_map (st_cache s')) = None) /\
  (forall fn ls l, view_lines s v = Some (fn, ls) -> In l ls -> is_modified l = true ->
     map_get (key (ln_file l)) (c_map (st_cache s')) = None) /\
  (forall fn o s'' r,
     (In (key fn) (map fst w) \/
      exists f ls l, view_lines s v = Some (f, ls) /\ In l ls /\ is_modified l = true /\
                     key (ln_file l) = key fn) ->
     load convert is_mk s' fn o = Ok (s'', r) ->
     load_obs s'' r = fresh_read convert (st_disk s') fn o).
Proof. exact no_stale_after_save. Qed.
Print Assumptions C20_no_stale_after_save.

(* ... and under EVERY outcome of the write: when the rewrite of a file fails
   (pre-existing *.pkglint.tmp, unwritable directory, failing rename -- the list
   `fail`), nothing is reported as written for it, the disk keeps its content, the
   file is evicted all the same, and the next Load returns the lines of the
   UNCHANGED file, not the fixed lines that are still in memory *)
Theorem C20_no_stale_after_failed_save :
  forall convert is_mk md cap disk s v fail s' w, (1 <= cap)%nat -> reach convert is_mk md cap disk s ->
  step convert is_mk md s (OSave v fail) = Ok (s', ObsSave w) ->
  (forall k, key_in k fail = true ->
     map_get k (st_disk s') = map_get k (st_disk s) /\ ~ In k (map fst w)) /\
  (forall f ls l fn o s'' r,
     view_lines s v = Some (f, ls) -> In l ls -> is_modified l = true ->
     key fn = key (ln_file l) -> key_in (key fn) fail = true ->
     load convert is_mk s' fn o = Ok (s'', r) ->
     map_get (key fn) (c_map (st_cache s')) = None /\
     load_obs s'' r = fresh_read convert (st_disk s) fn o).
Proof. exact no_stale_after_failed_save. Qed.
Print Assumptions C20_no_stale_after_failed_save.

(* over a whole run no Line object is handed out twice *)
Theorem C20_line_ids_never_reused :
  forall convert is_mk md cap disk s, (1 <= cap)%nat -> reach convert is_mk md cap disk s ->
  (forall v w fv av fw aw a,
     nth_error (st_views s) v = Some (fv, av) -> nth_error (st_views s) w = Some (fw, aw) ->
     In a av -> In a aw -> v = w) /\
  (forall v fn addrs, nth_error (st_views s) v = Some (fn, addrs) -> NoDup addrs).
Proof. exact line_ids_never_reused. Qed.
Print Assumptions C20_line_ids_never_reused.

(* every Load hands out Line objects that did not exist before, with no fix
   attached, disjoint from every earlier view, and leaves the earlier views alone *)
Theorem C20_fresh_lines_per_load :
  forall convert is_mk md cap disk s fn o s' v, (1 <= cap)%nat -> reach convert is_mk md cap disk s ->
  load convert is_mk s fn o = Ok (s', Some v) ->
  v = length (st_views s) /\
  exists addrs, nth_error (st_views s') v = Some (fn, addrs) /\
    (forall a, In a addrs ->
       (length (st_heap s) <= a < length (st_heap s'))%nat /\ ln_fix (line_at (st_heap s') a) = None) /\
    (forall w fw aw a, nth_error (st_views s) w = Some (fw, aw) -> In a aw -> ~ In a addrs) /\
    (forall w, (w < length (st_views s))%nat -> view_lines s' w = view_lines s w).
Proof. exact fresh_lines_per_load. Qed.
Print Assumptions C20_fresh_lines_per_load.

(* FileCache.Get hands out lines that stay PRIVATE to the caller.  A Load that is
   served by Get (the file is cached with these options) returns a view none of
   whose Line objects is reachable from the cache (addr_cached: some table entry
   holds the address) -- then and after EVERY continuation of the run (further
   loads, overflow, fixes through any view, successful and failing saves,
   modifications) -- and no other view holds any of them.  So whatever is done to
   these Line objects (Autofix changes of Text, Line.once marks) cannot change
   what a later Get copies from, in any mode.  (The view of a cache MISS is what
   Put stores; that aliasing is C20_load_transparent_refuted.) *)
Theorem C20_get_lines_fresh :
  forall convert is_mk md cap disk s fn o eid s1 v, (1 <= cap)%nat -> reach convert is_mk md cap disk s ->
  map_get (key fn) (c_map (st_cache s)) = Some eid ->
  e_opts (entry_at (c_store (st_cache s)) eid) = o ->
  load convert is_mk s fn o = Ok (s1, Some v) ->
  forall h s2 obs w, run convert is_mk md s1 h = (s2, obs, w) ->
  exists addrs, nth_error (st_views s2) v = Some (fn, addrs) /\
    (forall a, In a addrs -> ~ addr_cached s2 a) /\
    (forall u fu au a, u <> v -> nth_error (st_views s2) u = Some (fu, au) -> In a au -> ~ In a addrs).
Proof. exact get_lines_private. Qed.
Print Assumptions C20_get_lines_fresh.

(* a fix through one view changes no Line of any other view (the cache entry of the
   first view is NOT another view: that aliasing is what the guard is about) *)
Theorem C20_fix_touches_one_view :
  forall convert is_mk md cap disk s v i f s' ob, (1 <= cap)%nat -> reach convert is_mk md cap disk s ->
  step convert is_mk md s (OFix v i f) = Ok (s', ob) ->
  forall w, w <> v -> view_lines s' w = view_lines s w.
Proof. exact fix_touches_one_view. Qed.
Print Assumptions C20_fix_touches_one_view.

(* ---------- the hypotheses are satisfiable, the guard is what fails ---------- *)

(* the refutation witness is reachable and violates exactly the guard *)
Example C20_witness_reachable : forall md, reach convert_plain all_mk md 2 wit_disk (wit_state md).
Proof. exact wit_reach. Qed.
Example C20_witness_breaks_guard : forall md, guard_step (wit_state md) (OLoad (0, 0) 4) = false.
Proof. exact wit_guard_false. Qed.

(* the same history followed by SaveAutofixChanges of the fixed view satisfies the
   guard, and the Load is served correctly (here from the disk: the save evicted) *)
Definition ex_ops : list op := wit_ops ++ [OSave 0 []].
Definition ex_state (md : mode) : state :=
  fst (fst (run convert_plain all_mk md (init_state 2 wit_disk) ex_ops)).
Example C20_guard_satisfiable : forall md,
  guard_step (ex_state md) (OLoad (0, 0) 4) = true /\
  exists s' r, load convert_plain all_mk (ex_state md) (0, 0) 4 = Ok (s', r) /\
    load_obs s' r = fresh_read convert_plain (st_disk (ex_state md)) (0, 0) 4 /\
    load_obs s' r <> None.
Proof.
  intros md. split; [destruct md; vm_compute; reflexivity|].
  destruct (load convert_plain all_mk (ex_state md) (0, 0) 4) as [[s' r]|w] eqn:L;
    [|destruct md; vm_compute in L; discriminate].
  exists s', r. split; auto.
  destruct md; vm_compute in L; inversion L; subst; vm_compute; split; congruence.
Qed.

(* a guarded history with a hit, a fix, a save and a reload; without the save it is not guarded *)
Example C20_guarded_history :
  guarded convert_plain all_mk ModeAutofix (init_state 2 wit_disk)
          ([OLoad (0, 0) 4; OLoad (0, 1) 4] ++ [OFix 0 0 (FReplaceAt 0 2 [32] [9]); OSave 0 []; OLoad (0, 0) 4]) = true /\
  guarded convert_plain all_mk ModeAutofix (init_state 2 wit_disk) (wit_ops ++ [OLoad (0, 0) 4]) = false.
Proof. split; vm_compute; reflexivity. Qed.

(* a cache hit under the guard: two loads in a row, the second is served by Get *)
Example C20_hit_under_guard :
  let s1 := fst (fst (run convert_plain all_mk ModeAutofix (init_state 2 wit_disk) [OLoad (0, 0) 4])) in
  guard_step s1 (OLoad (0, 1) 4) = true /\
  exists s' r, load convert_plain all_mk s1 (0, 1) 4 = Ok (s', r) /\
    c_hits (st_cache s') = 1 /\ load_obs s' r = fresh_read convert_plain (st_disk s1) (0, 1) 4.
Proof.
  split; [vm_compute; reflexivity|].
  eexists; eexists. split; [vm_compute; reflexivity|]. split; vm_compute; reflexivity.
Qed.

(* a failing save: Load a.mk; ReplaceAt through the view; SaveAutofixChanges whose
   write fails; Load a.mk: nothing written, disk unchanged, and the second Load
   shows the lines of the unchanged file (whereas without the save it shows the
   fixed Text, C20_load_transparent_refuted) *)
Definition failed_save_run :=
  run convert_plain all_mk ModeAutofix (init_state 2 wit_disk) (wit_ops ++ [OSave 0 [0]; OLoad (0, 0) 4]).
Example C20_failed_save_example :
  snd failed_save_run = None /\
  st_disk (fst (fst failed_save_run)) = wit_disk /\
  nth 2 (snd (fst failed_save_run)) ObsBad = ObsSave [] /\
  nth 3 (snd (fst failed_save_run)) ObsBad = ObsLoad (fresh_read convert_plain wit_disk (0, 0) 4) /\
  fresh_read convert_plain wit_disk (0, 0) 4 <> None.
Proof. vm_compute. repeat split; try reflexivity. discriminate. Qed.

(* mixed modes on the faithful model: Makefile then plain, plain then Makefile of a
   file with a continuation line: each Load shows the lines of ITS mode (they
   differ), no hit; the same options twice: one hit *)
Example C20_mixed_modes_example :
  snd (fst (modes_run 4 0)) =
    [ObsLoad (fresh_read convert_lines modes_disk (0, 0) 4); ObsLoad (fresh_read convert_lines modes_disk (0, 1) 0)] /\
  snd (fst (modes_run 0 4)) =
    [ObsLoad (fresh_read convert_lines modes_disk (0, 0) 0); ObsLoad (fresh_read convert_lines modes_disk (0, 1) 4)] /\
  fresh_read convert_lines modes_disk (0, 0) 4 <> fresh_read convert_lines modes_disk (0, 0) 0 /\
  c_hits (st_cache (fst (fst (modes_run 4 0)))) = 0 /\
  c_hits (st_cache (fst (fst (modes_run 4 4)))) = 1.
Proof. exact modes_example. Qed.
