(* C20 -- the file cache is transparent.  Only statements; every proof is `exact <lemma>`. *)
From PV Require Import Lib.Bytes Model.FileCache Spec.FreshLoad.
Open Scope N_scope.
