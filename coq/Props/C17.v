(* C17 -- 'redundant' / 'has no effect' / 'overwritten' verdicts are sound: the
   flagged line can be deleted.  Only statements; every proof is `exact <lemma>`. *)
From PV Require Import Lib.Bytes Model.Redundant Spec.MakeEval Spec.VerdictSound
  Proofs.RedundantRefuted.

(* The full statement: for every well-formed program (any include structure on
   which the model does not panic), every verdict of the model flags a line whose
   deletion leaves the final value of every variable unchanged, for every fuel. *)
Definition C17_verdict_sound_full : Prop := verdict_sound_on (fun _ _ => True).

(* It is false of the faithful model (DESIGN section 8 item 7). *)
Theorem C17_verdict_sound_refuted : ~ C17_verdict_sound_full.
Proof. exact verdict_sound_refuted. Qed.
Print Assumptions C17_verdict_sound_refuted.
