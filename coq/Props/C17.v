(* C17 -- 'redundant' / 'has no effect' / 'overwritten' verdicts are sound: the
   flagged line can be deleted.  Only statements; every proof is `exact <lemma>`.

   This is the state AFTER the fixes 01-04 of RedundantScope (a '!=' invalidates
   the remembered text; ':=' and '!=' also read the variables they reach through
   other variables; a later '?=' only replaces the single earlier definition; a
   '!=' that uses the variable itself does not make the previous definition
   redundant).  One finding cannot be repaired without changing what the test
   suite expects (VAR:= ${X} followed by VAR= ${X} must be reported as redundant,
   redundantscope_test.go), so the full statement is still false.

   check     : Model/Redundant.v, the model of RedundantScope.Check (verdicts =
               flagged line, line named in the message, kind)
   deletable : Spec/VerdictSound.v: deleting line i leaves the final value of
               every variable (Spec/MakeEval.v, for every fuel) unchanged
   wf_program: what the makefile parser can produce (no '$' in literal chunks
               and names, the value text does not start with a space)
   check p = Ok vs excludes Panic (include path runs off the stack) and OutOfFuel
   (closure of Var.Refs not reached in the allotted rounds; C17_check_total shows
   that this never happens). *)
From PV Require Import Lib.Bytes Model.Redundant Model.RedundantPaths Model.RedundantCond Spec.MakeEval Spec.VerdictSound
  Spec.PathDenote Spec.SpellingIndep
  Proofs.RedundantRefuted Proofs.RedundantSound Proofs.RedundantReads Proofs.RedundantTotal
  Proofs.RedundantPaths Proofs.RedundantCond Proofs.RedundantCondSim
  Spec.VerdictSound2 Proofs.RedundantSound2 Proofs.RedundantSound3 Proofs.RedundantSound4
  Model.RedundantDir Spec.MakeEvalDir Spec.VerdictSoundDir Proofs.RedundantDir.

Definition C17_verdict_sound_full : Prop :=
  forall (p : program) (vs : list verdict) (vd : verdict),
    wf_program p = true -> check p = Ok vs -> In vd vs -> deletable p (vd_flagged vd).

(* Still false: VB= 1 / VA:= ${VB} / VA= ${VB} / VB= 2, "line 3 is redundant". *)
Theorem C17_verdict_sound_refuted : ~ C17_verdict_sound_full.
Proof. exact verdict_sound_full_refuted. Qed.
Print Assumptions C17_verdict_sound_refuted.

(* The partial theorem, for all programs (any include structure, every fuel).
   A verdict about variable x flags a deletable line whenever
   - the LATER of its two lines is flagged because it assigns the remembered text
     again ('=' or ':='): the last '=' / ':=' to x before it is not a ':=' whose
     text contains a '$' (the unrepaired finding);
     no condition if the later line is flagged because it is a '?=';
   - an EARLIER line is flagged: no ':=' / '!=' with a '$' in its text strictly
     between the two lines, and the later line is not one either.
   Compared with the unrepaired code the conditions "no '!=' on x before",
   "first assignment of x" and "no eager assignment to x with a '$'" are gone. *)
Theorem C17_verdict_sound_partial :
  forall (p : program) (vs : list verdict) (vd : verdict),
    wf_program p = true -> check p = Ok vs -> In vd vs ->
    (if Nat.ltb (vd_flagged vd) (vd_because vd) then
       eager_plain (between p (vd_flagged vd) (vd_because vd)) && line_plain p (vd_because vd)
     else
       match line_op p (vd_flagged vd) with
       | Some OpDefault => true
       | _ => negb (after_eval_ref (writes_of (line_var p (vd_flagged vd)) 0 (firstn (vd_flagged vd) p)))
       end) = true ->
    deletable p (vd_flagged vd).
Proof. exact verdict_sound_partial. Qed.
Print Assumptions C17_verdict_sound_partial.

(* In plain terms: if no ':=' and no '!=' in the program has a '$' in its text,
   every verdict is sound -- in one file or with included files. *)
Theorem C17_eager_plain_sound :
  forall (p : program) (vs : list verdict) (vd : verdict),
    wf_program p = true -> eager_plain p = true ->
    check p = Ok vs -> In vd vs -> deletable p (vd_flagged vd).
Proof. exact eager_plain_sound. Qed.
Print Assumptions C17_eager_plain_sound.

(* The condition on a flagged later line is needed. *)
Theorem C17_guard_needs_eval_condition :
  ~ verdict_sound_on (fun p vd =>
      Nat.ltb (vd_flagged vd) (vd_because vd) = true ->
      eager_plain (between p (vd_flagged vd) (vd_because vd)) && line_plain p (vd_because vd) = true).
Proof. exact guard_needs_eval_condition. Qed.
Print Assumptions C17_guard_needs_eval_condition.

(* Reads block verdicts: when the last mention of x before an assignment to x
   is a use ${x} in a value, that assignment emits no verdict. *)
Theorem C17_read_blocks_verdict :
  forall (pre : program) (l : line) (post : program) (a : assign) (vs : list verdict),
    check (pre ++ l :: post) = Ok vs -> l_body l = Some a ->
    last_mention (a_var a) pre = ARead ->
    forall vd, In vd vs -> emitted_at vd <> length pre.
Proof. exact read_blocks_verdict. Qed.
Print Assumptions C17_read_blocks_verdict.

(* The fuel of the model (rounds for the closure of Var.Refs) always suffices:
   check p = Ok vs only excludes the panic of includePath.popUntil. *)
Theorem C17_check_total : forall p : program, check p <> OutOfFuel.
Proof. exact check_never_out_of_fuel. Qed.
Print Assumptions C17_check_total.

(* The hypotheses are satisfiable. *)
Example C17_guard_satisfiable :
  wf_program prog_good = true /\
  check prog_good = Ok [mkVerdict 1 0 KRedundant; mkVerdict 2 1 KNoEffect; mkVerdict 2 3 KOverwritten] /\
  forallb (guard prog_good) [mkVerdict 1 0 KRedundant; mkVerdict 2 1 KNoEffect; mkVerdict 2 3 KOverwritten] = true.
Proof. exact prog_good_facts. Qed.

Example C17_eager_plain_satisfiable : eager_plain prog_good = true.
Proof. exact prog_good_plain. Qed.

Example C17_guard_allows_eval_elsewhere :
  wf_program prog_good_eval = true /\ check prog_good_eval = Ok [mkVerdict 2 1 KRedundant] /\
  guard prog_good_eval (mkVerdict 2 1 KRedundant) = true /\ eager_plain prog_good_eval = false.
Proof. exact prog_good_eval_facts. Qed.

(* The former counterexamples: the repaired code no longer emits the wrong verdict. *)
Example C17_repaired_indirect_read : check prog_indirect = Ok [].
Proof. exact prog_indirect_facts. Qed.

Example C17_repaired_after_shell :
  check prog_shell = Ok [mkVerdict 0 1 KRedundant; mkVerdict 1 2 KOverwritten] /\
  deletable_b 6 prog_shell 0 = true /\ deletable_b 6 prog_shell 1 = true.
Proof. exact prog_shell_facts. Qed.

Example C17_repaired_included_default : check prog_incdefault = Ok [mkVerdict 0 1 KOverwritten].
Proof. exact prog_incdefault_facts. Qed.

Example C17_repaired_shell_reads_itself : check prog_shellself = Ok [].
Proof. exact prog_shellself_facts. Qed.

(* ---------- verdicts in the context of the including file: file NAMES ----------

   pprogram      : lines labelled with the path under which the loader read their file
   check_spelled : Model/RedundantPaths.v, RedundantScope.Check as coded (names compared as strings)
   check_denoted : Spec/SpellingIndep.v, the same analysis with names compared by what they
                   denote (Spec/PathDenote.denote, the specification of C19)
   same_shape cwd p q : q is p respelled (line by line: same denotation, line number, body)
   one_spelling cwd p : no file of p is spelled in two ways (guaranteed by Package.loadIncluded,
                   which splices every file once: pkg.included.FirstTime(Relpath(...))) *)

(* On denotations the verdicts are the same for ALL programs and ALL spellings. *)
Theorem C17_denoted_spelling_independent :
  forall (cwd : str) (p q : pprogram),
    same_shape cwd p q -> check_denoted cwd p = check_denoted cwd q.
Proof. exact denoted_spelling_independent. Qed.
Print Assumptions C17_denoted_spelling_independent.

(* The Go code is that analysis whenever every file has one name. *)
Theorem C17_spelled_is_denoted :
  forall (cwd : str) (p : pprogram),
    one_spelling cwd p -> check_spelled p = check_denoted cwd p.
Proof. exact spelled_is_denoted. Qed.
Print Assumptions C17_spelled_is_denoted.

(* Hence: all spellings with equal denotation give the same verdicts. *)
Theorem C17_verdict_spelling_independent :
  forall (cwd : str) (p q : pprogram),
    same_shape cwd p q -> one_spelling cwd p -> one_spelling cwd q ->
    check_spelled p = check_spelled q.
Proof. exact verdict_spelling_independent. Qed.
Print Assumptions C17_verdict_spelling_independent.

(* one_spelling is needed: RedundantScope takes the same file under two names for two files. *)
Theorem C17_spelling_independent_needs_one_spelling :
  ~ (forall cwd p q, same_shape cwd p q -> check_spelled p = check_spelled q).
Proof. exact spelling_independent_needs_one_spelling. Qed.
Print Assumptions C17_spelling_independent_needs_one_spelling.

(* "the flagged line can be deleted" does not depend on names at all. *)
Theorem C17_deletable_spelling_independent :
  forall (cwd : str) (e1 e2 : str -> str -> bool) (p q : pprogram) (i : nat),
    same_shape cwd p q -> deletable (intern_by e1 p) i -> deletable (intern_by e2 q) i.
Proof. exact deletable_spelling_independent. Qed.
Print Assumptions C17_deletable_spelling_independent.

(* The partial soundness theorem for programs whose files are spelled arbitrarily,
   for the analysis as coded and for the analysis on denotations. *)
Theorem C17_verdict_sound_spelled_partial :
  forall (p : pprogram) (vs : list verdict) (vd : verdict),
    wf_program (forget p) = true -> check_spelled p = Ok vs -> In vd vs ->
    guard (forget p) vd = true -> deletable (forget p) (vd_flagged vd).
Proof. exact verdict_sound_spelled. Qed.
Print Assumptions C17_verdict_sound_spelled_partial.

Theorem C17_verdict_sound_denoted_partial :
  forall (cwd : str) (p : pprogram) (vs : list verdict) (vd : verdict),
    wf_program (forget p) = true -> check_denoted cwd p = Ok vs -> In vd vs ->
    guard (intern_by (same_denotation cwd) p) vd = true -> deletable (forget p) (vd_flagged vd).
Proof. exact verdict_sound_denoted. Qed.
Print Assumptions C17_verdict_sound_denoted_partial.

(* Which fragments pkglint has to analyse on their own (Spec/SpellingIndep.analysed_alone, the
   prediction the package-tree layer tests the binary against) does not depend on how the
   .include lines are spelled, and a fragment that an .include line denotes is never one of them. *)
Theorem C17_analysed_alone_spelling_independent :
  forall (cwd pkgdir fragdir fragbase : str) (incs incs' : list (str * str)),
    Forall2 (fun i j => denote cwd (join_path (fst i) (snd i)) = denote cwd (join_path (fst j) (snd j))) incs incs' ->
    analysed_alone cwd pkgdir fragdir fragbase incs = analysed_alone cwd pkgdir fragdir fragbase incs'.
Proof. exact analysed_alone_spelling_independent. Qed.
Print Assumptions C17_analysed_alone_spelling_independent.

Theorem C17_included_fragment_not_alone :
  forall (cwd pkgdir fragdir fragbase : str) (incs : list (str * str)) (i : str * str),
    In i incs -> denote cwd (join_path (fst i) (snd i)) = denote cwd (join_path fragdir fragbase) ->
    analysed_alone cwd pkgdir fragdir fragbase incs = false.
Proof. exact included_fragment_not_alone. Qed.
Print Assumptions C17_included_fragment_not_alone.

(* ---------- conditional sections (.if ... .endif) ----------

   cprogram      : every line carries Indentation.IsConditional() (Model/RedundantCond.v)
   check_lines_c : the verdicts of RedundantScope.Check, line by line
   plain p       : p without conditional sections *)

Theorem C17_check_c_plain : forall p : program, check_c (plain p) = check p.
Proof. exact check_c_plain. Qed.
Print Assumptions C17_check_c_plain.

(* An assignment inside a conditional section is never flagged and never makes
   another line flagged: nothing is emitted at its line. *)
Theorem C17_conditional_line_silent :
  forall (p : cprogram) (per : list (list verdict)) (i : nat) (l : line),
    check_lines_c p = Ok per -> nth_error p i = Some (true, l) -> nth_error per i = Some [].
Proof. exact conditional_line_silent_program. Qed.
Print Assumptions C17_conditional_line_silent.

(* Once x has been assigned inside a conditional section, no later assignment to x
   (conditional or not) emits a verdict. *)
Theorem C17_conditional_is_sticky :
  forall (pre : cprogram) (c : bool) (l : line) (post : cprogram) (per : list (list verdict)) (x : var),
    check_lines_c (pre ++ (c, l) :: post) = Ok per ->
    assigns x l = true -> cond_written x pre = true ->
    nth_error per (length pre) = Some [].
Proof. exact conditional_is_sticky_program. Qed.
Print Assumptions C17_conditional_is_sticky.

(* Every verdict given in the presence of conditional sections is also given for the
   program without them (which does not panic either) ... *)
Theorem C17_cond_verdicts_subset :
  forall (p : cprogram) (vsc : list verdict),
    check_c p = Ok vsc -> exists vs, check (map snd p) = Ok vs /\ incl vsc vs.
Proof. exact cond_verdicts_subset_total. Qed.
Print Assumptions C17_cond_verdicts_subset.

(* ... hence the partial soundness theorem holds with conditional sections (whose
   conditions mention no variable and are taken by make: deletable speaks about the
   lines as make reads them). *)
Theorem C17_verdict_sound_cond_partial :
  forall (p : cprogram) (vsc : list verdict) (vd : verdict),
    wf_program (map snd p) = true -> check_c p = Ok vsc -> In vd vsc ->
    guard (map snd p) vd = true -> deletable (map snd p) (vd_flagged vd).
Proof. exact verdict_sound_cond_total. Qed.
Print Assumptions C17_verdict_sound_cond_partial.

(* ----- round 5: ':=' / '!=' lines with a '$' between the two lines ----- *)

(* The guard of C17_verdict_sound_partial with its second conjunct weakened.  An
   EARLIER line lo is flagged because of the later line hi (variable x): every
   ':=' / '!=' whose text contains a '$' among the lines lo+1 .. hi (hi included)
   does not reach x, where "reach" is read off the program text -- z refers to w
   when some assignment to z in the lines BEFORE the line in question has ${w} in
   its text; [reaches pre ws x] closes the variables ws of the line's text under
   this relation and looks for x (Spec/VerdictSound2.v, executable).  The first
   conjunct (later line flagged) is unchanged. *)
Theorem C17_verdict_sound_partial2 :
  forall (p : program) (vs : list verdict) (vd : verdict),
    wf_program p = true -> check p = Ok vs -> In vd vs ->
    (if Nat.ltb (vd_flagged vd) (vd_because vd) then
       indep_lines (line_var p (vd_flagged vd)) (firstn (S (vd_flagged vd)) p)
                   (firstn (vd_because vd - vd_flagged vd) (skipn (S (vd_flagged vd)) p))
     else
       match line_op p (vd_flagged vd) with
       | Some OpDefault => true
       | _ => negb (after_eval_ref (writes_of (line_var p (vd_flagged vd)) 0 (firstn (vd_flagged vd) p)))
       end) = true ->
    deletable p (vd_flagged vd).
Proof. exact verdict_sound_partial2. Qed.
Print Assumptions C17_verdict_sound_partial2.

(* VA= a / VC= c / VB:= ${VC} / VA= b: the verdict "line 1 is overwritten in line
   4" is outside the old guard and inside the new one. *)
Theorem C17_partial2_covers_more :
  wf_program prog_between = true /\
  check prog_between = Ok [mkVerdict 0 3 KOverwritten] /\
  guard prog_between (mkVerdict 0 3 KOverwritten) = false /\
  guard2 prog_between (mkVerdict 0 3 KOverwritten) = true.
Proof. exact prog_between_facts. Qed.
Print Assumptions C17_partial2_covers_more.

(* The read marks of the model against the program text: Var.Refs() of z contains
   every variable named in a text assigned to z so far, and while the last action
   on x is not a read the lines after the last assignment to x do not reach x.
   Hence nothing has to be asked of the lines BETWEEN the two lines: only the later
   line itself, if it is a ':=' / '!=' with a '$', must not reach x. *)
Theorem C17_verdict_sound_partial3 :
  forall (p : program) (vs : list verdict) (vd : verdict),
    wf_program p = true -> check p = Ok vs -> In vd vs ->
    (if Nat.ltb (vd_flagged vd) (vd_because vd) then
       match nth_error p (vd_because vd) with
       | Some l => indep_line (firstn (vd_because vd) p) (line_var p (vd_flagged vd)) l
       | None => true
       end
     else
       match line_op p (vd_flagged vd) with
       | Some OpDefault => true
       | _ => negb (after_eval_ref (writes_of (line_var p (vd_flagged vd)) 0 (firstn (vd_flagged vd) p)))
       end) = true ->
    deletable p (vd_flagged vd).
Proof. exact verdict_sound_partial3. Qed.
Print Assumptions C17_verdict_sound_partial3.

(* ... and not of the later line either: the only later line with a '$' that
   makes an earlier line "redundant" is a '!=' on a constant variable whose command
   does not name the variable (repair 04); a constant variable whose last action is
   not a read has never been read, so no text names it and the command cannot reach
   it.  What is left of the guard is the condition for a LATER flagged line, i.e.
   the unrepaired finding (its need: C17_guard_needs_eval_condition). *)
Theorem C17_verdict_sound_partial4 :
  forall (p : program) (vs : list verdict) (vd : verdict),
    wf_program p = true -> check p = Ok vs -> In vd vs ->
    (if Nat.ltb (vd_flagged vd) (vd_because vd) then true
     else
       match line_op p (vd_flagged vd) with
       | Some OpDefault => true
       | _ => negb (after_eval_ref (writes_of (line_var p (vd_flagged vd)) 0 (firstn (vd_flagged vd) p)))
       end) = true ->
    deletable p (vd_flagged vd).
Proof. exact verdict_sound_partial4. Qed.
Print Assumptions C17_verdict_sound_partial4.

(* In plain terms: every verdict that flags the EARLIER of its two lines
   ("overwritten in line n", "redundant because of line n" with n further down)
   is sound, for all programs. *)
Theorem C17_earlier_line_sound :
  forall (p : program) (vs : list verdict) (vd : verdict),
    wf_program p = true -> check p = Ok vs -> In vd vs ->
    (vd_flagged vd < vd_because vd)%nat -> deletable p (vd_flagged vd).
Proof. exact earlier_line_sound. Qed.
Print Assumptions C17_earlier_line_sound.

(* The same for arbitrarily spelled files, for the analysis on denotations, and
   with conditional sections. *)
Theorem C17_verdict_sound_spelled_partial4 :
  forall (p : pprogram) (vs : list verdict) (vd : verdict),
    wf_program (forget p) = true -> check_spelled p = Ok vs -> In vd vs ->
    guard4 (forget p) vd = true -> deletable (forget p) (vd_flagged vd).
Proof. exact verdict_sound_spelled4. Qed.
Print Assumptions C17_verdict_sound_spelled_partial4.

Theorem C17_verdict_sound_denoted_partial4 :
  forall (cwd : str) (p : pprogram) (vs : list verdict) (vd : verdict),
    wf_program (forget p) = true -> check_denoted cwd p = Ok vs -> In vd vs ->
    guard4 (intern_by (same_denotation cwd) p) vd = true -> deletable (forget p) (vd_flagged vd).
Proof. exact verdict_sound_denoted4. Qed.
Print Assumptions C17_verdict_sound_denoted_partial4.

Theorem C17_verdict_sound_cond_partial4 :
  forall (p : cprogram) (vsc : list verdict) (vd : verdict),
    wf_program (map snd p) = true -> check_c p = Ok vsc -> In vd vsc ->
    guard4 (map snd p) vd = true -> deletable (map snd p) (vd_flagged vd).
Proof. exact verdict_sound_cond4. Qed.
Print Assumptions C17_verdict_sound_cond_partial4.

(* ---------- makefiles with directives (round 5) ----------

   dprogram      : lines with .if [!]defined/empty(X) / .else / .endif, .for / .endfor, .undef,
                   .include, files from mk/ (Model/RedundantDir.v, with the Indentation stack,
                   findGuardLine and the two callers check_file / check_pkg)
   final_d       : make's evaluation of such a makefile (Spec/MakeEvalDir.v)
   deletable_d   : removing the given lines leaves every final value unchanged *)

(* After ".undef x" - in a package file or in a file from mk/, inside a condition or not -
   no assignment to x gets or causes a verdict, whatever stands in between: no verdict
   relates lines across an .undef of that variable. *)
Theorem C17_undef_forgets :
  forall (g : option nat) (pre : dprogram) (l : dline) (rest : dprogram)
         (per : list (list verdict)) (x : var) (j : nat) (l2 : dline),
    check_lines_d g (pre ++ l :: rest) = Ok per -> d_undefs x l = true ->
    nth_error rest j = Some l2 -> d_assigns x l2 = true ->
    nth_error per (S (length pre + j)) = Some [].
Proof. exact undef_forgets. Qed.
Print Assumptions C17_undef_forgets.

(* An assignment inside an .if/.for section other than the multiple-inclusion guard of its
   MkLines gets no verdict and causes none - for every condition, taken by make or not.
   [in_conditional_section] is a specification of its own (Spec/VerdictSoundDir.v), not the
   Indentation stack of the model. *)
Theorem C17_conditional_line_silent_real_conditions :
  forall (g : option nat) (p : dprogram) (per : list (list verdict)) (j : nat) (l : dline) (a : assign),
    check_lines_d g p = Ok per -> nth_error p j = Some l -> dl_body l = DAssign a ->
    in_conditional_section g (firstn j p) = true -> nth_error per j = Some [].
Proof. exact conditional_line_silent_d. Qed.
Print Assumptions C17_conditional_line_silent_real_conditions.

(* The evaluator with directives is the old evaluator on makefiles without directives,
   "deletable" means there what it meant, and the model with directives is the old model. *)
Theorem C17_evaldir_conservative :
  forall (fuel : nat) (p : sprogram) (x : str), final_d fuel (lift p) x = final fuel p x.
Proof. exact evaldir_conservative. Qed.
Print Assumptions C17_evaldir_conservative.

Theorem C17_deletable_d_conservative :
  forall (p : program) (i : nat), deletable_d (embed p) [i] <-> deletable p i.
Proof. exact deletable_d_embed. Qed.
Print Assumptions C17_deletable_d_conservative.

Theorem C17_check_pkg_conservative : forall p : program, check_pkg (embed p) = check p.
Proof. exact check_pkg_embed. Qed.
Print Assumptions C17_check_pkg_conservative.

Theorem C17_check_d_conservative : forall (g : option nat) (p : program), check_d g (embed p) = check p.
Proof. exact check_d_embed. Qed.
Print Assumptions C17_check_d_conservative.

(* Soundness of the verdicts of a whole package with directives: false of the code as it is.
   A condition in a file from mk/ is not counted as a read (RedundantScope.handleExpr returns
   early for directives of the infrastructure):
     Makefile: VA= a / .include "../../mk/reset.mk" / VA= b     mk/reset.mk: .if defined(VA) / VB= a / .endif
   -> "Makefile:1: Variable VA is overwritten in line 3"; without line 1 VB stays undefined.
   (Reproduced on the binary; finding C17/unsound/directives/condition-in-mk-file-reads-variable.
   The same condition in a file of the package is a read: no verdict.) *)
Definition C17_verdict_sound_dir_full : Prop :=
  forall (p : dprogram) (vs : list verdict) (vd : verdict),
    check_pkg p = Ok vs -> In vd vs -> deletable_d p [vd_flagged vd].

Theorem C17_verdict_sound_dir_refuted : ~ C17_verdict_sound_dir_full.
Proof. exact verdict_sound_dir_refuted. Qed.
Print Assumptions C17_verdict_sound_dir_refuted.

Example C17_package_condition_is_a_read : check_pkg witness_package_condition = Ok [].
Proof. exact package_condition_is_a_read. Qed.

(* Proved: on makefiles without directives, seen through the model and the evaluator WITH
   directives, the partial theorem holds (guard = that of C17_verdict_sound_partial). *)
Theorem C17_verdict_sound_dir_partial :
  forall (p : program) (vs : list verdict) (vd : verdict),
    wf_program p = true -> check_pkg (embed p) = Ok vs -> In vd vs -> guard p vd = true ->
    deletable_d (embed p) [vd_flagged vd].
Proof. exact verdict_sound_dir_partial. Qed.
Print Assumptions C17_verdict_sound_dir_partial.

(* What findGuardLine finds, and why the exemption of the guard is right for a file that is
   read on its own (closed world): make takes the guard, the body is active, the table is empty.
   In the whole-package scan other lines come first, and C17_conditional_line_silent_real_conditions
   with g = None says the model exempts nothing there (seed C17-r5m1 broke exactly that). *)
Theorem C17_find_guard_shape :
  forall (p : dprogram) (g : nat),
    find_guard p = Some g ->
    exists pre l x post,
      p = pre ++ l :: post /\ length pre = g /\ dl_body l = DIf true (DCDefined x) /\
      guard_name_ok x = true /\ Forall (fun l0 => dl_body l0 = DComment) pre.
Proof. exact find_guard_shape. Qed.
Print Assumptions C17_find_guard_shape.

Theorem C17_guard_taken_when_read_alone :
  forall (p : dprogram) (g : nat) (fuel : nat),
    find_guard p = Some g ->
    fold_left (exec_dline fuel) (to_spec_d (firstn (S g) p)) dinit
    = mkD empty_store [mkFrame true true false] false.
Proof. exact guard_taken_when_read_alone. Qed.
Print Assumptions C17_guard_taken_when_read_alone.
