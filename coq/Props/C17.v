(* C17 -- 'redundant' / 'has no effect' / 'overwritten' verdicts are sound: the
   flagged line can be deleted.  Only statements; every proof is `exact <lemma>`.

   check     : Model/Redundant.v, the model of RedundantScope.Check (verdicts =
               flagged line, line named in the message, kind)
   deletable : Spec/VerdictSound.v: deleting line i leaves the final value of
               every variable (Spec/MakeEval.v, for every fuel) unchanged
   wf_program: what the makefile parser can produce (no '$' in literal chunks
               and names, the value text does not start with a space) *)
From PV Require Import Lib.Bytes Model.Redundant Spec.MakeEval Spec.VerdictSound Spec.SingleFile
  Proofs.RedundantRefuted Proofs.RedundantSound Proofs.RedundantReads Proofs.RedundantSingle.

(* The full statement: for every well-formed program (any file labels / line
   numbers on which the model does not panic), every verdict of the model flags
   a line whose deletion leaves the final value of every variable unchanged. *)
Definition C17_verdict_sound_full : Prop :=
  forall (p : program) (vs : list verdict) (vd : verdict),
    wf_program p = true -> check p = Ok vs -> In vd vs -> deletable p (vd_flagged vd).

(* It is false of the faithful model (DESIGN section 8 item 7:
   VB= 1 / VA:= ${VB} / VA= ${VB} / VB= 2, "line 3 is redundant"). *)
Theorem C17_verdict_sound_refuted : ~ C17_verdict_sound_full.
Proof. exact verdict_sound_full_refuted. Qed.
Print Assumptions C17_verdict_sound_refuted.

(* The partial theorem.  A verdict about variable x, emitted at line
   hi = max(flagged, because), lo = the other line, is sound whenever
   (1) no assignment to x in lines 0..hi is ':=' or '!=' with a '$' in its text,
   (2) if the earlier line is the flagged one: no ':=' / '!=' with a '$' in its
       text strictly between lo and hi (other variables, anywhere else: free),
   (3) backward_default_ok: if the earlier line is flagged as redundant because
       of a later '?=', it is the first assignment to x,
   (4) forward_same_ok: if the later line is flagged because it assigns the
       remembered text again ('=' or ':='), no '!=' was applied to x before. *)
Theorem C17_verdict_sound_partial :
  forall (p : program) (vs : list verdict) (vd : verdict),
    wf_program p = true -> check p = Ok vs -> In vd vs ->
    (let lo := Nat.min (vd_flagged vd) (vd_because vd) in
     let hi := Nat.max (vd_flagged vd) (vd_because vd) in
     plain_on (line_var p (vd_flagged vd)) (firstn (S hi) p) &&
     (if Nat.ltb (vd_flagged vd) (vd_because vd) then eager_plain (between p lo hi) else true) &&
     backward_default_ok p vd && forward_same_ok p vd) = true ->
    deletable p (vd_flagged vd).
Proof. exact verdict_sound_partial. Qed.
Print Assumptions C17_verdict_sound_partial.

(* The same in plain terms for the common case: one makefile (all lines in one
   file, numbered from 1), no '!=' at all, no '$' in the text of a ':='
   assignment.  Then every verdict is sound.  (The "included file" arm of the
   default case is unreachable: all include paths are equal.) *)
Theorem C17_single_file_sound :
  forall (p : program) (vs : list verdict) (vd : verdict),
    wf_program p = true -> single_file p = true -> eager_plain p = true -> no_shell p = true ->
    check p = Ok vs -> In vd vs -> deletable p (vd_flagged vd).
Proof. exact single_file_sound. Qed.
Print Assumptions C17_single_file_sound.

(* Each of the four conditions is needed: dropping it makes the statement false. *)
Theorem C17_guard_needs_plain_assignments :
  ~ verdict_sound_on (fun p vd =>
      (if Nat.ltb (vd_flagged vd) (vd_because vd)
       then eager_plain (between p (Nat.min (vd_flagged vd) (vd_because vd)) (Nat.max (vd_flagged vd) (vd_because vd)))
       else true) = true /\
      backward_default_ok p vd = true /\ forward_same_ok p vd = true).
Proof. exact guard_needs_plain_on. Qed.
Print Assumptions C17_guard_needs_plain_assignments.

Theorem C17_guard_needs_plain_between :
  ~ verdict_sound_on (fun p vd =>
      plain_on (line_var p (vd_flagged vd)) (firstn (S (Nat.max (vd_flagged vd) (vd_because vd))) p) = true /\
      backward_default_ok p vd = true /\ forward_same_ok p vd = true).
Proof. exact guard_needs_between. Qed.
Print Assumptions C17_guard_needs_plain_between.

Theorem C17_guard_needs_backward_default_ok :
  ~ verdict_sound_on (fun p vd =>
      plain_on (line_var p (vd_flagged vd)) (firstn (S (Nat.max (vd_flagged vd) (vd_because vd))) p) = true /\
      (if Nat.ltb (vd_flagged vd) (vd_because vd)
       then eager_plain (between p (Nat.min (vd_flagged vd) (vd_because vd)) (Nat.max (vd_flagged vd) (vd_because vd)))
       else true) = true /\
      forward_same_ok p vd = true).
Proof. exact guard_needs_backward_default_ok. Qed.
Print Assumptions C17_guard_needs_backward_default_ok.

Theorem C17_guard_needs_forward_same_ok :
  ~ verdict_sound_on (fun p vd =>
      plain_on (line_var p (vd_flagged vd)) (firstn (S (Nat.max (vd_flagged vd) (vd_because vd))) p) = true /\
      (if Nat.ltb (vd_flagged vd) (vd_because vd)
       then eager_plain (between p (Nat.min (vd_flagged vd) (vd_because vd)) (Nat.max (vd_flagged vd) (vd_because vd)))
       else true) = true /\
      backward_default_ok p vd = true).
Proof. exact guard_needs_forward_same_ok. Qed.
Print Assumptions C17_guard_needs_forward_same_ok.

(* Reads block verdicts: when the last mention of x before an assignment to x
   is a use ${x} in a value, that assignment emits no verdict (emitted_at = the
   later of the two lines of a verdict).  For all programs, no guard. *)
Theorem C17_read_blocks_verdict :
  forall (pre : program) (l : line) (post : program) (a : assign) (vs : list verdict),
    check (pre ++ l :: post) = Ok vs -> l_body l = Some a ->
    last_mention (a_var a) pre = ARead ->
    forall vd, In vd vs -> emitted_at vd <> length pre.
Proof. exact read_blocks_verdict. Qed.
Print Assumptions C17_read_blocks_verdict.

(* The hypotheses are satisfiable: a program with one verdict of each kind, all
   inside the guard; and one that contains VB:= ${VC} and is still inside it. *)
Example C17_guard_satisfiable :
  wf_program prog_good = true /\
  check prog_good = Ok [mkVerdict 1 0 KRedundant; mkVerdict 2 1 KNoEffect; mkVerdict 2 3 KOverwritten] /\
  forallb (guard prog_good) [mkVerdict 1 0 KRedundant; mkVerdict 2 1 KNoEffect; mkVerdict 2 3 KOverwritten] = true.
Proof. exact prog_good_facts. Qed.

Example C17_single_file_satisfiable :
  single_file prog_good = true /\ eager_plain prog_good = true /\ no_shell prog_good = true.
Proof. exact prog_good_single. Qed.

Example C17_guard_allows_eval_elsewhere :
  wf_program prog_good_eval = true /\ check prog_good_eval = Ok [mkVerdict 2 1 KRedundant] /\
  guard prog_good_eval (mkVerdict 2 1 KRedundant) = true /\ eager_plain prog_good_eval = false.
Proof. exact prog_good_eval_facts. Qed.

(* The other counterexamples found on the real code, on model and evaluator. *)
Example C17_witness_indirect_read :
  check prog_indirect = Ok [mkVerdict 1 3 KOverwritten] /\
  final 6 (to_spec prog_indirect) vB = Some la /\
  final 6 (to_spec (delete_nth 1 prog_indirect)) vB = Some lb.
Proof. exact (proj2 prog_indirect_facts). Qed.

Example C17_witness_after_shell :
  check prog_shell = Ok [mkVerdict 0 1 KRedundant; mkVerdict 2 1 KRedundant] /\
  final 6 (to_spec prog_shell) vA = Some la /\
  final 6 (to_spec (delete_nth 2 prog_shell)) vA = Some [60; 99; 62]%N.
Proof. exact (proj2 prog_shell_facts). Qed.

Example C17_witness_included_default :
  check prog_incdefault = Ok [mkVerdict 0 1 KOverwritten; mkVerdict 1 3 KRedundant] /\
  final 6 (to_spec prog_incdefault) vA = Some la /\
  final 6 (to_spec (delete_nth 1 prog_incdefault)) vA = Some lb.
Proof. exact (proj2 prog_incdefault_facts). Qed.

Example C17_witness_shell_reads_itself :
  check prog_shellself = Ok [mkVerdict 0 1 KRedundant] /\
  final 6 (to_spec prog_shellself) vA = Some [60; 97; 62]%N /\
  final 6 (to_spec (delete_nth 0 prog_shellself)) vA = Some [60; 62]%N.
Proof. exact (proj2 prog_shellself_facts). Qed.
