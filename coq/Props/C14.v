(* C14 -- Condition rewrites offered as simplifications preserve the condition's value.
   Only statements; every proof is `exact <lemma>`.

   Vocabulary (Spec/BmakeCond.v): [eval e c] is the value of the condition tree c
   when the variables have the values e (e v = None: undefined): Some TTrue, Some
   TFalse, Some TMalformed (bmake stops with "Malformed conditional"), or None
   when c uses a modifier outside the fragment :M :N :tl :U.
   The pattern of :M / :N is the text as written: literal bytes and nested
   references ${NAME}; bmake expands it in the environment e before matching
   ([expand_pat e pat]; an undefined nested variable contributes nothing, glob
   bytes in a nested value act as glob bytes; any other use of '$' = outside).
   So every theorem below also quantifies over the values of all variables that
   patterns refer to.  [no_dollar pat]: the pattern has no '$' byte.
   Model/CondSimp.v: simplify_word / simplify_yesno / simplify_match / check_and
   return the rewrites pkglint offers; rw_from_c / rw_to_c say what the from/to
   texts mean as trees (checked against the spec's reader on every generated case).

   [preserves e f t]: if the original f is inside the fragment so is t, and if f is
   valid (not malformed) then t has the same value -- hence is valid too.
   [equivalent e f t]: eval e f = eval e t (also the same malformedness).
   Every theorem holds for ALL values of ALL variables, under the stated
   hypotheses on the value of the rewritten variable:
     "admitted by a non-list type" = what reaches the last modifier is at most one
     word (wordlike: no white space), e.g. any single word or the empty string
     under prefix modifiers :tl :U :M :N;
     "isDefined is right" = where pkglint's isDefined says the variable is
     defined, it is (e v <> None). *)
From PV Require Import Lib.Bytes Gen.CondSimpSets Spec.BmakeCond Model.CondSimp
  Proofs.CondSimpA Proofs.CondSimpB Proofs.CondSimpNum Proofs.CondSimpC Proofs.CondSimpWords Proofs.CondSimpD
  Proofs.CondSimpE Proofs.CondSimpF Spec.PrefsFile Model.CondFile Proofs.CondFileA Proofs.CondFileB Proofs.CondSimpG.
Open Scope N_scope.

(* ---- the regenerated literals are the ones the model was written against ---- *)
Theorem C14_needs_quotes_regex_unchanged :
  needs_quotes_regex = [94; 91; 92; 100; 43; 92; 45; 46; 93].   (* ^[\d+\-.] *)
Proof. reflexivity. Qed.
Print Assumptions C14_needs_quotes_regex_unchanged.

(* MatchMatch's "exact" excludes every byte that bmake's Str_Match treats specially *)
Theorem C14_exact_is_literal : forall p,
  existsb (in_set match_special_set) p = false -> forall w, str_match w p = str_eqb w p.
Proof. exact (fun p H w => str_match_literal p w (exact_plain p H)). Qed.
Print Assumptions C14_exact_is_literal.

(* toLower accepts exactly the patterns [xX][yY]..., and those match a word iff
   its lower-case form is the word toLower returns *)
Theorem C14_yesno_pattern_is_tl : forall p w,
  to_lower_pat p <> [] -> str_match w p = str_eqb (lower w) (to_lower_pat p).
Proof. exact (fun p w H => str_match_yn p (to_lower_pat p) w (to_lower_pat_yn p H)). Qed.
Print Assumptions C14_yesno_pattern_is_tl.

(* ---- defined(V) && !empty(V...)  ->  !empty(V...) ---- *)
(* full statement, whatever the modifiers: checkAnd leaves conditions with a :U... alone *)
Theorem C14_and_equivalent : forall cs rw e,
  In rw (check_and cs) ->
  exists v ms, cs = [MDefined v; MNot (MEmpty v ms)] /\
    rw_from rw = s_defined_lp ++ v ++ s_rp_and /\ rw_to rw = [] /\
    equivalent e (CAnd (CDefined v) (CNot (CEmpty v (map classify_mod ms))))
                 (CNot (CEmpty v (map classify_mod ms))).
Proof. exact and_rewrite_equivalent. Qed.
Print Assumptions C14_and_equivalent.

(* ---- [!]empty(V:Mword) / [!]${V:Mword} / :N  ->  ${V[:U]} ==|!= word ---- *)
(* the :M form: full statement, for every admitted value, no guard *)
Theorem C14_word_M_preserves : forall cx v mods fe neg rw e,
  In rw (simplify_word cx v mods fe neg) ->
  (exists pat, last mods [] = 77 :: pat) ->
  exists f t, rw_from_c rw = Some f /\ rw_to_c rw = Some t /\
    ((is_defined (cx_seen_prefs cx) (cx_var cx v) = true -> e v <> None) ->
     (forall d s, eval_expr e v (map classify_mod (removelast mods)) = Some (d, s) -> wordlike s) ->
     preserves e f t).
Proof. exact word_rewrite_M_preserves. Qed.
Print Assumptions C14_word_M_preserves.

(* a pattern that simplifyWord leaves unquoted is not a number *)
Theorem C14_unquoted_literal_not_number : forall pat,
  numeric_head pat = false -> forallb (in_set lit_pattern_set) pat = true -> pat <> [] ->
  try_parse_number pat = None.
Proof. exact numeric_head_false_not_number. Qed.
Print Assumptions C14_unquoted_literal_not_number.

(* the :N form: the full statement is still false (${V:Nfoo}, V = "") ... *)
Theorem C14_word_refuted_N_empty_value : ~ word_full.
Proof. exact word_full_refuted. Qed.
Print Assumptions C14_word_refuted_N_empty_value.

(* ... and holds with the guard: with :N the value is neither empty nor, in the
   bare form, a number zero *)
Theorem C14_word_partial : forall cx v mods fe neg rw e,
  In rw (simplify_word cx v mods fe neg) ->
  exists f t pat (positive : bool),
    rw_from_c rw = Some f /\ rw_to_c rw = Some t /\
    last mods [] = (if positive then 77 else 78) :: pat /\
    ((is_defined (cx_seen_prefs cx) (cx_var cx v) = true -> e v <> None) ->
     (forall d s, eval_expr e v (map classify_mod (removelast mods)) = Some (d, s) -> wordlike s) ->
     word_N_guard e v fe positive ->
     preserves e f t).
Proof. exact word_rewrite_partial. Qed.
Print Assumptions C14_word_partial.

(* ---- :M[yY][eE][sS] / :N[yY][eE][sS] -> :tl} == yes / != yes ---- *)
(* full statement; "NonemptyIfDefined is right" joins "isDefined is right" *)
Theorem C14_yesno_preserves : forall cx v mods fe neg rw e,
  In rw (fst (simplify_yesno cx v mods fe neg)) ->
  exists f t,
    rw_from_c rw = Some f /\ rw_to_c rw = Some t /\
    ((is_defined (cx_seen_prefs cx) (cx_var cx v) = true -> e v <> None) ->
     (vi_nonempty_if_defined (cx_var cx v) = true -> e v <> Some []) ->
     (forall d s, eval_expr e v (map classify_mod (removelast mods)) = Some (d, s) -> wordlike s) ->
     preserves e f t).
Proof. exact yesno_rewrite_preserves. Qed.
Print Assumptions C14_yesno_preserves.

(* ---- [!]empty(V:Mpat) -> [!]${V:Mpat} [!= ""]  (any type, also lists) ---- *)
(* The model takes mayMatchNumber(pat) from the real code.  Its "no" is used as
   the promise that a non-empty result of :Mpat is never a number zero; the
   harness tests that promise against the spec on all short numeric words. *)
Theorem C14_match_equivalent : forall cx v mods fe neg rw e,
  In rw (simplify_match cx v mods fe neg) ->
  exists f t pat,
    rw_from_c rw = Some f /\ rw_to_c rw = Some t /\ last mods [] = 77 :: pat /\
    (e v <> None ->
     forall d r, eval_expr e v (map classify_mod (removelast mods) ++ [ModM pat]) = Some (d, r) ->
       nonempty (skip_cspace r) = nonempty r ->
       (cx_mmn cx pat <> MmnYes -> r <> [] -> truthy r false = true) ->
       equivalent e f t).
Proof. exact match_rewrite_equivalent. Qed.
Print Assumptions C14_match_equivalent.

(* the same with the promise stated the way mayMatchNumber means it -- "no word
   that matches the pattern is a number" -- for every value whose only white
   space is blank, tab, newline: one matching word is then not a number, and
   several words contain a blank, at which strtoul and strtod stop *)
Theorem C14_match_equivalent_words : forall cx v mods fe neg rw e,
  In rw (simplify_match cx v mods fe neg) ->
  exists f t pat,
    rw_from_c rw = Some f /\ rw_to_c rw = Some t /\ last mods [] = 77 :: pat /\
    (e v <> None ->
     forall d s, eval_expr e v (map classify_mod (removelast mods)) = Some (d, s) ->
       clean s ->
       (cx_mmn cx pat <> MmnYes ->
        forall w, w <> [] -> wordlike w -> str_match w pat = true -> try_parse_number w = None) ->
       equivalent e f t).
Proof. exact match_rewrite_equivalent_words. Qed.
Print Assumptions C14_match_equivalent_words.

(* a value with a blank after its first word is never a number *)
Theorem C14_blank_not_number : forall s, skip_cspace s = s -> In 32 s -> try_parse_number s = None.
Proof. exact blank_not_number. Qed.
Print Assumptions C14_blank_not_number.

(* rewriting an operand keeps the value of the surrounding condition *)
Theorem C14_context_not : forall e f t, preserves e f t -> preserves e (CNot f) (CNot t).
Proof. exact preserves_not. Qed.
Print Assumptions C14_context_not.

Theorem C14_context_and : forall e a f t, preserves e f t -> preserves e (CAnd a f) (CAnd a t).
Proof. exact preserves_and_r. Qed.
Print Assumptions C14_context_and.

Theorem C14_context_or : forall e a f t, preserves e f t -> preserves e (COr a f) (COr a t).
Proof. exact preserves_or_r. Qed.
Print Assumptions C14_context_or.

(* a string of letters (the literal yes / no) is never compared numerically *)
Theorem C14_letters_not_number : forall s, s <> [] -> forallb is_alpha s = true -> try_parse_number s = None.
Proof. exact alpha_not_number. Qed.
Print Assumptions C14_letters_not_number.

(* ---- the hypotheses are satisfiable; the promise about mayMatchNumber is needed ---- *)
(* !empty(V:Malpha) -> ${V} == alpha: true/true for V = alpha, false/false for V = b *)
Example C14_word_example :
  (exists rw f t, simplify_word ex_cx ex_var ex_Malpha_mods true true = [rw] /\
    rw_from_c rw = Some f /\ rw_to_c rw = Some t /\
    eval (env1 ex_var (Some ex_alpha)) f = Some TTrue /\ eval (env1 ex_var (Some ex_alpha)) t = Some TTrue) /\
  (exists rw f t, simplify_word ex_cx ex_var ex_Malpha_mods true true = [rw] /\
    rw_from_c rw = Some f /\ rw_to_c rw = Some t /\
    eval (env1 ex_var (Some [98])) f = Some TFalse /\ eval (env1 ex_var (Some [98])) t = Some TFalse).
Proof. exact word_rewrite_example. Qed.

(* ${V:Malpha} with V possibly undefined: malformed before, false after adding :U *)
Example C14_word_undefined_example :
  exists rw f t, simplify_word ex_cx_undef ex_var ex_Malpha_mods false true = [rw] /\
    rw_from_c rw = Some f /\ rw_to_c rw = Some t /\
    eval (env1 ex_var None) f = Some TMalformed /\ eval (env1 ex_var None) t = Some TFalse.
Proof. exact word_rewrite_undefined_example. Qed.

(* !empty(V:M0x[0-9].) with mayMatchNumber = no and V = 0x0. : true becomes false *)
Example C14_match_needs_the_promise :
  exists rw f t, simplify_match ex_cx ex_var ex_hex_mods true true = [rw] /\
    rw_from_c rw = Some f /\ rw_to_c rw = Some t /\
    eval (env1 ex_var (Some [48; 120; 48; 46])) f = Some TTrue /\
    eval (env1 ex_var (Some [48; 120; 48; 46])) t = Some TFalse.
Proof. exact match_needs_mmn_promise. Qed.

(* the repaired cases: no rewrite is offered any more, or the literal is quoted *)
Example C14_repaired_no_rewrite :
  simplify_word ex_cx ex_var [[77; 48]] false true = []
  /\ simplify_word ex_cx ex_var [[77; 49; 101; 49]] false true = []
  /\ fst (simplify_yesno ex_cx ex_var [[78; 91; 121; 89; 93]] false true) = []
  /\ check_and [MDefined ex_var; MNot (MEmpty ex_var [[85; 120]])] = [].
Proof. exact repaired_no_rewrite. Qed.

Example C14_repaired_quotes :
  exists rw, simplify_word ex_cx ex_var [[77; 49; 101; 49]] true true = [rw] /\
             rw_to rw = [36; 123; 86; 125; 32; 61; 61; 32; 34; 49; 101; 49; 34].
Proof. exact repaired_quotes. Qed.

(* ---- patterns with nested references ${NAME} ---- *)
(* a pattern without '$' is matched as written, whatever the variables are *)
Theorem C14_literal_pattern_env_independent : forall p,
  no_dollar p = true -> forall e, expand_pat e p = Some p.
Proof. exact literal_pattern_env_independent. Qed.
Print Assumptions C14_literal_pattern_env_independent.

(* what a pattern expands to depends only on the variables it mentions *)
Theorem C14_expand_pat_ext : forall e1 e2 p ps,
  parse_pat (S (length p)) p = Some ps ->
  (forall v, In (PPRef v) ps -> e1 v = e2 v) -> expand_pat e1 p = expand_pat e2 p.
Proof. exact expand_pat_ext. Qed.
Print Assumptions C14_expand_pat_ext.

(* the guards as coded (the regenerated byte sets of simplifyWord and simplifyMatch,
   toLower's shape): whatever SimplifyExpr offers, the pattern of the last modifier
   has no nested reference ... *)
Theorem C14_rewritten_pattern_has_no_nested_reference : forall cx line v mods fe neg rw,
  In rw (simplify_expr cx line v mods fe neg) ->
  exists c pat, last mods [] = c :: pat /\ no_dollar pat = true.
Proof. exact simplify_expr_no_nested. Qed.
Print Assumptions C14_rewritten_pattern_has_no_nested_reference.

(* ... i.e. a condition on a pattern with a '$' is left alone by all three simplifiers *)
Theorem C14_nested_pattern_not_rewritten : forall cx line v mods fe neg c pat,
  last mods [] = c :: pat -> no_dollar pat = false ->
  simplify_expr cx line v mods fe neg = [].
Proof. exact nested_pattern_not_rewritten. Qed.
Print Assumptions C14_nested_pattern_not_rewritten.

(* what [!]empty(V:Mpat) -> [!]${V:Mpat} needs when pat has nested references: for
   ALL environments e (values of V and of every nested variable), if in e no
   non-empty word that matches the pattern AS EXPANDED IN e is a number, the two
   conditions have the same value.  (mayMatchNumber looks at the unexpanded text.) *)
Theorem C14_nested_match_equivalent : forall e v pms pat q (neg : bool) d s,
  eval_expr e v pms = Some (d, s) -> e v <> None -> clean s ->
  expand_pat e pat = Some q ->
  (forall w, w <> [] -> wordlike w -> str_match w q = true -> try_parse_number w = None) ->
  equivalent e
    (if neg then CNot (CEmpty v (pms ++ [ModM pat])) else CEmpty v (pms ++ [ModM pat]))
    (if neg then CLeaf (LExpr v (pms ++ [ModM pat])) else CNot (CLeaf (LExpr v (pms ++ [ModM pat])))).
Proof. exact nested_match_equivalent. Qed.
Print Assumptions C14_nested_match_equivalent.

(* with  != ""  appended nothing about numbers is needed, for any pattern inside the fragment *)
Theorem C14_nested_match_equivalent_cmp : forall e v pms pat q (neg : bool) d s,
  eval_expr e v pms = Some (d, s) -> e v <> None -> clean s ->
  expand_pat e pat = Some q ->
  equivalent e
    (if neg then CNot (CEmpty v (pms ++ [ModM pat])) else CEmpty v (pms ++ [ModM pat]))
    (let inner := CCmp (LExpr v (pms ++ [ModM pat])) false (LQuoted []) in
     if neg then inner else CNot inner).
Proof. exact nested_match_equivalent_cmp. Qed.
Print Assumptions C14_nested_match_equivalent_cmp.

(* the promise about the unexpanded text is not enough: !empty(V:M${L}* ) is true and
   ${V:M${L}*} is false for L = 0, V = 0, although the text ${L}* matches no number *)
Example C14_nested_needs_expanded_promise :
  parse_cond ex_from_text = Some (CNot (CEmpty ex_V [ModM ex_nested_pat])) /\
  parse_cond ex_to_text = Some (CLeaf (LExpr ex_V [ModM ex_nested_pat])) /\
  eval ex_env (CNot (CEmpty ex_V [ModM ex_nested_pat])) = Some TTrue /\
  eval ex_env (CLeaf (LExpr ex_V [ModM ex_nested_pat])) = Some TFalse /\
  (forall w, str_match w ex_nested_pat = true -> exists r, w = 36 :: r).
Proof. exact nested_needs_expanded_promise. Qed.

(* ---- Autofix.Replace: from "the rewrite (from, to) keeps the value" to "the line pkglint writes" ---- *)
(* a fix is carried out only as: one occurrence of the from-text, the first one, replaced by the to-text *)
Theorem C14_autofix_replace_spec : forall line from to line',
  autofix_replace line from to = Some line' ->
  exists a b, line = a ++ from ++ b /\ line' = a ++ to ++ b /\ no_start_in from a (from ++ b).
Proof. exact autofix_replace_spec. Qed.
Print Assumptions C14_autofix_replace_spec.

(* the final line is reached from the original by carrying out exactly the logged fixes, in
   order, each on the line its predecessors left; every logged fix is one that was offered *)
Theorem C14_apply_rewrites_spec : forall rws line line' done,
  apply_rewrites line rws = (line', done) ->
  rewritten line done line' /\ (forall rw, In rw done -> In rw rws).
Proof. exact apply_rewrites_spec. Qed.
Print Assumptions C14_apply_rewrites_spec.

(* ---- obligations on the regenerated byte sets: a wrong table breaks one of these ---- *)
Theorem C14_tables_fit_the_reader :
  forallb word_char lit_unquoted_set = true /\
  forallb (fun c => plain_mod_char 125 c && plain_mod_char 41 c) lit_pattern_set = true /\
  forallb (fun c => (c =? 58) || (plain_mod_char 125 c && plain_mod_char 41 c)) simple_mod_set = true /\
  forallb (in_set match_special_set) [42; 63; 91; 92] = true /\
  forallb (in_set numeric_head_set) [43; 45; 46; 48; 49; 50; 51; 52; 53; 54; 55; 56; 57] = true /\
  in_set lit_pattern_set 36 = false /\ in_set simple_mod_set 36 = false.
Proof. exact tables_fit_the_reader. Qed.
Print Assumptions C14_tables_fit_the_reader.

(* ---- the ':U' decision inside the model: what feeds isDefined while the file is read ---- *)
(* Model/CondFile.v: loads_prefs (util.go LoadsPrefs with the REGENERATED name table), scan
   (Tools.ParseToolLine: SeenPrefs; checkLine: vars.Define outside conditional blocks;
   Indentation), file_ctx (the context MkCondChecker sees after the lines read so far).
   Spec/PrefsFile.v: prefs_reference (the files that load the user preferences, a committed
   list) + "below a directory mk"; sure_after (what bmake guarantees after some lines: an
   include or assignment counts only outside of conditional blocks); possible_env (the
   environments that can occur at that point: always-defined variables, variables assigned for
   sure, and -- only if a prefs file has been included for sure -- the variables bsd.prefs.mk
   defines; none of this for a variable that an .undef has touched since; everything else may be
   undefined). *)

(* every basename in LoadsPrefs' table (regenerated from util.go) is a reference file, and the
   directory it trusts is the reference directory: a widened table breaks this *)
Theorem C14_loads_prefs_table_within_reference :
  forallb (fun n => in_strs n prefs_reference) loads_prefs_names = true /\ loads_prefs_dir = infrastructure_dir.
Proof. exact loads_prefs_table_sound. Qed.
Print Assumptions C14_loads_prefs_table_within_reference.

(* for ALL paths: LoadsPrefs (path.Base + the table, Path.ContainsPath "mk") says "loads the
   preferences" only for files that do, by the spec's own reading of the path *)
Theorem C14_loads_prefs_within_reference : forall p,
  loads_prefs p = true -> really_loads_prefs p = true.
Proof. exact loads_prefs_sound. Qed.
Print Assumptions C14_loads_prefs_within_reference.

(* isDefined is right in the file: for ALL fragments other than hacks.mk (any lines before the condition) without
   a prefs include inside a conditional block and without an .undef of the variable, ALL declarations that are right about bmake,
   and ALL environments possible after those lines *)
Theorem C14_is_defined_sound_in_file : forall decl mmn always by_prefs pre e v,
  decl_right decl always by_prefs ->
  conditional_prefs_include sure0 pre = false ->
  possible_env always by_prefs pre e ->
  in_strs v (su_undef (sure_after pre)) = false ->
  let cx := file_ctx decl mmn (scan (init_state false) pre) in
  is_defined (cx_seen_prefs cx) (cx_var cx v) = true -> e v <> None.
Proof. exact is_defined_sound_in_file. Qed.
Print Assumptions C14_is_defined_sound_in_file.

(* hence: a rewrite offered at the line after [pre] keeps the value (and does not become
   malformed) under every environment possible there -- "isDefined is right" is no longer a
   hypothesis.  simplifyWord (:M form), simplifyYesNo, simplifyMatch: *)
Theorem C14_rewrite_sound_in_file : forall decl mmn always by_prefs pre,
  decl_right decl always by_prefs ->
  conditional_prefs_include sure0 pre = false ->
  let cx := file_ctx decl mmn (scan (init_state false) pre) in
  (forall v mods fe neg rw e,
    In rw (simplify_word cx v mods fe neg) ->
    (exists pat, last mods [] = 77 :: pat) ->
    possible_env always by_prefs pre e ->
    in_strs v (su_undef (sure_after pre)) = false ->
    exists f t, rw_from_c rw = Some f /\ rw_to_c rw = Some t /\
      ((forall d s, eval_expr e v (map classify_mod (removelast mods)) = Some (d, s) -> wordlike s) ->
       preserves e f t)) /\
  (forall v mods fe neg rw e,
    In rw (fst (simplify_yesno cx v mods fe neg)) ->
    possible_env always by_prefs pre e ->
    in_strs v (su_undef (sure_after pre)) = false ->
    exists f t, rw_from_c rw = Some f /\ rw_to_c rw = Some t /\
      ((vi_nonempty_if_defined (decl v) = true -> e v <> Some []) ->
       (forall d s, eval_expr e v (map classify_mod (removelast mods)) = Some (d, s) -> wordlike s) ->
       preserves e f t)) /\
  (forall v mods fe neg rw e,
    In rw (simplify_match cx v mods fe neg) ->
    possible_env always by_prefs pre e ->
    in_strs v (su_undef (sure_after pre)) = false ->
    exists f t pat, rw_from_c rw = Some f /\ rw_to_c rw = Some t /\ last mods [] = 77 :: pat /\
      (forall d s, eval_expr e v (map classify_mod (removelast mods)) = Some (d, s) ->
         clean s ->
         (mmn pat <> MmnYes ->
          forall w, w <> [] -> wordlike w -> str_match w pat = true -> try_parse_number w = None) ->
         equivalent e f t)).
Proof.
  exact (fun decl mmn always by_prefs pre Hd Hc =>
    conj (word_M_sound_in_file decl mmn always by_prefs pre Hd Hc)
      (conj (yesno_sound_in_file decl mmn always by_prefs pre Hd Hc)
            (match_sound_in_file decl mmn always by_prefs pre Hd Hc))).
Qed.
Print Assumptions C14_rewrite_sound_in_file.

(* without the guard "no prefs include inside a conditional block" the statement is false of
   the faithful model (a genuine defect, known finding C14/*/undefined/conditional-include):
   .if defined(OTHER) / .include "bsd.prefs.mk" / .endif / .if !empty(V:Malpha)  ->  ${V} == alpha,
   V undefined: false -> malformed *)
Theorem C14_rewrite_sound_in_file_refuted : ~ word_in_file_full.
Proof. exact word_in_file_full_refuted. Qed.
Print Assumptions C14_rewrite_sound_in_file_refuted.

(* ... and without the guard "no .undef of the variable since" (a second genuine defect, known
   finding C14/*/undefined/undef-after-assignment): V= x / .undef V / .if !empty(V:Malpha) ->
   ${V} == alpha, V undefined: false -> malformed *)
Theorem C14_rewrite_sound_in_file_refuted_undef : ~ word_in_file_undef_full.
Proof. exact word_in_file_undef_full_refuted. Qed.
Print Assumptions C14_rewrite_sound_in_file_refuted_undef.

(* all hypotheses of the file-level theorems hold together, with isDefined = true *)
Example C14_in_file_hypotheses_satisfiable :
  decl_right ex_decl_one (fun _ => false) (fun n => str_eqb n ex_var) /\
  conditional_prefs_include sure0 ex_sure_pre = false /\
  possible_env (fun _ => false) (fun n => str_eqb n ex_var) ex_sure_pre (env1 ex_var (Some ex_alpha)) /\
  in_strs ex_var (su_undef (sure_after ex_sure_pre)) = false /\
  is_defined (cx_seen_prefs (file_ctx ex_decl_one ex_mmn (scan (init_state false) ex_sure_pre)))
             (cx_var (file_ctx ex_decl_one ex_mmn (scan (init_state false) ex_sure_pre)) ex_var) = true.
Proof. exact in_file_hypotheses_satisfiable. Qed.

(* the hypotheses are satisfiable, the theorem is not vacuous: after an unconditional include of
   bsd.prefs.mk SeenPrefs is set, the spec agrees, ':U' is dropped and the value is kept *)
Example C14_in_file_example :
  conditional_prefs_include sure0 ex_sure_pre = false /\
  su_prefs (sure_after ex_sure_pre) = true /\
  fs_seen_prefs (scan (init_state false) ex_sure_pre) = true /\
  (exists rw f t,
    simplify_word (file_ctx ex_decl_P ex_mmn (scan (init_state false) ex_sure_pre)) ex_var ex_Malpha_mods true true = [rw] /\
    rw_from_c rw = Some f /\ rw_to_c rw = Some t /\
    eval (env1 ex_var (Some ex_alpha)) f = Some TTrue /\ eval (env1 ex_var (Some ex_alpha)) t = Some TTrue).
Proof. exact in_file_example. Qed.

Example C14_near_misses_do_not_load :
  forallb (fun p => negb (loads_prefs p))
    [[46; 46; 47; 46; 46; 47; 100; 47; 108; 47; 98; 117; 105; 108; 100; 108; 105; 110; 107; 51; 46; 109; 107];
     [46; 46; 47; 46; 46; 47; 100; 47; 108; 47; 98; 117; 105; 108; 116; 105; 110; 46; 109; 107];
     [77; 97; 107; 101; 102; 105; 108; 101; 46; 99; 111; 109; 109; 111; 110]] = true.
Proof. exact near_misses_do_not_load. Qed.

(* ---- text <-> tree: the spec's own reader maps the texts pkglint writes to the trees the
   theorems above are about (until round 4 this was only checked per generated case) ---- *)
(* name_ok v: v is non-empty and consists of the reader's name bytes (letters, digits, _ .);
   mods_ok ms: every prefix modifier is read by the reader as ONE modifier (scan_seg consumes it
   to its end and seg_ok holds: plain bytes -- none of : $ \ ( ) { } and the double quote -- and nested ${NAME} only
   after M or N); sufficient: only plain bytes (C14_plain_modifier_readable).
   No hypothesis on the pattern: simplifyWord's and simplifyYesNo's own gates (the regenerated
   byte sets, toLower's shape) already confine it. *)
Theorem C14_word_text_is_tree : forall cx v mods fe neg rw,
  In rw (simplify_word cx v mods fe neg) ->
  name_ok v = true -> mods_ok (removelast mods) = true ->
  parse_cond (rw_from rw) = rw_from_c rw /\ parse_cond (rw_to rw) = rw_to_c rw.
Proof. exact word_text_is_tree. Qed.
Print Assumptions C14_word_text_is_tree.

Theorem C14_yesno_text_is_tree : forall cx v mods fe neg rw,
  In rw (fst (simplify_yesno cx v mods fe neg)) ->
  name_ok v = true -> mods_ok (removelast mods) = true ->
  parse_cond (rw_from rw) = rw_from_c rw /\ parse_cond (rw_to rw) = rw_to_c rw.
Proof. exact yesno_text_is_tree. Qed.
Print Assumptions C14_yesno_text_is_tree.

(* simplifyMatch: its regex gate confines every byte of the modifiers; what is needed (and
   necessary: ':Ma:b' is read back as two modifiers) is that no modifier contains a ':' *)
Theorem C14_match_text_is_tree : forall cx v mods fe neg rw,
  In rw (simplify_match cx v mods fe neg) ->
  name_ok v = true -> forallb no_colon mods = true ->
  parse_cond (rw_from rw) = rw_from_c rw /\ parse_cond (rw_to rw) = rw_to_c rw.
Proof. exact match_text_is_tree. Qed.
Print Assumptions C14_match_text_is_tree.

Theorem C14_plain_modifier_readable : forall m, mod_ok m = true -> mod_readable m = true.
Proof. exact mod_ok_readable. Qed.
Print Assumptions C14_plain_modifier_readable.

(* the hypotheses hold for the names and prefix modifiers the harness generates *)
Example C14_text_tree_hypotheses_satisfiable :
  name_ok [67; 49; 52; 69; 65; 95; 85; 46; 102; 111; 111] = true /\        (* C14EA_U.foo *)
  mods_ok [[116; 108]; [85]; [85; 97; 108; 112; 104; 97]] = true /\         (* tl, U, Ualpha *)
  forallb no_colon [[116; 108]; [77; 97; 108; 42]] = true.                   (* tl, Mal*  *)
Proof. vm_compute. repeat split; reflexivity. Qed.
