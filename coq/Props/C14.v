(* C14 -- condition rewrites offered as simplifications preserve the condition's value. *)
From PV Require Import Lib.Bytes Gen.CondSimpSets Spec.BmakeCond Model.CondSimp.
Open Scope N_scope.

(* the regex that decides whether a literal is quoted is the one the model was written against *)
Theorem C14_needs_quotes_regex_unchanged :
  needs_quotes_regex = [94; 92; 100; 43; 92; 46; 63; 92; 100; 42; 36].
Proof. reflexivity. Qed.
Print Assumptions C14_needs_quotes_regex_unchanged.
