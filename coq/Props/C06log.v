(* C06, Logger part ("C06log") -- terminal-safe output; counts, "Looks fine." and exit
   status add up.  Only statements; every proof is `exact <lemma>`.
   The whole-run part of C06 (output grammar on hostile trees) is a separate part. *)
From PV Require Import Lib.Bytes Lib.Utf8 Model.Escape Model.Logger Proofs.Escape Proofs.Logger Proofs.LoggerInv Proofs.LoggerOut.
Open Scope N_scope.

(* textproc.XPrint = NewByteSet("\n\t -~"): newline (10), tab (9), 0x20..0x7E.
   NOTE: newline and tab pass through escapePrintable unchanged; CR, ESC, NUL, DEL and
   every byte >= 0x80 are replaced. *)
Example C06_xprint_is : forall b, xprint b = true <-> b = 10 \/ b = 9 \/ (32 <= b /\ b <= 126).
Proof. intro b. unfold xprint. lia. Qed.

(* for EVERY byte string, every byte of escapePrintable's result is in XPrint *)
Theorem C06_escape_printable_safe : forall s : str,
  Forall (fun b => xprint b = true) (escape_printable s).
Proof. exact escape_printable_safe. Qed.
Print Assumptions C06_escape_printable_safe.

(* for EVERY option record and EVERY list of events -- whatever bytes the messages,
   source lines, explanations, file names and the command line contain -- every byte
   that reaches stdout or stderr is in XPrint *)
Theorem C06_logger_output_safe : forall o evs,
  Forall (fun b => xprint b = true) (sw_out (l_out (log_run o evs))) /\
  Forall (fun b => xprint b = true) (sw_out (l_err (log_run o evs))).
Proof. exact logger_output_safe. Qed.
Print Assumptions C06_logger_output_safe.

(* the counters that ShowSummary prints and Main computes the exit status from are
   exactly the numbers of ERROR, WARN and NOTE lines that Logf wrote
   (l_emitted: one tuple per line written; cnt lv = number of tuples of level lv) *)
Theorem C06_counts_exact : forall o evs,
  let l := log_run o evs in
  l_errors l = cnt LError (l_emitted l) /\
  l_warnings l = cnt LWarn (l_emitted l) /\
  l_notes l = cnt LNote (l_emitted l).
Proof. exact counts_exact. Qed.
Print Assumptions C06_counts_exact.

(* the first line of the summary (summary_line, which is what ShowSummary writes) is
   "Looks fine.\n" exactly when no ERROR and no WARN line was written *)
Theorem C06_looks_fine_iff : forall o evs,
  let l := log_run o evs in
  summary_line (l_errors l) (l_warnings l) (l_notes l) = [76; 111; 111; 107; 115; 32; 102; 105; 110; 101; 46; 10] <->
  cnt LError (l_emitted l) = 0 /\ cnt LWarn (l_emitted l) = 0.
Proof. exact looks_fine_iff. Qed.
Print Assumptions C06_looks_fine_iff.

(* exit status 1 exactly when an ERROR line was written or, with -Werror, a WARN line *)
Theorem C06_exit_status_exact : forall o evs werror,
  let l := log_run o evs in
  exit_status werror l =
  if negb (cnt LError (l_emitted l) =? 0) || (werror && negb (cnt LWarn (l_emitted l) =? 0)) then 1 else 0.
Proof. exact exit_status_exact. Qed.
Print Assumptions C06_exit_status_exact.

(* no panic site of logging.go is reached (the assert in SeparatorWriter.Separate, the
   index expressions line.fix.texts[rawIndex] and args[0]) when every Apply event comes
   with a fix whose texts cover the raw lines (NewAutofix guarantees it) and ShowSummary
   gets a non-empty argv; the machine sets the ghost flag l_panicked at those sites *)
Theorem C06_logger_never_panics : forall o evs,
  Forall (fun ev => match ev with
                    | EvFix ln fv _ _ _ _ _ => (length (ln_raws ln) <= length (fv_texts fv))%nat
                    | EvSummary args => args <> []
                    | _ => True
                    end) evs ->
  l_panicked (log_run o evs) = false.
Proof. exact logger_never_panics. Qed.
Print Assumptions C06_logger_never_panics.

(* non-vacuity: ESC, an invalid byte and a CR in a message; one warning; -Werror *)
Definition ex06_line : line := mk_line 1 [102; 46; 109; 107] 3 [[65; 27; 10]].
Definition ex06_evs : list event :=
  [ EvDiag ex06_line LWarn [66; 97; 100; 46] [66; 97; 100; 32; 27; 255; 13; 46]; EvSummary [[112]; [27]] ].
Definition ex06_opts : opts := mk_opts false false false true false false [].
Example C06_witness :
  sw_out (l_out (log_run ex06_opts ex06_evs)) =
    [62; 9; 65; 60; 85; 43; 48; 48; 49; 66; 62; 10] (* >\tA<U+001B>\n *) ++
    [87; 65; 82; 78; 58; 32; 102; 46; 109; 107; 58; 51; 58; 32; 66; 97; 100; 32] (* WARN: f.mk:3: Bad *) ++
    [60; 85; 43; 48; 48; 49; 66; 62; 60; 48; 120; 70; 70; 62; 60; 85; 43; 48; 48; 48; 68; 62; 46; 10] (* <U+001B><0xFF><U+000D>.\n *) ++
    [10; 49; 32; 119; 97; 114; 110; 105; 110; 103; 32; 102; 111; 117; 110; 100; 46; 10] (* \n1 warning found.\n *) /\
  exit_status true (log_run ex06_opts ex06_evs) = 1 /\ exit_status false (log_run ex06_opts ex06_evs) = 0.
Proof. repeat split; vm_compute; reflexivity. Qed.
