(* C06, Logger part ("C06log") -- terminal-safe output; counts, "Looks fine." and exit
   status add up.  Only statements; every proof is `exact <lemma>`.
   The whole-run part of C06 (output grammar on hostile trees) is a separate part. *)
From PV Require Import Lib.Bytes Lib.Utf8 Model.Escape Model.Logger Proofs.Escape Proofs.Logger Proofs.LoggerInv Proofs.LoggerOut.
From PV Require Model.Lines Spec.OutputGrammar Spec.LinesSpec.
From PV Require Import Proofs.LoggerLines Proofs.LoggerLinenos.
Open Scope N_scope.

(* textproc.XPrint = NewByteSet("\n\t -~"): newline (10), tab (9), 0x20..0x7E.
   NOTE: newline and tab pass through escapePrintable unchanged; CR, ESC, NUL, DEL and
   every byte >= 0x80 are replaced. *)
Example C06_xprint_is : forall b, xprint b = true <-> b = 10 \/ b = 9 \/ (32 <= b /\ b <= 126).
Proof. intro b. unfold xprint. lia. Qed.

(* for EVERY byte string, every byte of escapePrintable's result is in XPrint *)
Theorem C06_escape_printable_safe : forall s : str,
  Forall (fun b => xprint b = true) (escape_printable s).
Proof. exact escape_printable_safe. Qed.
Print Assumptions C06_escape_printable_safe.

(* for EVERY option record and EVERY list of events -- whatever bytes the messages,
   source lines, explanations, file names and the command line contain -- every byte
   that reaches stdout or stderr is in XPrint *)
Theorem C06_logger_output_safe : forall o evs,
  Forall (fun b => xprint b = true) (sw_out (l_out (log_run o evs))) /\
  Forall (fun b => xprint b = true) (sw_out (l_err (log_run o evs))).
Proof. exact logger_output_safe. Qed.
Print Assumptions C06_logger_output_safe.

(* the counters that ShowSummary prints and Main computes the exit status from are
   exactly the numbers of ERROR, WARN and NOTE lines that Logf wrote
   (l_emitted: one tuple per line written; cnt lv = number of tuples of level lv) *)
Theorem C06_counts_exact : forall o evs,
  let l := log_run o evs in
  l_errors l = cnt LError (l_emitted l) /\
  l_warnings l = cnt LWarn (l_emitted l) /\
  l_notes l = cnt LNote (l_emitted l).
Proof. exact counts_exact. Qed.
Print Assumptions C06_counts_exact.

(* the first line of the summary (summary_line, which is what ShowSummary writes) is
   "Looks fine.\n" exactly when no ERROR and no WARN line was written *)
Theorem C06_looks_fine_iff : forall o evs,
  let l := log_run o evs in
  summary_line (l_errors l) (l_warnings l) (l_notes l) = [76; 111; 111; 107; 115; 32; 102; 105; 110; 101; 46; 10] <->
  cnt LError (l_emitted l) = 0 /\ cnt LWarn (l_emitted l) = 0.
Proof. exact looks_fine_iff. Qed.
Print Assumptions C06_looks_fine_iff.

(* exit status 1 exactly when an ERROR line was written or, with -Werror, a WARN line *)
Theorem C06_exit_status_exact : forall o evs werror,
  let l := log_run o evs in
  exit_status werror l =
  if negb (cnt LError (l_emitted l) =? 0) || (werror && negb (cnt LWarn (l_emitted l) =? 0)) then 1 else 0.
Proof. exact exit_status_exact. Qed.
Print Assumptions C06_exit_status_exact.

(* no panic site of logging.go is reached (the assert in SeparatorWriter.Separate, the
   index expressions line.fix.texts[rawIndex] and args[0]) when every Apply event comes
   with a fix whose texts cover the raw lines (NewAutofix guarantees it) and ShowSummary
   gets a non-empty argv; the machine sets the ghost flag l_panicked at those sites *)
Theorem C06_logger_never_panics : forall o evs,
  Forall (fun ev => match ev with
                    | EvFix ln fv _ _ _ _ _ => (length (ln_raws ln) <= length (fv_texts fv))%nat
                    | EvSummary args => args <> []
                    | _ => True
                    end) evs ->
  l_panicked (log_run o evs) = false.
Proof. exact logger_never_panics. Qed.
Print Assumptions C06_logger_never_panics.

(* ---------- line shape: the Logger speaks the grammar the whole-run part recognises ---------- *)

(* Spec/OutputGrammar.v `classify gcc line` is the executable recogniser that
   harness/c06run.go applies to every stdout line of the real binary.
   clean s        = s contains no newline;  unlines ls = concatenation of (x ++ "\n") for x in ls
   clean_event ev = the strings of the event carry no stray newline: messages, explanation
                    lines, action descriptions, argv; physical lines (raws, fix texts) have a
                    newline at most as their last byte (C09_raws_nonempty_nl); file names contain
                    neither newline nor ':' (the assumption of the whole-run part as well).
   For EVERY option record and EVERY list of such events, stdout is a sequence of complete
   lines and the recogniser knows every one of them. *)
Theorem C06_logger_lines_recognised : forall o evs,
  Forall clean_event evs ->
  exists ls, sw_out (l_out (log_run o evs)) = unlines ls /\
             Forall (fun x => clean x /\ OutputGrammar.classify (lo_gcc o) x <> OutputGrammar.KUnknown) ls.
Proof. exact logger_lines_recognised. Qed.
Print Assumptions C06_logger_lines_recognised.

(* the line Logf writes for (level, file, linenos, message):  "LEVEL: [file[:linenos]: ]message",
   with -g "[file[:linenos]: ]level: message", escaped; one line, and a diagnostic to the recogniser.
   lnos_ok n: the bytes of a Linenos text (digits, '-', "EOF"): printable, no ':' ' ' newline *)
Theorem C06_diag_line_shape : forall o lv f n m,
  clean f -> ~ In 58 f -> clean m -> lnos_ok n ->
  exists x, escape_printable (format_diag o lv f (if nonempty_list f then n else []) m) = x ++ [10] /\
            clean x /\ OutputGrammar.classify (lo_gcc o) x <> OutputGrammar.KUnknown.
Proof. exact diag_line_shape. Qed.
Print Assumptions C06_diag_line_shape.

(* the cleanliness hypothesis is needed: a message containing a newline continues on a
   second line, which is no line of the grammar *)
Definition ex_nl_evs : list event := [ EvDiag (mk_line 1 [102] 3 [[65; 10]]) LWarn [120] [97; 10; 98] ].
Example C06_newline_in_message_breaks_shape :
  sw_out (l_out (log_run (mk_opts false false false false false false []) ex_nl_evs)) =
    [87; 65; 82; 78; 58; 32; 102; 58; 51; 58; 32; 97; 10; 98; 10] (* WARN: f:3: a / b *) /\
  OutputGrammar.classify false [98] = OutputGrammar.KUnknown.
Proof. split; vm_compute; reflexivity. Qed.

(* ---------- line numbers ---------- *)

(* For every file content s and both loaders (Model/Lines.v convert_to_logical_lines, C09), for
   every loaded line l: with n = the number of physical lines of the file (C09_raws_partition:
   they concatenate to s), first = Location.lineno and last = first + len(raw) - 1:
   1 <= first <= last <= n, and Line.Linenos prints "first" for a single physical line and
   "first--last" for a continuation line *)
Theorem C06_linenos_in_range : forall s mk ls e,
  Lines.convert_to_logical_lines s mk = Lines.Ok (ls, e) ->
  forall l, In l ls -> forall id file,
    let n := N.of_nat (length (flat_map Lines.raws ls)) in
    let first := Lines.lineno l in
    let last := first + N.of_nat (length (Lines.raws l)) - 1 in
    1 <= first /\ first <= last /\ last <= n /\
    linenos (of_loaded id file l) =
      if Nat.eqb (length (Lines.raws l)) 1 then dec_of_N first
      else dec_of_N first ++ [45; 45] ++ dec_of_N last.
Proof. exact linenos_in_range. Qed.
Print Assumptions C06_linenos_in_range.

(* the pseudo-lines: NewLineWhole (lineno 0) prints no number -- "LEVEL: path: message" --
   and NewLineEOF (lineno -1) prints "EOF"; neither is a number in 1..n, by design *)
Theorem C06_linenos_pseudo : forall id file,
  linenos (line_whole id file) = [] /\ linenos (line_eof id file) = [69; 79; 70].
Proof. exact linenos_pseudo. Qed.
Print Assumptions C06_linenos_pseudo.

(* Autofix.affectedLinenos: if every action carries line number 0 or one in [lo, hi]
   (Describef uses first + rawIndex), the diagnostic of the fix is printed with the line's own
   Linenos, with "a" or with "a--b", lo <= a < b <= hi *)
Theorem C06_affected_linenos_in_range : forall ln actions lo hi,
  (1 <= lo)%Z -> Forall (fun a : str * Z => snd a = 0%Z \/ (lo <= snd a <= hi)%Z) actions ->
  affected_linenos ln actions = linenos ln \/
  (exists a, (lo <= a <= hi)%Z /\ affected_linenos ln actions = dec_of_Z a) \/
  (exists a b, (lo <= a)%Z /\ (a < b)%Z /\ (b <= hi)%Z /\
               affected_linenos ln actions = dec_of_Z a ++ [45; 45] ++ dec_of_Z b).
Proof. exact affected_linenos_in_range. Qed.
Print Assumptions C06_affected_linenos_in_range.

(* the loader's physical lines meet the hypothesis of C06_logger_lines_recognised *)
Theorem C06_loaded_raws_are_clean : forall r, LinesSpec.raw_ok r = true -> raw_clean r.
Proof. exact raw_ok_raw_clean. Qed.
Print Assumptions C06_loaded_raws_are_clean.

(* non-vacuity: ESC, an invalid byte and a CR in a message; one warning; -Werror *)
Definition ex06_line : line := mk_line 1 [102; 46; 109; 107] 3 [[65; 27; 10]].
Definition ex06_evs : list event :=
  [ EvDiag ex06_line LWarn [66; 97; 100; 46] [66; 97; 100; 32; 27; 255; 13; 46]; EvSummary [[112]; [27]] ].
Definition ex06_opts : opts := mk_opts false false false true false false [].
Example C06_witness :
  sw_out (l_out (log_run ex06_opts ex06_evs)) =
    [62; 9; 65; 60; 85; 43; 48; 48; 49; 66; 62; 10] (* >\tA<U+001B>\n *) ++
    [87; 65; 82; 78; 58; 32; 102; 46; 109; 107; 58; 51; 58; 32; 66; 97; 100; 32] (* WARN: f.mk:3: Bad *) ++
    [60; 85; 43; 48; 48; 49; 66; 62; 60; 48; 120; 70; 70; 62; 60; 85; 43; 48; 48; 48; 68; 62; 46; 10] (* <U+001B><0xFF><U+000D>.\n *) ++
    [10; 49; 32; 119; 97; 114; 110; 105; 110; 103; 32; 102; 111; 117; 110; 100; 46; 10] (* \n1 warning found.\n *) /\
  exit_status true (log_run ex06_opts ex06_evs) = 1 /\ exit_status false (log_run ex06_opts ex06_evs) = 0.
Proof. repeat split; vm_compute; reflexivity. Qed.
