(* C02 -- without --autofix nothing on disk changes; with it only reported files do.
   Only statements; every proof is `exact <lemma>`. *)
From PV Require Import Lib.Bytes Model.Autofix Gen.WriteSites.
