(* C02 -- without --autofix nothing on disk changes; with it only reported files do.
   Only statements; every proof is `exact <lemma>`.

   The run model: Model/Autofix.v, [run o keys evs st] executes any list of events
   (fix transactions on any lines, SaveAutofixChanges, the PLIST sorter, the
   executable-bit check) and collects the file operations [s_ops] (write of the
   temporary file, rename, chmod) and the printed AUTOFIX lines [s_log]. *)
From PV Require Import Lib.Bytes Model.Autofix Proofs.Autofix Proofs.AutofixFs Proofs.AutofixCustom Gen.WriteSites.
From Coq Require Import String.

(* without --autofix the model performs no file operation, whatever the other
   options (--show-autofix, --only ...) and whatever the checks do: the fast lane
   of SaveAutofixChanges, and Custom fixers receive autofix = false *)
Theorem C02_no_autofix_no_ops :
  forall o keys evs st st',
    o_autofix o = false -> run o keys evs st = Ok st' -> s_ops st' = s_ops st.
Proof. exact no_autofix_no_ops. Qed.
Print Assumptions C02_no_autofix_no_ops.

(* with --autofix every operation is: write f.pkglint.tmp / rename it to f for a
   file f with a printed AUTOFIX line, or chmod of a file with a printed
   "Clearing executable bits" line *)
Theorem C02_autofix_touches_only_changed :
  forall o keys evs st st',
    o_autofix o = true -> fresh st -> run o keys evs st = Ok st' ->
    Forall (op_justified (s_log st')) (s_ops st').
Proof. exact autofix_touches_only_changed. Qed.
Print Assumptions C02_autofix_touches_only_changed.

(* in a fault-free run every temporary file is renamed onto its target directly
   after it was written *)
Theorem C02_no_tmp_left :
  forall o keys evs st st',
    o_autofix o = true -> fresh st -> run o keys evs st = Ok st' -> wpaired (s_ops st').
Proof. exact no_tmp_left. Qed.
Print Assumptions C02_no_tmp_left.

(* a line is only marked as modified (the mark that makes SaveAutofixChanges write
   its file) if an AUTOFIX line was printed for its file -- including the PLIST
   sorter's silent fix under --only (DESIGN section 8, item 4) *)
Theorem C02_changed_implies_logged :
  forall o keys evs st st',
    o_autofix o = true -> fresh st -> run o keys evs st = Ok st' ->
    forall l, In l (s_store st') -> line_modified l = true -> logged (s_log st') (l_file l).
Proof. exact changed_implies_logged. Qed.
Print Assumptions C02_changed_implies_logged.

(* ---- one call of SaveAutofixChanges with faults ([save_env e]: the exclusive create,
   the write, the stat of the original, the chmod of the temporary file or the rename may
   fail, per file); [save] above is [save_env no_faults] ---- *)

(* whatever fails, no temporary file is left behind *)
Theorem C02_no_tmp_left_faults : forall e o ls, tmp_left [] (fst (save_env e o ls)) = [].
Proof. exact no_tmp_left_faults. Qed.
Print Assumptions C02_no_tmp_left_faults.

(* if the temporary file cannot be created exclusively (it exists already), nothing is touched *)
Theorem C02_create_fails_untouched :
  forall e f c, e_tmp_exists e (f ++ tmp_suffix)%list = true -> save_file e f c = ([], false)%list.
Proof. exact create_fails_untouched. Qed.
Print Assumptions C02_create_fails_untouched.

(* every operation concerns f.pkglint.tmp of a changed file f (create, write, chmod to the
   mode of f, remove); only the rename touches f itself *)
Theorem C02_save_touches_only_changed :
  forall e o ls, Forall (op_on_changed (changed_files ls [])) (fst (save_env e o ls)).
Proof. exact save_env_touches_only_changed. Qed.
Print Assumptions C02_save_touches_only_changed.

(* a file is only replaced by a temporary file that got its mode first (if the original
   could be examined): the mode of f is preserved *)
Theorem C02_saved_with_mode :
  forall e f c, snd (save_file e f c) = true -> e_stat_fails e f = false ->
                fst (save_file e f c) = save_seq f c.
Proof. exact saved_with_mode. Qed.
Print Assumptions C02_saved_with_mode.

Theorem C02_save_is_fault_free_save_env : forall o ls, save_env no_faults o ls = save o ls.
Proof. exact save_env_no_faults. Qed.
Print Assumptions C02_save_is_fault_free_save_env.

(* the static tie: the write sites found in the source, apart from the three wrappers in
   path.go and the test-support package intqa, are exactly the operations of the model *)
Open Scope string_scope.
Definition modelled_write_sites : list (string * string * string * nat) :=
  List.filter (fun s => match s with (file, _, _, _) =>
                 negb (String.eqb file "path.go") && negb (String.eqb file "intqa/qa.go") end) write_sites.
Theorem C02_write_sites_are_the_models :
  modelled_write_sites =
  [("autofix.go", "SaveAutofixChanges", "CurrPath.Chmod", 1%nat);
   ("autofix.go", "SaveAutofixChanges", "CurrPath.Rename", 1%nat);
   ("autofix.go", "SaveAutofixChanges", "os.OpenFile", 1%nat);
   ("autofix.go", "SaveAutofixChanges", "os.Remove", 2%nat);
   ("pkglint.go", "Pkglint.checkExecutable", "CurrPath.Chmod", 1%nat)]%list.
Proof. exact (eq_refl _). Qed.
Print Assumptions C02_write_sites_are_the_models.

(* non-vacuity: the same history (a replacement, a save) on the same freshly loaded
   file performs no operation with --show-autofix and the four of one save (exclusive create of the
   temporary file, write, chmod to the original's mode, rename) with --autofix *)
Definition ex2_file : str := [47;102]%N%list.
Definition ex2_groups : list (list str * str) := [ ([[97;10]%N], [97]%N) ]%list.
Definition ex2_events : list event :=
  [ ETxn (Txn 0 [68;46]%N [OReplaceAfter [] [97]%N [98]%N]); ESave ]%list.
Example C02_witness :
  fresh (init_state ex2_file ex2_groups) /\
  (exists st, run (Opts false true []) [] ex2_events (init_state ex2_file ex2_groups) = Ok st /\
     s_ops st = [] /\ List.length (s_log st) = 1%nat) /\
  (exists st, run (Opts true false []) [] ex2_events (init_state ex2_file ex2_groups) = Ok st /\
     s_ops st = save_seq ex2_file [98;10]%N).
Proof.
  split; [repeat constructor|].
  split; eexists; (split; [vm_compute; reflexivity|]); try split; vm_compute; reflexivity.
Qed.

(* ---- the printed path and the written path (composition with C19, Model/Paths.v) ----
   Included makefiles are written under their raw path (line.Filename(), e.g.
   "cat/pkg/../other/../../devel/lib/version.mk") while the AUTOFIX line prints what
   Logger.Logf makes of it: [printed_path f] = CleanPath of a non-empty f, "" for ".".
   For every working directory: the path printed in some AUTOFIX line of the run denotes
   (lexically, Spec/PathDenote.v) the very file that a rename replaces / a chmod changes. *)
From PV Require Import Spec.PathDenote Proofs.AutofixPaths.

Theorem C02_printed_path_denotes : forall cwd f : str, denote cwd (printed_path f) = denote cwd f.
Proof. exact printed_path_denotes. Qed.
Print Assumptions C02_printed_path_denotes.

Theorem C02_printed_path_denotes_written :
  forall o keys evs st st',
    o_autofix o = true -> fresh st -> run o keys evs st = Ok st' ->
    forall cwd,
    Forall (fun op => forall f, op_target op = Some f ->
              exists g, In g (s_log st') /\ denote cwd (printed_path (g_file g)) = denote cwd f)
           (s_ops st').
Proof. exact printed_path_denotes_written. Qed.
Print Assumptions C02_printed_path_denotes_written.

(* all operations, the temporary files included: [op_justified] with "an AUTOFIX line whose
   printed path denotes f" in the place of "an AUTOFIX line for the raw name f" *)
Theorem C02_autofix_ops_named :
  forall o keys evs st st',
    o_autofix o = true -> fresh st -> run o keys evs st = Ok st' ->
    forall cwd, Forall (op_named cwd (s_log st')) (s_ops st').
Proof. exact autofix_ops_named. Qed.
Print Assumptions C02_autofix_ops_named.

(* non-vacuity: "cat/pkg/../oth/../../dev/lib/v.mk" is printed as it is (CleanPath starts at
   the third component and needs two names before "../.."), "a/b/c/d/../../e" is printed as
   "a/b/e", "." is printed as ""; all denote the same file as the raw path *)
Example C02_printed_path_examples :
  printed_path [97;47;98;47;99;47;100;47;46;46;47;46;46;47;101]%N = [97;47;98;47;101]%N /\
  printed_path [46]%N = []%list /\
  printed_path [99;47;112;47;46;46;47;111;47;46;46;47;46;46;47;100;47;118]%N
             = [99;47;112;47;46;46;47;111;47;46;46;47;46;46;47;100;47;118]%N /\
  denote [47;114]%N [99;47;112;47;46;46;47;111;47;46;46;47;46;46;47;100;47;118]%N
             = [[114]; [100]; [118]]%N%list.
Proof. repeat split; vm_compute; reflexivity. Qed.

(* mode changes are changes: every chmod the run performs (checkExecutable's Custom
   fixer) has its printed "Clearing executable bits" line for that very file -- for all
   histories and all option records with --autofix, in particular under --only *)
Theorem C02_mode_change_implies_logged :
  forall o keys evs st st',
    o_autofix o = true -> fresh st -> run o keys evs st = Ok st' ->
    forall p, In (OpChmod p) (s_ops st') ->
      exists g, In g (s_log st') /\ g_file g = p /\ g_descr g = DChmod.
Proof. exact mode_change_implies_logged. Qed.
Print Assumptions C02_mode_change_implies_logged.


(* ====================== symbolic links (Model/FsLinks.v) ======================
   The names state, path, lookup, ... below are those of Model/FsProto.v and Model/FsLinks.v
   (entry names in the lstat view; see Props/C05.v for the description of the model). *)
From PV Require Import Model.FsProto Model.FsLinks Proofs.FsLinks.
Open Scope N_scope.

(* every entry that differs from the initial one -- content, mode or kind, at the end of the
   run, after any fault, at any crash point -- is named by the run: a saved file, its
   temporary name, or a checked argument; never what a link refers to *)
Theorem C02_link_changed_entry_is_named :
  forall (s : Model.FsProto.state) (prog : list laction) (plan : lplan) (q : Model.FsProto.path),
    Model.FsProto.lookup q (st_fs (lw_st (lrun prog (init_lworld s plan)))) <> Model.FsProto.lookup q (st_fs s) ->
    l_named prog q.
Proof. exact link_changed_entry_is_named. Qed.
Print Assumptions C02_link_changed_entry_is_named.

(* the command-line argument is examined with Lstat: only the entry itself can change *)
Theorem C02_lstat_argument_frame :
  forall (s : Model.FsProto.state) (f : Model.FsProto.path) (plan : lplan) (q : Model.FsProto.path), q <> f ->
    Model.FsProto.lookup q (st_fs (lw_st (check_exec_l f (init_lworld s plan)))) = Model.FsProto.lookup q (st_fs s).
Proof. exact lstat_argument_frame. Qed.
Print Assumptions C02_lstat_argument_frame.

(* NOT the code: with Stat the target of a link given as argument is chmod-ed although only
   the link is named *)
Theorem C02_stat_argument_refuted :
  ~ (forall (s : Model.FsProto.state) (f : Model.FsProto.path) (plan : lplan) (q : Model.FsProto.path), q <> f ->
       Model.FsProto.lookup q (st_fs (lw_st (check_exec_stat f (init_lworld s plan)))) = Model.FsProto.lookup q (st_fs s)).
Proof. exact stat_argument_refuted. Qed.
Print Assumptions C02_stat_argument_refuted.
