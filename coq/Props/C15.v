(* C15 -- layout fixes change whitespace only and leave single-line paragraphs settled.
   Only statements; every proof is `exact <lemma>`. (preliminary) *)
From PV Require Import Lib.Bytes Model.Tabs Model.Varalign Model.LayoutFix.
Open Scope Z_scope.

Example C15_smoke : indent 17 = Some [9; 9; 32]%N.
Proof. vm_compute. reflexivity. Qed.
Print Assumptions C15_smoke.
