(* C15 -- Layout fixes change whitespace only and leave single-line paragraphs settled.
   Only statements; every proof is `exact <lemma>`.

   Model/Tabs.v       util.go: tabWidthAppend, tabWidth, alignmentToWidths, alignWith, indent, alignmentAfter
   Model/Varalign.v   varalignblock.go: Process/Finish, optimalWidth, realign, alignValue*, alignContinuation
   Model/LayoutFix.v  CheckTrailingWhitespace, checkDirectiveIndentation, shell tabs, fixSpaceAfterVarname
   The six parts that VaralignSplitter.split returns for a raw line are the model's input;
   `wf` is the splitter's post-condition: the two space parts are blank, an empty value
   has no space after it. *)
From PV Require Import Lib.Bytes Model.Tabs Model.Varalign Model.LayoutFix
  Proofs.Tabs Proofs.VaralignBlanks Proofs.VaralignFile Proofs.VaralignSingle Proofs.LayoutFix Proofs.C15Final Proofs.C15Blank Proofs.C15Margin Proofs.C15Total.
Open Scope Z_scope.

(* ===== width arithmetic ===== *)

(* tabWidthAppend panics (assert r != '\n') exactly on strings containing a newline *)
Theorem C15_tabWidthAppend_total : forall w s,
  tabWidthAppend w s = if has_nl s then None else Some (twa0 w s).
Proof. exact tabWidthAppend_spec. Qed.
Print Assumptions C15_tabWidthAppend_total.

(* tabWidth (indent w) = w, for every width w >= 0 *)
Theorem C15_indent_width : forall w, 0 <= w ->
  exists s, indent w = Some s /\ tabWidth s = Some w /\ blankb s = true.
Proof. exact indent_width. Qed.
Print Assumptions C15_indent_width.

(* whatever indent returns, also for negative widths, consists of tabs and spaces *)
Theorem C15_indent_blank : forall w s, indent w = Some s -> blankb s = true.
Proof. exact indent_blank. Qed.
Print Assumptions C15_indent_blank.

(* the precondition 0 <= w is needed: indent(-1) is six spaces, indent(-8) panics *)
Example C15_indent_negative : indent (-1) = Some (spaces 6) /\ indent (-8) = None.
Proof. split; vm_compute; reflexivity. Qed.

(* tabWidth (s ++ alignmentToWidths |s| w) = w whenever |s| <= w (for |s| > w the result is "") *)
Theorem C15_alignment_reaches : forall s w, tab_width s <= w ->
  exists a, alignmentToWidths (tab_width s) w = Some a /\ tab_width (s ++ a) = w /\ blankb a = true.
Proof. exact alignment_reaches. Qed.
Print Assumptions C15_alignment_reaches.

Theorem C15_alignment_reaches_widths : forall sw w, 0 <= sw <= w ->
  exists a, alignmentToWidths sw w = Some a /\ twa0 sw a = w /\ blankb a = true.
Proof. exact alignment_reaches_w. Qed.
Print Assumptions C15_alignment_reaches_widths.

Example C15_alignment_needs_le : alignmentToWidths 10 5 = Some [] /\ twa0 10 [] <> 5.
Proof. split; vm_compute; [reflexivity|discriminate]. Qed.

Theorem C15_alignmentAfter_reaches : forall prefix w, has_nl prefix = false -> tab_width prefix <= w ->
  exists a, alignmentAfter prefix w = Some a /\ tab_width (prefix ++ a) = w /\ blankb a = true.
Proof. exact alignmentAfter_reaches. Qed.
Print Assumptions C15_alignmentAfter_reaches.

Theorem C15_alignWith_reaches : forall s other,
  has_nl s = false -> has_nl other = false -> tab_width s <= tab_width other ->
  exists a, alignWith s other = Some (s ++ a) /\ tab_width (s ++ a) = tab_width other /\ blankb a = true.
Proof. exact alignWith_reaches. Qed.
Print Assumptions C15_alignWith_reaches.

(* ===== "blank" is byte-exact ===== *)

(* In every statement below, "blank" (blankb, strip_blanks, blanks_only, blank_eq, trimmed_of, wf)
   means the two bytes 32 (space) and 9 (tab) ONLY: not \f \v \r, not U+00A0 / U+0085 / U+2028 in
   any encoding, not a lone 0x85 / 0xA0 byte. *)
Theorem C15_blank_is_space_or_tab : forall s,
  blankb s = true <-> Forall (fun c => c = 32 \/ c = 9)%N s.
Proof. exact blankb_iff. Qed.
Print Assumptions C15_blank_is_space_or_tab.

Theorem C15_strip_blanks_is_space_and_tab : forall s,
  strip_blanks s = filter (fun c => negb ((c =? 32) || (c =? 9))%N) s.
Proof. exact strip_blanks_spec. Qed.
Print Assumptions C15_strip_blanks_is_space_and_tab.

(* a logical line whose last raw line ends in any byte other than space and tab is not touched by
   CheckTrailingWhitespace (in particular "...\r", "...\f", "...\xc2\xa0") *)
Theorem C15_trailing_nonblank_end_untouched : forall raws t c,
  last raws [] = t ++ [c] -> c <> 32%N -> c <> 9%N -> checkTrailingWhitespace raws = Ok raws.
Proof. exact trailing_nonblank_end_untouched. Qed.
Print Assumptions C15_trailing_nonblank_end_untouched.

Example C15_witness_crlf : checkTrailingWhitespace [[86; 61; 9; 118; 32; 13]%N] = Ok [[86; 61; 9; 118; 32; 13]%N]
  /\ checkTrailingWhitespace [[86; 61; 9; 118; 194; 160; 32; 9]%N] = Ok [[86; 61; 9; 118; 194; 160]%N].
Proof. split; vm_compute; reflexivity. Qed.

(* ===== VaralignBlock: every fix, continuation lines included, all inputs ===== *)

(* fix_changes_blanks_only: strip_blanks after = strip_blanks before, line by line *)
Theorem C15_fix_changes_blanks_only : forall ms skip ms', wf_block ms ->
  finish ms skip = Ok ms' -> Forall2 (Forall2 blanks_only) ms ms'.
Proof. exact finish_changes_blanks_only. Qed.
Print Assumptions C15_fix_changes_blanks_only.

(* parts_preserved: leading comment, name+operator, value (with comment) and continuation
   marker of every raw line are untouched, the raw text stays the concatenation of its parts *)
Theorem C15_parts_preserved : forall ms skip ms', wf_block ms ->
  finish ms skip = Ok ms' -> Forall2 (Forall2 parts_kept) ms ms'.
Proof. exact finish_parts_preserved. Qed.
Print Assumptions C15_parts_preserved.

(* ... and the number of raw lines of every assignment *)
Theorem C15_line_count : forall ms skip ms', wf_block ms ->
  finish ms skip = Ok ms' -> map (@length info) ms' = map (@length info) ms.
Proof. exact finish_line_count. Qed.
Print Assumptions C15_line_count.

(* the same over a whole file: Process for every line, Finish at empty lines and at the end *)
Theorem C15_file_blanks_only : forall ls pending_rev skip out,
  Forall wf_fline ls -> Forall wf_fline pending_rev ->
  process_file ls pending_rev skip = Ok out -> Forall2 fline_rel (rev pending_rev ++ ls) out.
Proof. exact process_file_blanks_only. Qed.
Print Assumptions C15_file_blanks_only.

(* ===== the other layout fixers ===== *)

Theorem C15_trailing_blanks_only : forall raws raws',
  checkTrailingWhitespace raws = Ok raws' -> Forall2 trimmed_of raws raws'.
Proof. exact trailing_blanks_only. Qed.
Print Assumptions C15_trailing_blanks_only.

Theorem C15_trailing_settles : forall raws raws',
  checkTrailingWhitespace raws = Ok raws' -> checkTrailingWhitespace raws' = Ok raws'.
Proof. exact trailing_settles. Qed.
Print Assumptions C15_trailing_settles.

Theorem C15_directive_blanks_only : forall sn raw0 ind d r, blankb ind = true ->
  checkDirectiveIndentation sn raw0 ind d = Ok r ->
  blank_eq raw0 r /\ (r = raw0 \/ exists rest, raw0 = DOT :: ind ++ rest /\ r = DOT :: spaces d ++ rest).
Proof. exact directive_blanks_only. Qed.
Print Assumptions C15_directive_blanks_only.

Theorem C15_shell_blanks_only : forall flag raws raws',
  shellTabs flag raws = Ok raws' -> Forall2 blank_eq raws raws'.
Proof. exact shell_blanks_only. Qed.
Print Assumptions C15_shell_blanks_only.

(* round 4: totality (no Go panic) and the exact result of the compact fixers *)

(* CheckTrailingWhitespace never panics on a logical line (>= 1 raw line) and removes exactly the
   maximal suffix of spaces and tabs of the last raw line -- unless what is left would end in a
   backslash (trim_result; /repo a0c5e27), then the line is left alone *)
Theorem C15_trailing_exact : forall raws, raws <> [] ->
  exists init last, raws = init ++ [last] /\
    checkTrailingWhitespace raws = Ok (init ++ [trim_result last]).
Proof. exact checkTrailingWhitespace_spec. Qed.
Print Assumptions C15_trailing_exact.

(* checkDirectiveIndentation never panics for a depth >= 0 (strings.Repeat, ReplaceAt's assertions) *)
Theorem C15_directive_total : forall sn raw0 ind d, 0 <= d ->
  exists r, checkDirectiveIndentation sn raw0 ind d = Ok r.
Proof. exact directive_total. Qed.
Print Assumptions C15_directive_total.

(* the tab normalisation of checkShellCommand never panics when the first raw line starts with two tabs;
   the guard is needed: with a single tab ReplaceAt's assert(from != to) fails *)
Theorem C15_shell_total : forall r0 rs, has_prefix [TAB; TAB] r0 = true ->
  exists raws', shellTabs true (r0 :: rs) = Ok raws'.
Proof. exact shell_total. Qed.
Print Assumptions C15_shell_total.

Example C15_shell_needs_two_tabs : shellTabs true [[9; 120]%N] = Panic.
Proof. vm_compute. reflexivity. Qed.

(* fixSpaceAfterVarname as coded (/repo 42e6bf1: the leading comment marker is kept; 84b7475: the
   name is taken from the raw varnameOp -- operator cut off, right-trimmed, operator re-appended):
   blanks only, whatever the splitter's varnameOp looks like (round 5: no hypothesis on it any more) *)
Theorem C15_spaceAfterVarname_blanks_only : forall raws vn sp op p0 raws',
  blankb (sbv p0) = true ->
  fixSpaceAfterVarname raws vn sp op p0 = Ok raws' -> Forall2 blank_eq raws raws'.
Proof. exact spaceAfterVarname_blanks_only. Qed.
Print Assumptions C15_spaceAfterVarname_blanks_only.

(* ... and exactly which blanks: varnameOp = name ++ b ++ op with b blank and name not ending in a
   blank; the text leadingComment ++ name ++ b ++ op ++ spaceBeforeValue is replaced (where it occurs
   exactly once) by leadingComment ++ name ++ op ++ a, a blank.  So every byte of the variable name
   as written -- blanks inside ${...:S, ,_,g}, an escaped '#' -- is kept: the name the parser reads
   from the fixed line is the name it read before. *)
Theorem C15_spaceAfterVarname_name_untouched : forall raws vn sp op p0 raws',
  fixSpaceAfterVarname raws vn sp op p0 = Ok raws' ->
  raws' = raws \/
  exists name b a, vo p0 = name ++ b ++ op /\ rtrimHspace name = name /\ blankb b = true /\ blankb a = true /\
    raws' = replaceAfter raws [] (lc p0 ++ (name ++ b ++ op) ++ sbv p0) (lc p0 ++ (name ++ op) ++ a).
Proof. exact spaceAfterVarname_exact. Qed.
Print Assumptions C15_spaceAfterVarname_name_untouched.

(* ===== paragraphs made only of single-line assignments ===== *)

(* one pass never panics and is given by `aligned (optimalWidth para)` *)
Theorem C15_one_pass : forall para, Forall single_ok para -> para <> [] ->
  realign_lines para = Ok (map (aligned (optimalWidth para)) para).
Proof. exact realign_lines_spec. Qed.
Print Assumptions C15_one_pass.

(* aligned_canonical: after one pass every value is separated from its operator
   by tabs only or by exactly one space *)
Theorem C15_aligned_canonical : forall para para',
  Forall single_ok para -> Forall (fun p => vo p <> []) para -> para <> [] ->
  realign_lines para = Ok para' -> Forall (fun p' => canonical_sep (sbv p')) para'.
Proof. exact aligned_canonical. Qed.
Print Assumptions C15_aligned_canonical.

(* second_pass_noop: the second pass returns the lines unchanged and logs nothing *)
Theorem C15_second_pass_noop : forall para para',
  Forall single_ok para -> Forall small para ->
  realign_lines para = Ok para' -> realign_para para' = Ok (map single para').
Proof. exact second_pass_noop. Qed.
Print Assumptions C15_second_pass_noop.

Theorem C15_second_pass_lines : forall para para',
  Forall single_ok para -> Forall small para ->
  realign_lines para = Ok para' -> realign_lines para' = Ok para'.
Proof. exact second_pass_lines. Qed.
Print Assumptions C15_second_pass_lines.

(* no_widen_72: still FALSE of the faithful model for a value that follows its operator
   without any blank in a line of exactly 72 columns (no separator fits) *)
Definition C15_no_widen_72_full : Prop := no_widen_72_full.
Theorem C15_no_widen_72_refuted : ~ C15_no_widen_72_full.
Proof. exact no_widen_72_refuted. Qed.
Print Assumptions C15_no_widen_72_refuted.

(* it holds for every line whose value is separated from the operator by at least one blank *)
Theorem C15_no_widen_72_partial : forall para para',
  Forall single_ok para -> para <> [] -> realign_lines para = Ok para' ->
  Forall2 (fun p p' => sbv p <> [] -> sav p = [] -> line_width p <= 72 -> line_width p' <= 72) para para'.
Proof. exact no_widen_72_partial. Qed.
Print Assumptions C15_no_widen_72_partial.

(* round 4: the same under the guard the code itself evaluates -- the line fits into 72 columns with
   its present separator, or with a single space if the value is attached to the operator
   (width_with_room p = tabWidthSlice(leadingComment, varnameOp, oldSpace == "" ? " " : oldSpace, value)).
   This covers attached values too; what remains outside is exactly the refuting class
   (attached value and not even one space fits). *)
Theorem C15_no_widen_72_room : forall para para',
  Forall single_ok para -> para <> [] -> realign_lines para = Ok para' ->
  Forall2 (fun p p' => sav p = [] -> width_with_room p <= 72 -> line_width p' <= 72) para para'.
Proof. exact no_widen_72_room. Qed.
Print Assumptions C15_no_widen_72_room.

(* it subsumes C15_no_widen_72_partial: a separated line that fits has room *)
Theorem C15_room_of_separated : forall p, sbv p <> [] -> sav p = [] -> cont p = [] ->
  line_width p <= 72 -> width_with_room p <= 72.
Proof. exact room_of_separated. Qed.
Print Assumptions C15_room_of_separated.

(* and no line gets wider at all if the common column is not to the right of its value column *)
Theorem C15_no_widen_not_shifted : forall para para',
  Forall single_ok para -> para <> [] -> realign_lines para = Ok para' ->
  Forall2 (fun p p' => not_shifted (optimalWidth para) p -> line_width p' <= line_width p) para para'.
Proof. exact no_widen_not_shifted. Qed.
Print Assumptions C15_no_widen_not_shifted.

(* ===== the hypotheses are satisfiable, the guards are not vacuous ===== *)

Example C15_witness_paragraph :
  Forall single_ok w72_para /\ Forall small w72_para /\ Forall (fun p => vo p <> []) w72_para /\
  realign_lines w72_para = Ok w72_after /\
  line_width w72_e = 72 /\ line_width (set_sbv w72_e [9; 9]%N) = 86 /\
  sbv w72_long <> [] /\ sbv w72_e = [].
Proof.
  split; [exact w72_ok|]. split; [repeat constructor|].
  split; [repeat constructor; discriminate|]. split; [exact w72_run|].
  split; [apply w72_widths|]. split; [apply w72_widths|]. split; [discriminate|reflexivity].
Qed.

(* the paragraph of DESIGN.md section 8 item 8 is left alone now *)
Example C15_witness_repaired : realign_lines [w72_long; w72_a] = Ok [w72_long; w72_a].
Proof. exact w72_repaired. Qed.

Example C15_witness_commented :
  fixSpaceAfterVarname sav_raws [86]%N [32]%N [61]%N sav_parts = Ok [[35; 86; 61; 9; 118]%N].
Proof. exact spaceAfterVarname_keeps_comment. Qed.

(* ===== round 5: the line structure survives the fix (C15 tied to the loader model of C09) =====

   Lines.convert_to_logical_lines s true is convertToLogicalLines in makefile mode (Model/Lines.v,
   property C09): the physical lines of the text s grouped into logical lines; a physical line
   whose content ends in an odd number of backslashes is continued by the next one.
   [C15Reload.trailing_fix rs] = CheckTrailingWhitespace (Model/LayoutFix.v) on the contents of the
   physical lines rs of one logical line, every line feed staying where it was;
   [trailing_fix_file ls] = the text that is written back.  For ALL file texts s: the text written
   back, loaded again, has the same number of logical lines, each with the same number of physical
   lines, namely the fixed ones.  The only side condition: no logical line ends in a physical line
   that has no line feed and consists of blanks only (the unterminated last line of a file; that
   line vanishes -- see C15_trailing_blank_last_line_vanishes). *)
From PV Require Model.Lines Spec.LinesSpec Proofs.C15Reload.

Theorem C15_trailing_keeps_line_structure : forall (s : str) (ls : list Lines.line) (e : bool),
  Lines.convert_to_logical_lines s true = Lines.Ok (ls, e) ->
  (forall l, In l ls -> C15Reload.no_vanishing_line (Lines.raws l)) ->
  exists ls' e',
    Lines.convert_to_logical_lines (C15Reload.trailing_fix_file ls) true = Lines.Ok (ls', e')
    /\ length ls' = length ls
    /\ map (fun l => length (Lines.raws l)) ls' = map (fun l => length (Lines.raws l)) ls
    /\ map Lines.raws ls' = map (fun l => C15Reload.trailing_fix (Lines.raws l)) ls.
Proof. exact C15Reload.trailing_keeps_line_structure. Qed.
Print Assumptions C15_trailing_keeps_line_structure.

(* the side condition holds for every logical line whose last physical line ends in a line feed *)
Theorem C15_no_vanishing_of_newline : forall rs,
  LinesSpec.ends_nl (last rs []) = true -> C15Reload.no_vanishing_line rs.
Proof. exact C15Reload.no_vanishing_of_nl. Qed.
Print Assumptions C15_no_vanishing_of_newline.

Example C15_trailing_blank_last_line_vanishes :
  C15Reload.line_structure C15Reload.vanishing_text = Some [1; 1]%nat /\
  C15Reload.fix_text C15Reload.trailing_fix_file C15Reload.vanishing_text = Some [65; 61; 49; 10]%N /\
  C15Reload.line_structure [65; 61; 49; 10]%N = Some [1]%nat.
Proof. exact C15Reload.trailing_blank_last_line_vanishes. Qed.

(* the behaviour before /repo a0c5e27 (trim regardless of a backslash; kept in Proofs/C15Reload.v
   only as the counterexample) breaks it: "VAR=\tvalue \\ \nOTHER=\tx\n" has the line structure
   [1; 1], after the old fix [2]; the repaired fix leaves the text alone *)
Example C15_old_trailing_fix_joins_lines :
  C15Reload.line_structure C15Reload.witness_text = Some [1; 1]%nat /\
  (exists s', C15Reload.fix_text C15Reload.trailing_fix_file_old C15Reload.witness_text = Some s'
              /\ C15Reload.line_structure s' = Some [2]%nat) /\
  C15Reload.fix_text C15Reload.trailing_fix_file C15Reload.witness_text = Some C15Reload.witness_text.
Proof. exact C15Reload.old_trailing_fix_joins_lines. Qed.

Theorem C15_old_trailing_keeps_line_structure_refuted : ~ C15Reload.old_keeps_line_structure.
Proof. exact C15Reload.old_keeps_line_structure_refuted. Qed.
Print Assumptions C15_old_trailing_keeps_line_structure_refuted.

(* the same question for the other compact fixers, for ALL file texts and any choice of lines,
   depths and (blank) parsed indentations: directive re-indentation ... *)
Theorem C15_directive_keeps_line_structure :
  forall (s : str) (ls : list Lines.line) (e : bool) (choice : Lines.line -> bool * str * Z),
  Lines.convert_to_logical_lines s true = Lines.Ok (ls, e) ->
  (forall l, In l ls -> blankb (snd (fst (choice l))) = true) ->
  let F := fun l => C15Reload.directive_fix (fst (fst (choice l))) (snd (fst (choice l))) (snd (choice l)) (Lines.raws l) in
  exists ls' e',
    Lines.convert_to_logical_lines (concat (flat_map F ls)) true = Lines.Ok (ls', e')
    /\ map Lines.raws ls' = map F ls.
Proof. exact C15Reload.directive_keeps_line_structure. Qed.
Print Assumptions C15_directive_keeps_line_structure.

(* ... and the tab normalisation of shell lines *)
Theorem C15_shell_keeps_line_structure : forall (s : str) (ls : list Lines.line) (e flag : bool),
  Lines.convert_to_logical_lines s true = Lines.Ok (ls, e) ->
  exists ls' e',
    Lines.convert_to_logical_lines (concat (flat_map (fun l => C15Reload.shell_fix flag (Lines.raws l)) ls)) true
      = Lines.Ok (ls', e')
    /\ map Lines.raws ls' = map (fun l => C15Reload.shell_fix flag (Lines.raws l)) ls.
Proof. exact C15Reload.shell_keeps_line_structure. Qed.
Print Assumptions C15_shell_keeps_line_structure.
