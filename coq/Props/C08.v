(* C08 -- Presentation options and option spelling never change what is found.
   Only statements; every proof is `exact <lemma>`.

   Part 1 (this half): the spelling laws of the option parser, Model/Getopt.v,
   over ANY well-formed option table, from ANY parser state (settings so far,
   arguments collected so far) and with ANY following arguments.  Byte values:
   45 = '-', 61 = '=', 44 = ','. *)
From PV Require Import Lib.Bytes Model.Getopt Gen.Options Spec.OptionsDoc Proofs.Getopt Model.Logger Proofs.Logger Proofs.LoggerInv Proofs.LoggerOut.
Open Scope N_scope.

(* the option table regenerated from ParseCommandLine presents exactly the documented
   interface: the same entries (short name, long name, kind, default, flags), in any order *)
Theorem C08_table_is_documented :
  length option_table = length documented_options /\
  forall d, In d (map doc_view option_table) <-> In d documented_options.
Proof. exact table_is_documented. Qed.
Print Assumptions C08_table_is_documented.

(* ... and is well-formed: short names ASCII and not '-', long names non-empty without '=',
   no short or long name twice *)
Theorem C08_option_table_wf : wf_table option_table.
Proof. exact option_table_wf. Qed.
Print Assumptions C08_option_table_wf.

(* Parse is total on a well-formed table: no panic site reached, fuel suffices *)
Theorem C08_parse_total : forall t, wf_table t -> forall args,
  match parse t args with ROk _ _ | RErr _ _ _ => True | RPanic | ROutOfFuel => False end.
Proof. exact parse_total. Qed.
Print Assumptions C08_parse_total.

(* -c is --long *)
Theorem C08_long_eq_short : forall t, wf_table t -> forall i o, nth_error t i = Some o ->
  forall st rem post,
    parse_args t st rem ([45; o_short o] :: post) =
    parse_args t st rem ((45 :: 45 :: o_long o) :: post).
Proof. exact long_eq_short. Qed.
Print Assumptions C08_long_eq_short.

(* --p and --p=value are --long and --long=value when p is a prefix of exactly one long name *)
Theorem C08_unique_prefix_eq_long : forall t, wf_table t -> forall i o p sfx,
  (nth_error t i = Some o /\ has_prefix p (o_long o) = true /\
   forall j o', nth_error t j = Some o' -> j <> i -> has_prefix p (o_long o') = false) ->
  p <> [] -> (sfx = [] \/ exists v, sfx = 61 :: v) ->
  forall st rem post,
    parse_args t st rem ((45 :: 45 :: p ++ sfx) :: post) =
    parse_args t st rem ((45 :: 45 :: o_long o ++ sfx) :: post).
Proof. exact unique_prefix_eq_long. Qed.
Print Assumptions C08_unique_prefix_eq_long.

(* an abbreviation that fits two long names (and is none) is rejected as ambiguous *)
Theorem C08_ambiguous_prefix_is_error : forall t p sfx m1 m2 o1 o2,
  m1 <> m2 -> nth_error t m1 = Some o1 -> nth_error t m2 = Some o2 ->
  has_prefix p (o_long o1) = true -> has_prefix p (o_long o2) = true ->
  (forall m o, nth_error t m = Some o -> o_long o <> p) ->
  p <> [] -> no_eq p = true -> (sfx = [] \/ exists v, sfx = 61 :: v) ->
  forall st rem post, exists a b,
    parse_args t st rem ((45 :: 45 :: p ++ sfx) :: post) = RErr st rem (EAmbiguous a b).
Proof. exact ambiguous_prefix_is_error. Qed.
Print Assumptions C08_ambiguous_prefix_is_error.

(* -abcTAIL is -a -b -c -TAIL for flags a b c; TAIL is empty or anything not starting with '-'
   (e.g. an option letter with its attached argument) *)
Theorem C08_cluster_eq_separate : forall t, wf_table t -> forall cs tail,
  Forall (fun c => exists i o, nth_error t i = Some o /\ o_kind o = KBool /\ o_short o = c) cs ->
  cs <> [] -> match tail with [] => True | x :: _ => x <> 45 end ->
  forall st rem post,
    parse_args t st rem ((45 :: cs ++ tail) :: post) =
    parse_args t st rem (map (fun c => [45; c]) cs ++
                         match tail with [] => [] | _ => [45 :: tail] end ++ post).
Proof. exact cluster_eq_separate. Qed.
Print Assumptions C08_cluster_eq_separate.

(* --p=value is --p value for an option that takes an argument (p a unique prefix or the name itself) *)
Theorem C08_eq_arg_eq_next_arg : forall t, wf_table t -> forall i o p v,
  (nth_error t i = Some o /\ has_prefix p (o_long o) = true /\
   forall j o', nth_error t j = Some o' -> j <> i -> has_prefix p (o_long o') = false) ->
  p <> [] -> o_kind o <> KBool ->
  forall st rem post,
    parse_args t st rem ((45 :: 45 :: p ++ 61 :: v) :: post) =
    parse_args t st rem ((45 :: 45 :: p) :: v :: post).
Proof. exact eq_arg_eq_next_arg. Qed.
Print Assumptions C08_eq_arg_eq_next_arg.

Theorem C08_eq_arg_eq_next_arg_long : forall t, wf_table t -> forall i o v,
  nth_error t i = Some o -> o_kind o <> KBool ->
  forall st rem post,
    parse_args t st rem ((45 :: 45 :: o_long o ++ 61 :: v) :: post) =
    parse_args t st rem ((45 :: 45 :: o_long o) :: v :: post).
Proof. exact eq_arg_eq_next_arg_long. Qed.
Print Assumptions C08_eq_arg_eq_next_arg_long.

(* -ovalue is -o value *)
Theorem C08_short_attached_eq_next_arg : forall t, wf_table t -> forall i o v,
  nth_error t i = Some o -> o_kind o <> KBool -> v <> [] ->
  forall st rem post,
    parse_args t st rem ((45 :: o_short o :: v) :: post) =
    parse_args t st rem ([45; o_short o] :: v :: post).
Proof. exact short_attached_eq_next_arg. Qed.
Print Assumptions C08_short_attached_eq_next_arg.

(* -Wa,b is -Wa -Wb (a, b arbitrary non-empty comma lists, known flags or not) *)
Theorem C08_group_comma_eq_repeat : forall t, wf_table t -> forall i o a b,
  nth_error t i = Some o -> o_kind o = KGroup -> a <> [] -> b <> [] ->
  forall st rem post,
    parse_args t st rem ((45 :: o_short o :: a ++ 44 :: b) :: post) =
    parse_args t st rem ((45 :: o_short o :: a) :: (45 :: o_short o :: b) :: post).
Proof. exact group_comma_eq_repeat_short. Qed.
Print Assumptions C08_group_comma_eq_repeat.

(* --warning=a,b is --warning=a --warning=b *)
Theorem C08_group_comma_eq_repeat_long : forall t, wf_table t -> forall i o a b,
  nth_error t i = Some o -> o_kind o = KGroup ->
  forall st rem post,
    parse_args t st rem ((45 :: 45 :: o_long o ++ 61 :: a ++ 44 :: b) :: post) =
    parse_args t st rem ((45 :: 45 :: o_long o ++ 61 :: a) :: (45 :: 45 :: o_long o ++ 61 :: b) :: post).
Proof. exact group_comma_eq_repeat_long. Qed.
Print Assumptions C08_group_comma_eq_repeat_long.

(* a flag registered with AddFlagVarNoAll (pkglint: -Werror) is left alone by "all" and "none" ... *)
Theorem C08_exempt_flag_unaffected : forall fl bs v j f,
  nth_error fl j = Some f -> gf_all f = false -> nth_error (set_all fl bs v) j = nth_error bs j.
Proof. exact set_all_exempt. Qed.
Print Assumptions C08_exempt_flag_unaffected.

(* ... in any position: -Wx -Wall is -Wall -Wx (and likewise with none) for a known flag
   word x ("error" or "no-error") that addresses only exempt flags; with
   C08_group_comma_eq_repeat the same holds for -Wx,all / -Wall,x.
   [97;108;108] = "all", [110;111;110;101] = "none", [110;111;45] = "no-" *)
Theorem C08_exempt_flag_order : forall t, wf_table t -> forall i o x a,
  nth_error t i = Some o -> o_kind o = KGroup ->
  (a = [97; 108; 108] \/ a = [110; 111; 110; 101]) ->
  str_eqb x [110; 111; 110; 101] || str_eqb x [97; 108; 108] = false -> x <> [] ->
  existsb (N.eqb 44) x = false ->
  (forall f, In f (o_flags o) -> (x = gf_name f \/ x = [110; 111; 45] ++ gf_name f) -> gf_all f = false) ->
  forall st rem post bs bs1, nth_error st i = Some (VGroup bs) -> find_flag (o_flags o) bs x = Some bs1 ->
    parse_args t st rem ((45 :: o_short o :: x) :: (45 :: o_short o :: a) :: post) =
    parse_args t st rem ((45 :: o_short o :: a) :: (45 :: o_short o :: x) :: post).
Proof. exact exempt_flag_order. Qed.
Print Assumptions C08_exempt_flag_order.

(* on pkglint's own table: `-Werror -Wall` = `-Wall -Werror`, and error stays on *)
Example C08_werror_wall_order :
  parse option_table [[112]; [45; 87; 101; 114; 114; 111; 114]; [45; 87; 97; 108; 108]] =
  parse option_table [[112]; [45; 87; 97; 108; 108]; [45; 87; 101; 114; 114; 111; 114]] /\
  (exists st rem, parse option_table [[112]; [45; 87; 101; 114; 114; 111; 114]; [45; 87; 97; 108; 108]] = ROk st rem /\
     last st (VBool false) = VGroup [true; true; true; true]).
Proof. exact werror_wall_order. Qed.

(* everything after "--" is an argument, the settings are left alone *)
Theorem C08_after_dashdash_are_args : forall t st rem post,
  parse_args t st rem ([45; 45] :: post) = ROk st (rem ++ post).
Proof. exact after_dashdash_are_args. Qed.
Print Assumptions C08_after_dashdash_are_args.

(* "for arbitrary surrounding argv": each law above has the form
   forall st rem post, parse_args t st rem (x ++ post) = parse_args t st rem (y ++ post);
   such x and y can be exchanged inside any complete command line, provided the words
   before them leave the parser looking for an option (they do not end in an option
   still waiting for its argument, contain no "--" and no error) *)
Theorem C08_equivalent_in_context : forall t x y,
  (forall st rem post, parse_args t st rem (x ++ post) = parse_args t st rem (y ++ post)) ->
  forall prog pre post st rem,
    (forall post', parse_args t (init t) [] (pre ++ post') = parse_args t st rem post') ->
    parse t (prog :: pre ++ x ++ post) = parse t (prog :: pre ++ y ++ post).
Proof. exact equivalent_in_context. Qed.
Print Assumptions C08_equivalent_in_context.

(* the side condition cannot be dropped: `p -o -q` and `p -o --quiet` differ (the word after -o is its argument) *)
Example C08_position_matters :
  parse option_table [[112]; [45; 111]; [45; 113]] <>
  parse option_table [[112]; [45; 111]; [45; 45; 113; 117; 105; 101; 116]].
Proof. exact position_matters. Qed.

(* non-vacuity on pkglint's own table: "quiet" is an entry, "q" abbreviates it and no other
   long name; -q, --q and --quiet parse alike and do change the settings *)
Example C08_witness_quiet :
  (exists i o, find_long option_table 0 [113; 117; 105; 101; 116] = Some (i, o) /\
     has_prefix [113] (o_long o) = true /\
     forall j o', nth_error option_table j = Some o' -> j <> i -> has_prefix [113] (o_long o') = false) /\
  parse option_table [[112]; [45; 113]] = parse option_table [[112]; [45; 45; 113]] /\
  parse option_table [[112]; [45; 113]] = parse option_table [[112]; [45; 45; 113; 117; 105; 101; 116]] /\
  parse option_table [[112]; [45; 113]] <> parse option_table [[112]].
Proof.
  split; [|split; [vm_compute; reflexivity|split; [vm_compute; reflexivity|vm_compute; discriminate]]].
  destruct (find_long option_table 0 [113; 117; 105; 101; 116]) as [[i o]|] eqn:E; [|vm_compute in E; discriminate].
  exists i, o. split; [reflexivity|]. vm_compute in E. inversion E; subst. split; [reflexivity|].
  intros j o' Hj Hne. do 17 (destruct j as [|j]; [try congruence; inversion Hj; subst; reflexivity|]).
  destruct j; discriminate.
Qed.

(* ================================================================== *)
(* Part 2: the Logger machine, Model/Logger.v.  Events are what checks do to the
   Logger (Diag, Explain, Autofix.Apply, SaveAutofixChanges, TechErrorf,
   ShowSummary); l_emitted is the list of (level, file, linenos, message) tuples,
   one per diagnostic line that Logf wrote. *)

(* for ALL event lists and all option records that agree on ShowAutofix, Autofix and
   Only -- whatever -e -s -g -q are -- the emitted diagnostic tuples, the counters,
   explanationsAvailable / autofixAvailable and the exit status (with and without
   -Werror) are equal *)
Theorem C08_presentation_irrelevant : forall o1 o2 evs,
  lo_show_autofix o1 = lo_show_autofix o2 /\ lo_autofix o1 = lo_autofix o2 /\ lo_only o1 = lo_only o2 ->
  let a := log_run o1 evs in let b := log_run o2 evs in
  l_emitted a = l_emitted b /\
  l_errors a = l_errors b /\ l_warnings a = l_warnings b /\ l_notes a = l_notes b /\
  l_expl_avail a = l_expl_avail b /\ l_fix_avail a = l_fix_avail b /\
  forall werror, exit_status werror a = exit_status werror b.
Proof. exact presentation_irrelevant. Qed.
Print Assumptions C08_presentation_irrelevant.

(* the machine marks a Go panic site with the ghost flag l_panicked and goes on; the flag
   stays false for well-formed events, so the statement above is not about garbage *)
Theorem C08_logger_never_panics : forall o evs,
  Forall (fun ev => match ev with
                    | EvFix ln fv _ _ _ _ _ => (length (ln_raws ln) <= length (fv_texts fv))%nat
                    | EvSummary args => args <> []
                    | _ => True
                    end) evs ->
  l_panicked (log_run o evs) = false.
Proof. exact logger_never_panics. Qed.
Print Assumptions C08_logger_never_panics.

(* every tuple printed with --only S is printed by the unrestricted run.  With -f / -F
   unconditionally; in the default mode under the audited assumption that two events
   with the same duplicate-suppression key (file, linenos, message) carry the same
   level ("equal message => equal level") *)
Theorem C08_only_is_subset : forall o S evs,
  (is_autofix o = true \/
   forall e1 e2 d1 d2, In e1 evs -> In e2 evs -> ev_diag e1 = Some d1 -> ev_diag e2 = Some d2 ->
     d_key d1 = d_key d2 -> d_tuple d1 = d_tuple d2) ->
  incl (l_emitted (log_run (with_only o S) evs)) (l_emitted (log_run (with_only o []) evs)).
Proof. exact only_is_subset. Qed.
Print Assumptions C08_only_is_subset.

(* the assumption is needed: the same message once as a warning (format not matching S)
   and once as an error (format matching S) -- the unrestricted run prints only the warning *)
Definition ex_line : line := mk_line 1 [102] 3 [[65; 10]].
Definition ex_evs : list event :=
  [ EvDiag ex_line LWarn [120] [109]; EvDiag ex_line LError [98; 97; 114] [109] ].
Definition ex_opts : opts := mk_opts false false false false false false [].
Example C08_only_subset_needs_equal_levels :
  l_emitted (log_run (with_only ex_opts [[98; 97; 114]]) ex_evs) = [(LError, [102], [51], [109])] /\
  l_emitted (log_run (with_only ex_opts []) ex_evs) = [(LWarn, [102], [51], [109])].
Proof. split; vm_compute; reflexivity. Qed.
