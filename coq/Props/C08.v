(* C08 -- Presentation options and option spelling never change what is found.
   Only statements; every proof is `exact <lemma>`. *)
From PV Require Import Lib.Bytes Model.Getopt Gen.Options Spec.OptionsDoc Proofs.Getopt.
Open Scope N_scope.

(* the option table regenerated from ParseCommandLine presents exactly the documented interface *)
Theorem C08_table_is_documented : map doc_view option_table = documented_options.
Proof. exact table_is_documented. Qed.
Print Assumptions C08_table_is_documented.
