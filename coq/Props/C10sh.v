(* C10, shell half (part C10sh) -- the shell tokenizer partitions its input and
   always makes progress.  Only statements; every proof is `exact <lemma>`.

   The model is Model/ShTok.v (shtokenizer.go on textproc/lexer.go).  MkLexer.Expr,
   which ShAtom calls first, belongs to part C10mk: here it is an arbitrary
   function `expr` that meets the advance contract
       expr s = Some (t, r)  ->  s = t ++ r  /\  t <> []
   (None: the lexer is left alone).  Every theorem holds for every such `expr`,
   for ALL byte strings s (no length bound), for both values of the hidden
   inWord flag, and -- where a quoting state is an input -- for all 13 of them.
   `Ok` in a conclusion excludes both `Panic` (a Go index/slice panic or a failed
   assert) and `OutOfFuel` (the fuel the model gives its loops: |s|+1 for the
   loop of shAtomInternal and of ShAtoms, |s|+2 for ShToken). *)
From PV Require Import Lib.Bytes Model.ShTok Spec.ShPartition Spec.ShWords
  Proofs.ShTok Proofs.ShTokLoop Proofs.ShTokSpec Proofs.ShTokSplit Proofs.ShTokWords Proofs.ShTokMk.
Open Scope N_scope.

Definition advance_contract (expr : str -> option (str * str)) : Prop :=
  forall s t r, expr s = Some (t, r) -> s = t ++ r /\ t <> [].

(* One call of ShAtom, any quoting state: it returns nil and leaves the lexer
   where it was, or an atom whose text is a non-empty prefix of the input, the
   rest being the remainder; a space atom consists of blanks only. *)
Theorem C10sh_shatom_partition :
  forall expr, advance_contract expr ->
  forall (q : quoting) (in_word : bool) (s : str),
  exists in_word',
    sh_atom expr q (in_word, s) = Ok (None, (in_word', s)) \/
    exists a r,
      sh_atom expr q (in_word, s) = Ok (Some a, (in_word', r)) /\
      s = a_text a ++ r /\ a_text a <> [] /\
      (a_type a = ShtSpace -> forallb is_hspace (a_text a) = true).
Proof. exact sh_atom_spec. Qed.
Print Assumptions C10sh_shatom_partition.

Theorem C10sh_shatom_total :
  forall expr, advance_contract expr ->
  forall (q : quoting) (in_word : bool) (s : str),
    sh_atom expr q (in_word, s) <> Panic /\ sh_atom expr q (in_word, s) <> OutOfFuel.
Proof. exact sh_atom_total. Qed.
Print Assumptions C10sh_shatom_total.

(* The loop of ShAtoms, started in any quoting state: the atom texts, in order,
   followed by the rest are the input; no atom is empty. *)
Theorem C10sh_shatoms_partition :
  forall expr, advance_contract expr ->
  forall (q : quoting) (in_word : bool) (s : str),
  exists atoms in_word' rest,
    sh_atoms_from expr q (in_word, s) = Ok (atoms, (in_word', rest)) /\
    s = concat (map a_text atoms) ++ rest /\
    Forall (fun a => a_text a <> []) atoms.
Proof. exact sh_atoms_from_ok. Qed.
Print Assumptions C10sh_shatoms_partition.

(* ShAtoms() as the Go code has it (plain state, fresh tokenizer) *)
Theorem C10sh_shatoms_plain_partition :
  forall expr, advance_contract expr ->
  forall s : str,
  exists atoms in_word' rest,
    sh_atoms expr s = Ok (atoms, (in_word', rest)) /\
    s = concat (map a_text atoms) ++ rest /\
    Forall (fun a => a_text a <> []) atoms.
Proof. exact sh_atoms_ok. Qed.
Print Assumptions C10sh_shatoms_plain_partition.

(* the same, through the executable specification that the check also runs on
   the implementation's output *)
Theorem C10sh_shatoms_meet_spec :
  forall expr, advance_contract expr ->
  forall (q : quoting) (in_word : bool) (s : str),
  exists atoms in_word' rest,
    sh_atoms_from expr q (in_word, s) = Ok (atoms, (in_word', rest)) /\
    partition_ok s (map a_text atoms) rest = true.
Proof. exact sh_atoms_from_partition_ok. Qed.
Print Assumptions C10sh_shatoms_meet_spec.

Theorem C10sh_shatoms_total :
  forall expr, advance_contract expr ->
  forall (q : quoting) (in_word : bool) (s : str),
    sh_atoms_from expr q (in_word, s) <> Panic /\ sh_atoms_from expr q (in_word, s) <> OutOfFuel.
Proof. exact sh_atoms_from_total. Qed.
Print Assumptions C10sh_shatoms_total.

(* One call of ShToken.  What it skips without reporting are blanks and copies of
   the expression ${_ULIMIT_CMD}; after these comes the token (if any), whose text
   is non-empty and is the concatenation of its non-empty atoms, then the rest.
   When it returns nil the skipped pieces and the rest are the input. *)
Theorem C10sh_shtoken_partition :
  forall expr, advance_contract expr ->
  forall (in_word : bool) (s : str),
  exists skipped in_word' rest,
    Forall (fun p => p <> [] /\ (forallb is_hspace p = true \/ p = ulimit_cmd)) skipped /\
    ((sh_token expr (in_word, s) = Ok (None, (in_word', rest)) /\
      s = concat skipped ++ rest) \/
     exists t,
       sh_token expr (in_word, s) = Ok (Some t, (in_word', rest)) /\
       s = concat skipped ++ tok_text t ++ rest /\
       tok_text t <> [] /\
       tok_text t = concat (map a_text (tok_atoms t)) /\
       tok_atoms t <> [] /\
       Forall (fun a => a_text a <> []) (tok_atoms t)).
Proof. exact sh_token_ok. Qed.
Print Assumptions C10sh_shtoken_partition.

(* in particular neither assert of NewShToken can fail *)
Theorem C10sh_shtoken_total :
  forall expr, advance_contract expr ->
  forall (in_word : bool) (s : str),
    sh_token expr (in_word, s) <> Panic /\ sh_token expr (in_word, s) <> OutOfFuel.
Proof. exact sh_token_total. Qed.
Print Assumptions C10sh_shtoken_total.

(* Calling ShToken until it returns nil (the driver of the correspondence run, and
   what the shell parser's lexer does): it ends within |s|+1 calls, and every call
   satisfies the law above with respect to the rest the previous call left
   (Spec.ShPartition.chain_ok: per token its text, its atoms' texts and the rest
   after the call). *)
Theorem C10sh_shtokens_partition :
  forall expr, advance_contract expr ->
  forall s : str,
  exists l in_word' rest,
    sh_tokens expr s = Ok (l, (in_word', rest)) /\
    chain_ok s (map (fun p => (tok_text (fst p), map a_text (tok_atoms (fst p)), snd p)) l) rest.
Proof. exact sh_tokens_chain_ok. Qed.
Print Assumptions C10sh_shtokens_partition.

(* the same through the executable specification that the check runs on the
   implementation's output *)
Theorem C10sh_shtokens_meet_spec :
  forall expr, advance_contract expr ->
  forall s : str,
  exists l in_word' rest,
    sh_tokens expr s = Ok (l, (in_word', rest)) /\
    tokens_ok s (map (fun p => (tok_text (fst p), snd p)) l) rest = true.
Proof. exact sh_tokens_meet_spec. Qed.
Print Assumptions C10sh_shtokens_meet_spec.

(* ---------- splitIntoShellTokens (shell.go): command text -> token strings ---------- *)

(* For ALL texts: splitIntoShellTokens succeeds (no panic, fuel suffices) and
   (1) the token strings are, in order, the texts of the tokens that repeated
       ShToken calls return; none is empty; every token is the concatenation of
       its (non-empty list of) atoms, and these form a chain from the plain
       quoting state (Spec.ShWords.atoms_chain): an atom produced outside quotes,
       backticks and subshells is never a space atom, and unless it is a make
       expression ${...}, a shell expression $$x / $${...} or a comment, it has no
       blank except directly after a backslash -- blanks inside a token lie
       inside quotes, backticks, $$(...), ${...}, $${...}, a comment, or are escaped;
   (2) text = gap_0 ++ tok_1 ++ gap_1 ++ ... ++ tok_n ++ gap_n ++ rest where every
       gap consists of blanks and copies of ${_ULIMIT_CMD} only. *)
Theorem C10sh_split_tokens :
  forall expr, advance_contract expr ->
  forall text : str,
  exists toks rest,
    split_tokens expr text = Ok (toks, rest) /\
    exists l in_word,
      sh_tokens expr text = Ok (l, (in_word, rest)) /\
      toks = map (fun p => tok_text (fst p)) l /\
      Forall (fun t => t <> []) toks /\
      Forall (fun p => tok_text (fst p) = concat (map a_text (tok_atoms (fst p))) /\
                       tok_atoms (fst p) <> [] /\
                       atoms_chain QPlain (tok_atoms (fst p))) l /\
      exists gaps, length gaps = S (length toks) /\ Forall gap_ok gaps /\
                   text = weave gaps toks rest.
Proof. exact split_tokens_ok. Qed.
Print Assumptions C10sh_split_tokens.

(* (3) On a text made of simple words (Spec.ShWords: text bytes, \c, "..." , '...',
   $$var / $${var...}, make expressions that `rx` recognises; or an operator
   ; ;; & && | || ( ) [n]< [n]> [n]>> [n]<& [n]>& [n]<> [n]>| [n]<< [n]<<-) joined by
   single blanks, the token list is exactly the list of words and nothing is left.
   Needed of the expression lexer: it returns nil unless the text starts with a
   dollar followed by a byte other than a dollar; it takes what rx recognises,
   whatever follows; rx does not recognise ${_ULIMIT_CMD}. *)
Theorem C10sh_split_simple_words :
  forall (expr : str -> option (str * str)) (rx : str -> option str),
  (forall s, dollar_start s = false -> expr s = None) ->
  (forall w r x, rx (36 :: w) = Some r ->
     exists e, 36 :: w = e ++ r /\ e <> [] /\ expr ((36 :: w) ++ x) = Some (e, r ++ x)) ->
  (forall r, rx (ulimit_cmd ++ r) = None) ->
  forall ws : list str, Forall (simple_word rx) ws ->
  split_tokens expr (unwords ws) = Ok (ws, []).
Proof. exact split_simple_words. Qed.
Print Assumptions C10sh_split_simple_words.

(* the executable test simple_word_b is sound for simple_word *)
Theorem C10sh_simple_word_test :
  forall rx w, simple_word_b rx w = true -> simple_word rx w.
Proof. exact simple_word_b_sound. Qed.
Print Assumptions C10sh_simple_word_test.

(* ---------- end to end with the expression lexer of part C10mk ----------
   mk_expr is Model.MkLexer.Expr (the model of MkLexer.Expr, proved advancing and
   total in Props/C10mk.v) in the shape `expr` has here.  With it no hypothesis
   about the expression lexer is left. *)
Theorem C10sh_mk_expr_contract : advance_contract mk_expr.
Proof. exact mk_expr_contract. Qed.
Print Assumptions C10sh_mk_expr_contract.

Theorem C10sh_split_tokens_mk :
  forall text : str,
  exists toks rest,
    split_tokens mk_expr text = Ok (toks, rest) /\
    exists l in_word,
      sh_tokens mk_expr text = Ok (l, (in_word, rest)) /\
      toks = map (fun p => tok_text (fst p)) l /\
      Forall (fun t => t <> []) toks /\
      Forall (fun p => tok_text (fst p) = concat (map a_text (tok_atoms (fst p))) /\
                       tok_atoms (fst p) <> [] /\
                       atoms_chain QPlain (tok_atoms (fst p))) l /\
      exists gaps, length gaps = S (length toks) /\ Forall gap_ok gaps /\
                   text = weave gaps toks rest.
Proof. exact split_tokens_mk. Qed.
Print Assumptions C10sh_split_tokens_mk.

(* the form the C11 development can use: mkvar_rx recognises ${NAME}, NAME over
   [A-Za-z0-9_] (not ${_ULIMIT_CMD}); simple_word_b is computable *)
Theorem C10sh_split_simple_words_mk :
  forall ws : list str, Forall (simple_word mkvar_rx) ws ->
  split_tokens mk_expr (unwords ws) = Ok (ws, []).
Proof. exact split_simple_words_mk. Qed.
Print Assumptions C10sh_split_simple_words_mk.

Theorem C10sh_split_simple_words_mk_b :
  forall ws : list str, forallb (simple_word_b mkvar_rx) ws = true ->
  split_tokens mk_expr (unwords ws) = Ok (ws, []).
Proof. exact split_simple_words_mk_b. Qed.
Print Assumptions C10sh_split_simple_words_mk_b.

(* words of the kinds C11's printer uses:
   echo  "my cmd"  'x y'  $$cmd  $${var}  "$${x:-default}"  ${ECHO}  ${WRKSRC}/file
   x\ y  PATH=${PREFIX}/bin:$$PATH  [0-9]*  $$@  ;  ;;  &&  ||  |  (  )  {  }  2>&  >>  < *)
Definition ex_words : list str :=
  [ [101; 99; 104; 111]; [34; 109; 121; 32; 99; 109; 100; 34]; [39; 120; 32; 121; 39];
    [36; 36; 99; 109; 100]; [36; 36; 123; 118; 97; 114; 125];
    [34; 36; 36; 123; 120; 58; 45; 100; 101; 102; 97; 117; 108; 116; 125; 34];
    [36; 123; 69; 67; 72; 79; 125]; [36; 123; 87; 82; 75; 83; 82; 67; 125; 47; 102; 105; 108; 101];
    [120; 92; 32; 121];
    [80; 65; 84; 72; 61; 36; 123; 80; 82; 69; 70; 73; 88; 125; 47; 98; 105; 110; 58; 36; 36; 80; 65; 84; 72];
    [91; 48; 45; 57; 93; 42]; [36; 36; 64];
    [59]; [59; 59]; [38; 38]; [124; 124]; [124]; [40]; [41]; [123]; [125];
    [50; 62; 38]; [62; 62]; [60] ].
Example C10sh_example_simple_words : forallb (simple_word_b mkvar_rx) ex_words = true.
Proof. vm_compute. reflexivity. Qed.
(* ... and the model computes what the theorem says *)
Example C10sh_example_split : split_tokens mk_expr (unwords ex_words) = Ok (ex_words, []).
Proof. vm_compute. reflexivity. Qed.
(* outside the fragment: a word starting with '#' is a comment to the end of the text *)
Example C10sh_example_comment :
  simple_word_b mkvar_rx [35; 120] = false /\
  split_tokens mk_expr (unwords [[97]; [35; 120]; [98]]) = Ok ([[97]; [35; 120; 32; 98]], []).
Proof. vm_compute. split; reflexivity. Qed.

(* ---------- the hypothesis is satisfiable ---------- *)

(* the expression lexer of the correspondence run (a lookup in the table measured
   on the real MkLexer.Expr) meets the contract, whatever the table says *)
Theorem C10sh_table_expr_contract :
  forall total tbl, advance_contract (table_expr total tbl).
Proof. exact table_expr_contract. Qed.
Print Assumptions C10sh_table_expr_contract.

(* `echo ${X}$$y "a b"`, the table says that Expr takes 4 bytes at offset 5 *)
Definition ex_input : str :=
  [101; 99; 104; 111; 32; 36; 123; 88; 125; 36; 36; 121; 32; 34; 97; 32; 98; 34].
Definition ex_table : list nat := [0; 0; 0; 0; 0; 4; 0; 0; 0; 0; 0; 0; 0; 0; 0; 0; 0; 0; 0]%nat.
Definition ex_expr := table_expr (length ex_input) ex_table.
Example C10sh_example_atoms :
  option_map (fun x => (map a_text (fst x), map a_quot (fst x), snd (snd x)))
             (match sh_atoms ex_expr ex_input with Ok x => Some x | _ => None end)
  = Some ([ [101; 99; 104; 111]; [32]; [36; 123; 88; 125]; [36; 36; 121]; [32]; [34]; [97; 32; 98]; [34] ],
          [QPlain; QPlain; QPlain; QPlain; QPlain; QDquot; QDquot; QPlain], []).
Proof. vm_compute. reflexivity. Qed.

(* three tokens: echo, ${X}$$y, "a b" *)
Example C10sh_example_tokens :
  option_map (fun x => map (fun p => tok_text (fst p)) (fst x))
             (match sh_tokens ex_expr ex_input with Ok x => Some x | _ => None end)
  = Some [ [101; 99; 104; 111]; [36; 123; 88; 125; 36; 36; 121]; [34; 97; 32; 98; 34] ].
Proof. vm_compute. reflexivity. Qed.

(* an unfinished quotation: ShToken returns nil and puts the lexer back *)
Example C10sh_example_unfinished :
  match sh_token (fun _ => None) (false, [32; 34; 97]) with
  | Ok (None, (_, rest)) => rest = [34; 97]
  | _ => False
  end.
Proof. vm_compute. reflexivity. Qed.
