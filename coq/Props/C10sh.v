(* C10 (shell half) -- placeholder until the proofs are wired; see docs/C10sh.md *)
From PV Require Import Lib.Bytes Model.ShTok.
