(* C10, shell half (part C10sh) -- the shell tokenizer partitions its input and
   always makes progress.  Only statements; every proof is `exact <lemma>`.

   The model is Model/ShTok.v (shtokenizer.go on textproc/lexer.go).  MkLexer.Expr,
   which ShAtom calls first, belongs to part C10mk: here it is an arbitrary
   function `expr` that meets the advance contract
       expr s = Some (t, r)  ->  s = t ++ r  /\  t <> []
   (None: the lexer is left alone).  Every theorem holds for every such `expr`,
   for ALL byte strings s (no length bound), for both values of the hidden
   inWord flag, and -- where a quoting state is an input -- for all 13 of them.
   `Ok` in a conclusion excludes both `Panic` (a Go index/slice panic or a failed
   assert) and `OutOfFuel` (the fuel the model gives its loops: |s|+1 for the
   loop of shAtomInternal and of ShAtoms, |s|+2 for ShToken). *)
From PV Require Import Lib.Bytes Model.ShTok Spec.ShPartition Spec.ShWords
  Proofs.ShTok Proofs.ShTokLoop Proofs.ShTokSpec Proofs.ShTokSplit.
Open Scope N_scope.

Definition advance_contract (expr : str -> option (str * str)) : Prop :=
  forall s t r, expr s = Some (t, r) -> s = t ++ r /\ t <> [].

(* One call of ShAtom, any quoting state: it returns nil and leaves the lexer
   where it was, or an atom whose text is a non-empty prefix of the input, the
   rest being the remainder; a space atom consists of blanks only. *)
Theorem C10sh_shatom_partition :
  forall expr, advance_contract expr ->
  forall (q : quoting) (in_word : bool) (s : str),
  exists in_word',
    sh_atom expr q (in_word, s) = Ok (None, (in_word', s)) \/
    exists a r,
      sh_atom expr q (in_word, s) = Ok (Some a, (in_word', r)) /\
      s = a_text a ++ r /\ a_text a <> [] /\
      (a_type a = ShtSpace -> forallb is_hspace (a_text a) = true).
Proof. exact sh_atom_spec. Qed.
Print Assumptions C10sh_shatom_partition.

Theorem C10sh_shatom_total :
  forall expr, advance_contract expr ->
  forall (q : quoting) (in_word : bool) (s : str),
    sh_atom expr q (in_word, s) <> Panic /\ sh_atom expr q (in_word, s) <> OutOfFuel.
Proof. exact sh_atom_total. Qed.
Print Assumptions C10sh_shatom_total.

(* The loop of ShAtoms, started in any quoting state: the atom texts, in order,
   followed by the rest are the input; no atom is empty. *)
Theorem C10sh_shatoms_partition :
  forall expr, advance_contract expr ->
  forall (q : quoting) (in_word : bool) (s : str),
  exists atoms in_word' rest,
    sh_atoms_from expr q (in_word, s) = Ok (atoms, (in_word', rest)) /\
    s = concat (map a_text atoms) ++ rest /\
    Forall (fun a => a_text a <> []) atoms.
Proof. exact sh_atoms_from_ok. Qed.
Print Assumptions C10sh_shatoms_partition.

(* ShAtoms() as the Go code has it (plain state, fresh tokenizer) *)
Theorem C10sh_shatoms_plain_partition :
  forall expr, advance_contract expr ->
  forall s : str,
  exists atoms in_word' rest,
    sh_atoms expr s = Ok (atoms, (in_word', rest)) /\
    s = concat (map a_text atoms) ++ rest /\
    Forall (fun a => a_text a <> []) atoms.
Proof. exact sh_atoms_ok. Qed.
Print Assumptions C10sh_shatoms_plain_partition.

(* the same, through the executable specification that the check also runs on
   the implementation's output *)
Theorem C10sh_shatoms_meet_spec :
  forall expr, advance_contract expr ->
  forall (q : quoting) (in_word : bool) (s : str),
  exists atoms in_word' rest,
    sh_atoms_from expr q (in_word, s) = Ok (atoms, (in_word', rest)) /\
    partition_ok s (map a_text atoms) rest = true.
Proof. exact sh_atoms_from_partition_ok. Qed.
Print Assumptions C10sh_shatoms_meet_spec.

Theorem C10sh_shatoms_total :
  forall expr, advance_contract expr ->
  forall (q : quoting) (in_word : bool) (s : str),
    sh_atoms_from expr q (in_word, s) <> Panic /\ sh_atoms_from expr q (in_word, s) <> OutOfFuel.
Proof. exact sh_atoms_from_total. Qed.
Print Assumptions C10sh_shatoms_total.

(* One call of ShToken.  What it skips without reporting are blanks and copies of
   the expression ${_ULIMIT_CMD}; after these comes the token (if any), whose text
   is non-empty and is the concatenation of its non-empty atoms, then the rest.
   When it returns nil the skipped pieces and the rest are the input. *)
Theorem C10sh_shtoken_partition :
  forall expr, advance_contract expr ->
  forall (in_word : bool) (s : str),
  exists skipped in_word' rest,
    Forall (fun p => p <> [] /\ (forallb is_hspace p = true \/ p = ulimit_cmd)) skipped /\
    ((sh_token expr (in_word, s) = Ok (None, (in_word', rest)) /\
      s = concat skipped ++ rest) \/
     exists t,
       sh_token expr (in_word, s) = Ok (Some t, (in_word', rest)) /\
       s = concat skipped ++ tok_text t ++ rest /\
       tok_text t <> [] /\
       tok_text t = concat (map a_text (tok_atoms t)) /\
       tok_atoms t <> [] /\
       Forall (fun a => a_text a <> []) (tok_atoms t)).
Proof. exact sh_token_ok. Qed.
Print Assumptions C10sh_shtoken_partition.

(* in particular neither assert of NewShToken can fail *)
Theorem C10sh_shtoken_total :
  forall expr, advance_contract expr ->
  forall (in_word : bool) (s : str),
    sh_token expr (in_word, s) <> Panic /\ sh_token expr (in_word, s) <> OutOfFuel.
Proof. exact sh_token_total. Qed.
Print Assumptions C10sh_shtoken_total.

(* Calling ShToken until it returns nil (the driver of the correspondence run, and
   what the shell parser's lexer does): it ends within |s|+1 calls, and every call
   satisfies the law above with respect to the rest the previous call left
   (Spec.ShPartition.chain_ok: per token its text, its atoms' texts and the rest
   after the call). *)
Theorem C10sh_shtokens_partition :
  forall expr, advance_contract expr ->
  forall s : str,
  exists l in_word' rest,
    sh_tokens expr s = Ok (l, (in_word', rest)) /\
    chain_ok s (map (fun p => (tok_text (fst p), map a_text (tok_atoms (fst p)), snd p)) l) rest.
Proof. exact sh_tokens_chain_ok. Qed.
Print Assumptions C10sh_shtokens_partition.

(* the same through the executable specification that the check runs on the
   implementation's output *)
Theorem C10sh_shtokens_meet_spec :
  forall expr, advance_contract expr ->
  forall s : str,
  exists l in_word' rest,
    sh_tokens expr s = Ok (l, (in_word', rest)) /\
    tokens_ok s (map (fun p => (tok_text (fst p), snd p)) l) rest = true.
Proof. exact sh_tokens_meet_spec. Qed.
Print Assumptions C10sh_shtokens_meet_spec.

(* ---------- splitIntoShellTokens (shell.go): command text -> token strings ---------- *)

(* For ALL texts: splitIntoShellTokens succeeds (no panic, fuel suffices) and
   (1) the token strings are, in order, the texts of the tokens that repeated
       ShToken calls return; none is empty; every token is the concatenation of
       its (non-empty list of) atoms, and these form a chain from the plain
       quoting state (Spec.ShWords.atoms_chain): an atom produced outside quotes,
       backticks and subshells is never a space atom, and unless it is a make
       expression ${...}, a shell expression $$x / $${...} or a comment, it has no
       blank except directly after a backslash -- blanks inside a token lie
       inside quotes, backticks, $$(...), ${...}, $${...}, a comment, or are escaped;
   (2) text = gap_0 ++ tok_1 ++ gap_1 ++ ... ++ tok_n ++ gap_n ++ rest where every
       gap consists of blanks and copies of ${_ULIMIT_CMD} only. *)
Theorem C10sh_split_tokens :
  forall expr, advance_contract expr ->
  forall text : str,
  exists toks rest,
    split_tokens expr text = Ok (toks, rest) /\
    exists l in_word,
      sh_tokens expr text = Ok (l, (in_word, rest)) /\
      toks = map (fun p => tok_text (fst p)) l /\
      Forall (fun t => t <> []) toks /\
      Forall (fun p => tok_text (fst p) = concat (map a_text (tok_atoms (fst p))) /\
                       tok_atoms (fst p) <> [] /\
                       atoms_chain QPlain (tok_atoms (fst p))) l /\
      exists gaps, length gaps = S (length toks) /\ Forall gap_ok gaps /\
                   text = weave gaps toks rest.
Proof. exact split_tokens_ok. Qed.
Print Assumptions C10sh_split_tokens.

(* ---------- the hypothesis is satisfiable ---------- *)

(* the expression lexer of the correspondence run (a lookup in the table measured
   on the real MkLexer.Expr) meets the contract, whatever the table says *)
Theorem C10sh_table_expr_contract :
  forall total tbl, advance_contract (table_expr total tbl).
Proof. exact table_expr_contract. Qed.
Print Assumptions C10sh_table_expr_contract.

(* `echo ${X}$$y "a b"`, the table says that Expr takes 4 bytes at offset 5 *)
Definition ex_input : str :=
  [101; 99; 104; 111; 32; 36; 123; 88; 125; 36; 36; 121; 32; 34; 97; 32; 98; 34].
Definition ex_table : list nat := [0; 0; 0; 0; 0; 4; 0; 0; 0; 0; 0; 0; 0; 0; 0; 0; 0; 0; 0]%nat.
Definition ex_expr := table_expr (length ex_input) ex_table.
Example C10sh_example_atoms :
  option_map (fun x => (map a_text (fst x), map a_quot (fst x), snd (snd x)))
             (match sh_atoms ex_expr ex_input with Ok x => Some x | _ => None end)
  = Some ([ [101; 99; 104; 111]; [32]; [36; 123; 88; 125]; [36; 36; 121]; [32]; [34]; [97; 32; 98]; [34] ],
          [QPlain; QPlain; QPlain; QPlain; QPlain; QDquot; QDquot; QPlain], []).
Proof. vm_compute. reflexivity. Qed.

(* three tokens: echo, ${X}$$y, "a b" *)
Example C10sh_example_tokens :
  option_map (fun x => map (fun p => tok_text (fst p)) (fst x))
             (match sh_tokens ex_expr ex_input with Ok x => Some x | _ => None end)
  = Some [ [101; 99; 104; 111]; [36; 123; 88; 125; 36; 36; 121]; [34; 97; 32; 98; 34] ].
Proof. vm_compute. reflexivity. Qed.

(* an unfinished quotation: ShToken returns nil and puts the lexer back *)
Example C10sh_example_unfinished :
  match sh_token (fun _ => None) (false, [32; 34; 97]) with
  | Ok (None, (_, rest)) => rest = [34; 97]
  | _ => False
  end.
Proof. vm_compute. reflexivity. Qed.
