(* C01 -- pkglint never crashes or hangs: the two state machines named in the
   property (the stack of open directives, the separator writer).
   Only statements; every proof is `exact <lemma>`.  The lexers' totality is C10;
   panic-freedom of everything outside these machines is explored by the
   whole-run layer of the check, not proved. *)
From Coq Require Import List NArith ZArith Bool.
From PV Require Import Lib.Bytes Lib.PanicRes Model.Indent Model.SepWriter Spec.SepSpec
  Proofs.Indent Proofs.SepWriter.
Import ListNotations.

(* For every sequence of makefile lines -- balanced or not, stray .elif/.else/.endif/.endfor
   anywhere -- with or without a pkgsrc tree, the loop of MkLines.ForEachEnd with
   TrackBefore / checkDirective (checkDirectiveEnd, checkDirectiveFor, Depth) / TrackAfter and
   the final CheckFinish never evaluates top() or Pop() on an empty stack, never fails Push's
   assertion, never indexes levels out of range, and CheckFinish's loop ends. *)
Theorem C01_indent_stack_safe : forall (pkgsrc : bool) (ls : list dline),
  exists r, run pkgsrc ls = Ok r.
Proof. exact indent_stack_safe. Qed.
Print Assumptions C01_indent_stack_safe.

(* CheckFinish reports exactly the levels that are still open, innermost first *)
Theorem C01_check_finish_closes_all : forall st : state, check_finish st = Ok (map l_line st).
Proof. exact check_finish_spec. Qed.
Print Assumptions C01_check_finish_closes_all.

(* the theorem is not vacuous: the code before fix aedbed2 panics on a stray .elif *)
Example C01_unfixed_track_after_panics : track_after_unfixed true [] stray_elif = Panic 1%N.
Proof. exact unfixed_panics. Qed.

(* No sequence of Write/WriteLine/Separate/Flush in which every Separate() comes at the
   start of a line reaches the assertion of Separate() ... *)
Theorem C01_separator_writer_safe : forall evs : list sw_event,
  disciplined [] evs = true -> exists w, sw_run evs = Ok w.
Proof. exact separator_writer_safe. Qed.
Print Assumptions C01_separator_writer_safe.

(* ... and that discipline is exactly the condition *)
Theorem C01_separator_writer_panics_iff : forall evs : list sw_event,
  sw_run evs = Panic 5%N <-> disciplined [] evs = false.
Proof. exact separator_writer_panics_iff. Qed.
Print Assumptions C01_separator_writer_panics_iff.

(* the call shapes used by pkglint's Logger are disciplined, whatever the texts *)
Theorem C01_logger_calls_safe : forall cs : list log_call,
  forallb log_call_ok cs = true -> exists w, sw_run (flat_map log_events cs) = Ok w.
Proof. exact logger_calls_safe. Qed.
Print Assumptions C01_logger_calls_safe.

(* bytes: output + pending buffer = the written text with newlines inserted, at most one per
   Separate(); state in 0..3, =1 exactly in mid-line; pending buffer newline-free and empty
   at every line start *)
Theorem C01_separator_writer_bytes : forall evs w, sw_run evs = Ok w ->
  InsNL (written evs) (sw_out w ++ sw_line w) /\
  filter (fun b => negb (b =? 10)%N) (sw_out w ++ sw_line w)
    = filter (fun b => negb (b =? 10)%N) (written evs) /\
  (length (written evs) <= length (sw_out w ++ sw_line w) <= length (written evs) + count_sep evs)%nat /\
  (sw_state w = 0 \/ sw_state w = 1 \/ sw_state w = 2 \/ sw_state w = 3)%N /\
  (sw_state w = 1%N <-> in_line (written evs) = true) /\
  no_nl (sw_line w) /\
  (in_line (written evs) = false -> sw_line w = []).
Proof. exact separator_writer_bytes. Qed.
Print Assumptions C01_separator_writer_bytes.

(* the hypotheses are satisfiable / the guard matters *)
Example C01_disciplined_example :
  disciplined [] [EWriteLine [97%N]; ESeparate; EWrite [98%N; 10%N]; ESeparate; EFlush] = true.
Proof. reflexivity. Qed.
Example C01_undisciplined_example : sw_run [EWrite [97%N]; ESeparate] = Panic 5%N.
Proof. reflexivity. Qed.

(* ===== resolveExprs (pkglint.go): the expansion loop with its `visited` set ===== *)
From PV Require Import Model.Resolve Spec.ResolveSpec Proofs.Resolve Model.Scope Spec.ScopeSpec Proofs.Scope.

(* For ALL scopes (finite maps name -> value, any cycles, self references) and ALL texts, whatever
   containsExpr answered: the loop ends within |distinct variables of the scope| + 1 passes
   (resolve_exprs runs resolve_loop on exactly that fuel) -- never OutOfFuel, no panic site. *)
Theorem C01_resolve_terminates : forall (has_expr : bool) (sc : rscope) (text : str),
  exists r, resolve_exprs has_expr sc text = Ok r.
Proof. exact resolve_terminates. Qed.
Print Assumptions C01_resolve_terminates.

(* the fuel bound spelled out: any fuel above the number of distinct variables suffices *)
Theorem C01_resolve_fuel_sufficient : forall (sc : rscope) (text : str) (fuel : nat),
  (length (keys sc) < fuel)%nat -> exists r, resolve_loop fuel sc [] text = Ok r.
Proof. exact resolve_fuel_sufficient. Qed.
Print Assumptions C01_resolve_fuel_sufficient.

(* no unbounded growth: the result is at most the text plus the sum of the value lengths of the
   distinct variables (every variable is expanded at most once per call) *)
Theorem C01_resolve_output_bounded : forall (has_expr : bool) (sc : rscope) (text r : str),
  resolve_exprs has_expr sc text = Ok r -> (length r <= length text + value_budget sc)%nat.
Proof. exact resolve_output_bounded. Qed.
Print Assumptions C01_resolve_output_bounded.

(* the result is a fixed point of one more pass *)
Theorem C01_resolve_result_stable : forall (sc : rscope) (text r : str),
  resolve_exprs true sc text = Ok r -> exists vis, stable sc vis r.
Proof. exact resolve_result_stable. Qed.
Print Assumptions C01_resolve_result_stable.

(* not vacuous: the mutual reference A=${B}, B=${A} needs both passes and ends *)
Definition C01_cyclic_scope : rscope := [([65%N], [36;123;66;125]%N); ([66%N], [36;123;65;125]%N)].
Example C01_resolve_cycle_example :
  resolve_exprs true C01_cyclic_scope [36;123;65;125]%N = Ok [36;123;65;125]%N /\
  resolve_loop 2 C01_cyclic_scope [] [36;123;65;125]%N = OutOfFuel.
Proof. split; reflexivity. Qed.

(* ===== Scope (scope.go) ===== *)

(* IsDefined(v) <-> the FIRST Define that reached v (directly or as canonical name) carried a real
   variable assignment; for all histories of Define/Fallback/Use *)
Theorem C01_scope_isdefined_iff : forall (h : list sop) (v : str),
  is_defined (scope_run h) v = true <-> exists l rest, defs_of v h = l :: rest /\ is_varassign l = true.
Proof. exact scope_isdefined_iff. Qed.
Print Assumptions C01_scope_isdefined_iff.

(* LastDefinition(v) = l <-> the LAST Define that reached v carried l, a real assignment *)
Theorem C01_scope_lastdef_iff : forall (h : list sop) (v : str) (l : sline),
  last_definition (scope_run h) v = Some l <-> last_opt (defs_of v h) = Some l /\ is_varassign l = true.
Proof. exact scope_lastdef_iff. Qed.
Print Assumptions C01_scope_lastdef_iff.

(* FirstDefinition(v) != nil <-> IsDefined(v), in every state: of the eight combinations of
   (IsDefined, FirstDefinition != nil, LastDefinition != nil) exactly (F,F,F) (F,F,T) (T,T,F) (T,T,T) occur *)
Theorem C01_scope_firstdef_iff_isdefined : forall (st : sstate) (v : str),
  (exists l, first_definition st v = Some l) <-> is_defined st v = true.
Proof. exact scope_firstdef_iff_isdefined. Qed.
Print Assumptions C01_scope_firstdef_iff_isdefined.

Example C01_scope_combinations :
  (is_defined (scope_run []) name_A, first_definition (scope_run []) name_A, last_definition (scope_run []) name_A)
    = (false, None, None) /\
  (is_defined (scope_run hist_commented_then_real) name_A, first_definition (scope_run hist_commented_then_real) name_A,
   last_definition (scope_run hist_commented_then_real) name_A) = (false, None, Some (real_line 2)) /\
  (is_defined (scope_run hist_real_then_commented) name_A, first_definition (scope_run hist_real_then_commented) name_A,
   last_definition (scope_run hist_real_then_commented) name_A) = (true, Some (real_line 1), None) /\
  (is_defined (scope_run [ODefine name_A (real_line 1)]) name_A, first_definition (scope_run [ODefine name_A (real_line 1)]) name_A,
   last_definition (scope_run [ODefine name_A (real_line 1)]) name_A) = (true, Some (real_line 1), Some (real_line 1)).
Proof. repeat split; reflexivity. Qed.

(* the idiom `if vars.IsDefined(v) { vars.LastDefinition(v).Line }` (package.go needsPlist, ...):
   false for all histories -- a real assignment followed by a commented-out one ... *)
Definition C01_scope_isdefined_lastdef_full : Prop := isdefined_lastdef_full.
Theorem C01_scope_isdefined_lastdef_refuted : ~ C01_scope_isdefined_lastdef_full.
Proof. exact isdefined_lastdef_refuted. Qed.
Print Assumptions C01_scope_isdefined_lastdef_refuted.

(* ... true when every Define that reached v carried a real assignment (what Package.parseLine
   guarantees for pkg.vars before collectVariables runs) *)
Theorem C01_scope_isdefined_lastdef_partial : forall (h : list sop) (v : str),
  (forall l, In l (defs_of v h) -> is_varassign l = true) ->
  is_defined (scope_run h) v = true -> exists l, last_definition (scope_run h) v = Some l.
Proof. exact scope_isdefined_lastdef_partial. Qed.
Print Assumptions C01_scope_isdefined_lastdef_partial.

(* the exact condition for LastDefinition(v) != nil *)
Theorem C01_scope_lastdef_nonnil_iff : forall (h : list sop) (v : str),
  (exists l, last_definition (scope_run h) v = Some l) <->
  (exists l, last_opt (defs_of v h) = Some l /\ is_varassign l = true).
Proof. exact scope_lastdef_nonnil_iff. Qed.
Print Assumptions C01_scope_lastdef_nonnil_iff.

(* LastValueFound: indeterminate <-> some real `!=` assignment reached v, at any time;
   found <-> IsDefined or a non-empty fallback *)
Theorem C01_scope_indeterminate_iff : forall (h : list sop) (v : str),
  snd (last_value_found (scope_run h) v) = true <-> existsb is_shell_assign (defs_of v h) = true.
Proof. exact scope_indeterminate_iff. Qed.
Print Assumptions C01_scope_indeterminate_iff.

Theorem C01_scope_found_iff : forall (st : sstate) (v : str),
  snd (fst (last_value_found st v)) = true <->
  is_defined st v = true \/ (is_defined st v = false /\ fld v_fallback st v <> []).
Proof. exact scope_found_iff. Qed.
Print Assumptions C01_scope_found_iff.

(* ===== Scope.DefineAll (what NewPackage does with the variables of mk/defaults/mk.conf) ===== *)

(* DefineAll(other) never dereferences a nil entry or a nil lastDef when `other` was built by
   Define/Fallback/Use, and the target then is the scope of the longer history: its own operations
   followed, per name of `other` in sorted order, by Define(first line), Define(last line) -- so all
   history theorems above apply to it *)
Theorem C01_scope_define_all_run : forall (h h2 : list sop),
  exists st', sdefine_all (scope_run h) (scope_run h2) = Ok st' /\
              st' = scope_run (h ++ define_all_hist (scope_run h2)).
Proof. exact define_all_run. Qed.
Print Assumptions C01_scope_define_all_run.

(* for arbitrary states: whenever DefineAll does not panic it is that history *)
Theorem C01_scope_define_all_as_history : forall (st other st' : sstate),
  sdefine_all st other = Ok st' -> st' = fold_left sstep (define_all_hist other) st.
Proof. exact define_all_as_history. Qed.
Print Assumptions C01_scope_define_all_as_history.

(* defect 16 (repaired by ab06f65) in the model: the copy of `A= y` / `#A= y` is IsDefined with a nil LastDefinition *)
Example C01_scope_define_all_copies_commented :
  exists st', sdefine_all [] (scope_run hist_real_then_commented) = Ok st' /\
              is_defined st' name_A = true /\ last_definition st' name_A = None.
Proof. exact define_all_copies_commented. Qed.
