(* C01 -- pkglint never crashes or hangs: the two state machines named in the
   property (the stack of open directives, the separator writer).
   Only statements; every proof is `exact <lemma>`.  The lexers' totality is C10;
   panic-freedom of everything outside these machines is explored by the
   whole-run layer of the check, not proved. *)
From Coq Require Import List NArith ZArith Bool.
From PV Require Import Lib.Bytes Lib.PanicRes Model.Indent Model.SepWriter Spec.SepSpec
  Proofs.Indent Proofs.SepWriter.
Import ListNotations.

(* For every sequence of makefile lines -- balanced or not, stray .elif/.else/.endif/.endfor
   anywhere -- with or without a pkgsrc tree, the loop of MkLines.ForEachEnd with
   TrackBefore / checkDirective (checkDirectiveEnd, checkDirectiveFor, Depth) / TrackAfter and
   the final CheckFinish never evaluates top() or Pop() on an empty stack, never fails Push's
   assertion, never indexes levels out of range, and CheckFinish's loop ends. *)
Theorem C01_indent_stack_safe : forall (pkgsrc : bool) (ls : list dline),
  exists r, run pkgsrc ls = Ok r.
Proof. exact indent_stack_safe. Qed.
Print Assumptions C01_indent_stack_safe.

(* CheckFinish reports exactly the levels that are still open, innermost first *)
Theorem C01_check_finish_closes_all : forall st : state, check_finish st = Ok (map l_line st).
Proof. exact check_finish_spec. Qed.
Print Assumptions C01_check_finish_closes_all.

(* the theorem is not vacuous: the code before fix aedbed2 panics on a stray .elif *)
Example C01_unfixed_track_after_panics : track_after_unfixed true [] stray_elif = Panic 1%N.
Proof. exact unfixed_panics. Qed.

(* No sequence of Write/WriteLine/Separate/Flush in which every Separate() comes at the
   start of a line reaches the assertion of Separate() ... *)
Theorem C01_separator_writer_safe : forall evs : list sw_event,
  disciplined [] evs = true -> exists w, sw_run evs = Ok w.
Proof. exact separator_writer_safe. Qed.
Print Assumptions C01_separator_writer_safe.

(* ... and that discipline is exactly the condition *)
Theorem C01_separator_writer_panics_iff : forall evs : list sw_event,
  sw_run evs = Panic 5%N <-> disciplined [] evs = false.
Proof. exact separator_writer_panics_iff. Qed.
Print Assumptions C01_separator_writer_panics_iff.

(* the call shapes used by pkglint's Logger are disciplined, whatever the texts *)
Theorem C01_logger_calls_safe : forall cs : list log_call,
  forallb log_call_ok cs = true -> exists w, sw_run (flat_map log_events cs) = Ok w.
Proof. exact logger_calls_safe. Qed.
Print Assumptions C01_logger_calls_safe.

(* bytes: output + pending buffer = the written text with newlines inserted, at most one per
   Separate(); state in 0..3, =1 exactly in mid-line; pending buffer newline-free and empty
   at every line start *)
Theorem C01_separator_writer_bytes : forall evs w, sw_run evs = Ok w ->
  InsNL (written evs) (sw_out w ++ sw_line w) /\
  filter (fun b => negb (b =? 10)%N) (sw_out w ++ sw_line w)
    = filter (fun b => negb (b =? 10)%N) (written evs) /\
  (length (written evs) <= length (sw_out w ++ sw_line w) <= length (written evs) + count_sep evs)%nat /\
  (sw_state w = 0 \/ sw_state w = 1 \/ sw_state w = 2 \/ sw_state w = 3)%N /\
  (sw_state w = 1%N <-> in_line (written evs) = true) /\
  no_nl (sw_line w) /\
  (in_line (written evs) = false -> sw_line w = []).
Proof. exact separator_writer_bytes. Qed.
Print Assumptions C01_separator_writer_bytes.

(* the hypotheses are satisfiable / the guard matters *)
Example C01_disciplined_example :
  disciplined [] [EWriteLine [97%N]; ESeparate; EWrite [98%N; 10%N]; ESeparate; EFlush] = true.
Proof. reflexivity. Qed.
Example C01_undisciplined_example : sw_run [EWrite [97%N]; ESeparate] = Panic 5%N.
Proof. reflexivity. Qed.
