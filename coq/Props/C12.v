(* C12 -- Version comparison is a total preorder that follows pkg_install's Dewey rules.
   Only statements; every proof is `exact <lemma>`. *)
From PV Require Import Lib.Bytes Gen.VercmpTable Model.Vercmp Spec.Dewey Proofs.Vercmp.
Open Scope Z_scope.

(* the model never runs out of fuel: Compare is defined on every pair of byte strings *)
Theorem C12_compare_total : forall a b : str, exists c, compare a b = Some c.
Proof. exact compare_defined. Qed.
Print Assumptions C12_compare_total.

Theorem C12_compare_refl : forall a : str, compare a a = Some Eq.
Proof. exact compare_refl. Qed.
Print Assumptions C12_compare_refl.

(* compare(a,b) = -compare(b,a) *)
Theorem C12_compare_antisym : forall a b : str, compare a b = option_map CompOpp (compare b a).
Proof. exact compare_antisym. Qed.
Print Assumptions C12_compare_antisym.

(* compare(a,b) <= 0 and compare(b,c) <= 0 imply compare(a,c) <= 0 *)
Theorem C12_compare_trans : forall a b c : str, le_ver a b -> le_ver b c -> le_ver a c.
Proof. exact compare_trans. Qed.
Print Assumptions C12_compare_trans.

(* the regenerated Go keyword table is dewey.c's modifiers table *)
Theorem C12_table_is_dewey :
  map (fun b => ([b], 0)) sep_bytes ++ keyword_table
  = [ ([95]%N, 0); ([46]%N, 0) ] ++ firstn 5 modifiers
  /\ skipn 5 modifiers = [ ([95]%N, 0); ([46]%N, 0) ] /\ nb_keyword = [110; 98]%N.
Proof. exact table_is_dewey. Qed.
Print Assumptions C12_table_is_dewey.

(* for every byte string, newVersion = dewey.c's mkversion with every number
   saturated at MaxInt64 (Go's strconv.Atoi) *)
Theorem C12_new_version_is_mkversion : forall s : str,
  new_version s = option_map (fun p => (map clamp (fst p), clamp (snd p))) (mkversion s).
Proof. exact new_version_is_mkversion. Qed.
Print Assumptions C12_new_version_is_mkversion.

(* hence, whenever no number in either version exceeds MaxInt64, Compare gives
   exactly the sign dewey.c computes (on unbounded integers; C's int is 32 bit, so
   dewey.c itself agrees with this spec below 2^31) *)
Theorem C12_compare_is_dewey : forall (a b : str) va vb,
  mkversion a = Some va -> mkversion b = Some vb -> in_range va -> in_range vb ->
  option_map sign_of (compare a b) = dewey_cmp a b.
Proof. exact compare_is_dewey. Qed.
Print Assumptions C12_compare_is_dewey.

(* non-vacuity: a concrete pair meeting the hypotheses, with a non-trivial verdict *)
Definition ex_a : str := [49; 46; 48; 114; 99; 49; 110; 98; 50]%N. (* "1.0rc1nb2" *)
Definition ex_b : str := [49; 46; 48; 65; 76; 80; 72; 65]%N.       (* "1.0ALPHA"  *)
Example C12_witness :
  dewey_cmp ex_a ex_b = Some 1 /\ compare ex_a ex_b = Some Gt /\
  (exists va, mkversion ex_a = Some va /\ in_range va).
Proof.
  split; [vm_compute; reflexivity|]. split; [vm_compute; reflexivity|].
  exists ([1; 0; 0; -1; 1], 2). split; [vm_compute; reflexivity|].
  split; [|vm_compute; discriminate].
  repeat (apply Forall_cons; [vm_compute; discriminate|]). apply Forall_nil.
Qed.

(* the saturation guard is needed: beyond MaxInt64 Go and the unbounded spec differ *)
Definition ex_big : str := [57;57;57;57;57;57;57;57;57;57;57;57;57;57;57;57;57;57;57;57]%N.
Example C12_saturation_differs :
  compare ex_big (ex_big ++ [57]%N) = Some Eq /\ dewey_cmp ex_big (ex_big ++ [57]%N) = Some (-1).
Proof. split; vm_compute; reflexivity. Qed.
