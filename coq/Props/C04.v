(* C04 -- default, --show-autofix and --autofix tell one consistent story.
   Only statements; every proof is `exact <lemma>`.  The machine is
   Model/Modes.v: a run is a list of checks, a check is ANY function from the
   current line states to events (plain diagnostics, explanations, fix
   transactions `Xxxf; [Explain]; ops...; Apply`, saves, the summary); the mode
   is not an argument of a check.  `only` is the --only list. *)
From PV Require Import Lib.Bytes Model.Modes Proofs.Modes Proofs.ModesDiags.
Open Scope N_scope.

(* -f announces exactly the AUTOFIX actions that -F performs, in the same
   order, for all lists of checks: both modes update texts/Line.Text
   identically, so every later check sees the same line state *)
Theorem C04_show_equals_do : forall only ls (cs : list check),
  actions (run ShowAutofix only ls cs) = actions (run Autofix only ls cs).
Proof. exact show_equals_do. Qed.
Print Assumptions C04_show_equals_do.

(* the same for any two of -f, -F, -f -F, together with the line states (what
   -F writes to disk is what -f -F writes) and the assertion failures *)
Theorem C04_autofix_modes_agree : forall m1 m2 only ls (cs : list check),
  is_autofix m1 = true -> is_autofix m2 = true ->
  actions (run m1 only ls cs) = actions (run m2 only ls cs)
  /\ s_lines (run m1 only ls cs) = s_lines (run m2 only ls cs)
  /\ s_panic (run m1 only ls cs) = s_panic (run m2 only ls cs).
Proof. exact autofix_modes_agree. Qed.
Print Assumptions C04_autofix_modes_agree.

(* the property's third clause: the default run advertises automatic fixing
   (autofixAvailable, which drives the two "(Run ... -fs/-F ...)" hints) only
   when -f has an action to show.  Guard: the -f run does not die of an
   assertion (after a ReplaceAfter the two runs are in different line states,
   so a later ReplaceAt may be valid in one and not in the other) *)
Theorem C04_advertise_implies_show : forall only ls (cs : list check),
  Forall (fun l => l_modified l = false) ls ->
  s_panic (run ShowAutofix only ls cs) = false ->
  autofix_available (run Default only ls cs) = true ->
  actions (run ShowAutofix only ls cs) <> [].
Proof. exact advertise_implies_show. Qed.
Print Assumptions C04_advertise_implies_show.

(* the converse is not demanded by the property; it holds in the model because
   `run` saves every line at the end (the real code does not for ALTERNATIVES) *)
Theorem C04_advertise_iff_show : forall only ls (cs : list check),
  Forall (fun l => l_modified l = false) ls ->
  s_panic (run Default only ls cs) = false ->
  s_panic (run ShowAutofix only ls cs) = false ->
  (autofix_available (run Default only ls cs) = true <-> actions (run ShowAutofix only ls cs) <> []).
Proof. exact advertise_iff_show. Qed.
Print Assumptions C04_advertise_iff_show.

(* the second clause in full generality -- every diagnostic of -f is a
   diagnostic of the default run -- is FALSE of the faithful model:
   ReplaceAfter updates texts/Line.Text only with -f/-F, so a later check may
   see different text (witness: `X = v`, the parse-time fix followed by the
   alignment check; replayed on the real binary: known finding
   C04/b/f-diag-not-in-default/after-ReplaceAfter-fix-in-same-file(confirmed)) *)
Definition C04_show_diags_subset_default_full : Prop := show_diags_subset_default_full.
Theorem C04_show_diags_subset_default_refuted : ~ C04_show_diags_subset_default_full.
Proof. exact show_diags_subset_default_refuted. Qed.
Print Assumptions C04_show_diags_subset_default_refuted.

(* what remains true, with the guard spelled out: for all lists of checks none
   of which uses Replace/ReplaceAfter (op_no_ra: ReplaceAt, InsertAbove/Below,
   Delete, Custom are allowed) and whose diagnostics have a level determined by
   their message (event_level), every diagnostic (level, file, line numbers,
   message) printed with -f is printed by the default run *)
Theorem C04_show_diags_subset_default_partial : forall (lvl : str -> level) only ls (cs : list check),
  (forall c ls' e, In c cs -> In e (c ls') -> event_no_ra e /\ event_level lvl e) ->
  forall it, In it (diags (run ShowAutofix only ls cs)) -> In it (diags (run Default only ls cs)).
Proof. exact show_diags_subset_default_partial. Qed.
Print Assumptions C04_show_diags_subset_default_partial.

(* the refutation's witness violates exactly that guard (its first check uses ReplaceAfter) *)
Example C04_partial_guard_needed : ~ checks_ok (fun _ => Note) [wit_check1; wit_check2].
Proof. exact partial_guard_needed. Qed.

(* the guard is satisfiable by checks that do fix something *)
Example C04_partial_nonvacuous :
  checks_ok (fun _ => Note) [wit_check2]
  /\ diags (run ShowAutofix [] [mk_line [102] 1 [88;61;32;118] [[88;61;32;118;10]]] [wit_check2]) <> [].
Proof.
  split.
  - intros c ls e [<-|[]] He. unfold wit_check2 in He.
    destruct ls as [|l r]; [destruct He|]. destruct (has_prefix _ _); [|destruct He].
    destruct He as [<-|[]]. split; [|reflexivity]. cbn. repeat constructor.
  - vm_compute. discriminate.
Qed.

(* non-vacuity: the witness run really prints, advertises and shows something *)
Example C04_witness_nontrivial :
  actions (run ShowAutofix [] [wit_line] [wit_check1; wit_check2]) <> []
  /\ autofix_available (run Default [] [wit_line] [wit_check1; wit_check2]) = true
  /\ s_panic (run ShowAutofix [] [wit_line] [wit_check1; wit_check2]) = false.
Proof. repeat split; vm_compute; congruence. Qed.

(* ---------- a paragraph-level check between other fixes (Model/ModesPara.v) ----------
   VaralignBlock: Process remembers the raw texts of every line of the paragraph
   when the line is checked; the other checkers of the same round (any checks)
   may then fix lines already remembered with Replace/ReplaceAfter, InsertAbove
   or Custom (mid_ok); Finish compares and, as coded, gives the paragraph up
   when a remembered line has changed; otherwise it prints notes that are a
   function of what was remembered, fixing with ReplaceAt (notes_ok).
   Then Finish adds nothing to the -f run that the default run lacks: every
   diagnostic of the -f run was there before Finish, or is a diagnostic of the
   default run.  The checks before the paragraph are as in
   C04_show_diags_subset_default_partial; Panic excluded in the statement. *)
From PV Require Import Model.ModesPara Proofs.ModesPara.
Theorem C04_para_finish_adds_nothing :
  forall (lvl : str -> level) only ls (pre : list check) (phases : list (nat * list check)) (notes : snap -> list event),
  checks_ok lvl pre -> mid_ok lvl [] phases -> notes_ok lvl notes ->
  s_panic (run_para para_finish Default only ls pre phases notes) = false ->
  forall it, In it (diags (run_para para_finish ShowAutofix only ls pre phases notes)) ->
    In it (diags (p_st (para_before ShowAutofix only ls pre phases)))
    \/ In it (diags (run_para para_finish Default only ls pre phases notes)).
Proof. exact para_finish_adds_nothing. Qed.
Print Assumptions C04_para_finish_adds_nothing.

(* the same statement for a Finish that splits a changed line again and goes
   on is FALSE (witness: `A=v`, "=" replaced by "+=" after Process, notes that
   depend on the width of varname+operator) *)
Definition C04_para_resplit_adds_nothing : Prop := para_resplit_adds_nothing.
Theorem C04_para_resplit_refuted : ~ C04_para_resplit_adds_nothing.
Proof. exact para_resplit_refuted. Qed.
Print Assumptions C04_para_resplit_refuted.

(* non-vacuity: on that witness Finish as coded gives the paragraph up with -f
   (nothing added), the default run does not panic; and without the other fix
   both modes print the note *)
Example C04_para_witness_as_coded :
  diags (run_para para_finish ShowAutofix [] [pw_line] [] [(0%nat, [pw_mid])] pw_notes)
  = diags (p_st (para_before ShowAutofix [] [pw_line] [] [(0%nat, [pw_mid])]))
  /\ s_panic (run_para para_finish Default [] [pw_line] [] [(0%nat, [pw_mid])] pw_notes) = false
  /\ In pw_item (diags (run_para para_finish ShowAutofix [] [pw_line2] [] [(0%nat, [])] pw_notes))
  /\ In pw_item (diags (run_para para_finish Default [] [pw_line2] [] [(0%nat, [])] pw_notes)).
Proof. exact para_witness_as_coded. Qed.
Example C04_para_guards_satisfiable :
  checks_ok pw_lvl [] /\ mid_ok pw_lvl [] [(0%nat, [pw_mid])] /\ notes_ok pw_lvl pw_notes.
Proof. exact (conj pw_pre_ok (conj pw_mid_ok pw_notes_ok)). Qed.
