(* C16 -- repeated --autofix converges to a fixed point where nothing more is
   offered.  Only statements; every proof is `exact <lemma>`.
   What is proved: a generic composition theorem for fixers, its instances for
   small executable models of five fixers (Model/Settle.v), and -- on the
   Logger/Autofix machine of C04 -- that a fixed point of --autofix is quiet.
   Convergence of ALL 70+ fix sites together is explored by the whole-run part
   of the check, not proved. *)
From PV Require Import Lib.Bytes Model.Settle Proofs.Settle Model.Modes Proofs.Modes.
Open Scope N_scope.

(* if each fixer establishes a post-condition under which it is the identity,
   and the fixers preserve each other's post-conditions, then one pass of all
   of them reaches a common fixed point *)
Theorem C16_settling_composition : forall (T : Type) (fs : list (fixer T)),
  Forall sound fs -> (forall f g, In f fs -> In g fs -> preserves g f) ->
  forall x, (forall f, In f fs -> fx_run f (pass fs x) = pass fs x)
            /\ pass fs (pass fs x) = pass fs x.
Proof. exact settling_composition. Qed.
Print Assumptions C16_settling_composition.

(* the order-aware form: it suffices that every fixer preserves the
   post-conditions of the fixers that ran BEFORE it in the pass (inserting the
   CVS id may break "empty line below the id", so that one has to run later) *)
Theorem C16_settling_composition_ordered : forall (T : Type) (fs : list (fixer T)),
  Forall sound fs -> triangular T [] fs ->
  forall x, Forall (fun f => fx_post f (pass fs x)) fs
            /\ (forall f, In f fs -> fx_run f (pass fs x) = pass fs x)
            /\ pass fs (pass fs x) = pass fs x.
Proof. exact settling_composition_ordered. Qed.
Print Assumptions C16_settling_composition_ordered.

(* trailing whitespace (linechecker.go CheckTrailingWhitespace): one application settles *)
Theorem C16_trim_settles : forall ls : list str, trim_file (trim_file ls) = trim_file ls.
Proof. exact trim_settles. Qed.
Print Assumptions C16_trim_settles.

(* CVS id + empty line below it (lines.go CheckCvsID, lineslexer.go SkipEmptyOrNote) *)
Theorem C16_cvsid_settles : forall (prefix : str) (ls : list str),
  fix_header prefix (fix_header prefix ls) = fix_header prefix ls.
Proof. exact cvsid_settles. Qed.
Print Assumptions C16_cvsid_settles.

(* PLIST sort *)
Theorem C16_sort_idempotent : forall l : list str, isort (isort l) = isort l.
Proof. exact sort_idempotent. Qed.
Print Assumptions C16_sort_idempotent.

(* distinfo hashes, for any hash function *)
Theorem C16_hash_settles : forall (computed : str -> str) (es : list distinfo_entry),
  fix_hashes computed (fix_hashes computed es) = fix_hashes computed es.
Proof. exact hash_settles. Qed.
Print Assumptions C16_hash_settles.

(* instance of the composition theorem: header fixer and trimmer on one file *)
Theorem C16_text_file_settles : forall (prefix : str) (ls : list str),
  text_pass prefix (text_pass prefix ls) = text_pass prefix ls
  /\ fix_header prefix (text_pass prefix ls) = text_pass prefix ls
  /\ trim_file (text_pass prefix ls) = text_pass prefix ls.
Proof. exact text_file_settles. Qed.
Print Assumptions C16_text_file_settles.

(* on the mode machine of C04, for ALL lists of checks: if --autofix marks no
   line as modified (nothing is written: a fixed point), then --show-autofix
   logs no action and the default run does not advertise automatic fixing *)
Theorem C16_fixed_point_quiet : forall only ls (cs : list check),
  Forall fresh ls ->
  existsb l_modified (s_lines (run Autofix only ls cs)) = false ->
  actions (run ShowAutofix only ls cs) = []
  /\ (s_panic (run ShowAutofix only ls cs) = false -> autofix_available (run Default only ls cs) = false).
Proof. exact fixed_point_quiet. Qed.
Print Assumptions C16_fixed_point_quiet.

(* non-vacuity *)
Example C16_header_example :
  fix_header [] [[120]] = [cvsid_line []; []; [120]] /\ header_ok [] (fix_header [] [[120]]) = true.
Proof. split; vm_compute; reflexivity. Qed.
Example C16_trim_example : trim_file [[97;32;9]; [32]; []] = [[97]; []; []].
Proof. vm_compute. reflexivity. Qed.
