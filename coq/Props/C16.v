(* C16 -- repeated --autofix converges to a fixed point where nothing more is
   offered.  Only statements; every proof is `exact <lemma>`.
   What is proved: a generic composition theorem for fixers, its instances for
   small executable models of five fixers (Model/Settle.v), and -- on the
   Logger/Autofix machine of C04 -- that a fixed point of --autofix is quiet.
   Convergence of ALL 70+ fix sites together is explored by the whole-run part
   of the check, not proved. *)
From PV Require Import Lib.Bytes Model.Settle Proofs.Settle Proofs.Settle2 Model.Modes Proofs.Modes.
Open Scope N_scope.

(* if each fixer establishes a post-condition under which it is the identity,
   and the fixers preserve each other's post-conditions, then one pass of all
   of them reaches a common fixed point *)
Theorem C16_settling_composition : forall (T : Type) (fs : list (fixer T)),
  Forall sound fs -> (forall f g, In f fs -> In g fs -> preserves g f) ->
  forall x, (forall f, In f fs -> fx_run f (pass fs x) = pass fs x)
            /\ pass fs (pass fs x) = pass fs x.
Proof. exact settling_composition. Qed.
Print Assumptions C16_settling_composition.

(* the order-aware form: it suffices that every fixer preserves the
   post-conditions of the fixers that ran BEFORE it in the pass (inserting the
   CVS id may break "empty line below the id", so that one has to run later) *)
Theorem C16_settling_composition_ordered : forall (T : Type) (fs : list (fixer T)),
  Forall sound fs -> triangular T [] fs ->
  forall x, Forall (fun f => fx_post f (pass fs x)) fs
            /\ (forall f, In f fs -> fx_run f (pass fs x) = pass fs x)
            /\ pass fs (pass fs x) = pass fs x.
Proof. exact settling_composition_ordered. Qed.
Print Assumptions C16_settling_composition_ordered.

(* trailing whitespace (linechecker.go CheckTrailingWhitespace): one application settles *)
Theorem C16_trim_settles : forall ls : list str, trim_file (trim_file ls) = trim_file ls.
Proof. exact trim_settles. Qed.
Print Assumptions C16_trim_settles.

(* CVS id + empty line below it (lines.go CheckCvsID, lineslexer.go SkipEmptyOrNote) *)
Theorem C16_cvsid_settles : forall (prefix : str) (ls : list str),
  fix_header prefix (fix_header prefix ls) = fix_header prefix ls.
Proof. exact cvsid_settles. Qed.
Print Assumptions C16_cvsid_settles.

(* PLIST sort *)
Theorem C16_sort_idempotent : forall l : list str, isort (isort l) = isort l.
Proof. exact sort_idempotent. Qed.
Print Assumptions C16_sort_idempotent.

(* distinfo hashes, for any hash function *)
Theorem C16_hash_settles : forall (computed : str -> str) (es : list distinfo_entry),
  fix_hashes computed (fix_hashes computed es) = fix_hashes computed es.
Proof. exact hash_settles. Qed.
Print Assumptions C16_hash_settles.

(* instance of the composition theorem: header fixer and trimmer on one file *)
Theorem C16_text_file_settles : forall (prefix : str) (ls : list str),
  text_pass prefix (text_pass prefix ls) = text_pass prefix ls
  /\ fix_header prefix (text_pass prefix ls) = text_pass prefix ls
  /\ trim_file (text_pass prefix ls) = text_pass prefix ls.
Proof. exact text_file_settles. Qed.
Print Assumptions C16_text_file_settles.

(* on the mode machine of C04, for ALL lists of checks: if --autofix marks no
   line as modified (nothing is written: a fixed point), then --show-autofix
   logs no action and the default run does not advertise automatic fixing *)
Theorem C16_fixed_point_quiet : forall only ls (cs : list check),
  Forall fresh ls ->
  existsb l_modified (s_lines (run Autofix only ls cs)) = false ->
  actions (run ShowAutofix only ls cs) = []
  /\ (s_panic (run ShowAutofix only ls cs) = false -> autofix_available (run Default only ls cs) = false).
Proof. exact fixed_point_quiet. Qed.
Print Assumptions C16_fixed_point_quiet.

(* ---------- round 4: more fixers (Model/Settle.v, second half) ---------- *)

(* Lines.CheckCvsID with the arguments of each kind of call site (distinfo/patch: no
   prefix; makefiles: #[\t ]+ / "# "; PLIST: "@comment "): never panics on a file with
   a line, and what it produces it leaves alone *)
Theorem C16_cvsid_kinds_total : forall (k : idkind) (ls : list str), ls <> [] -> check_cvsid k ls <> None.
Proof. exact check_cvsid_total. Qed.
Print Assumptions C16_cvsid_kinds_total.
Theorem C16_cvsid_kinds_settle : forall (k : idkind) (ls ls' : list str),
  check_cvsid k ls = Some ls' -> check_cvsid k ls' = Some ls'.
Proof. exact check_cvsid_settles. Qed.
Print Assumptions C16_cvsid_kinds_settle.

(* CheckLinesPlist (CVS id, empty-line deletion, ${PKGMANDIR}, manual-page .gz, @unexec rmdir): for
   every PLIST with at least one line the pass neither panics nor runs out of fuel *)
Theorem C16_plist_pass_total : forall ls : list str, ls <> [] -> exists o, plist_pass ls = POk o.
Proof. exact plist_pass_total. Qed.
Print Assumptions C16_plist_pass_total.

(* for ALL PLISTs: every line for which the ".gz extension is unnecessary" fix is offered
   is fixed by the one pass, wherever it stands and whatever else the file contains
   (no per-file state: the pass distributes over ++) *)
Theorem C16_gz_all_fixed_in_one_pass : forall (a : list str) (l : str) (b : list str),
  gz_offered l = true ->
  exists a' b', plist_lines_fix a = Some a' /\ plist_lines_fix b = Some b' /\
                plist_lines_fix (a ++ l :: b) = Some (a' ++ drop_last3 l :: b').
Proof. exact gz_all_fixed_in_one_pass. Qed.
Print Assumptions C16_gz_all_fixed_in_one_pass.

(* "one pass of the PLIST fixers reaches the fixed point" is FALSE of the faithful model:
   man/man1/a.1.gz.gz loses one .gz per pass, and ${PKGMANDIR}/man1/a.1.gz becomes
   man/man1/a.1.gz in the first pass (checkPath goes on with the old path) and
   man/man1/a.1 in the second *)
Theorem C16_plist_one_pass_refuted : ~ plist_one_pass_full.
Proof. exact plist_one_pass_refuted. Qed.
Print Assumptions C16_plist_one_pass_refuted.
(* it holds for every PLIST in which each line, once fixed, is left alone (a decidable
   condition on single lines; the two witnesses above violate exactly it) *)
Theorem C16_plist_settles_partial : forall ls o : list str,
  forallb line_settles ls = true -> plist_pass ls = POk o -> plist_pass o = POk o.
Proof. exact plist_settles_partial. Qed.
Print Assumptions C16_plist_settles_partial.
Theorem C16_plist_guard_needed :
  forallb line_settles plist_stacked_gz = false /\ forallb line_settles plist_pkgmandir_gz = false.
Proof. exact plist_guard_needed. Qed.
Print Assumptions C16_plist_guard_needed.

(* for ALL PLISTs: the first pass establishes the CVS id, and from then on every pass either
   leaves the file alone or makes it strictly smaller (bytes + lines): repeated passes reach
   the fixed point, after at most plist_measure passes *)
Theorem C16_plist_pass_header : forall ls o : list str, plist_pass ls = POk o ->
  exists l0 r, o = l0 :: r /\ is_cvsid_k IdPlist l0 = true.
Proof. exact plist_pass_header. Qed.
Print Assumptions C16_plist_pass_header.
Theorem C16_plist_pass_shrinks : forall (l0 : str) (r o : list str),
  is_cvsid_k IdPlist l0 = true -> plist_pass (l0 :: r) = POk o ->
  o = l0 :: r \/ (plist_measure o < plist_measure (l0 :: r))%nat.
Proof. exact plist_pass_shrinks. Qed.
Print Assumptions C16_plist_pass_shrinks.

(* MkLines.CheckUsedBy with SplitToParagraphs, for ALL files (first paragraphs with code,
   "#" separators, several used-by paragraphs, conflicts ...) and all names without
   white-space: what the fix produces is left alone by the check *)
Theorem C16_used_by_settles : forall (name : str) (ls ls' : list str), name_ok name ->
  used_by name ls = Some ls' -> used_by name ls' = Some ls'.
Proof. exact used_by_settles. Qed.
Print Assumptions C16_used_by_settles.
Theorem C16_used_by_inserts : forall (name : str) (ls ls' : list str),
  used_by name ls = Some ls' -> ls' = ls \/ In (used_by_prefix ++ name) ls'.
Proof. exact used_by_inserts. Qed.
Print Assumptions C16_used_by_inserts.

(* ---------- round 5: settling over the RE-LOADED file ----------
   load_file splits the bytes at "\n" (a "\r" stays in Line.Text), save_file writes the lines
   back, every inserted line with "\n" as autofix.go does.  For ALL byte strings on disk -- LF,
   CR LF, mixed, unterminated last line --: fix, save, load again: the check leaves the file alone *)
Theorem C16_load_save : forall (ls : list str) (t : bool), forallb nl_free ls = true -> saveable ls t ->
  load_file (save_file ls t) = (ls, match ls with [] => true | _ => t end).
Proof. exact load_save. Qed.
Print Assumptions C16_load_save.
Theorem C16_load_saveable : forall (bs : str) (ls : list str) (t : bool), load_file bs = (ls, t) ->
  forallb nl_free ls = true /\ saveable ls t.
Proof. exact load_nl_free. Qed.
Print Assumptions C16_load_saveable.
Theorem C16_cvsid_settles_after_reload : forall (k : idkind) (bs : str) (ls : list str) (t : bool) (ls' : list str) (t' : bool),
  load_file bs = (ls, t) -> check_cvsid k ls = Some ls' -> saveable ls' t' ->
  check_cvsid k (fst (load_file (save_file ls' t'))) = Some (fst (load_file (save_file ls' t'))).
Proof. exact cvsid_settles_after_reload. Qed.
Print Assumptions C16_cvsid_settles_after_reload.
Theorem C16_used_by_settles_after_reload : forall (name bs : str) (ls : list str) (t : bool) (ls' : list str) (t' : bool),
  name_ok name -> nl_free name = true ->
  load_file bs = (ls, t) -> used_by name ls = Some ls' -> saveable ls' t' ->
  used_by name (fst (load_file (save_file ls' t'))) = Some (fst (load_file (save_file ls' t'))).
Proof. exact used_by_settles_after_reload. Qed.
Print Assumptions C16_used_by_settles_after_reload.
(* a CR LF file: the texts end in "\r"; the inserted id does not, and is recognised again *)
Example C16_crlf_example :
  load_file [36;78;101;116;66;83;68;36;13;10;120;13;10] = ([[36;78;101;116;66;83;68;36;13]; [120;13]], true)
  /\ check_cvsid IdPlain [[36;78;101;116;66;83;68;36;13]; [120;13]]
     = Some [[36;78;101;116;66;83;68;36]; [36;78;101;116;66;83;68;36;13]; [120;13]].
Proof. split; vm_compute; reflexivity. Qed.

(* non-vacuity *)
Example C16_line_settles_examples :
  line_settles [109;97;110;47;109;97;110;49;47;97;46;49;46;103;122] = true                       (* man/man1/a.1.gz *)
  /\ line_settles [36;123;80;76;73;83;84;46;120;125;109;97;110;47;99;97;116;49;47;97;46;48;46;103;122] = true   (* ${PLIST.x}man/cat1/a.0.gz *)
  /\ gz_offered [109;97;110;47;109;97;110;49;47;97;46;49;46;103;122] = true.
Proof. repeat split; vm_compute; reflexivity. Qed.
Example C16_unexec_rmdir_example :
  plist_line_fix [64;117;110;101;120;101;99;32;114;109;100;105;114;32;37;68;47;115;104;97;114;101;47;120] = LDelete                 (* @unexec rmdir %D/share/x *)
  /\ plist_line_fix [64;117;110;101;120;101;99;32;36;123;82;77;68;73;82;125;32;37;68;47;121;32;124;124;32;36;123;84;82;85;69;125] = LKeep [64;117;110;101;120;101;99;32;36;123;82;77;68;73;82;125;32;37;68;47;121;32;124;124;32;36;123;84;82;85;69;125].
Proof. split; vm_compute; reflexivity. Qed.
Example C16_name_ok_example : name_ok [99;97;116;47;112;47;77;97;107;101;102;105;108;101].      (* cat/p/Makefile *)
Proof. split; [discriminate|vm_compute; reflexivity]. Qed.
(* a Makefile.common of three empty lines has no paragraph: left alone *)
Example C16_used_by_no_paragraph_example : used_by [120] only_separators = Some only_separators.
Proof. exact used_by_no_paragraph_example. Qed.
(* a name with a blank is never recognised again: name_ok is needed *)
Example C16_used_by_name_guard_needed :
  exists ls', used_by [97;32;98] [[35;32;120];[];[120;61;121]] = Some ls' /\ used_by [97;32;98] ls' <> Some ls'.
Proof. exact used_by_name_guard_needed. Qed.

Example C16_header_example :
  fix_header [] [[120]] = [cvsid_line []; []; [120]] /\ header_ok [] (fix_header [] [[120]]) = true.
Proof. split; vm_compute; reflexivity. Qed.
Example C16_trim_example : trim_file [[97;32;9]; [32]; []] = [[97]; []; []].
Proof. vm_compute. reflexivity. Qed.
