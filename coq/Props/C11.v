(* C11 -- Valid POSIX shell command lines are never reported as unparseable.
   Only statements; every proof is `exact <lemma>`. *)
From Coq Require Import ZArith List Bool.
From PV Require Import Lib.Bytes Gen.ShellGrammar Gen.ShellTables Model.ShellLex Model.ShellLR
  Spec.PosixSh Spec.Derivation Proofs.ShellGrammar Proofs.ShellLR.
Import ListNotations.

(* The regenerated tables belong to the regenerated grammar: for every production,
   shyyR1 holds its left-hand side and shyyR2 the length of its right-hand side. *)
Theorem C11_tables_shape :
  shyyR1 = 0%Z :: map (fun p => nt_number (fst p)) productions /\
  shyyR2 = 0%Z :: map (fun p => Z.of_nat (length (snd p))) productions.
Proof. exact tables_shape. Qed.
Print Assumptions C11_tables_shape.

(* No state shifts `error`: a syntax error makes shyyParse return 1 (no recovery). *)
Theorem C11_no_error_recovery : existsb (Z.eqb shyyErrCode) shyyChk = false.
Proof. exact no_error_shift. Qed.
Print Assumptions C11_no_error_recovery.

(* The generated relation `derives` (one constructor per production of shell.y)
   is derivability over the generated production list. *)
Theorem C11_derives_is_grammar : forall n w, derives n w <-> gderives (NT n) w.
Proof. exact derives_iff_gderives. Qed.
Print Assumptions C11_derives_is_grammar.

(* Whenever the table-driven parser accepts and its shift/reduce trace passes the
   (table-independent) check, the terminal string is derivable in shell.y.  The
   check is run by bin/check on every program it generates. *)
Theorem C11_certified_accept_is_derivation : forall ts,
  lr_accepts_certified ts = true -> derives start_symbol ts.
Proof. exact lr_accepts_certified_sound. Qed.
Print Assumptions C11_certified_accept_is_derivation.
