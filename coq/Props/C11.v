(* C11 -- Valid POSIX shell command lines are never reported as unparseable.
   Only statements; every proof is `exact <lemma>`.

   Reading guide.  A program is a tree of Spec/PosixSh.v; [tokens p] is its text
   (token by token), [terms p] the terminal string of shell.y it is meant to be.
   [shell_lex] is the model of ShellLexer.Lex, [derives] the grammar of shell.y
   (one constructor per production, regenerated from /repo), [lr_accepts] the
   goyacc driver over the regenerated tables of shellyacc.go.
   The tables are tied to the grammar per program by bin/check (both directions
   are run), not by a theorem: see docs/C11.md. *)
From Coq Require Import ZArith List Bool.
From PV Require Import Lib.Bytes Gen.ShellGrammar Gen.ShellTables Model.ShellLex Model.ShellLR
  Spec.PosixSh Spec.Derivation Proofs.ShellGrammar Proofs.ShellLR Proofs.ShellLexTotal
  Proofs.PosixGrammar Proofs.PosixAccepted Proofs.PosixWitness.
Import ListNotations.

(* ---- the full statement ---- *)

(* For every tree that is the POSIX reading of its own text (faithful: a list
   before a closing reserved word ends in a separator or in a compound command
   without redirections -- a property of the specification, not of pkglint) and
   whose words are classified by POSIX's rule (wf_words_posix: a reserved word
   is special only as the first word of a command; any word but esac is a case
   pattern): the lexer turns the printed program into exactly the intended
   terminals, and these are a sentence of shell.y.  No size bound, no guard. *)
Definition C11_full : Prop := forall p : program,
  wf_words_posix p = true -> faithful p = true ->
  shell_lex (tokens p) = Lexed (terms p) /\ derives start_symbol (terms p).

Theorem C11_posix_accepted : C11_full.
Proof. exact posix_accepted. Qed.
Print Assumptions C11_posix_accepted.

(* its two halves *)
Theorem C11_lexer_recovers_terms : forall p : program,
  wf_words_posix p = true -> faithful p = true -> shell_lex (tokens p) = Lexed (terms p).
Proof. exact lexer_recovers_terms. Qed.
Print Assumptions C11_lexer_recovers_terms.

Theorem C11_fragment_in_grammar : forall p : program,
  wf_words_posix p = true -> derives start_symbol (terms p).
Proof. exact terms_derivable. Qed.
Print Assumptions C11_fragment_in_grammar.

(* The lexer model never runs out of fuel, on any token list. *)
Theorem C11_lexer_total : forall ts : list tok, shell_lex ts <> LexedOutOfFuel.
Proof. exact shell_lex_total. Qed.
Print Assumptions C11_lexer_total.

(* On tokens the real tokenizer can re-tokenize (no WkNil) it does not panic either:
   ShellLexer.Lex always hands a terminal string to the parser. *)
Theorem C11_lexer_defined : forall ts : list tok,
  (forall t, In t ts -> t_kind t <> WkNil) -> exists out, shell_lex ts = Lexed out.
Proof. exact shell_lex_defined. Qed.
Print Assumptions C11_lexer_defined.

(* The seven counterexamples this check found on the pinned tree (for i ; do ... ; V=$$x fi ;
   a reserved word or an assignment-shaped word as a later case pattern ; { case x in esac } ;
   case x in esac | { echo ; } ; case ... ;; esac ; ( { echo ; } ) ; > out echo esac) are repaired
   in /repo: each satisfies the hypotheses and is accepted by lexer model + regenerated
   tables, with a checked derivation. *)
Theorem C11_former_witnesses_accepted :
  forallb (fun p => wf_words_posix p && faithful p && model_accepts p && lr_accepts_certified (terms p))
          former_witnesses = true.
Proof. exact repaired_accepted. Qed.
Print Assumptions C11_former_witnesses_accepted.

(* ---- grammar and tables ---- *)

(* The generated relation `derives` is derivability over the generated production list. *)
Theorem C11_derives_is_grammar : forall n w, derives n w <-> gderives (NT n) w.
Proof. exact derives_iff_gderives. Qed.
Print Assumptions C11_derives_is_grammar.

(* The regenerated tables belong to the regenerated grammar: for every production,
   shyyR1 holds its left-hand side and shyyR2 the length of its right-hand side. *)
Theorem C11_tables_shape :
  shyyR1 = 0%Z :: map (fun p => nt_number (fst p)) productions /\
  shyyR2 = 0%Z :: map (fun p => Z.of_nat (length (snd p))) productions.
Proof. exact tables_shape. Qed.
Print Assumptions C11_tables_shape.

(* No state shifts `error`: a syntax error makes shyyParse return 1 (no recovery). *)
Theorem C11_no_error_recovery : existsb (Z.eqb shyyErrCode) shyyChk = false.
Proof. exact no_error_shift. Qed.
Print Assumptions C11_no_error_recovery.

(* Whenever the table-driven parser accepts and its shift/reduce trace passes the
   (table-independent) check, the terminal string is derivable in shell.y.
   bin/check runs the check on every program it generates. *)
Theorem C11_certified_accept_is_derivation : forall ts,
  lr_accepts_certified ts = true -> derives start_symbol ts.
Proof. exact lr_accepts_certified_sound. Qed.
Print Assumptions C11_certified_accept_is_derivation.

(* ---- the hypotheses are satisfiable: a 58-token program with if, for-in, case with
   and without `(`, with and without `;;`, function definition, subshell, `!`, `&`,
   pipeline, &&, redirections with io-number, while; `esac` and `in` as arguments ---- *)
Example C11_witness_in_fragment :
  wf_words ex_program = true /\ supported ex_program = true /\ faithful ex_program = true /\
  length (tokens ex_program) = 58%nat /\ model_accepts ex_program = true /\
  lr_accepts_certified (terms ex_program) = true.
Proof. exact ex_program_ok. Qed.
