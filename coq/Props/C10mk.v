(* C10 (make half) -- placeholder while the proofs are being written *)
From PV Require Import Lib.Bytes Model.MkLexPrim Model.MkLexer.
Open Scope N_scope.
Example C10mk_smoke : MkTokens [36; 123; 65; 125; 120] = Ok ([([36; 123; 65; 125], true); ([120], false)], []).
Proof. vm_compute. reflexivity. Qed.
Print Assumptions C10mk_smoke.
