(* C10 (make half) -- the make tokenizers partition their input and always make
   progress.  Only statements; every proof is `exact <lemma>`.
   Strings are lists of bytes (N); every theorem is for ALL byte strings.
   Result of a modelled Go function: Ok v | OutOfFuel (the model's fuel did not
   suffice) | Panic (the Go code panics: index/slice out of range, failed assert). *)
From PV Require Import Lib.Bytes Model.MkLexPrim Model.MkLexer Model.MkTokensLexer Model.MkLineSplit
  Model.VaralignSplit Spec.MkPartition Proofs.MkLexPrim Proofs.MkLexer Proofs.MkLineSplit Proofs.VaralignSplit Proofs.Varassign Proofs.VarassignFull.
From PV Require Import Model.MatchVarassign Proofs.MatchVarassign.
From PV Require Model.Lines.
Open Scope N_scope.

(* ---------- mklexer.go ---------- *)

(* MkLexer.Expr returns nil and leaves the lexer where it was, or returns an
   expression and has chopped off a non-empty prefix: s = c ++ r with c <> [].
   This covers the whole mutually recursive block (exprBrace, Varname, exprText,
   ExprModifiers and every modifier parser, parseModifierPart, exprAlnum). *)
Theorem C10mk_expr_advance : forall s : str,
  Expr s = Ok None \/ exists r, Expr s = Ok (Some r) /\ chops s r.
Proof. exact expr_advance. Qed.
Print Assumptions C10mk_expr_advance.

(* ... in particular the fuel |s|+1 (nesting depth) and the per-loop fuels
   suffice and no Go panic site is reached *)
Theorem C10mk_expr_total : forall s : str, Expr s <> OutOfFuel /\ Expr s <> Panic.
Proof. exact expr_total. Qed.
Print Assumptions C10mk_expr_total.

(* MkLexer.MkTokens: the token texts, in order, followed by Rest() are the input,
   and no token text is empty; MkTokens is total *)
Theorem C10mk_mktokens_partition : forall s : str,
  exists toks rest, MkTokens s = Ok (toks, rest) /\ partitions toks rest s.
Proof. exact mktokens_partition. Qed.
Print Assumptions C10mk_mktokens_partition.

(* staging: the same for ANY expression parser E that satisfies the advance
   contract on texts of at most n bytes (this is what the layers above Expr need) *)
Theorem C10mk_mktokens_partition_under_contract : forall (E : exprfn) (n : nat),
  step_ok E n ->
  forall fuel s, (length s <= n)%nat -> (length s < fuel)%nat ->
  exists toks rest, mk_tokens_loop E fuel s = Ok (toks, rest) /\ partitions toks rest s.
Proof. exact mk_tokens_loop_ok. Qed.
Print Assumptions C10mk_mktokens_partition_under_contract.

(* MkLexer.Varname: the variable name followed by Rest() is the input *)
Theorem C10mk_varname_partition : forall s : str,
  exists v r, Varname s = Ok (v, r) /\ v ++ r = s.
Proof. exact varname_partition. Qed.
Print Assumptions C10mk_varname_partition.

(* ---------- mklineparser.go ---------- *)

(* MkLineParser.tokenize: the token texts are the text, none is empty, nothing is
   left over; the assert in tokenize cannot fail *)
Theorem C10mk_tokenize_partition : forall s : str,
  exists toks, tokenize s = Ok toks /\ partitions toks [] s.
Proof. exact tokenize_partition. Qed.
Print Assumptions C10mk_tokenize_partition.

(* unescapeComment: the comment is a suffix of the text, empty or starting with '#';
   the main part is the text before it with "\#" unescaped *)
Theorem C10mk_unescape_comment_exact : forall s main comment : str,
  unescape_comment s = Ok (main, comment) ->
  exists pre, s = pre ++ comment /\ main = unescape_hash pre /\
              (comment = [] \/ exists t, comment = 35 :: t).
Proof. exact unescape_comment_exact. Qed.
Print Assumptions C10mk_unescape_comment_exact.

(* unescapeComment is total on texts without a newline (a Line.Text never contains
   one); with a newline the Go code asserts: see C10mk_unescape_comment_newline *)
Theorem C10mk_unescape_comment_total : forall s : str,
  ~ In 10 s -> exists main comment, unescape_comment s = Ok (main, comment).
Proof. exact unescape_comment_total. Qed.
Print Assumptions C10mk_unescape_comment_total.

Theorem C10mk_unescape_comment_fuel : forall s : str, unescape_comment s <> OutOfFuel.
Proof. exact unescape_comment_fuel. Qed.
Print Assumptions C10mk_unescape_comment_fuel.

(* the guard is needed *)
Example C10mk_unescape_comment_newline : unescape_comment [97; 10; 98] = Panic.
Proof. vm_compute. reflexivity. Qed.

(* the three rules in the documentation of unescapeComment, pinned:
   "\#" is an escaped '#';  after an even number of backslashes the '#' starts the
   comment;  "[#" does not start a comment *)
Example C10mk_comment_rules :
  unescape_comment [97; 92; 35; 98] = Ok ([97; 35; 98], []) /\
  unescape_comment [97; 92; 92; 35; 98] = Ok ([97; 92; 92], [35; 98]) /\
  unescape_comment [91; 35; 93; 32; 35; 99] = Ok ([91; 35; 93; 32], [35; 99]).
Proof. vm_compute. repeat split; reflexivity. Qed.

(* split: main ++ spaceBeforeComment is the (unescaped) text before the comment,
   the space consists of blanks, main has no trailing blank, and the comment with
   its '#' ends the text *)
Theorem C10mk_split_recombines : forall (text : str) (trim : bool) (r : split_result),
  split text trim = Ok r ->
  exists pre, text = pre ++ comment_tail r /\
    (if trim then unescape_hash pre else pre) = sr_main r ++ sr_space_before_comment r /\
    forallb is_hspace (sr_space_before_comment r) = true /\
    rtrim_hspace (sr_main r ++ sr_space_before_comment r) = sr_main r /\
    (sr_has_comment r = false -> sr_comment r = []).
Proof. exact split_recombines. Qed.
Print Assumptions C10mk_split_recombines.

(* split is total on texts without newline that do not start with a tab (the
   assert at its start) *)
Theorem C10mk_split_total : forall (text : str) (trim : bool),
  ~ In 10 text -> peek_is text 9 = false -> exists r, split text trim = Ok r.
Proof. exact split_total. Qed.
Print Assumptions C10mk_split_total.

(* ---------- mktokenslexer.go ---------- *)

(* Rest() of a fresh MkTokensLexer is the concatenation of the token texts;
   NextExpr chops exactly the text of the returned token off Rest();
   SkipMixed leaves a suffix of Rest() *)
Theorem C10mk_tokenslexer_rest : forall toks : list token,
  tl_rest (tl_new toks) = concat (map fst toks).
Proof. exact tl_rest_new. Qed.
Print Assumptions C10mk_tokenslexer_rest.

Theorem C10mk_tokenslexer_next_expr : forall (m : tlexer) (t : token) (m' : tlexer),
  tl_next_expr m = Some (t, m') -> snd t = true /\ tl_rest m = fst t ++ tl_rest m'.
Proof. exact tl_next_expr_rest. Qed.
Print Assumptions C10mk_tokenslexer_next_expr.

Theorem C10mk_tokenslexer_skip_mixed : forall fuel k (m m' : tlexer),
  tl_skip_mixed fuel k m = Ok m' -> is_suffix (tl_rest m') (tl_rest m).
Proof. exact tl_skip_mixed_suffix. Qed.
Print Assumptions C10mk_tokenslexer_skip_mixed.

(* ---------- varalignblock.go ---------- *)

(* VaralignSplitter.split: varalignParts.String() is the raw text *)
Theorem C10mk_varalign_recombines : forall (raw : str) (initial : bool) (p : varalign_parts),
  varalign_split raw initial = Ok p -> parts_string p = raw.
Proof. exact varalign_recombines. Qed.
Print Assumptions C10mk_varalign_recombines.

(* only the last backslash of a raw line is the continuation marker (/repo e9b7350):
   `=\\\`  has the value `\\` and the continuation `\` *)
Example C10mk_varalign_continuation :
  exists p, varalign_split [61; 92; 92; 92] true = Ok p /\
            vp_value p = [92; 92] /\ vp_space_after_value p = [] /\ vp_continuation p = [92].
Proof. vm_compute. eexists; repeat split; reflexivity. Qed.

Theorem C10mk_varalign_fuel : forall (raw : str) (initial : bool),
  varalign_split raw initial <> OutOfFuel.
Proof. exact varalign_fuel. Qed.
Print Assumptions C10mk_varalign_fuel.

(* a follow-up line is always split; an initial line is split unless no
   assignment operator follows the variable name (assert(ok) in parseVarnameOp) *)
Theorem C10mk_varalign_follow_total : forall raw : str,
  ~ In 10 raw -> exists p, varalign_split raw false = Ok p.
Proof. exact varalign_follow_total. Qed.
Print Assumptions C10mk_varalign_follow_total.

Theorem C10mk_varalign_initial_total : forall raw : str, ~ In 10 raw ->
  (exists p, varalign_split raw true = Ok p) \/
  (varalign_split raw true = Panic /\
   parse_varname_op true (snd (parse_leading_comment true raw)) = Panic).
Proof. exact varalign_initial_total. Qed.
Print Assumptions C10mk_varalign_initial_total.

(* ---------- a variable assignment's alignment prefix, value and comment ---------- *)

(* The full law: whenever matchVarassign accepts a (single raw) line without newline,
   VaralignSplitter.split succeeds on it, and the alignment prefix MkLine.ValueAlign()
   = leadingComment + varnameOp + spaceBeforeValue, the value (re-escaped: mid with
   unescape_hash mid = value), the space before the comment and the comment (with its
   '#') recombine to the line.  In particular MkLine.ValueAlign() cannot panic.
   (False before VaralignSplitter.parseVarnameOp parsed the same text as matchVarassign:
   `$\#=`, `${A:S,a,b}=v # ,}`.) *)
Theorem C10mk_varassign_recombines : forall (text : str) (a : varassign),
  ~ In 10 text -> parse_varassign text = Ok (Some a) ->
  exists (p : varalign_parts) (mid : str),
    varalign_split text true = Ok p /\
    text = (vp_leading_comment p ++ vp_varname_op p ++ vp_space_before_value p) ++ mid ++
           sr_space_before_comment (va_split a) ++ comment_tail (va_split a) /\
    unescape_hash mid = va_value a.
Proof. exact varassign_recombines. Qed.
Print Assumptions C10mk_varassign_recombines.

(* the guard is needed only for texts that are no Line.Text: a newline inside the comment *)
Example C10mk_varassign_newline_in_comment :
  (exists a, parse_varassign [65; 61; 118; 32; 35; 10] = Ok (Some a)) /\
  varalign_split [65; 61; 118; 32; 35; 10] true = Panic.
Proof. split; [vm_compute; eexists; reflexivity|vm_compute; reflexivity]. Qed.

(* the former witnesses *)
Example C10mk_varassign_former_witnesses :
  (exists p, varalign_split [36; 92; 35; 61] true = Ok p /\ vp_varname_op p = [36; 92; 35; 61]) /\
  (exists p, varalign_split [36; 123; 65; 58; 83; 44; 97; 44; 98; 125; 61; 118; 32; 35; 32; 44; 125] true = Ok p /\
             vp_varname_op p = [36; 123; 65; 58; 83; 44; 97; 44; 98; 125; 61] /\ vp_value p = [118; 32; 35; 32; 44; 125]).
Proof. split; vm_compute; eexists; repeat split; reflexivity. Qed.

(* What does hold for EVERY line that matchVarassign accepts (the part of the law
   that involves matchVarassign's own pieces): the line is [#] ++ pre ++ comment
   ("#" only for a commented assignment, comment with its leading '#'), and the
   unescaped pre is head ++ value ++ blanks, where head ++ value is the main part of
   the split result and the blanks are spaceBeforeComment (which matchVarassign
   moves into the alignment when the value is empty). *)
Theorem C10mk_varassign_value_comment_recombine : forall (text : str) (a : varassign),
  parse_varassign text = Ok (Some a) ->
  exists head pre sp,
    text = (if va_commented a then [35] else []) ++ pre ++ comment_tail (va_split a) /\
    unescape_hash pre = head ++ va_value a ++ sp /\
    sr_main (va_split a) = head ++ va_value a /\
    forallb is_hspace sp = true /\
    (va_value a <> [] -> sp = sr_space_before_comment (va_split a)).
Proof. exact varassign_value_comment_recombine. Qed.
Print Assumptions C10mk_varassign_value_comment_recombine.

(* the fuel of the matchVarassign model always suffices *)
Theorem C10mk_varassign_fuel : forall text : str, parse_varassign text <> OutOfFuel.
Proof. exact varassign_fuel. Qed.
Print Assumptions C10mk_varassign_fuel.

(* ------------------------------------------------------------------------------------------
   matchVarassign on logical lines made of SEVERAL raw lines (Model/MatchVarassign.v):
   raw0 = line.raw[0].Orig(), text = line.Text, multiline = line.IsMultiline().
   All statements are for ALL raw0 / text, hence for every line convertToLogicalLines builds. *)

(* a logical line of one raw line: literally the model the theorems above are about *)
Theorem C10mk_varassign_ml_single : forall text : str,
  parse_varassign_ml false text text = parse_varassign text.
Proof. exact ml_single. Qed.
Print Assumptions C10mk_varassign_ml_single.

(* the guard (/repo 96b19dc): an accepted multi-line assignment has its operator in the first raw
   line - the raw text of the logical line up to and including the operator is no longer than the
   first physical line without its continuation backslash and trailing blanks *)
Theorem C10mk_varassign_ml_guard : forall (raw0 text : str) (a : varassign),
  parse_varassign_ml true raw0 text = Ok (Some a) ->
  exists up_to_op r, text = up_to_op ++ r /\ (length up_to_op <= length (first_line_of raw0))%nat.
Proof. exact varassign_ml_guard. Qed.
Print Assumptions C10mk_varassign_ml_guard.

(* value, space and comment recombine to the LOGICAL text, whatever the raw lines are *)
Theorem C10mk_varassign_ml_value_comment_recombine :
  forall (multiline : bool) (raw0 text : str) (a : varassign),
  parse_varassign_ml multiline raw0 text = Ok (Some a) ->
  exists head pre sp,
    text = (if va_commented a then [35] else []) ++ pre ++ comment_tail (va_split a) /\
    unescape_hash pre = head ++ va_value a ++ sp /\
    sr_main (va_split a) = head ++ va_value a /\
    forallb is_hspace sp = true /\
    (va_value a <> [] -> sp = sr_space_before_comment (va_split a)).
Proof. exact varassign_ml_value_comment_recombine. Qed.
Print Assumptions C10mk_varassign_ml_value_comment_recombine.

(* the alignment prefix of an accepted assignment is a prefix of the FIRST RAW LINE, followed by
   blanks only when the value is empty (the spaceBeforeComment moved into it) *)
Theorem C10mk_varassign_ml_align_prefix :
  forall (multiline : bool) (raw0 text : str) (a : varassign),
  parse_varassign_ml multiline raw0 text = Ok (Some a) ->
  exists al r sp, raw0 = al ++ r /\ va_value_align a = al ++ sp /\ forallb is_hspace sp = true /\
    (va_value a <> [] -> sp = []).
Proof. exact varassign_ml_align_prefix. Qed.
Print Assumptions C10mk_varassign_ml_align_prefix.

(* the same, over the lines of a whole file as C09's convertToLogicalLines builds them *)
Theorem C10mk_varassign_file_lines :
  forall (raw_text : str) (ls : list (Lines.line * res (option varassign))),
  varassign_of_file raw_text = Ok ls ->
  Forall (fun lr : Lines.line * res (option varassign) =>
    forall a, snd lr = Ok (Some a) ->
      va_law (Lines.text (fst lr)) a /\
      (line_multiline (fst lr) = true ->
       exists up_to_op r, Lines.text (fst lr) = up_to_op ++ r /\
         (length up_to_op <= length (first_line_of (line_raw0 (fst lr))))%nat)) ls.
Proof. exact varassign_of_file_lines. Qed.
Print Assumptions C10mk_varassign_file_lines.

(* No panic on logical lines of several raw lines (since /repo 96b19dc).
   The shape of a line: one raw line = the text; several: F = the first physical line without its
   continuation backslash and trailing blanks starts both the raw line and the logical text. *)
Theorem C10mk_varassign_ml_no_panic_line : forall (multiline : bool) (raw0 text : str) (r : option varassign),
  (if multiline then exists x y, text = first_line_of raw0 ++ x /\ raw0 = first_line_of raw0 ++ y
   else raw0 = text) ->
  parse_varassign text = Ok r -> parse_varassign_ml multiline raw0 text <> Panic.
Proof. exact varassign_ml_no_panic. Qed.
Print Assumptions C10mk_varassign_ml_no_panic_line.

(* FULL statement over files: for every line convertToLogicalLines builds, matchVarassign does not
   panic unless parsing the logical text alone does.  Not refuted any more (the former witness is an
   Example below); proved below with the shape of the line as a hypothesis - that
   convertToLogicalLines gives every line this shape is corresponded on every run
   (C10/correspondence/varassign-ml-line-shape), not yet derived from C09's theorems. *)
Definition C10mk_varassign_ml_no_panic_full : Prop := ml_no_panic_full.

Theorem C10mk_varassign_ml_no_panic_partial :
  forall (raw_text : str) (ls : list (Lines.line * res (option varassign))),
  varassign_of_file raw_text = Ok ls ->
  Forall (fun lr : Lines.line * res (option varassign) =>
    ml_shape (line_multiline (fst lr)) (line_raw0 (fst lr)) (Lines.text (fst lr)) ->
    (exists r, parse_varassign (Lines.text (fst lr)) = Ok r) -> snd lr <> Panic) ls.
Proof. exact ml_no_panic_lines. Qed.
Print Assumptions C10mk_varassign_ml_no_panic_partial.

(* the former witness of the panic: VAR.${PARAM:S,=,,}\ / = value is no assignment *)
Example C10mk_varassign_ml_witness :
  varassign_of_file ml_witness_file =
    Ok [(Lines.mk_line 1 ml_witness_text [ml_witness_raw0 ++ [10]; [61;32;118;97;108;117;101;10]], Ok None)].
Proof. exact ml_witness_lines. Qed.
