(* C13 -- make glob patterns match like bmake; intersection and emptiness are exact.
   Only statements; every proof is `exact <lemma>`. *)
From PV Require Import Lib.Bytes Gen.NumberAutomaton Model.Makepat Spec.StrMatch Spec.CNumber
  Proofs.MakepatRefute.
Open Scope N_scope.

Definition C13_match_is_strmatch_full : Prop :=
  forall (p : str) (a : pattern) (s : str),
    compile p = Ok (Some a) -> res_to_option (matchp a s) = str_match p s.

Theorem C13_match_is_strmatch_refuted : ~ C13_match_is_strmatch_full.
Proof. exact match_is_strmatch_refuted. Qed.
Print Assumptions C13_match_is_strmatch_refuted.
