(* C13 -- make glob patterns match like bmake; intersection and emptiness are exact.
   Only statements; every proof is `exact <lemma>`.
   Model: Model/Makepat.v (pat.go, mayMatchNumber).  Specifications: Spec/StrMatch.v
   (bmake's Str_Match, `malformed`), Spec/CNumber.v (C99 number grammar). *)
From PV Require Import Lib.Bytes Lib.ByteRange Gen.NumberAutomaton Model.Makepat Spec.StrMatch Spec.CNumber
  Proofs.MakepatRefute Proofs.MakepatMalformed Proofs.MakepatStrMatch Proofs.CNumberRe Proofs.NumberExact
  Proofs.MakepatNFA Proofs.MakepatReach Proofs.MakepatIntersect3 Proofs.MakepatMayMatch Proofs.MakepatChainRanges.
Open Scope N_scope.

(* ---------- Compile ---------- *)

(* Compile never panics and never runs out of fuel, for any pattern *)
Theorem C13_compile_total : forall pat : str, exists r, compile pat = Ok r.
Proof. exact compile_total. Qed.
Print Assumptions C13_compile_total.

(* Compile returns an error exactly for the malformed patterns (unfinished
   escape sequence / character list / character range), for any pattern *)
Theorem C13_compile_fails_iff_malformed : forall pat : str,
  compile pat = Ok None <-> malformed pat = true.
Proof. exact compile_fails_iff_malformed. Qed.
Print Assumptions C13_compile_fails_iff_malformed.

(* ---------- Match against bmake's Str_Match ---------- *)

(* the full statement: false of the faithful model *)
Definition C13_match_is_strmatch_full : Prop :=
  forall (p : str) (a : pattern) (s : str),
    compile p = Ok (Some a) -> res_to_option (matchp a s) = str_match p s.

(* witness: the pattern [a-]] and the word a (Match: true, Str_Match: false) *)
Theorem C13_match_is_strmatch_refuted : ~ C13_match_is_strmatch_full.
Proof. exact match_is_strmatch_refuted. Qed.
Print Assumptions C13_match_is_strmatch_refuted.

(* the guarded statement, for all patterns and all strings:
   - the string consists of bytes,
   - no non-negated character list of the pattern contains a range ending in ']'.
   Then Match neither panics nor runs out of fuel, Str_Match does not run out
   of fuel, and both give the same answer. *)
Theorem C13_match_is_strmatch_partial : forall (p : str) (a : pattern) (s : str),
  is_bytes s -> range_to_rbracket p = false ->
  compile p = Ok (Some a) ->
  exists b, matchp a s = Ok b /\ str_match p s = Some b.
Proof. exact match_is_strmatch_partial. Qed.
Print Assumptions C13_match_is_strmatch_partial.

(* ---------- Intersect, reachable, CanMatch: for all well-formed automata ---------- *)

(* wf a        (Proofs/MakepatNFA.v):   a has at least one state and every transition
                                        leads to an existing state;
   ranges_ok a (Proofs/MakepatReach.v): every transition has min <= max <= 255.
   Both hold of every compiled pattern (the next two theorems), of Number(), and
   are preserved by Intersect (C13_intersect_exact). *)
Theorem C13_compile_wf : forall (p : str) (a : pattern),
  compile p = Ok (Some a) -> wf a.
Proof. exact compile_wf. Qed.
Print Assumptions C13_compile_wf.

Theorem C13_compile_ranges : forall (p : str) (a : pattern),
  is_bytes p -> compile p = Ok (Some a) -> ranges_ok a.
Proof. exact compile_ranges. Qed.
Print Assumptions C13_compile_ranges.

Theorem C13_number_wf : wf number /\ ranges_ok number.
Proof. exact number_wf_ranges. Qed.
Print Assumptions C13_number_wf.

(* Intersect neither panics nor (it has no fuel) diverges; the result is again
   well-formed; it matches a string iff both arguments do. *)
Theorem C13_intersect_exact : forall a b : pattern,
  wf a -> wf b ->
  exists i, intersect a b = Ok i /\ wf i /\ (ranges_ok a \/ ranges_ok b -> ranges_ok i) /\
    forall s, exists x y, matchp a s = Ok x /\ matchp b s = Ok y /\ matchp i s = Ok (x && y).
Proof. exact intersect_exact_match. Qed.
Print Assumptions C13_intersect_exact.

(* the `goto again` loop of reachable() terminates within its fuel and never
   indexes out of range; the result marks exactly the states that can be
   reached from state 0 *)
Theorem C13_reachable_total : forall a : pattern, wf a ->
  exists rc, reachable a = Ok rc /\ reach_ok a rc.
Proof. exact reachable_total. Qed.
Print Assumptions C13_reachable_total.

(* CanMatch is true exactly when some byte string is matched *)
Theorem C13_can_match_exact : forall a : pattern, wf a -> ranges_ok a ->
  exists b, can_match a = Ok b /\ (b = true <-> exists s, is_bytes s /\ matchp a s = Ok true).
Proof. exact can_match_exact. Qed.
Print Assumptions C13_can_match_exact.

(* ---------- Number() ---------- *)

(* the automaton literal (regenerated from pat.go on every run) accepts exactly
   the C99 constants of Spec/CNumber.v; for every word, byte or not *)
Theorem C13_number_exact : forall s : str, matchp number s = Ok (is_c_number s).
Proof. exact number_exact. Qed.
Print Assumptions C13_number_exact.

(* the recogniser of the spec is the textbook language of the grammar *)
Theorem C13_c_number_is_grammar : forall s : str, is_c_number s = true <-> lang c_number s.
Proof. exact c_number_is_grammar. Qed.
Print Assumptions C13_c_number_is_grammar.

(* ---------- mayMatchNumber ---------- *)

(* for a pattern without the "x-]" quirk: mayMatchNumber never panics; it reports an
   error exactly for malformed patterns; otherwise its answer is true exactly
   when some byte string is matched by the pattern (bmake's Str_Match) and is a
   C99 number *)
Theorem C13_may_match_number_exact : forall p : str,
  range_to_rbracket p = false ->
  exists b e, may_match_number p = Ok (b, e) /\
    (e = true <-> malformed p = true) /\
    (e = false ->
     (b = true <-> exists s, is_bytes s /\ str_match p s = Some true /\ is_c_number s = true)).
Proof. exact may_match_number_exact. Qed.
Print Assumptions C13_may_match_number_exact.

(* what the caller relies on: "false" means no numeric word can be matched *)
Theorem C13_may_match_number_sound : forall p : str,
  range_to_rbracket p = false ->
  may_match_number p = Ok (false, false) ->
  forall s, is_bytes s -> str_match p s = Some true -> is_c_number s = false.
Proof. exact may_match_number_sound. Qed.
Print Assumptions C13_may_match_number_sound.

(* ---------- non-vacuity ---------- *)

Definition ex_pat : str := [42; 46; 91; 99; 104; 93].        (* *.[ch] *)
Definition ex_str : str := [102; 111; 111; 46; 104].         (* foo.h *)
Example C13_witness_match :
  (exists a, compile ex_pat = Ok (Some a) /\ matchp a ex_str = Ok true)
  /\ str_match ex_pat ex_str = Some true /\ range_to_rbracket ex_pat = false
  /\ malformed ex_pat = false /\ is_bytes ex_str.
Proof.
  split; [eexists; split; vm_compute; reflexivity|].
  split; [vm_compute; reflexivity|]. split; [vm_compute; reflexivity|]. split; [vm_compute; reflexivity|].
  apply is_bytesb_spec. vm_compute. reflexivity.
Qed.

Definition ex_bad : str := [97; 91; 98; 45].                 (* a[b- *)
Example C13_witness_malformed : compile ex_bad = Ok None /\ malformed ex_bad = true.
Proof. split; vm_compute; reflexivity. Qed.

Definition ex_num : str := [45; 48; 120; 49; 46; 56; 112; 43; 51].   (* -0x1.8p+3 *)
Example C13_witness_number : matchp number ex_num = Ok true /\ matchp number [48; 120] = Ok false.
Proof. split; vm_compute; reflexivity. Qed.

Definition ex_c : str := [42; 46; 99].    (* *.c *)
Definition ex_h : str := [42; 46; 104].   (* *.h *)
Definition ex_ac : str := [97; 42].       (* a* *)
Example C13_witness_intersect :
  exists a b c i j,
    compile ex_c = Ok (Some a) /\ compile ex_h = Ok (Some b) /\ compile ex_ac = Ok (Some c)
    /\ intersect a b = Ok i /\ can_match i = Ok false
    /\ intersect a c = Ok j /\ can_match j = Ok true /\ matchp j [97; 46; 99] = Ok true.
Proof.
  do 5 eexists. repeat (split; [vm_compute; reflexivity|]). vm_compute. reflexivity.
Qed.

Example C13_witness_may_match_number :
  may_match_number [42] = Ok (true, false)                    (* "*" may be a number *)
  /\ may_match_number [97; 42] = Ok (false, false)             (* "a*" cannot *)
  /\ may_match_number [91; 48; 45; 57; 93; 42] = Ok (true, false)   (* "[0-9]*" may *)
  /\ may_match_number [91] = Ok (true, true).                 (* "[" is malformed *)
Proof. repeat split; vm_compute; reflexivity. Qed.
