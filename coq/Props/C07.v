(* C07 -- the result is a function of tree and arguments.
   A Go map iteration is modelled as an ARBITRARY permutation of the map's
   entries (Model/MapIter.v).  Only statements; every proof is `exact <lemma>`. *)
From Coq Require Import Permutation Sorted.
From PV Require Import Lib.Bytes Model.MapIter Gen.MapRangeAudit Proofs.MapIter Proofs.MapIterAudit.
From PV Require Import Model.CvsEntries Proofs.CvsEntries Gen.EnvReadAudit Proofs.EnvReadAudit Gen.GlobalsAudit Proofs.GlobalsAudit.
Import ListNotations.
Open Scope N_scope.

(* sort.Strings: the result depends on the multiset of keys only *)
Theorem C07_sort_perm : forall l l' : list str, Permutation l l' -> sort_strings l = sort_strings l'.
Proof. exact sort_perm. Qed.
Print Assumptions C07_sort_perm.

(* ... and the model of sort.Strings does sort (bytewise order, same elements) *)
Theorem C07_sort_strings_spec : forall l : list str,
  StronglySorted (fun a b => str_leb a b = true) (sort_strings l) /\ Permutation (sort_strings l) l.
Proof. exact sort_strings_spec. Qed.
Print Assumptions C07_sort_strings_spec.

(* util.go keysSorted / keysJoined *)
Theorem C07_keys_sorted_perm : forall V (m m' : gomap V), Permutation m m' -> keys_sorted m = keys_sorted m'.
Proof. exact @keys_sorted_perm. Qed.
Print Assumptions C07_keys_sorted_perm.

Theorem C07_keys_joined_perm : forall V (m m' : gomap V), Permutation m m' -> keys_joined m = keys_joined m'.
Proof. exact @keys_joined_perm. Qed.
Print Assumptions C07_keys_joined_perm.

(* forEachStringMkLine, Scope.forEach, Scope.varnames, Tools.Trace: the sequence
   of callbacks is the same for every iteration order *)
Theorem C07_for_each_sorted_perm : forall V (m order order' : gomap V),
  Permutation order order' -> for_each_sorted m order = for_each_sorted m order'.
Proof. exact @for_each_sorted_perm. Qed.
Print Assumptions C07_for_each_sorted_perm.

(* collect, then sort.Slice by a key that is injective on the entries (Histogram.PrintStats) *)
Theorem C07_sort_by_perm : forall A K (key : A -> K) (kleb : K -> K -> bool) (l l' : list A),
  (forall x y, kleb x y = true \/ kleb y x = true) ->
  (forall x y z, kleb x y = true -> kleb y z = true -> kleb x z = true) ->
  (forall x y, kleb x y = true -> kleb y x = true -> x = y) ->
  NoDup (map key l) ->
  Permutation l l' -> sort_by key kleb l = sort_by key kleb l'.
Proof. exact @sort_by_perm. Qed.
Print Assumptions C07_sort_by_perm.

(* commutative accumulation *)
Theorem C07_fold_commutative_perm : forall A B (step : B -> A -> B) (l l' : list A),
  (forall b x y, step (step b x) y = step (step b y) x) ->
  Permutation l l' -> forall init, range_fold step init l = range_fold step init l'.
Proof. exact @fold_commutative_perm. Qed.
Print Assumptions C07_fold_commutative_perm.

(* ... where the steps only have to commute for DISTINCT entries of this map
   (writes to distinct keys / distinct objects) *)
Theorem C07_fold_commutative_perm_on : forall A B (step : B -> A -> B) (l l' : list A),
  NoDup l ->
  (forall x y, In x l -> In y l -> x <> y -> forall b, step (step b x) y = step (step b y) x) ->
  Permutation l l' -> forall init, range_fold step init l = range_fold step init l'.
Proof. exact @fold_commutative_perm_on. Qed.
Print Assumptions C07_fold_commutative_perm_on.

(* arg-max accumulation (urlchecker.go CheckFetchURL after its repair): the entry with the
   largest measure among the matching ones, when the measure is injective on them
   (prefixes of one string have pairwise different lengths) *)
Theorem C07_argmax_perm : forall A (p : A -> bool) (m : A -> N) (l l' : list A),
  NoDup l ->
  (forall x y, In x l -> In y l -> p x = true -> p y = true -> m x = m y -> x = y) ->
  Permutation l l' -> range_argmax p m l = range_argmax p m l'.
Proof. exact @argmax_perm. Qed.
Print Assumptions C07_argmax_perm.

(* existence tests, universal tests, lookups, set insertion, map copy *)
Theorem C07_exists_perm : forall A (p : A -> bool) (l l' : list A),
  Permutation l l' -> range_exists p l = range_exists p l'.
Proof. exact @exists_perm. Qed.
Print Assumptions C07_exists_perm.

Theorem C07_forall_perm : forall A (p : A -> bool) (l l' : list A),
  Permutation l l' -> range_forall p l = range_forall p l'.
Proof. exact @forall_perm. Qed.
Print Assumptions C07_forall_perm.

Theorem C07_lookup_perm : forall V (k : str) (m m' : gomap V),
  NoDup (keys m) -> Permutation m m' -> lookup k m = lookup k m'.
Proof. exact @lookup_perm. Qed.
Print Assumptions C07_lookup_perm.

Theorem C07_set_insert_perm : forall A (f : A -> str) (s0 : str -> bool) (l l' : list A),
  Permutation l l' -> forall x, range_set_insert f s0 l x = range_set_insert f s0 l' x.
Proof. exact @set_insert_perm. Qed.
Print Assumptions C07_set_insert_perm.

Theorem C07_range_copy_perm : forall V (c0 : str -> option V) (m m' : gomap V),
  NoDup (keys m) -> Permutation m m' -> forall x, range_copy c0 m x = range_copy c0 m' x.
Proof. exact @range_copy_perm. Qed.
Print Assumptions C07_range_copy_perm.

(* non-vacuity: printing inside an unsorted range IS order dependent *)
Theorem C07_output_order_dependent_refuted :
  ~ (forall (line : str -> str) (l l' : list str), NoDup l -> Permutation l l' -> range_print line l = range_print line l').
Proof. exact output_order_dependent_refuted. Qed.
Print Assumptions C07_output_order_dependent_refuted.

(* the three defects repaired in /repo (37e2b2f, 37d1fd9, 7d8fe86) had the following shapes; the
   statements stay as non-vacuity results: these shapes ARE order dependent.
   urlchecker.go before the repair: "the first matching entry wins" is order dependent ... *)
Theorem C07_first_match_refuted : ~ first_match_full.
Proof. exact first_match_refuted. Qed.
Print Assumptions C07_first_match_refuted.

(* ... and independent exactly under the guard "at most one entry matches" *)
Theorem C07_first_match_partial : forall A (p : A -> bool) (l l' : list A),
  (forall x y, In x l -> In y l -> p x = true -> p y = true -> x = y) ->
  Permutation l l' -> range_first p l = range_first p l'.
Proof. exact @first_match_partial. Qed.
Print Assumptions C07_first_match_partial.

(* changes.go before the repair: sorting by a key with ties keeps the collection order
   (now the key (date, line, file) is injective: C07_sort_by_perm applies) *)
Theorem C07_sort_ties_refuted : ~ sort_ties_full.
Proof. exact sort_ties_refuted. Qed.
Print Assumptions C07_sort_ties_refuted.

(* the static tie: every `range` over a map that gen/c07.go found in /repo is
   covered by the hand-classified audit (class 1..5, none unresolved), and
   none is of class 5 (order dependent and reaching the output) *)
Theorem C07_audit_classified :
  forallb class_known maprange_classes = true
  /\ N.of_nat (length maprange_classes) = maprange_count
  /\ maprange_unresolved = 0
  /\ count_class 5 maprange_classes = 0.
Proof. exact audit_classified. Qed.
Print Assumptions C07_audit_classified.

(* ---------- the environment is not an input ---------- *)

(* the regenerated list of environment reads (Gen/EnvReadAudit.v: os.Getenv, time.Now, os.Getwd, os/user,
   math/rand, ... in non-test code, found on every run) is fully classified against the hand-classified
   audit/envreads.json: every class known (none new / changed / unjustified), the announced length,
   the scanner visited the source files, and NO use is a finding (class 6: reaches the output and is
   neither tree nor arguments).  (Round 4 found one: os.Getwd returned $PWD; repaired by /repo 873c354.) *)
Theorem C07_env_audit_classified : env_audit_full.
Proof. exact env_audit_classified. Qed.
Print Assumptions C07_env_audit_classified.

(* util.go isLocallyModified, with the process environment (time zone, user, home, locale, cwd spelling,
   umask) as an explicit argument: the decision is the same in every environment *)
Theorem C07_locally_modified_env_independent : forall (e1 e2 : env) (es : entries) (name : str) (st : option Z),
  is_locally_modified e1 es name st = is_locally_modified e2 es name st.
Proof. exact locally_modified_env_independent. Qed.
Print Assumptions C07_locally_modified_env_independent.

(* what it decides: listed in CVS/Entries, and Stat failed or the timestamp differs from the mtime formatted in UTC *)
Theorem C07_locally_modified_spec : forall (e : env) (es : entries) (name : str) (st : option Z),
  is_locally_modified e es name st = true <->
  exists ent, entries_lookup es name = Some ent /\
    (st = None \/ exists s, st = Some s /\ ce_timestamp ent <> ansic_utc s).
Proof. exact locally_modified_spec. Qed.
Print Assumptions C07_locally_modified_spec.

(* non-vacuity: the variant that formats the file time in the process's local time zone (seeded change
   C07-r3m1) is NOT independent of the environment *)
Theorem C07_locally_modified_local_refuted :
  ~ (forall (e1 e2 : env) es name st, is_locally_modified_local e1 es name st = is_locally_modified_local e2 es name st).
Proof. exact locally_modified_local_refuted. Qed.
Print Assumptions C07_locally_modified_local_refuted.

(* the UTC timestamp string determines the second, wherever the year has four digits (0000..9999): comparing
   the strings (as the code does) is comparing the instants, so "unmodified" means "same mtime second" *)
Theorem C07_ansic_utc_injective : forall s1 s2 : Z,
  (ansic_lo <= s1 < ansic_hi)%Z -> (ansic_lo <= s2 < ansic_hi)%Z -> ansic_utc s1 = ansic_utc s2 -> s1 = s2.
Proof. exact ansic_utc_injective. Qed.
Print Assumptions C07_ansic_utc_injective.

(* ... via an independent fixed-column parser (Proofs/CvsEntries.v) that inverts the formatter *)
Theorem C07_ansic_parse_format : forall s : Z, (ansic_lo <= s < ansic_hi)%Z -> ansic_parse (ansic_utc s) = Some s.
Proof. exact ansic_parse_format. Qed.
Print Assumptions C07_ansic_parse_format.

Theorem C07_ansic_utc_length : forall s : Z, (ansic_lo <= s < ansic_hi)%Z -> length (ansic_utc s) = 24%nat.
Proof. exact ansic_utc_length. Qed.
Print Assumptions C07_ansic_utc_length.

(* the proleptic Gregorian calendar of the model: civil_from_days is inverted by days_from_civil, for every day *)
Theorem C07_days_from_civil_from_days : forall d : Z, days_from_civil (civil_from_days d) = d.
Proof. exact days_from_civil_from_days. Qed.
Print Assumptions C07_days_from_civil_from_days.

(* one CVS/Entries line: an entry iff it is "/" + five "/"-free fields separated by "/" *)
Theorem C07_parse_entry_line_spec : forall (t : str) (e : cvs_entry),
  parse_entry_line t = PrEntry e <->
  exists f1 f2 f3 f4 f5, t = [47] ++ f1 ++ [47] ++ f2 ++ [47] ++ f3 ++ [47] ++ f4 ++ [47] ++ f5
    /\ (~ In 47 f1 /\ ~ In 47 f2 /\ ~ In 47 f3 /\ ~ In 47 f4 /\ ~ In 47 f5)
    /\ e = mk_cvs_entry f1 f2 f3 f4 f5.
Proof. exact parse_entry_line_spec. Qed.
Print Assumptions C07_parse_entry_line_spec.

(* the map built from CVS/Entries + CVS/Entries.Log has duplicate-free keys and every key is its entry's name *)
Theorem C07_load_entries_wf : forall el ll : list str, entries_wf (fst (load_entries el ll)).
Proof. exact load_entries_wf. Qed.
Print Assumptions C07_load_entries_wf.

(* the hypotheses are satisfiable and the conclusions non-trivial *)
Definition ex_map : gomap N := [([98], 2); ([97; 98], 1); ([97], 0); ([255], 3)].
Definition ex_map' : gomap N := [([255], 3); ([97], 0); ([98], 2); ([97; 98], 1)].
Example C07_witness :
  keys_sorted ex_map = [[97]; [97; 98]; [98]; [255]] /\ keys_sorted ex_map' = keys_sorted ex_map
  /\ keys ex_map <> keys ex_map'
  /\ for_each_sorted ex_map ex_map' = [([97], Some 0); ([97; 98], Some 1); ([98], Some 2); ([255], Some 3)]
  /\ range_first (fun _ => true) ex_map <> range_first (fun _ => true) ex_map'
  /\ range_argmax (fun kv => negb (snd kv =? 3)) snd ex_map = Some ([98], 2)
  /\ range_argmax (fun kv => negb (snd kv =? 3)) snd ex_map' = Some ([98], 2).
Proof. repeat split; try (vm_compute; reflexivity); vm_compute; discriminate. Qed.

(* round 5: the regenerated list of package-level variables (Gen/GlobalsAudit.v: every `var` of the non-test
   code with the functions that write it, compared by gen/c07globals.go with audit/globals.json) is fully
   classified, has the announced length, contains no finding (a variable that survives a run and reaches
   the output of a later one), and the scanner saw >= 100 variables in >= 60 files *)
Theorem C07_globals_audit_classified : glob_audit_full.
Proof. exact glob_audit_classified. Qed.
Print Assumptions C07_globals_audit_classified.
