(* C06 (whole-run part) -- the specification against which every run of the real
   binary is judged (Spec/OutputGrammar.v), and facts about the specification itself.
   Only statements; every proof is `exact <lemma>`. *)
From PV Require Import Lib.Bytes Spec.OutputGrammar Proofs.OutputGrammar.
Import ListNotations.
Open Scope N_scope.

Theorem C06run_accounting_exit : forall gcc nosummary werror lines exit,
  accounting gcc nosummary werror lines exit = 0 ->
  exit = expected_exit werror (tally gcc lines) /\ c_unknown (tally gcc lines) = 0.
Proof. exact accounting_exit. Qed.
Print Assumptions C06run_accounting_exit.
