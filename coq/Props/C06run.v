(* C06 (whole-run part) -- the specification against which every run of the real
   binary is judged (Spec/OutputGrammar.v: line grammar + accounting predicate),
   and facts about the specification itself.  The weight of this part is the
   whole-run check (harness/c06run.go); the theorems show that the recogniser is
   not vacuous: it reads back what the documented forms print, for all counts,
   paths, line numbers and messages.
   Only statements; every proof is `exact <lemma>`. *)
From PV Require Import Lib.Bytes Spec.OutputGrammar Proofs.OutputGrammar.
Import ListNotations.
Open Scope N_scope.

(* Go's %d and the spec's number parser are inverse, for every natural number *)
Theorem C06run_dec_roundtrip : forall n : N, parse_dec (print_dec n) = Some n.
Proof. exact dec_roundtrip. Qed.
Print Assumptions C06run_dec_roundtrip.

(* the summary line in all its singular / plural / joined forms ("1 error found.",
   "2 errors and 1 warning found.", "1 error, 3 warnings and 2 notes found.", ...)
   is read back exactly, for all counts that are not all zero *)
Theorem C06run_summary_line_roundtrip : forall e w n : N,
  (e <> 0 \/ w <> 0 \/ n <> 0) -> parse_summary (print_summary e w n) = Some (e, w, n).
Proof. exact summary_line_roundtrip. Qed.
Print Assumptions C06run_summary_line_roundtrip.

(* ... and consists of printable ASCII only *)
Theorem C06run_print_summary_safe : forall e w n : N, safe_line (print_summary e w n) = true.
Proof. exact print_summary_safe. Qed.
Print Assumptions C06run_print_summary_safe.

(* "LEVEL: path:N: message" is recognised with exactly these fields, for every
   level, every non-empty path without a colon, every line number and every message
   (the message may contain anything, including ": " and further "file:12:" references) *)
Theorem C06run_diag_line_roundtrip : forall lv path n msg,
  path <> [] -> not_byte 58 path ->
  classify false (print_diag_trad lv path n msg) = KDiag lv (Some path) (LNum n) msg.
Proof. exact diag_line_roundtrip. Qed.
Print Assumptions C06run_diag_line_roundtrip.

(* when the accounting predicate holds, no line was unknown and the exit status
   is the one the counted ERROR/WARN lines (and -Werror) demand *)
Theorem C06run_accounting_exit : forall gcc nosummary werror lines exit,
  accounting gcc nosummary werror lines exit = 0 ->
  exit = expected_exit werror (tally gcc lines) /\ c_unknown (tally gcc lines) = 0.
Proof. exact accounting_exit. Qed.
Print Assumptions C06run_accounting_exit.

(* ---- examples: every documented line form, and what is rejected ---- *)
Definition bs (l : list N) : str := l.
(* "cat/p/Makefile:3--4: warning: x" *)
Definition ex_gcc : str := [99;97;116;47;112;47;77;97;107;101;102;105;108;101;58;51;45;45;52;58;32;119;97;114;110;105;110;103;58;32;120].
(* "ERROR: a.mk:EOF: y" *)
Definition ex_eof : str := [69;82;82;79;82;58;32;97;46;109;107;58;69;79;70;58;32;121].
(* "NOTE: plain" (no path) *)
Definition ex_nopath : str := [78;79;84;69;58;32;112;108;97;105;110].
(* ">" TAB "x" and TAB "x" *)
Definition ex_src : str := [62;9;120].
Definition ex_ind : str := [9;120].
(* "1 error and 2 warnings found." *)
Definition ex_sum : str := print_summary 1 2 0.
(* "FATAL: x" is not a stdout line; ESC "[31m" is not recognised; "0 errors found." is not a summary *)
Definition ex_fatal : str := [70;65;84;65;76;58;32;120].
Definition ex_esc : str := [27;91;51;49;109].
Definition ex_zero : str := [48;32;101;114;114;111;114;115;32;102;111;117;110;100;46].

Example C06run_examples :
  classify true ex_gcc = KDiag LWarn (Some [99;97;116;47;112;47;77;97;107;101;102;105;108;101]) (LRange 3 4) [120]
  /\ classify false ex_eof = KDiag LError (Some [97;46;109;107]) LEOF [121]
  /\ classify false ex_nopath = KDiag LNote None NoLine [112;108;97;105;110]
  /\ classify false ex_src = KSource 62 /\ classify true ex_ind = KIndented /\ classify false [] = KEmpty
  /\ classify false ex_sum = KSummary 1 2 0 /\ classify true ex_sum = KSummary 1 2 0
  /\ classify false s_looks_fine = KLooksFine
  /\ classify false (s_run ++ [120] ++ s_hint1) = KHint 1 /\ classify false (s_run ++ [120] ++ s_hint3) = KHint 3
  /\ classify false ex_fatal = KUnknown /\ classify false ex_esc = KUnknown /\ classify false ex_zero = KUnknown
  /\ classify false ex_gcc = KUnknown /\ safe_line ex_esc = false.
Proof. vm_compute. repeat split. Qed.

(* accounting on small outputs: counts, "Looks fine." iff no errors and warnings, exit status *)
Definition ex_err : str := [69;82;82;79;82;58;32;97;58;49;58;32;120].   (* ERROR: a:1: x *)
Definition ex_warn : str := [87;65;82;78;58;32;97;58;49;58;32;120].     (* WARN: a:1: x *)
Definition ex_note : str := [78;79;84;69;58;32;97;58;49;58;32;120].     (* NOTE: a:1: x *)
Example C06run_accounting_examples :
  accounting false false false [ex_err; ex_warn; print_summary 1 1 0] 1 = 0
  /\ accounting false false false [ex_err; ex_warn; print_summary 1 1 0] 0 = 5      (* wrong exit *)
  /\ accounting false false false [ex_err; ex_note; print_summary 1 1 0] 1 = 3      (* a note counted as a warning *)
  /\ accounting false false false [ex_note; s_looks_fine] 0 = 0                     (* notes only: looks fine *)
  /\ accounting false false false [ex_warn; s_looks_fine] 0 = 3                     (* a warning, yet "Looks fine." *)
  /\ accounting false false true [ex_warn; print_summary 0 1 0] 1 = 0               (* -Werror *)
  /\ accounting false false true [ex_warn; print_summary 0 1 0] 0 = 5
  /\ accounting false true false [ex_err] 1 = 0                                     (* -q: no summary, exit still 1 *)
  /\ accounting false true false [ex_err] 0 = 5
  /\ accounting false true false [ex_err; print_summary 1 0 0] 1 = 2                (* -q but a summary *)
  /\ accounting false false false [ex_err] 1 = 2                                    (* summary missing *)
  /\ accounting false false false [print_summary 1 0 0; ex_err] 1 = 3.              (* summary before the diagnostics *)
Proof. vm_compute. repeat split. Qed.
