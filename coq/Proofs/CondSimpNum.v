(* C14: a non-empty string of letters is not a number for cond.c's
   TryParseNumber (needed for the literal "yes"/"no" on the right-hand side of
   the rewritten yes/no comparison and for words matching [yY][eE][sS]). *)
From PV Require Import Lib.Bytes Spec.BmakeCond.
From Coq Require Import ZifyBool ZifyN ZifyNat.
Open Scope N_scope.

(* a first byte that no number starts with: not white space, sign, digit or dot *)
Definition head_ok (c : N) : bool :=
  negb (is_cspace c || is_digit c || (c =? 43) || (c =? 45) || (c =? 46)).

Lemma alpha_facts c : head_ok c = true ->
  is_cspace c = false /\ (c =? 45) = false /\ (c =? 43) = false /\ (c =? 48) = false /\
  is_digit c = false /\ (c =? 46) = false.
Proof. unfold head_ok, is_cspace, is_digit. lia. Qed.

Lemma alpha_head_ok c : is_alpha c = true -> head_ok c = true.
Proof. unfold head_ok, is_alpha, is_lower, is_upper, is_cspace, is_digit. lia. Qed.

Lemma span_head_false (f : N -> bool) c r : f c = false -> span f (c :: r) = ([], c :: r).
Proof. intros H. simpl. rewrite H. reflexivity. Qed.

Lemma strtoul_alpha_dec c r : head_ok c = true ->
  strtoul (c :: r) false = (false, false, 0%Z, c :: r).
Proof.
  intros H. destruct (alpha_facts c H) as (H1 & H2 & H3 & H4 & H5 & H6).
  unfold strtoul. cbn [skip_cspace]. rewrite H1. unfold take_sign. rewrite H2, H3.
  rewrite span_head_false by exact H5. reflexivity.
Qed.

Lemma strtoul_alpha_hex_nohex c r : head_ok c = true -> is_hexdigit c = false ->
  strtoul (c :: r) true = (false, false, 0%Z, c :: r).
Proof.
  intros H Hh. destruct (alpha_facts c H) as (H1 & H2 & H3 & H4 & H5 & H6).
  unfold strtoul. cbn [skip_cspace]. rewrite H1. unfold take_sign. rewrite H2, H3.
  destruct r as [|x [|h r']]; rewrite ?H4; cbn [andb]; rewrite span_head_false by exact Hh; reflexivity.
Qed.

Lemma strtoul_alpha_hex_x c r : head_ok c = true -> is_hexdigit c = true ->
  exists m, strtoul (c :: 120 :: r) true = (true, false, m, 120 :: r).
Proof.
  intros H Hh. destruct (alpha_facts c H) as (H1 & H2 & H3 & H4 & H5 & H6).
  unfold strtoul. cbn [skip_cspace]. rewrite H1. unfold take_sign. rewrite H2, H3.
  destruct r as [|h r']; rewrite ?H4; cbn [andb]; cbn [span]; rewrite Hh;
    replace (is_hexdigit 120) with false by reflexivity; eexists; reflexivity.
Qed.

Lemma strtod_alpha c r : head_ok c = true -> snd (strtod (c :: r)) = c :: r.
Proof.
  intros H. destruct (alpha_facts c H) as (H1 & H2 & H3 & H4 & H5 & H6).
  unfold strtod. cbn [skip_cspace]. rewrite H1. unfold take_sign. rewrite H2, H3.
  destruct r as [|x r0]; rewrite ?H4; cbn [andb]; rewrite span_head_false by exact H5; rewrite H6; reflexivity.
Qed.

(* only the first byte matters *)
Lemma head_not_number c r : head_ok c = true -> try_parse_number (c :: r) = None.
Proof.
  intros Hc.
  destruct (alpha_facts c Hc) as (H1 & H2 & H3 & H4 & H5 & H6).
  unfold try_parse_number.
  set (hex := match c :: r with _ :: x :: _ => x =? 120 | _ => false end).
  assert (Hstrtod : match strtod (c :: r) with (v, r') => match r' with [] => Some v | _ => None end end = None).
  { pose proof (strtod_alpha c r Hc) as P. destruct (strtod (c :: r)) as [v r']. simpl in P. subst r'. reflexivity. }
  destruct hex eqn:Ehex.
  - (* second byte is 'x' *)
    subst hex. destruct r as [|x r0]; [discriminate|]. apply N.eqb_eq in Ehex. subst x.
    destruct (is_hexdigit c) eqn:Eh.
    + destruct (strtoul_alpha_hex_x c r0 Hc Eh) as (m & ->). reflexivity.
    + rewrite (strtoul_alpha_hex_nohex c _ Hc Eh). rewrite H6.
      assert ((c =? 101) = false /\ (c =? 69) = false) as [-> ->].
      { unfold is_hexdigit in Eh. lia. }
      reflexivity.
  - rewrite (strtoul_alpha_dec c r Hc). rewrite H6.
    cbn [orb]. destruct ((c =? 101) || (c =? 69)); [exact Hstrtod|reflexivity].
Qed.

Lemma alpha_not_number s : s <> [] -> forallb is_alpha s = true -> try_parse_number s = None.
Proof.
  destruct s as [|c r]; [congruence|]. intros _ Hall. simpl in Hall.
  apply andb_true_iff in Hall as [Hc _]. apply head_not_number. apply alpha_head_ok. exact Hc.
Qed.

Lemma lower_alpha_of_lower s l : lower s = l -> forallb is_lower l = true -> forallb is_alpha s = true.
Proof.
  revert l; induction s as [|c s IH]; intros l H Hl; [reflexivity|].
  simpl in H. subst l. simpl in Hl. apply andb_true_iff in Hl as [H1 H2].
  simpl. rewrite (IH _ eq_refl H2), andb_true_r.
  unfold to_lower, is_alpha, is_lower, is_upper in *. destruct ((65 <=? c) && (c <=? 90)) eqn:E; lia.
Qed.

Lemma lower_is_alpha l : forallb is_lower l = true -> forallb is_alpha l = true.
Proof.
  induction l as [|c l IH]; [reflexivity|]. simpl. intros H. apply andb_true_iff in H as [H1 H2].
  rewrite IH by exact H2. unfold is_alpha. rewrite H1. reflexivity.
Qed.
