(* Basic facts about the slice helpers of Model/Makepat.v. *)
From PV Require Import Lib.Bytes Gen.NumberAutomaton Model.Makepat.
From Coq Require Import ZifyBool ZifyN ZifyNat.
Open Scope N_scope.

Lemma nlen_length {A} (l : list A) : nlen l = N.of_nat (length l).
Proof. induction l as [|x l IH]; [reflexivity|]. cbn [nlen length]. rewrite IH. lia. Qed.

Lemma nlen_app {A} (l1 l2 : list A) : nlen (l1 ++ l2) = nlen l1 + nlen l2.
Proof. rewrite !nlen_length, app_length. lia. Qed.

Lemma nlen_cons {A} (x : A) l : nlen (x :: l) = N.succ (nlen l).
Proof. reflexivity. Qed.

Lemma nth_n_cons {A} (x : A) l i : nth_n (x :: l) i = if i =? 0 then Some x else nth_n l (N.pred i).
Proof. reflexivity. Qed.

Lemma nth_n_lt {A} (l : list A) i : i < nlen l -> exists x, nth_n l i = Some x.
Proof.
  revert i; induction l as [|x l IH]; intros i H.
  - cbn in H. lia.
  - rewrite nth_n_cons. destruct (N.eqb_spec i 0); [eauto|]. apply IH. rewrite nlen_cons in H. lia.
Qed.

Lemma nth_n_ge {A} (l : list A) i : nlen l <= i -> nth_n l i = None.
Proof.
  revert i; induction l as [|x l IH]; intros i H; [reflexivity|].
  rewrite nth_n_cons. rewrite nlen_cons in H. destruct (N.eqb_spec i 0); [lia|]. apply IH. lia.
Qed.

Lemma nth_n_some_lt {A} (l : list A) i x : nth_n l i = Some x -> i < nlen l.
Proof.
  intro H. destruct (N.lt_ge_cases i (nlen l)) as [|G]; [assumption|].
  rewrite (nth_n_ge l i G) in H. discriminate.
Qed.

Lemma nth_n_app_l {A} (l1 l2 : list A) i : i < nlen l1 -> nth_n (l1 ++ l2) i = nth_n l1 i.
Proof.
  revert i; induction l1 as [|x l1 IH]; intros i H.
  - cbn in H. lia.
  - cbn [app]. rewrite !nth_n_cons. destruct (N.eqb_spec i 0); [reflexivity|].
    apply IH. rewrite nlen_cons in H. lia.
Qed.

Lemma nth_n_app_r {A} (l1 l2 : list A) i : nlen l1 <= i -> nth_n (l1 ++ l2) i = nth_n l2 (i - nlen l1).
Proof.
  revert i; induction l1 as [|x l1 IH]; intros i H.
  - cbn [app nlen]. f_equal. lia.
  - cbn [app]. rewrite nth_n_cons. rewrite nlen_cons in *. destruct (N.eqb_spec i 0); [lia|].
    rewrite IH by lia. f_equal. lia.
Qed.

Lemma upd_n_cons {A} (x : A) l i f :
  upd_n (x :: l) i f = if i =? 0 then Some (f x :: l)
                       else match upd_n l (N.pred i) f with Some t' => Some (x :: t') | None => None end.
Proof. reflexivity. Qed.

Lemma upd_n_lt {A} (l : list A) i f : i < nlen l -> exists l', upd_n l i f = Some l'.
Proof.
  revert i; induction l as [|x l IH]; intros i H.
  - cbn in H. lia.
  - rewrite upd_n_cons. destruct (N.eqb_spec i 0); [eauto|].
    destruct (IH (N.pred i)) as [l' E]; [rewrite nlen_cons in H; lia|]. rewrite E. eauto.
Qed.

Lemma upd_n_some {A} (l : list A) i f l' : upd_n l i f = Some l' ->
  i < nlen l /\ nlen l' = nlen l /\
  forall j, nth_n l' j = if j =? i then option_map f (nth_n l j) else nth_n l j.
Proof.
  revert i l'; induction l as [|x l IH]; intros i l' H; [discriminate|].
  rewrite upd_n_cons in H. destruct (N.eqb_spec i 0) as [->|Hi].
  - inversion H; subst. split; [rewrite nlen_cons; lia|]. split; [reflexivity|].
    intro j. rewrite !nth_n_cons. destruct (N.eqb_spec j 0); reflexivity.
  - destruct (upd_n l (N.pred i) f) as [t'|] eqn:E; [|discriminate]. inversion H; subst.
    destruct (IH _ _ E) as (H1 & H2 & H3). split; [rewrite nlen_cons; lia|].
    split; [rewrite !nlen_cons; lia|].
    intro j. rewrite !nth_n_cons. destruct (N.eqb_spec j 0) as [->|Hj].
    + destruct (N.eqb_spec 0 i); [lia|reflexivity].
    + rewrite H3. destruct (N.eqb_spec (N.pred j) (N.pred i)); destruct (N.eqb_spec j i); try lia; reflexivity.
Qed.

Lemma upd_n_none {A} (l : list A) i f : upd_n l i f = None -> nlen l <= i.
Proof.
  intro H. destruct (N.lt_ge_cases i (nlen l)) as [L|]; [|assumption].
  destruct (upd_n_lt l i f L) as [l' E]. congruence.
Qed.

(* updating the last element of a list *)
Lemma upd_n_last {A} (l : list A) (x : A) f : upd_n (l ++ [x]) (nlen l) f = Some (l ++ [f x]).
Proof.
  induction l as [|y l IH]; [reflexivity|].
  cbn [app]. rewrite upd_n_cons, nlen_cons. destruct (N.eqb_spec (N.succ (nlen l)) 0); [lia|].
  rewrite N.pred_succ, IH. reflexivity.
Qed.

Lemma zeros_like_nlen {A B} (z : B) (l : list A) : nlen (zeros_like z l) = nlen l.
Proof. unfold zeros_like. rewrite !nlen_length, map_length. reflexivity. Qed.

Lemma to_state_id_le i : to_state_id i <= i.
Proof. unfold to_state_id. lia. Qed.

Lemma to_state_id_id i : to_state_id i = i.
Proof. reflexivity. Qed.

(* addState *)
Lemma add_state_spec p e :
  add_state p e = (p ++ [mkS [] e], to_state_id (nlen p)).
Proof. unfold add_state. f_equal. rewrite nlen_app. cbn [nlen]. f_equal. lia. Qed.

Lemma add_transition_lt p from t : from < nlen p -> exists p', add_transition p from t = Some p' /\ nlen p' = nlen p.
Proof.
  intro H. unfold add_transition. destruct (upd_n_lt p from (fun st => mkS (trans st ++ [t]) (fin st)) H) as [p' E].
  exists p'. split; [exact E|]. apply upd_n_some in E. tauto.
Qed.

Lemma add_transitions_list_lt rs : forall p from to, from < nlen p ->
  exists p', add_transitions_list p from rs to = Some p' /\ nlen p' = nlen p.
Proof.
  induction rs as [|[lo hi] rs IH]; intros p from to H; cbn [add_transitions_list]; [eauto|].
  destruct (add_transition_lt p from (mkT lo hi to) H) as (p' & E & L). rewrite E.
  destruct (IH p' from to) as (p'' & E' & L'); [lia|]. exists p''. split; [exact E'|lia].
Qed.

Lemma In_nth_n {A} (l : list A) x : In x l -> exists i, nth_n l i = Some x.
Proof.
  induction l as [|y l IH]; intros H; [destruct H|]. destruct H as [->|H].
  - exists 0. reflexivity.
  - destruct (IH H) as [i E]. exists (N.succ i). rewrite nth_n_cons.
    destruct (N.eqb_spec (N.succ i) 0); [lia|]. rewrite N.pred_succ. exact E.
Qed.
