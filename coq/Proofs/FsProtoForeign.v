(* C05/C02: entries of the tree that do not belong to the run -- in particular a
   pre-existing F.pkglint.tmp of any kind -- are never touched: at no crash point, under
   no single failing system call; and no temporary file created by the run is left. *)
From PV Require Import Lib.Bytes Model.FsProto Spec.CrashSpec Proofs.FsProto Proofs.FsProtoFault.
Open Scope N_scope.

(* ---------- one save ---------- *)

(* the temporary name is taken: the only system call is the failing exclusive open *)
Lemma exec_taken s f new f0 t :
  lookup (tmp_name f) (st_fs s) = Some f0 -> crash_of (save_ops s f new) t -> exec t s = s.
Proof.
  intros Etmp Hc. unfold save_ops in Hc. rewrite Etmp in Hc.
  inversion Hc as [k|k fd data n Hn]; subst.
  - destruct k as [|k]; [reflexivity|]. cbn [firstn]. rewrite firstn_nil_any.
    unfold exec. cbn [fold_left]. rewrite (step_openexcl_taken s _ f0 Etmp). reflexivity.
  - destruct k as [|k]; cbn [nth_error] in Hn; [discriminate|destruct k; discriminate].
Qed.

Lemma save_crash_frame s f new t p :
  crash_of (save_ops s f new) t -> p <> f ->
  (lookup p (st_fs s) <> None \/ p <> tmp_name f) ->
  lookup p (st_fs (exec t s)) = lookup p (st_fs s).
Proof.
  intros Hc Hpf Hd. destruct (lookup (tmp_name f) (st_fs s)) as [f0|] eqn:Etmp.
  - rewrite (exec_taken s f new f0 t Etmp Hc). reflexivity.
  - assert (Hp : p <> tmp_name f).
    { destruct Hd as [H|H]; [|exact H]. intros ->. apply H. exact Etmp. }
    destruct (save_crash s f new Etmp t p Hc Hp) as [H1|[_ [E _]]]; [exact H1|contradiction].
Qed.

Lemma save_full_frame s f new p :
  p <> f -> lookup p (st_fs (exec (save_ops s f new) s)) = lookup p (st_fs s).
Proof.
  intro Hpf. destruct (lookup (tmp_name f) (st_fs s)) as [f0|] eqn:Etmp.
  - rewrite (exec_taken s f new f0 _ Etmp (crash_of_full _)). reflexivity.
  - destruct (exec_save_all s f new Etmp) as [_ [H2 H3]].
    destruct (str_eqb p (tmp_name f)) eqn:E.
    + apply str_eqb_spec in E. subst p. rewrite H2, Etmp. reflexivity.
    + apply H3; [|exact Hpf]. intro; subst. rewrite str_eqb_refl in E. discriminate.
Qed.

Lemma lookup_step_chmod_neq s f m p :
  p <> f -> lookup p (st_fs (fst (step s (Chmod f m)))) = lookup p (st_fs s).
Proof.
  intro H. cbn [step]. destruct (lookup f (st_fs s)) as [f0|]; [|reflexivity].
  cbn [fst st_fs]. apply lookup_set_neq. exact H.
Qed.

Lemma lookup_step_chmod_none s f m p :
  lookup p (st_fs s) = None -> lookup p (st_fs (fst (step s (Chmod f m)))) = None.
Proof.
  intro H. destruct (str_eqb p f) eqn:E.
  - apply str_eqb_spec in E. subst p. cbn [step]. rewrite H. exact H.
  - rewrite lookup_step_chmod_neq; [exact H|]. intro; subst. rewrite str_eqb_refl in E. discriminate.
Qed.

(* ---------- every crash point of a whole run ---------- *)

Lemma crash_foreign prog : forall saved s t p,
  crash_of (prog_ops_from saved s prog) t ->
  ~ In p (saved_paths prog) -> ~ In p (chmod_paths prog) ->
  (lookup p (st_fs s) <> None \/ ~ In p (run_tmps prog)) ->
  lookup p (st_fs (exec t s)) = lookup p (st_fs s).
Proof.
  induction prog as [|a prog IH]; intros saved s t p Hc Hs Hm Hd.
  - apply crash_of_nil in Hc. subst. reflexivity.
  - assert (Hsave : forall f new saved',
      crash_of (save_ops s f new ++ prog_ops_from saved' (exec (save_ops s f new) s) prog) t ->
      p <> f -> ~ In p (saved_paths prog) -> ~ In p (chmod_paths prog) ->
      (lookup p (st_fs s) <> None \/ (p <> tmp_name f /\ ~ In p (run_tmps prog))) ->
      lookup p (st_fs (exec t s)) = lookup p (st_fs s)).
    { intros f new saved' Hc' Hpf Hs' Hm' Hd'.
      apply crash_of_app in Hc'. destruct Hc' as [Hc'|[t' [-> Hc']]].
      - apply (save_crash_frame s f new t p Hc' Hpf).
        destruct Hd' as [H|[H _]]; [left; exact H|right; exact H].
      - rewrite exec_app. rewrite <- (save_full_frame s f new p Hpf).
        apply (IH saved' _ t' p Hc' Hs' Hm').
        rewrite (save_full_frame s f new p Hpf).
        destruct Hd' as [H|[_ H]]; [left; exact H|right; exact H]. }
    destruct a as [f new|f m|c f new]; cbn [prog_ops_from] in Hc;
      cbn [saved_paths chmod_paths] in Hs, Hm.
    + apply (Hsave f new _ Hc).
      * intro E. apply Hs. left. symmetry. exact E.
      * intro H. apply Hs. right. exact H.
      * exact Hm.
      * destruct Hd as [H|H]; [left; exact H|right]. unfold run_tmps in *. cbn [saved_paths map] in H.
        split; [intro E; apply H; left; symmetry; exact E|intro H'; apply H; right; exact H'].
    + assert (Hpf : p <> f) by (intro E; apply Hm; left; symmetry; exact E).
      change (Chmod f (N.ldiff m 73) :: ?r) with ([Chmod f (N.ldiff m 73)] ++ r) in Hc.
      apply crash_of_app in Hc. destruct Hc as [Hc|[t' [-> Hc]]].
      * inversion Hc as [k|k fd data n Hn]; subst.
        -- destruct k as [|k]; cbn [firstn]; [reflexivity|].
           rewrite firstn_nil_any. unfold exec. cbn [fold_left]. apply lookup_step_chmod_neq. exact Hpf.
        -- destruct k as [|k]; cbn [nth_error] in Hn; [discriminate|destruct k; discriminate].
      * rewrite exec_app.
        assert (E1 : lookup p (st_fs (exec [Chmod f (N.ldiff m 73)] s)) = lookup p (st_fs s)).
        { unfold exec. cbn [fold_left]. apply lookup_step_chmod_neq. exact Hpf. }
        rewrite <- E1. apply (IH saved _ t' p Hc Hs).
        -- intro H. apply Hm. right. exact H.
        -- rewrite E1. exact Hd.
    + destruct (Bool.eqb saved c).
      * apply (Hsave f new _ Hc).
        -- intro E. apply Hs. left. symmetry. exact E.
        -- intro H. apply Hs. right. exact H.
        -- exact Hm.
        -- destruct Hd as [H|H]; [left; exact H|right]. unfold run_tmps in *. cbn [saved_paths map] in H.
           split; [intro E; apply H; left; symmetry; exact E|intro H'; apply H; right; exact H'].
      * apply (IH saved s t p Hc).
        -- intro H. apply Hs. right. exact H.
        -- exact Hm.
        -- destruct Hd as [H|H]; [left; exact H|right]. unfold run_tmps in *. cbn [saved_paths map] in H.
           intro H'. apply H. right. exact H'.
Qed.

Theorem foreign_untouched_at_crash : forall (s : state) (prog : list action) (t : list op),
  crash_of (prog_ops s prog) t ->
  foreign_untouched_crash prog (st_fs s) (st_fs (exec t s)).
Proof.
  intros s prog t Hc p [Hs Hm] Hd. apply (crash_foreign prog false s t p Hc Hs Hm Hd).
Qed.

(* ---------- a run with any fault plan ---------- *)

Lemma save_one_frame w f new p :
  p <> f -> lookup p (st_fs (w_st (save_one f new w))) = lookup p (st_fs (w_st w)).
Proof.
  intro Hpf. destruct (save_one_cases w f new) as [_ [_ [U|F]]].
  - rewrite (us_st _ _ _ _ U). apply save_full_frame. exact Hpf.
  - destruct (lookup (tmp_name f) (st_fs (w_st w))) as [f0|] eqn:Etmp.
    + rewrite (fa_taken _ _ _ F f0 Etmp). reflexivity.
    + destruct (str_eqb p (tmp_name f)) eqn:E.
      * apply str_eqb_spec in E. subst p. rewrite (fa_tmp _ _ _ F Etmp), Etmp. reflexivity.
      * apply (fa_fs _ _ _ F). intro; subst. rewrite str_eqb_refl in E. discriminate.
Qed.

Lemma chmod_fix_st w f mode :
  w_st (chmod_fix f mode w) = fst (step (w_st w) (Chmod f (N.ldiff mode 73))) \/
  w_st (chmod_fix f mode w) = w_st w.
Proof.
  destruct (chmod_fix_cases w f mode) as [_ [_ [_ [_ [[_ [H _]]|[fl [_ [H _]]]]]]]]; [left|right]; exact H.
Qed.

Lemma chmod_fix_frame w f mode p :
  p <> f -> lookup p (st_fs (w_st (chmod_fix f mode w))) = lookup p (st_fs (w_st w)).
Proof.
  intro H. destruct (chmod_fix_st w f mode) as [E|E]; rewrite E; [|reflexivity].
  apply lookup_step_chmod_neq. exact H.
Qed.

Lemma chmod_fix_none w f mode p :
  lookup p (st_fs (w_st w)) = None -> lookup p (st_fs (w_st (chmod_fix f mode w))) = None.
Proof.
  intro H. destruct (chmod_fix_st w f mode) as [E|E]; rewrite E; [|exact H].
  apply lookup_step_chmod_none. exact H.
Qed.

Lemma run_foreign prog : forall w p,
  ~ In p (saved_paths prog) -> ~ In p (chmod_paths prog) ->
  lookup p (st_fs (w_st (run prog w))) = lookup p (st_fs (w_st w)).
Proof.
  induction prog as [|a prog IH]; intros w p Hs Hm; [reflexivity|].
  rewrite run_cons.
  destruct a as [f new|f m|c f new]; cbn [run_action saved_paths chmod_paths] in *.
  - rewrite IH; [|intro H; apply Hs; right; exact H|exact Hm].
    apply save_one_frame. intro E. apply Hs. left. symmetry. exact E.
  - rewrite IH; [|exact Hs|intro H; apply Hm; right; exact H].
    apply chmod_fix_frame. intro E. apply Hm. left. symmetry. exact E.
  - destruct (Bool.eqb (w_saved w) c).
    + rewrite IH; [|intro H; apply Hs; right; exact H|exact Hm].
      apply save_one_frame. intro E. apply Hs. left. symmetry. exact E.
    + apply IH; [intro H; apply Hs; right; exact H|exact Hm].
Qed.

Theorem foreign_untouched_fault : forall (s : state) (prog : list action) (plan : option (nat * fault)),
  foreign_untouched prog (st_fs s) (st_fs (w_st (run prog (init_world s plan)))).
Proof. intros s prog plan p [Hs Hm]. apply (run_foreign prog (init_world s plan) p Hs Hm). Qed.

(* a name that is free and is not itself saved stays free: nothing the run creates is left *)
Lemma run_none prog : forall w p,
  ~ In p (saved_paths prog) -> lookup p (st_fs (w_st w)) = None ->
  lookup p (st_fs (w_st (run prog w))) = None.
Proof.
  induction prog as [|a prog IH]; intros w p Hs Hn; [exact Hn|].
  rewrite run_cons.
  destruct a as [f new|f m|c f new]; cbn [run_action saved_paths] in *.
  - apply IH; [intro H; apply Hs; right; exact H|].
    rewrite save_one_frame; [exact Hn|]. intro E. apply Hs. left. symmetry. exact E.
  - apply IH; [exact Hs|]. apply chmod_fix_none. exact Hn.
  - destruct (Bool.eqb (w_saved w) c).
    + apply IH; [intro H; apply Hs; right; exact H|].
      rewrite save_one_frame; [exact Hn|]. intro E. apply Hs. left. symmetry. exact E.
    + apply IH; [intro H; apply Hs; right; exact H|exact Hn].
Qed.

Theorem no_created_tmp_left : forall (s : state) (prog : list action) (plan : option (nat * fault)) (f : path),
  ~ In (tmp_name f) (saved_paths prog) ->
  lookup (tmp_name f) (st_fs s) = None ->
  lookup (tmp_name f) (st_fs (w_st (run prog (init_world s plan)))) = None.
Proof. intros s prog plan f Hs Hn. apply (run_none prog (init_world s plan) _ Hs Hn). Qed.

(* ---------- a taken temporary name: the save is refused, whatever the plan ---------- *)

Theorem taken_tmp_refused : forall (f : path) (new : str) (w : world) (e : file),
  lookup (tmp_name f) (st_fs (w_st w)) = Some e ->
  let w' := save_one f new w in
  w_st w' = w_st w /\ w_stderr w' = w_stderr w ++ [(CannotWrite, tmp_name f)] /\ w_saved w' = false.
Proof.
  intros f new w e He. destruct w as [st c plan tr err sv]. cbn [w_st w_stderr] in *.
  unfold save_one, set_saved. cbn [w_st w_count w_plan w_trace w_stderr w_saved].
  rewrite sys_unfold. destruct (fires (mkworld st c plan tr err false)) as [fl|].
  - cbn [tech_error w_st w_count w_plan w_trace w_stderr w_saved step_fault]. auto.
  - cbn [w_st]. rewrite (step_openexcl_taken st _ e He).
    cbn [fst snd tech_error w_st w_count w_plan w_trace w_stderr w_saved]. auto.
Qed.

(* ---------- the boolean checker ---------- *)

Lemma kind_eqb_eq a b : kind_eqb a b = true -> a = b.
Proof. destruct a, b; simpl; intro H; try discriminate; reflexivity. Qed.

Lemma entry_eqb_eq a b : entry_eqb a b = true -> a = b.
Proof.
  destruct a as [[k1 d1 m1]|], b as [[k2 d2 m2]|]; simpl; intro H; try discriminate; [|reflexivity].
  apply andb_prop in H. destruct H as [H H3]. apply andb_prop in H. destruct H as [H1 H2].
  apply kind_eqb_eq in H1. apply str_eqb_spec in H2. apply N.eqb_eq in H3. subst. reflexivity.
Qed.

Lemma existsb_str_in p l : existsb (str_eqb p) l = false -> ~ In p l.
Proof.
  intros H Hin. assert (E : existsb (str_eqb p) l = true).
  { apply existsb_exists. exists p. split; [exact Hin|apply str_eqb_refl]. }
  rewrite E in H. discriminate.
Qed.

Lemma in_existsb_str p l : In p l -> existsb (str_eqb p) l = true.
Proof. intro H. apply existsb_exists. exists p. split; [exact H|apply str_eqb_refl]. Qed.

Lemma is_foreignb_true prog p : foreign prog p -> is_foreignb prog p = true.
Proof.
  intros [Hs Hm]. unfold is_foreignb.
  destruct (existsb (str_eqb p) (saved_paths prog)) eqn:E1.
  - exfalso. apply Hs. apply existsb_exists in E1. destruct E1 as [x [Hx Ex]].
    apply str_eqb_spec in Ex. subst. exact Hx.
  - destruct (existsb (str_eqb p) (chmod_paths prog)) eqn:E2; [|reflexivity].
    exfalso. apply Hm. apply existsb_exists in E2. destruct E2 as [x [Hx Ex]].
    apply str_eqb_spec in Ex. subst. exact Hx.
Qed.

Lemma foreign_bad_in_none entries complete init prog cur :
  foreign_bad_in entries complete init prog cur = None ->
  forall p g, In (p, g) entries -> foreign prog p ->
    (complete = true \/ lookup p init <> None \/ ~ In p (run_tmps prog)) ->
    lookup p cur = lookup p init.
Proof.
  induction entries as [|[q h] entries IH]; intros H p g Hin Hf Hd; [destruct Hin|].
  cbn [foreign_bad_in] in H.
  destruct (negb (is_foreignb prog q) || entry_eqb (lookup q cur) (lookup q init)
            || (negb complete && existsb (str_eqb q) (run_tmps prog)
                && match lookup q init with None => true | Some _ => false end)) eqn:Eok; [|discriminate].
  destruct Hin as [Heq|Hin]; [|apply (IH H p g Hin Hf Hd)].
  inversion Heq; subst q h. rewrite (is_foreignb_true prog p Hf) in Eok. cbn [negb orb] in Eok.
  apply Bool.orb_true_iff in Eok. destruct Eok as [E|E]; [apply entry_eqb_eq; exact E|].
  exfalso. apply andb_prop in E. destruct E as [E E3]. apply andb_prop in E. destruct E as [E1 E2].
  destruct Hd as [Hc|[Hi|Ht]].
  - subst complete. discriminate.
  - destruct (lookup p init); [discriminate|]. apply Hi. reflexivity.
  - apply Ht. apply existsb_exists in E2. destruct E2 as [x [Hx Ex]]. apply str_eqb_spec in Ex. subst. exact Hx.
Qed.

Theorem foreign_bad_sound : forall complete init prog cur,
  foreign_bad complete init prog cur = None ->
  forall p, foreign prog p ->
    (complete = true \/ lookup p init <> None \/ ~ In p (run_tmps prog)) ->
    lookup p cur = lookup p init.
Proof.
  intros complete init prog cur H p Hf Hd. unfold foreign_bad in H.
  destruct (foreign_bad_in init complete init prog cur) eqn:E1; [discriminate|].
  destruct (lookup p init) as [f0|] eqn:Li.
  - destruct (lookup_in p f0 init Li) as [g Hg].
    rewrite <- Li. apply (foreign_bad_in_none init complete init prog cur E1 p g Hg Hf).
    destruct Hd as [Hd|[Hd|Hd]]; [left; exact Hd|right; left; rewrite Li; discriminate|right; right; exact Hd].
  - destruct (lookup p cur) as [f1|] eqn:Lc; [|reflexivity].
    destruct (lookup_in p f1 cur Lc) as [g Hg].
    rewrite <- Lc, <- Li. apply (foreign_bad_in_none cur complete init prog cur H p g Hg Hf).
    destruct Hd as [Hd|[Hd|Hd]]; [left; exact Hd|exfalso; apply Hd; reflexivity|right; right; exact Hd].
Qed.
