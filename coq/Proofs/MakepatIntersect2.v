(* Intersect, part 2: the invariant of the allocation map and of the product
   automaton under construction; every step preserves it. *)
From PV Require Import Lib.Bytes Gen.NumberAutomaton Model.Makepat
  Proofs.MakepatBasics Proofs.MakepatNFA Proofs.MakepatReach Proofs.MakepatIntersect1.
From Coq Require Import ZifyBool ZifyN ZifyNat.
Open Scope N_scope.

Definition key3 (k : N * N * N) : N * N := fst k.

(* the k-th allocated pair (counted from the end of the list) has id k *)
Fixpoint ids_ok (m : list (N * N * N)) : Prop :=
  match m with [] => True | k :: m' => snd k = nlen m' /\ ids_ok m' end.

Lemma ids_lt m : ids_ok m -> forall k, In k m -> snd k < nlen m.
Proof.
  induction m as [|k0 m IH]; intros H k I; [destruct I|]. destruct H as [H1 H2]. rewrite nlen_cons.
  destruct I as [<-|I]; [lia|]. specialize (IH H2 k I). lia.
Qed.

Lemma ids_inj m : ids_ok m -> forall k1 k2 id, In (k1, id) m -> In (k2, id) m -> k1 = k2.
Proof.
  induction m as [|k0 m IH]; intros H k1 k2 id I1 I2; [destruct I1|]. destruct H as [H1 H2].
  destruct I1 as [->|I1], I2 as [E|I2].
  - congruence.
  - apply (ids_lt m H2) in I2. cbn [snd] in *. lia.
  - subst k0. apply (ids_lt m H2) in I1. cbn [snd] in *. lia.
  - exact (IH H2 _ _ _ I1 I2).
Qed.

Lemma lookup_some s1 s2 m id : lookup s1 s2 m = Some id -> In (s1, s2, id) m.
Proof.
  induction m as [|[[k1 k2] v] m IH]; cbn [lookup]; [discriminate|].
  destruct (N.eqb_spec k1 s1) as [->|]; destruct (N.eqb_spec k2 s2) as [->|]; cbn [andb]; intro H;
    try (right; exact (IH H)).
  injection H as ->. left; reflexivity.
Qed.

Lemma lookup_none s1 s2 m : lookup s1 s2 m = None -> ~ In (s1, s2) (map key3 m).
Proof.
  induction m as [|[[k1 k2] v] m IH]; cbn [lookup map]; [intros _ []|].
  destruct (N.eqb_spec k1 s1) as [->|]; destruct (N.eqb_spec k2 s2) as [->|]; cbn [andb]; intro H;
    try discriminate; intros [E|I]; try (exact (IH H I)); unfold key3 in E; cbn [fst] in E; congruence.
Qed.

Lemma nodup_fun m : NoDup (map key3 m) -> forall k i j, In (k, i) m -> In (k, j) m -> i = j.
Proof.
  induction m as [|k0 m IH]; intros H k i j I1 I2; [destruct I1|]. cbn [map] in H. inversion H as [|? ? Hn Hd]; subst.
  destruct I1 as [->|I1], I2 as [E|I2].
  - congruence.
  - exfalso. apply Hn. apply in_map_iff. exists (k, j). auto.
  - exfalso. subst k0. apply Hn. apply in_map_iff. exists (k, i). auto.
  - exact (IH Hd _ _ _ I1 I2).
Qed.

Section Product.
Variables a b : pattern.
Hypothesis Hwa : wf a.
Hypothesis Hwb : wf b.

Definition edge_of (u1 u2 : transition) (to : N) : transition :=
  mkT (bmax (tmin u1) (tmin u2)) (bmin (tmax u1) (tmax u2)) to.
Definition overlap (u1 u2 : transition) : Prop :=
  bmax (tmin u1) (tmin u2) <= bmin (tmax u1) (tmax u2).

Record J (st : istate) : Prop := {
  j_keys : forall s1 s2 id, In (s1, s2, id) (imap st) -> s1 < nlen a /\ s2 < nlen b;
  j_ids : ids_ok (imap st);
  j_len : nlen (ires st) = nlen (imap st);
  j_nodup : NoDup (map key3 (imap st));
  j_fin : forall s1 s2 id, In (s1, s2, id) (imap st) ->
          exists x x1 x2, nth_n (ires st) id = Some x /\ nth_n a s1 = Some x1 /\ nth_n b s2 = Some x2
                          /\ fin x = fin x1 && fin x2;
  j_sound : forall id x t, nth_n (ires st) id = Some x -> In t (trans x) ->
            exists s1 s2 x1 x2 u1 u2, In (s1, s2, id) (imap st)
              /\ nth_n a s1 = Some x1 /\ nth_n b s2 = Some x2 /\ In u1 (trans x1) /\ In u2 (trans x2)
              /\ overlap u1 u2 /\ In (tto u1, tto u2, tto t) (imap st)
              /\ t = edge_of u1 u2 (tto t)
}.

Definition ext (st st' : istate) : Prop :=
  (forall k, In k (imap st) -> In k (imap st')) /\
  (forall id x t, nth_n (ires st) id = Some x -> In t (trans x) ->
                  exists x', nth_n (ires st') id = Some x' /\ In t (trans x')).

Lemma ext_refl st : ext st st.
Proof. split; [auto|]. intros id x t N I. exists x. auto. Qed.

Lemma ext_trans st1 st2 st3 : ext st1 st2 -> ext st2 st3 -> ext st1 st3.
Proof.
  intros [A1 B1] [A2 B2]. split; [auto|]. intros id x t N I.
  destruct (B1 _ _ _ N I) as (x' & N' & I'). exact (B2 _ _ _ N' I').
Qed.

Definition has_edge (st : istate) (x : item) : Prop :=
  match x with
  | (i1, i2, u1, u2) =>
    overlap u1 u2 ->
    exists id id' y, In (i1, i2, id) (imap st) /\ In (tto u1, tto u2, id') (imap st)
                     /\ nth_n (ires st) id = Some y /\ In (edge_of u1 u2 id') (trans y)
  end.

Lemma has_edge_ext st st' x : ext st st' -> has_edge st x -> has_edge st' x.
Proof.
  intros [A B] H. destruct x as [[[i1 i2] u1] u2]. intro O.
  destruct (H O) as (id & id' & y & I1 & I2 & N & I3).
  destruct (B _ _ _ N I3) as (y' & N' & I3'). exists id, id', y'. auto.
Qed.

(* stateFor *)
Lemma state_for_spec st s1 s2 : J st -> s1 < nlen a -> s2 < nlen b ->
  exists st' id, state_for a b st s1 s2 = Some (st', id) /\ J st' /\ ext st st'
                 /\ In (s1, s2, id) (imap st').
Proof.
  intros Hj H1 H2. unfold state_for. destruct (lookup s1 s2 (imap st)) as [ns|] eqn:El.
  - exists st, ns. split; [reflexivity|]. split; [exact Hj|]. split; [apply ext_refl|]. apply lookup_some; exact El.
  - destruct (nth_n_lt a s1 H1) as [x1 N1]. destruct (nth_n_lt b s2 H2) as [x2 N2]. rewrite N1, N2.
    rewrite add_state_spec.
    set (R := ires st) in *. set (M := imap st) in *.
    assert (Hnew : ~ In (s1, s2) (map key3 M)) by (apply lookup_none; exact El).
    assert (HL : nlen R = nlen M) by exact (j_len _ Hj).
    assert (Hid : to_state_id (nlen R) = nlen R) by apply to_state_id_id.
    rewrite Hid.
    exists (mkI (R ++ [mkS [] (fin x1 && fin x2)]) ((s1, s2, nlen R) :: M)), (nlen R).
    split; [reflexivity|]. split; [|split].
    + constructor; cbn [ires imap].
      * intros k1 k2 id [E|I]; [injection E as <- <- _; auto|exact (j_keys _ Hj _ _ _ I)].
      * split; [cbn [snd]; exact HL|exact (j_ids _ Hj)].
      * rewrite nlen_app, nlen_cons. cbn [nlen]. lia.
      * cbn [map]. constructor; [exact Hnew|exact (j_nodup _ Hj)].
      * intros k1 k2 id [E|I].
        -- injection E as <- <- <-. exists (mkS [] (fin x1 && fin x2)), x1, x2.
           split; [rewrite nth_n_app_r by lia; rewrite N.sub_diag; reflexivity|]. auto.
        -- destruct (j_fin _ Hj _ _ _ I) as (x & y1 & y2 & Nx & Ny1 & Ny2 & F).
           exists x, y1, y2. split; [|auto]. rewrite nth_n_app_l; [exact Nx|]. apply nth_n_some_lt in Nx. exact Nx.
      * intros id x t Nx It. destruct (N.lt_ge_cases id (nlen R)) as [Lt|Ge].
        -- rewrite nth_n_app_l in Nx by exact Lt.
           destruct (j_sound _ Hj _ _ _ Nx It) as (k1 & k2 & y1 & y2 & u1 & u2 & I & Ny1 & Ny2 & I1 & I2 & O & I3 & E).
           exists k1, k2, y1, y2, u1, u2. split; [right; exact I|]. repeat (split; [assumption|]).
           split; [right; exact I3|exact E].
        -- rewrite nth_n_app_r in Nx by exact Ge. destruct (N.eqb_spec (id - nlen R) 0) as [E0|Hne].
           ++ rewrite E0 in Nx. cbn in Nx. injection Nx as <-. destruct It.
           ++ cbn [nth_n] in Nx. destruct (id - nlen R =? 0) eqn:E1; [lia|discriminate].
    + split; cbn [ires imap].
      * intros k I. right; exact I.
      * intros id x t Nx It. exists x. split; [|exact It]. rewrite nth_n_app_l; [exact Nx|].
        apply nth_n_some_lt in Nx. exact Nx.
    + left; reflexivity.
Qed.

(* one step of the innermost loop *)
Lemma step_spec st i1 i2 u1 u2 : J st -> In (i1, i2, u1, u2) (work a b) ->
  exists st', step a b (i1, i2, u1, u2) st = Some st' /\ J st' /\ ext st st'
              /\ has_edge st' (i1, i2, u1, u2).
Proof.
  intros Hj Hw. apply work_In in Hw as (x1 & x2 & N1 & N2 & I1 & I2).
  assert (L1 : i1 < nlen a) by (apply nth_n_some_lt in N1; exact N1).
  assert (L2 : i2 < nlen b) by (apply nth_n_some_lt in N2; exact N2).
  assert (T1 : tto u1 < nlen a) by (destruct Hwa as [_ H]; exact (H x1 (nth_n_In _ _ _ N1) u1 I1)).
  assert (T2 : tto u2 < nlen b) by (destruct Hwb as [_ H]; exact (H x2 (nth_n_In _ _ _ N2) u2 I2)).
  cbn [step]. unfold isect_pair.
  destruct (N.leb_spec (bmax (tmin u1) (tmin u2)) (bmin (tmax u1) (tmax u2))) as [O|O].
  - rewrite !to_state_id_id.
    destruct (state_for_spec st i1 i2 Hj L1 L2) as (st1 & from & E1 & Hj1 & X1 & F1). rewrite E1.
    destruct (state_for_spec st1 (tto u1) (tto u2) Hj1 T1 T2) as (st2 & to & E2 & Hj2 & X2 & F2). rewrite E2.
    assert (F1' : In (i1, i2, from) (imap st2)) by (apply X2; exact F1).
    destruct (j_fin _ Hj2 _ _ _ F1') as (y & y1 & y2 & Ny & _ & _ & Fy).
    assert (Lf : from < nlen (ires st2)) by (apply nth_n_some_lt in Ny; exact Ny).
    unfold add_transition.
    destruct (upd_n_lt (ires st2) from (fun s => mkS (trans s ++ [mkT (bmax (tmin u1) (tmin u2)) (bmin (tmax u1) (tmax u2)) to]) (fin s)) Lf)
      as [R3 E3]. rewrite E3. apply upd_n_some in E3 as (_ & L3 & N3).
    set (e := mkT (bmax (tmin u1) (tmin u2)) (bmin (tmax u1) (tmax u2)) to) in *.
    exists (mkI R3 (imap st2)). split; [reflexivity|].
    assert (Xn : forall id x t, nth_n (ires st2) id = Some x -> In t (trans x) ->
                 exists x', nth_n R3 id = Some x' /\ In t (trans x')).
    { intros id x t Nx It. rewrite N3. destruct (N.eqb_spec id from) as [->|].
      - rewrite Nx. cbn [option_map]. eexists. split; [reflexivity|]. cbn [trans]. apply in_or_app. left; exact It.
      - exists x. auto. }
    split; [|split].
    + constructor; cbn [ires imap].
      * exact (j_keys _ Hj2).
      * exact (j_ids _ Hj2).
      * rewrite L3. exact (j_len _ Hj2).
      * exact (j_nodup _ Hj2).
      * intros k1 k2 id I. destruct (j_fin _ Hj2 _ _ _ I) as (x & z1 & z2 & Nx & Nz1 & Nz2 & F).
        rewrite N3. destruct (N.eqb_spec id from) as [->|].
        -- rewrite Nx. cbn [option_map]. eexists _, z1, z2. split; [reflexivity|]. cbn [fin]. auto.
        -- exists x, z1, z2. auto.
      * intros id x t Nx It. rewrite N3 in Nx. destruct (N.eqb_spec id from) as [->|Hne].
        -- rewrite Ny in Nx. cbn [option_map] in Nx. injection Nx as <-. cbn [trans] in It.
           apply in_app_or in It as [It|[<-|[]]].
           ++ exact (j_sound _ Hj2 _ _ _ Ny It).
           ++ exists i1, i2, x1, x2, u1, u2.
              split; [exact F1'|]. split; [exact N1|]. split; [exact N2|]. split; [exact I1|]. split; [exact I2|].
              split; [exact O|]. split; [exact F2|reflexivity].
        -- exact (j_sound _ Hj2 _ _ _ Nx It).
    + apply (ext_trans st st1); [exact X1|]. apply (ext_trans st1 st2); [exact X2|].
      split; cbn [ires imap]; [auto|exact Xn].
    + intros _. exists from, to. cbn [ires imap]. rewrite N3, N.eqb_refl, Ny. cbn [option_map].
      eexists. split; [exact F1'|]. split; [exact F2|]. split; [reflexivity|]. cbn [trans].
      apply in_or_app. right. left. reflexivity.
  - exists st. split; [reflexivity|]. split; [exact Hj|]. split; [apply ext_refl|].
    intro O'. unfold overlap in O'. lia.
Qed.

(* the whole fold *)
Lemma ofold_spec l : forall st done, J st -> (forall x, In x l -> In x (work a b)) ->
  (forall x, In x done -> has_edge st x) ->
  exists st', ofold (step a b) l st = Some st' /\ J st' /\ ext st st'
              /\ forall x, In x (l ++ done) -> has_edge st' x.
Proof.
  induction l as [|x l IH]; intros st done Hj Hw Hd.
  - exists st. split; [reflexivity|]. split; [exact Hj|]. split; [apply ext_refl|exact Hd].
  - destruct x as [[[i1 i2] u1] u2].
    destruct (step_spec st i1 i2 u1 u2 Hj) as (st1 & E1 & Hj1 & X1 & H1); [apply Hw; left; reflexivity|].
    cbn [ofold]. rewrite E1.
    destruct (IH st1 ((i1, i2, u1, u2) :: done) Hj1) as (st' & E' & Hj' & X' & H').
    + intros y I. apply Hw. right; exact I.
    + intros y [<-|I]; [exact H1|]. apply (has_edge_ext st st1); [exact X1|exact (Hd y I)].
    + exists st'. split; [exact E'|]. split; [exact Hj'|]. split; [exact (ext_trans _ _ _ X1 X')|].
      intros y I. apply H'. cbn [app] in I. destruct I as [<-|I]; [apply in_or_app; right; left; reflexivity|].
      apply in_app_or in I as [I|I]; apply in_or_app; [left; exact I|right; right; exact I].
Qed.

End Product.
