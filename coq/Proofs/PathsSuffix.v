(* C19: HasSuffixPath agrees with the suffix relation on component lists. *)
From PV Require Import Lib.Bytes Model.Paths Spec.PathDenote Proofs.PathsBase Proofs.PathsPrefix
  Proofs.PathsContains.
Open Scope N_scope.

Lemma list_suffixb_spec a b : list_suffixb a b = true <-> exists pre, b = pre ++ a.
Proof.
  unfold list_suffixb. rewrite list_prefixb_spec. split.
  - intros [c H]. exists (rev c). rewrite <- (rev_involutive b), H, rev_app_distr, rev_involutive. reflexivity.
  - intros [pre ->]. exists (rev pre). apply rev_app_distr.
Qed.

(* comparing the last len(a) elements of b with a *)
Lemma suffix_by_skipn a b :
  (if (length b <? length a)%nat then false else list_prefixb a (skipn (length b - length a) b))
  = list_suffixb a b.
Proof.
  apply Bool.eq_true_iff_eq. rewrite list_suffixb_spec.
  destruct (length b <? length a)%nat eqn:El.
  - apply Nat.ltb_lt in El. split; [discriminate|]. intros [pre ->]. rewrite app_length in El. lia.
  - apply Nat.ltb_ge in El. rewrite list_prefixb_spec. split.
    + intros [c H]. exists (firstn (length b - length a) b).
      assert (Hl : length (skipn (length b - length a) b) = length a) by (rewrite skipn_length; lia).
      rewrite H, app_length in Hl. destruct c; [|simpl in Hl; lia]. rewrite app_nil_r in H.
      pose proof (firstn_skipn (length b - length a) b) as F. rewrite H in F. symmetry. exact F.
    + intros [pre ->]. exists []. rewrite app_length, Nat.add_sub.
      rewrite skipn_app, Nat.sub_diag, skipn_all. rewrite app_nil_r. reflexivity.
Qed.

(* the text shortcut of HasSuffixPath *)
Lemma text_suffix_spec p suf :
  text_suffix p suf = true -> p = suf \/ exists a, p = a ++ slash :: suf /\ starts_slash suf = false.
Proof.
  unfold text_suffix.
  destruct (strip_prefix (rev suf) (rev p)) as [r|] eqn:E; [|discriminate].
  apply strip_prefix_some in E.
  assert (Hp : p = rev r ++ suf).
  { rewrite <- (rev_involutive p), E, rev_app_distr, rev_involutive. reflexivity. }
  destruct r as [|c r]; intro H.
  - left. exact Hp.
  - right. apply andb_true_iff in H as [H1 H2]. apply N.eqb_eq in H1. subst c. apply negb_true_iff in H2.
    exists (rev r). split; [|exact H2]. rewrite Hp. simpl. rewrite <- app_assoc. reflexivity.
Qed.

Theorem suffix_is_parts_suffix p suf :
  p <> [] -> suf <> [] -> components suf <> [] ->
  has_suffix_path p suf = path_suffixb suf p.
Proof.
  intros Hp Hs Hc. unfold has_suffix_path, path_suffixb.
  replace (is_empty p) with false by (destruct p; [contradiction|reflexivity]).
  replace (is_empty suf) with false by (destruct suf; [contradiction|reflexivity]). simpl orb. cbv iota.
  destruct (text_suffix p suf) eqn:Et.
  - symmetry. apply list_suffixb_spec. apply text_suffix_spec in Et as [->|(a & -> & Hr)].
    + exists []. reflexivity.
    + exists ((if rooted (a ++ slash :: suf) then [[]] else []) ++ names a).
      unfold components at 1. fold (names (a ++ slash :: suf)). rewrite names_app_slash.
      unfold components. change (rooted suf) with (starts_slash suf). rewrite Hr. simpl app.
      fold (names suf). rewrite app_assoc. reflexivity.
  - rewrite (is_dot_parts_components suf Hs).
    destruct (components suf) as [|x t] eqn:Ecs; [contradiction|]. rewrite <- Ecs.
    rewrite parts_prefix_eq. rewrite (parts_components suf Hs), Ecs. rewrite <- Ecs.
    rewrite (parts_components p Hp). destruct (components p) as [|y u] eqn:Ecp.
    + (* p has no component: Parts(p) = ["."] *)
      rewrite suffix_by_skipn.
      assert (H1 : list_suffixb (components suf) [dotstr] = false).
      { destruct (list_suffixb (components suf) [dotstr]) eqn:E; [|reflexivity]. exfalso.
        apply list_suffixb_spec in E as [pre E]. rewrite Ecs in E.
        destruct pre as [|z pre]; simpl in E.
        - injection E as E _. destruct (components_head suf x t Ecs) as [_ Hx]. congruence.
        - injection E as _ E. destruct pre; discriminate. }
      assert (H2 : list_suffixb (components suf) [] = false).
      { destruct (list_suffixb (components suf) []) eqn:E; [|reflexivity]. exfalso.
        apply list_suffixb_spec in E as [pre E]. rewrite Ecs in E. destruct pre; discriminate. }
      rewrite H1, H2. reflexivity.
    + apply suffix_by_skipn.
Qed.
