(* C19: HasSuffixPath agrees with the suffix relation on component lists when both
   paths are written canonically. *)
From PV Require Import Lib.Bytes Model.Paths Spec.PathDenote Proofs.PathsBase Proofs.PathsPrefix
  Proofs.PathsContains.
Open Scope N_scope.

Lemma list_suffixb_spec a b : list_suffixb a b = true <-> exists pre, b = pre ++ a.
Proof.
  unfold list_suffixb. rewrite list_prefixb_spec. split.
  - intros [c H]. exists (rev c). rewrite <- (rev_involutive b), H, rev_app_distr, rev_involutive. reflexivity.
  - intros [pre ->]. exists (rev pre). apply rev_app_distr.
Qed.

(* the text comparison of HasSuffixPath *)
Lemma suffix_text_spec p suf :
  has_suffix_path p suf = true <-> p = suf \/ exists a, p = a ++ slash :: suf.
Proof.
  unfold has_suffix_path. split.
  - destruct (strip_prefix (rev suf) (rev p)) as [r|] eqn:E; [|discriminate].
    apply strip_prefix_some in E.
    assert (Hp : p = rev r ++ suf).
    { rewrite <- (rev_involutive p), E, rev_app_distr, rev_involutive. reflexivity. }
    destruct r as [|c r]; intro H.
    + left. exact Hp.
    + right. apply N.eqb_eq in H. subst c. exists (rev r). rewrite Hp. simpl. rewrite <- app_assoc. reflexivity.
  - intros [->|[a ->]].
    + assert (E : strip_prefix (rev suf) (rev suf) = Some []) by (apply strip_prefix_some; symmetry; apply app_nil_r).
      rewrite E. reflexivity.
    + assert (E : strip_prefix (rev suf) (rev (a ++ slash :: suf)) = Some (slash :: rev a)).
      { apply strip_prefix_some. rewrite rev_app_distr. simpl. rewrite <- app_assoc. reflexivity. }
      rewrite E. reflexivity.
Qed.

(* what a canonical path looks like *)
Lemma canonical_cases p : canonical p ->
  (p = dotstr /\ components p = []) \/
  (p = [slash] /\ components p = [[]]) \/
  (p = join_slash (components p) /\ components p <> [] /\ components p <> [[]]
   /\ split_slash p = components p).
Proof.
  unfold canonical, canonical_text. intro H.
  destruct (components p) as [|x t] eqn:E.
  - left. split; [exact H|reflexivity].
  - destruct x as [|c x]; [destruct t as [|y t]|].
    + right; left. split; [exact H|reflexivity].
    + right; right. rewrite join_segs_join in H. repeat split; try discriminate; try exact H.
      rewrite H at 1. apply split_join; [discriminate|]. rewrite <- E. apply components_noslash.
    + right; right. rewrite join_segs_join in H. repeat split; try discriminate; try exact H.
      rewrite H at 1. apply split_join; [discriminate|]. rewrite <- E. apply components_noslash.
Qed.

Lemma components_tail_names p x t y : components p = x :: t -> In y t -> y <> [].
Proof.
  unfold components. fold (names p). intros H Hy.
  assert (In y (names p)).
  { destruct (rooted p); simpl in H.
    - inversion H; subst. exact Hy.
    - rewrite H. right. exact Hy. }
  apply name_nonempty in H0. tauto.
Qed.

Theorem suffix_is_parts_suffix p suf :
  canonical p -> canonical suf -> suf <> dotstr ->
  has_suffix_path p suf = path_suffixb suf p.
Proof.
  intros Hp Hs Hd. unfold path_suffixb.
  destruct (list_suffixb (components suf) (components p)) eqn:El.
  - (* component suffix -> text suffix *)
    apply suffix_text_spec. apply list_suffixb_spec in El as [pre El].
    destruct (canonical_cases suf Hs) as [[E _]|[[Es Ecs]|(Es & Hs1 & Hs2 & Hs3)]]; [contradiction| |].
    + (* suf = "/" *)
      rewrite Ecs in El. assert (pre = []) by (eapply (empty_component_first p pre [] []); rewrite app_nil_r; exact El).
      subst pre. simpl in El. left.
      destruct (canonical_cases p Hp) as [[_ E]|[[E _]|(_ & _ & E & _)]]; congruence.
    + destruct (canonical_cases p Hp) as [[_ E]|[[_ E]|(Ep & _ & _ & _)]].
      * rewrite E in El. destruct pre; simpl in El; [congruence|discriminate].
      * rewrite E in El. destruct pre as [|y pre]; simpl in El; [congruence|].
        injection El as _ El. destruct pre; simpl in El; [exfalso; apply Hs1; symmetry; exact El|discriminate].
      * rewrite Ep, El. destruct pre as [|y pre].
        -- left. simpl. symmetry. exact Es.
        -- right. exists (join_slash (y :: pre)). rewrite Es at 2.
           apply join_app; [discriminate|exact Hs1].
  - (* no component suffix -> no text suffix *)
    destruct (has_suffix_path p suf) eqn:Et; [|reflexivity]. exfalso.
    assert (Hno : forall pre, components p <> pre ++ components suf).
    { intros pre E. assert (list_suffixb (components suf) (components p) = true)
        by (apply list_suffixb_spec; eauto). congruence. }
    apply suffix_text_spec in Et as [->|[a Ea]].
    + apply (Hno []). reflexivity.
    + destruct (rooted suf) eqn:Rs.
      * (* p = a ++ "/" ++ "/..." is not canonical *)
        destruct suf as [|c s]; [discriminate|]. simpl in Rs. apply N.eqb_eq in Rs. subst c.
        assert (Hsp : split_slash p = split_slash a ++ [] :: split_slash s).
        { rewrite Ea, split_app_slash. reflexivity. }
        destruct (split_cons a) as (x & t & Exa). rewrite Exa in Hsp.
        destruct (canonical_cases p Hp) as [[E _]|[[E _]|(_ & _ & _ & E)]].
        -- rewrite E in Hsp. simpl in Hsp. destruct t; discriminate.
        -- rewrite E in Ea. destruct a as [|? [|? ?]]; discriminate.
        -- rewrite E in Hsp. simpl in Hsp.
           eapply (components_tail_names p x (t ++ [] :: split_slash s) []); [exact Hsp| |reflexivity].
           apply in_or_app. right. left. reflexivity.
      * apply (Hno ((if rooted p then [[]] else []) ++ names a)).
        unfold components at 1. fold (names p). rewrite Ea at 2. rewrite names_app_slash.
        unfold components. rewrite Rs. simpl app. fold (names suf). rewrite app_assoc. reflexivity.
Qed.
