(* Every fix of VaralignBlock changes blanks only and keeps the parts
   (Model/Varalign.v), for ALL inputs including continuation lines.
   Hypothesis on the input = the post-condition of VaralignSplitter.split:
   spaceBeforeValue and spaceAfterValue are blank, and an empty value has no
   spaceAfterValue (`wf`). *)
From PV Require Import Lib.Bytes Model.Tabs Model.Varalign Proofs.Tabs.
From Coq Require Import ZifyBool ZifyN ZifyNat.
Open Scope Z_scope.

Definition wf (p : parts) : Prop :=
  blankb (sbv p) = true /\ blankb (sav p) = true /\ (val p = [] -> sav p = []).
Definition good (i : info) : Prop := text i = parts_string (ps i) /\ wf (ps i).
Definition same_core (p p' : parts) : Prop :=
  lc p' = lc p /\ vo p' = vo p /\ val p' = val p /\ cont p' = cont p.
Definition preserved (i i' : info) : Prop := good i' /\ same_core (ps i) (ps i').

Lemma same_core_refl p : same_core p p.
Proof. repeat split. Qed.
Lemma same_core_trans a b c : same_core a b -> same_core b c -> same_core a c.
Proof. unfold same_core. intuition congruence. Qed.
Lemma preserved_refl i : good i -> preserved i i.
Proof. intro G. split; [exact G|apply same_core_refl]. Qed.
Lemma preserved_trans a b c : preserved a b -> preserved b c -> preserved a c.
Proof. intros [_ S1] [G S2]. split; [exact G|eapply same_core_trans; eauto]. Qed.

(* ---------- ReplaceAt ---------- *)

Lemma len_app a b : len (a ++ b) = len a + len b.
Proof. unfold len. rewrite app_length. lia. Qed.
Lemma len_nonneg a : 0 <= len a.
Proof. unfold len. lia. Qed.
Lemma to_nat_len a : Z.to_nat (len a) = length a.
Proof. unfold len. lia. Qed.

Lemma replace_at_ok a s from to t :
  replace_at (a ++ s) (len a) from to = Ok t ->
  exists r, s = from ++ r /\ t = a ++ to ++ r /\ from <> to.
Proof.
  unfold replace_at. destruct (str_eqb from to) eqn:E; [discriminate|].
  destruct (negb _); [discriminate|]. destruct (len a <? 0); [discriminate|].
  rewrite to_nat_len, skipn_app, firstn_app, skipn_all, firstn_all, Nat.sub_diag.
  simpl. rewrite app_nil_r.
  destruct (strip_prefix from s) as [r|] eqn:P; [|discriminate].
  apply strip_prefix_some in P. intro H; inversion H; subst.
  exists r. repeat split. intro Heq. subst. rewrite str_eqb_refl in E. discriminate.
Qed.

(* ReplaceAt succeeds on a consistent position when from <> to *)
Lemma replace_at_succeeds a from r to : from <> to ->
  replace_at (a ++ from ++ r) (len a) from to = Ok (a ++ to ++ r).
Proof.
  intro Hne. unfold replace_at.
  destruct (str_eqb from to) eqn:E; [apply str_eqb_spec in E; congruence|].
  assert (L : (len a <? len (a ++ from ++ r) + 1) = true).
  { rewrite len_app. pose proof (len_nonneg (from ++ r)). lia. }
  rewrite L. cbn [negb]. pose proof (len_nonneg a).
  destruct (Z.ltb_spec (len a) 0); [lia|].
  rewrite to_nat_len, skipn_app, firstn_app, skipn_all, firstn_all, Nat.sub_diag.
  simpl. rewrite app_nil_r.
  assert (P : strip_prefix from (from ++ r) = Some r) by (apply strip_prefix_some; reflexivity).
  rewrite P. reflexivity.
Qed.

(* ---------- the three shapes of replacement ---------- *)

Lemma replace_sbv i new f i' : good i -> blankb new = true ->
  do_replace i (spaceBeforeValueIndex (ps i)) (sbv (ps i)) new f (set_sbv (ps i) new) = Ok i' ->
  preserved i i' /\ fixedSBC i' = f /\ ps i' = set_sbv (ps i) new.
Proof.
  intros [T (B1 & B2 & B3)] Bn. unfold do_replace.
  destruct (replace_at _ _ _ _) as [t|] eqn:R; [|discriminate].
  cbn [bind]. intro H; inversion H; subst; clear H. cbn [ps fixedSBC].
  rewrite T in R. unfold parts_string in R.
  replace (spaceBeforeValueIndex (ps i)) with (len (lc (ps i) ++ vo (ps i))) in R
    by (unfold spaceBeforeValueIndex, varnameOpIndex; rewrite len_app; lia).
  rewrite (app_assoc (lc (ps i))) in R.
  apply replace_at_ok in R as (r & E1 & E2 & _).
  apply app_inv_head in E1. subst r.
  split; [|split; reflexivity]. split.
  - split; [cbn [text ps]|].
    + rewrite E2. unfold parts_string, set_sbv. cbn. rewrite <- app_assoc. reflexivity.
    + unfold wf, set_sbv. cbn. auto.
  - unfold same_core, set_sbv. cbn. auto.
Qed.

Lemma replace_sav i new f i' : good i -> blankb new = true -> val (ps i) <> [] ->
  do_replace i (spaceAfterValueIndex (ps i)) (sav (ps i)) new f (set_sav (ps i) new) = Ok i' ->
  preserved i i'.
Proof.
  intros [T (B1 & B2 & B3)] Bn Hv. unfold do_replace.
  destruct (replace_at _ _ _ _) as [t|] eqn:R; [|discriminate].
  cbn [bind]. intro H; inversion H; subst; clear H.
  rewrite T in R. unfold parts_string in R.
  replace (spaceAfterValueIndex (ps i))
    with (len (lc (ps i) ++ vo (ps i) ++ sbv (ps i) ++ val (ps i))) in R
    by (unfold spaceAfterValueIndex, valueIndex, spaceBeforeValueIndex, varnameOpIndex;
        rewrite !len_app; lia).
  replace (lc (ps i) ++ vo (ps i) ++ sbv (ps i) ++ val (ps i) ++ sav (ps i) ++ cont (ps i))
    with ((lc (ps i) ++ vo (ps i) ++ sbv (ps i) ++ val (ps i)) ++ sav (ps i) ++ cont (ps i)) in R
    by (rewrite <- !app_assoc; reflexivity).
  apply replace_at_ok in R as (r & E1 & E2 & _).
  apply app_inv_head in E1. subst r.
  split.
  - split; [cbn [text ps]|].
    + rewrite E2. unfold parts_string, set_sav. cbn. rewrite <- !app_assoc. reflexivity.
    + unfold wf, set_sav. cbn. repeat split; auto. intro; contradiction.
  - unfold same_core, set_sav. cbn. auto.
Qed.

Lemma replace_sav_bsl i new f i' : good i -> blankb new = true -> val (ps i) <> [] ->
  do_replace i (spaceAfterValueIndex (ps i)) (sav (ps i) ++ [BSL]) (new ++ [BSL]) f (set_sav (ps i) new) = Ok i' ->
  preserved i i'.
Proof.
  intros [T (B1 & B2 & B3)] Bn Hv. unfold do_replace.
  destruct (replace_at _ _ _ _) as [t|] eqn:R; [|discriminate].
  cbn [bind]. intro H; inversion H; subst; clear H.
  rewrite T in R. unfold parts_string in R.
  replace (spaceAfterValueIndex (ps i))
    with (len (lc (ps i) ++ vo (ps i) ++ sbv (ps i) ++ val (ps i))) in R
    by (unfold spaceAfterValueIndex, valueIndex, spaceBeforeValueIndex, varnameOpIndex;
        rewrite !len_app; lia).
  replace (lc (ps i) ++ vo (ps i) ++ sbv (ps i) ++ val (ps i) ++ sav (ps i) ++ cont (ps i))
    with ((lc (ps i) ++ vo (ps i) ++ sbv (ps i) ++ val (ps i)) ++ sav (ps i) ++ cont (ps i)) in R
    by (rewrite <- !app_assoc; reflexivity).
  apply replace_at_ok in R as (r & E1 & E2 & _).
  rewrite <- app_assoc in E1. apply app_inv_head in E1. simpl in E1.
  split.
  - split; [cbn [text ps]|].
    + rewrite E2. unfold parts_string, set_sav. cbn. rewrite E1. rewrite <- !app_assoc. reflexivity.
    + unfold wf, set_sav. cbn. repeat split; auto. intro; contradiction.
  - unfold same_core, set_sav. cbn. auto.
Qed.

(* ---------- the fixers, one by one ---------- *)

Lemma is_nil_true {A} (s : list A) : is_nil s = true <-> s = [].
Proof. destruct s; simpl; split; intro; congruence. Qed.
Lemma is_nil_false {A} (s : list A) : is_nil s = false <-> s <> [].
Proof. destruct s; simpl; split; intro; congruence. Qed.

Lemma lift_ok {A} (o : option A) a : lift o = Ok a -> o = Some a.
Proof. destruct o; simpl; intro H; inversion H; reflexivity. Qed.

Ltac bind_ok H x E :=
  match type of H with
  | bind ?m _ = Ok _ => destruct m as [x|] eqn:E; [cbn [bind] in H | discriminate H]
  end.

Ltac if_ok H E :=
  match type of H with (if ?b then _ else _) = _ => destruct b eqn:E end.

Lemma alignValueSingle_preserved i w i' : good i -> alignValueSingle i w = Ok i' -> preserved i i'.
Proof.
  intros G H. unfold alignValueSingle in H. bind_ok H ns E. apply lift_ok in E.
  destruct (is_nil ns && isCanonicalInitial (ps i) w); [inversion H; subst; apply preserved_refl, G|].
  cbv zeta in H.
  if_ok H BK; [inversion H; subst; apply preserved_refl, G|].
  if_ok H EQ; [inversion H; subst; apply preserved_refl, G|].
  eapply replace_sbv in H; [apply H|exact G|].
  match goal with |- blankb (if ?b then _ else _) = true => destruct b end; [reflexivity|].
  destruct (is_nil ns); [reflexivity|]. eapply alignmentToWidths_blank, E.
Qed.

Lemma alignValue_preserved i w i' : good i -> alignValue i w = Ok i' -> preserved i i'.
Proof.
  intros G H. unfold alignValue in H. bind_ok H ns E. apply lift_ok in E.
  eapply replace_sbv in H; [apply H|exact G|]. eapply alignmentToWidths_blank, E.
Qed.

Lemma alignValueInitial_preserved i w i' : good i -> alignValueInitial i w = Ok i' -> preserved i i'.
Proof.
  intros G H. unfold alignValueInitial in H.
  destruct (_ && _); [inversion H; subst; apply preserved_refl, G|].
  bind_ok H ns E. destruct (str_eqb _ _); [inversion H; subst; apply preserved_refl, G|].
  eapply alignValue_preserved; eauto.
Qed.

Lemma replaceSBCS_preserved i col i' : good i ->
  replaceSpaceBeforeContinuationSilently i col = Ok i' -> preserved i i'.
Proof.
  intros G H. unfold replaceSpaceBeforeContinuationSilently in H.
  destruct (is_nil (val (ps i))) eqn:V; [inversion H; subst; apply preserved_refl, G|].
  apply is_nil_false in V.
  destruct (str_eqb (spaceBeforeContinuation (ps i)) [SP]); [inversion H; subst; apply preserved_refl, G|].
  bind_ok H ns E. apply lift_ok in E.
  destruct (str_eqb _ _); [inversion H; subst; apply preserved_refl, G|].
  bind_ok H idx EI. unfold spaceBeforeContinuationIndex in EI.
  destruct (negb _); [discriminate|]. destruct (is_nil (val (ps i))); [discriminate|].
  inversion EI; subst idx; clear EI.
  unfold spaceBeforeContinuation, setSpaceBeforeContinuation in H.
  destruct (is_nil (val (ps i))) eqn:V2; [apply is_nil_true in V2; contradiction|].
  eapply replace_sav_bsl in H; eauto.
  destruct (is_nil ns); [reflexivity|]. eapply alignmentToWidths_blank, E.
Qed.

Lemma alignFollow_preserved i ns i' : good i -> blankb ns = true ->
  alignFollow i ns = Ok i' -> preserved i i'.
Proof.
  intros G B H. unfold alignFollow in H.
  destruct (isEmpty (ps i)); [inversion H; subst; apply preserved_refl, G|].
  bind_ok H i1 E. eapply replace_sbv in E as (P1 & _ & _); eauto.
  destruct (isContinuation (ps i1)).
  - eapply preserved_trans; [exact P1|]. eapply replaceSBCS_preserved; [apply P1|exact H].
  - inversion H; subst. exact P1.
Qed.

Lemma alignValueMultiFollow_preserved i w i' : good i ->
  alignValueMultiFollow i w = Ok i' -> preserved i i'.
Proof.
  intros G H. unfold alignValueMultiFollow in H. bind_ok H ns E. apply lift_ok in E.
  destruct (str_eqb _ _); [inversion H; subst; apply preserved_refl, G|].
  eapply alignFollow_preserved; eauto. eapply indent_blank, E.
Qed.

Lemma alignContinuation_preserved i vc rm i' : good i ->
  alignContinuation i vc rm = Ok i' -> preserved i i'.
Proof.
  intros G H. unfold alignContinuation in H.
  destruct (negb (isContinuation (ps i))); [inversion H; subst; apply preserved_refl, G|].
  destruct (str_eqb (spaceBeforeContinuation (ps i)) [SP]); [inversion H; subst; apply preserved_refl, G|].
  destruct (_ && _); [inversion H; subst; apply preserved_refl, G|].
  destruct (_ || _ || _); [inversion H; subst; apply preserved_refl, G|].
  bind_ok H ns E.
  assert (B : blankb ns = true).
  { destruct (_ || _); [inversion E; reflexivity|].
    destruct (isTooLongFor _ _); [inversion E; reflexivity|].
    apply lift_ok in E. eapply alignmentToWidths_blank, E. }
  clear E. pose proof G as [T (B1 & B2 & B3)].
  unfold spaceBeforeContinuation, setSpaceBeforeContinuation in H.
  destruct (is_nil (val (ps i))) eqn:V.
  - apply is_nil_true in V. pose proof (B3 V) as S.
    replace (continuationIndex (ps i) - len (sbv (ps i))) with (spaceBeforeValueIndex (ps i)) in H
      by (unfold continuationIndex, spaceAfterValueIndex, valueIndex; rewrite V, S; unfold len; simpl; lia).
    eapply replace_sbv in H; [apply H|exact G|exact B].
  - apply is_nil_false in V.
    replace (continuationIndex (ps i) - len (sav (ps i))) with (spaceAfterValueIndex (ps i)) in H
      by (unfold continuationIndex; lia).
    exact (replace_sav i ns _ i' G B V H).
Qed.

Lemma realignDetails_preserved i first w d me i' d' : good i ->
  realignDetails i first w d me = Ok (i', d') -> preserved i i'.
Proof.
  intros G H. unfold realignDetails in H.
  destruct (first && isContinuation (ps i)).
  { bind_ok H x E. inversion H; subst. eapply alignValueInitial_preserved; eauto. }
  destruct me.
  { bind_ok H dd E0. bind_ok H x E. inversion H; subst. eapply alignValueMultiFollow_preserved; eauto. }
  destruct (negb first).
  { bind_ok H dd E0. bind_ok H x E. inversion H; subst. eapply alignValueMultiFollow_preserved; eauto. }
  bind_ok H x E. inversion H; subst. eapply alignValueSingle_preserved; eauto.
Qed.

Lemma realign_loop_preserved l : forall first w d me rm l',
  Forall good l -> realign_loop l first w d me rm = Ok l' -> Forall2 preserved l l'.
Proof.
  induction l as [|i l IH]; intros first w d me rm l' G H; simpl in H.
  - inversion H; constructor.
  - inversion G as [|? ? Gi Gl]; subst.
    bind_ok H r E1. bind_ok H i2 E2. bind_ok H rest E3. inversion H; subst; clear H.
    assert (P1 : preserved i (fst r)).
    { destruct (_ || _).
      - destruct r as [a b]. eapply realignDetails_preserved; eauto.
      - inversion E1; subst. apply preserved_refl, Gi. }
    assert (P2 : preserved i i2).
    { destruct (negb (fixedSBC (fst r))).
      - eapply preserved_trans; [exact P1|]. eapply alignContinuation_preserved; [apply P1|exact E2].
      - inversion E2; subst. exact P1. }
    constructor; [exact P2|]. eapply IH; eauto.
Qed.

Lemma realign_preserved l w l' : Forall good l -> realign l w = Ok l' -> Forall2 preserved l l'.
Proof.
  intros G H. unfold realign in H. destruct l as [|i0 l0]; [discriminate|].
  bind_ok H rm E. eapply realign_loop_preserved; eauto.
Qed.

Lemma map_res_Forall2 {A B} (f : A -> res B) (R : A -> B -> Prop) l : forall l',
  (forall a b, In a l -> f a = Ok b -> R a b) -> map_res f l = Ok l' -> Forall2 R l l'.
Proof.
  induction l as [|a l IH]; intros l' HR H; simpl in H.
  - inversion H; constructor.
  - bind_ok H b E1. bind_ok H r E2. inversion H; subst.
    constructor; [apply HR; [left; reflexivity|exact E1]|].
    apply IH; [|reflexivity]. intros; apply HR; [right|]; assumption.
Qed.

(* what an observer of the file sees *)
Definition line_rel (i i' : info) : Prop :=
  strip_blanks (text i') = strip_blanks (text i) /\ same_core (ps i) (ps i') /\
  (text i = parts_string (ps i) -> text i' = parts_string (ps i')).

Lemma line_rel_refl i : line_rel i i.
Proof. repeat split; auto. Qed.

Lemma strip_parts p : wf p ->
  strip_blanks (parts_string p) = strip_blanks (lc p) ++ strip_blanks (vo p) ++ strip_blanks (val p) ++ strip_blanks (cont p).
Proof.
  intros (B1 & B2 & _). unfold parts_string. rewrite !strip_blanks_app.
  rewrite (strip_blanks_blank _ B1), (strip_blanks_blank _ B2). reflexivity.
Qed.

Lemma preserved_line_rel i i' : good i -> preserved i i' -> line_rel i i'.
Proof.
  intros [T W] [[T' W'] (S1 & S2 & S3 & S4)]. split; [|split].
  - rewrite T, T', !strip_parts by assumption. rewrite S1, S2, S3, S4. reflexivity.
  - repeat split; assumption.
  - intro; exact T'.
Qed.

Lemma Forall2_impl {A B} (R S : A -> B -> Prop) l l' :
  (forall a b, In a l -> R a b -> S a b) -> Forall2 R l l' -> Forall2 S l l'.
Proof.
  intros H F. induction F; constructor.
  - apply H; [left; reflexivity|assumption].
  - apply IHF. intros; apply H; [right|]; assumption.
Qed.

Lemma Forall2_refl {A} (R : A -> A -> Prop) l : (forall a, R a a) -> Forall2 R l l.
Proof. intro H. induction l; constructor; auto. Qed.

Definition wf_block (ms : list (list info)) : Prop := Forall (Forall (fun i => wf (ps i))) ms.

(* fix_changes_blanks_only + parts_preserved for VaralignBlock.Finish, all inputs *)
Theorem finish_blanks_only ms skip ms' : wf_block ms ->
  finish ms skip = Ok ms' -> Forall2 (Forall2 line_rel) ms ms'.
Proof.
  intros W H. unfold finish in H.
  if_ok H E0.
  { inversion H; subst. apply Forall2_refl. intro l. apply Forall2_refl, line_rel_refl. }
  if_ok H EX.
  { inversion H; subst. apply Forall2_refl. intro l. apply Forall2_refl, line_rel_refl. }
  if_ok H ENL; [discriminate|].
  bind_ok H firsts E.
  (* every line is consistent, since the check above passed *)
  assert (C : Forall (Forall good) ms).
  { apply Forall_forall. intros l Hl. apply Forall_forall. intros i Hi. split.
    - destruct (str_eqb (text i) (parts_string (ps i))) eqn:Q; [apply str_eqb_spec, Q|].
      exfalso. assert (existsb (existsb (fun i => negb (str_eqb (text i) (parts_string (ps i))))) ms = true).
      { apply existsb_exists. exists l. split; [exact Hl|]. apply existsb_exists. exists i. split; [exact Hi|].
        rewrite Q. reflexivity. }
      congruence.
    - unfold wf_block in W. rewrite Forall_forall in W. specialize (W l Hl).
      rewrite Forall_forall in W. apply W, Hi. }
  eapply map_res_Forall2; [|exact H].
  intros l l' Hl R. rewrite Forall_forall in C. specialize (C l Hl).
  apply realign_preserved in R; [|exact C].
  eapply Forall2_impl; [|exact R]. intros a b Ha P. apply preserved_line_rel; [|exact P].
  rewrite Forall_forall in C. apply C, Ha.
Qed.

(* the number of lines never changes *)
Lemma Forall2_length {A B} (R : A -> B -> Prop) l l' : Forall2 R l l' -> length l = length l'.
Proof. induction 1; simpl; congruence. Qed.
