(* The regenerated audit list (Gen/MapRangeAudit.v) is fully classified. *)
From PV Require Import Lib.Bytes Gen.MapRangeAudit.
Import ListNotations.
Open Scope N_scope.

Definition class_known (c : N) : bool := (1 <=? c) && (c <=? 5).
Definition count_class (c : N) (l : list N) : N := N.of_nat (length (filter (N.eqb c) l)).

Lemma audit_classified :
  forallb class_known maprange_classes = true
  /\ N.of_nat (length maprange_classes) = maprange_count
  /\ maprange_unresolved = 0
  /\ count_class 5 maprange_classes = 0.
Proof. vm_compute. repeat split. Qed.
