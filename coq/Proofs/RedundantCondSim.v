(* C17: the verdicts of a program with conditional sections are verdicts of the
   same program without the sections, hence as sound as those. *)
From PV Require Import Lib.Bytes Model.Redundant Model.RedundantCond Spec.MakeEval Spec.VerdictSound
  Proofs.RedundantTotal Proofs.RedundantSound Proofs.RedundantCond.

(* s: the state of the analysis without sections, sc: with sections *)
Definition sim_info (i ic : varinfo) : Prop :=
  vi_paths i = vi_paths ic /\ vi_last i = vi_last ic /\
  v_writes (vi_var i) = v_writes (vi_var ic) /\ v_refs (vi_var i) = v_refs (vi_var ic) /\
  v_cond (vi_var i) = false /\
  (v_cond (vi_var ic) = false -> vi_var i = vi_var ic).

Definition sim (s sc : scope) : Prop :=
  s_path s = s_path sc /\ s_names s = s_names sc /\ forall x, sim_info (s_vars s x) (s_vars sc x).

Lemma sim_refl_new : sim new_scope new_scope.
Proof. repeat split; reflexivity. Qed.

Lemma var_update_constant_writes v a : v_writes (var_update_constant v a) = v_writes v.
Proof.
  unfold var_update_constant. destruct (cstate_eqb (v_state v) C3); [reflexivity|].
  destruct (v_cond v); [reflexivity|].
  destruct (a_op a); simpl; try reflexivity;
    repeat match goal with |- context [if ?b then _ else _] => destruct b end; simpl; reflexivity.
Qed.

Lemma var_update_constant_refs v a : v_refs (var_update_constant v a) = v_refs v.
Proof.
  unfold var_update_constant. destruct (cstate_eqb (v_state v) C3); [reflexivity|].
  destruct (v_cond v); [reflexivity|].
  destruct (a_op a); simpl; try reflexivity;
    repeat match goal with |- context [if ?b then _ else _] => destruct b end; simpl; reflexivity.
Qed.

Lemma var_write_writes_gen v i a c : v_writes (var_write v i a c) = v_writes v ++ [(i, a)].
Proof. unfold var_write. rewrite var_update_constant_writes. reflexivity. Qed.

Lemma var_write_refs_gen v i a c : v_refs (var_write v i a c) = set_add_all (v_refs v) (uses (a_val a)).
Proof. unfold var_write. rewrite var_update_constant_refs. reflexivity. Qed.

Definition written (s : scope) (i : nat) (a : assign) (d : bool) : scope :=
  mkScope (upd (s_vars s) (a_var a)
             (mkInfo (var_write (vi_var (s_vars s (a_var a))) i a d)
                     (vi_paths (s_vars s (a_var a)) ++ [s_path s]) AWrite))
          (s_path s) (set_add (s_names s) (a_var a)).

Lemma sim_written s sc i a c : sim s sc -> sim (written s i a false) (written sc i a c).
Proof.
  intros (Hp & Hn & Hv). unfold written. split; [exact Hp|]. split; [simpl; rewrite Hn; reflexivity|].
  intro x. simpl. unfold upd. destruct (str_eqb (a_var a) x); [|apply Hv].
  destruct (Hv (a_var a)) as (H1 & H2 & H3 & H4 & H5 & H6).
  unfold sim_info; simpl. rewrite !var_write_writes_gen, !var_write_refs_gen, !var_write_cond.
  rewrite H1, H3, H4, H5, Hp. repeat split; try reflexivity.
  intro Hc. apply Bool.orb_false_iff in Hc as [Hc1 Hc2]. subst c. rewrite (H6 Hc1). reflexivity.
Qed.

Lemma sim_read_one s sc w : sim s sc -> sim (read_one s w) (read_one sc w).
Proof.
  intros (Hp & Hn & Hv). unfold read_one. split; [exact Hp|]. split; [simpl; rewrite Hn; reflexivity|].
  intro x. simpl. unfold upd. destruct (str_eqb w x); [|apply Hv].
  destruct (Hv w) as (H1 & H2 & H3 & H4 & H5 & H6).
  unfold sim_info, var_read; simpl. rewrite H1, H3, H4, Hp. repeat split; try reflexivity; [exact H5|].
  intro Hc. rewrite (H6 Hc). reflexivity.
Qed.

Lemma sim_fold_read ws : forall s sc, sim s sc -> sim (fold_left read_one ws s) (fold_left read_one ws sc).
Proof. induction ws as [|w ws IH]; intros s sc H; simpl; [exact H|]. apply IH. apply sim_read_one; exact H. Qed.

Lemma sim_refs s sc : sim s sc -> forall w, refs_of s w = refs_of sc w.
Proof. intros (_ & _ & Hv) w. unfold refs_of. destruct (Hv w) as (_ & _ & _ & H & _). exact H. Qed.

Lemma flat_map_ext' {A B} (f g : A -> list B) l : (forall x, f x = g x) -> flat_map f l = flat_map g l.
Proof. intro H. induction l; simpl; [reflexivity|]. rewrite H, IHl. reflexivity. Qed.

Lemma closure_ext s sc : (forall w, refs_of s w = refs_of sc w) -> forall n ws, closure n s ws = closure n sc ws.
Proof.
  intro H.
  assert (R : forall n ws, closure_rounds n s ws = closure_rounds n sc ws).
  { induction n; intro ws; simpl; [reflexivity|]. unfold closure_step. rewrite (flat_map_ext' _ _ ws H). apply IHn. }
  intros n ws. unfold closure. rewrite R. rewrite (flat_map_ext' _ _ _ H). reflexivity.
Qed.

Lemma sim_handle_expr s sc a s' sc' :
  sim s sc -> handle_expr s a = Ok s' -> handle_expr sc a = Ok sc' -> sim s' sc'.
Proof.
  intro H. unfold handle_expr.
  pose proof (sim_fold_read (uses (a_val a)) s sc H) as H1.
  assert (Hn : s_names (fold_left read_one (uses (a_val a)) s) = s_names (fold_left read_one (uses (a_val a)) sc)) by apply H1.
  rewrite Hn. rewrite (closure_ext _ _ (sim_refs _ _ H1)).
  destruct (a_op a);
    try (intros E1 E2; inversion E1; inversion E2; subst; exact H1);
    (destruct (closure _ _ _); try discriminate; intros E1 E2; inversion E1; inversion E2; subst;
     apply sim_fold_read; exact H1).
Qed.

Lemma sim_update_include_path s sc l s' sc' :
  sim s sc -> update_include_path s l = Ok s' -> update_include_path sc l = Ok sc' -> sim s' sc'.
Proof.
  intros (Hp & Hn & Hv). unfold update_include_path. rewrite Hp.
  destruct (l_lineno l =? 1)%N.
  - intros E1 E2; inversion E1; inversion E2; subst. repeat split; simpl; try assumption; apply Hv.
  - destruct (ipath_pop_until (s_path sc) (l_file l)); try discriminate.
    intros E1 E2; inversion E1; inversion E2; subst. repeat split; simpl; try assumption; apply Hv.
Qed.

(* the verdicts of handleVarassign depend on the entry of the variable and the include path only *)
Lemma handle_varassign_verdicts_ext s sc i a d s' vs sc' vsc :
  s_vars s (a_var a) = s_vars sc (a_var a) -> s_path s = s_path sc ->
  handle_varassign s i a d = Ok (s', vs) -> handle_varassign sc i a d = Ok (sc', vsc) -> vs = vsc.
Proof.
  intros Hi Hp. unfold handle_varassign. rewrite Hi, Hp.
  repeat match goal with
         | |- context [match ?x with _ => _ end] => destruct x
         end;
    intros E1 E2; inversion E1; inversion E2; try reflexivity; try discriminate.
Qed.

Lemma varinfo_eq (i ic : varinfo) :
  vi_var i = vi_var ic -> vi_paths i = vi_paths ic -> vi_last i = vi_last ic -> i = ic.
Proof. destruct i, ic; simpl; intros; subst; reflexivity. Qed.

Lemma sim_handle_varassign s sc i a c s' vs sc' vsc :
  sim s sc -> handle_varassign s i a false = Ok (s', vs) -> handle_varassign sc i a c = Ok (sc', vsc) ->
  sim s' sc' /\ (vsc = [] \/ vsc = vs).
Proof.
  intros H E1 E2. split.
  - rewrite (handle_varassign_shape _ _ _ _ _ _ E1), (handle_varassign_shape _ _ _ _ _ _ E2).
    apply (sim_written s sc i a c H).
  - destruct c; [left; exact (handle_varassign_cond _ _ _ _ _ E2)|].
    destruct (is_cond sc (a_var a)) eqn:Hc; [left; exact (handle_varassign_sticky _ _ _ _ _ _ Hc E2)|].
    right. symmetry. destruct H as (Hp & _ & Hv). destruct (Hv (a_var a)) as (H1 & H2 & _ & _ & _ & H6).
    eapply handle_varassign_verdicts_ext; [| exact Hp | exact E1 | exact E2].
    apply varinfo_eq; [apply H6; exact Hc | exact H1 | exact H2].
Qed.

Lemma sim_check_line s sc i c l s' vs sc' vsc :
  sim s sc -> check_line s i l = Ok (s', vs) -> check_line_c sc i c l = Ok (sc', vsc) ->
  sim s' sc' /\ (vsc = [] \/ vsc = vs).
Proof.
  intro H. unfold check_line, check_line_c.
  destruct (update_include_path s l) as [s1| |] eqn:U1; try discriminate.
  destruct (update_include_path sc l) as [sc1| |] eqn:U2; try discriminate.
  pose proof (sim_update_include_path _ _ _ _ _ H U1 U2) as H1.
  destruct (l_body l) as [a|].
  - destruct (handle_varassign s1 i a false) as [[s2 vs2]| |] eqn:V1; try discriminate.
    destruct (handle_varassign sc1 i a c) as [[sc2 vsc2]| |] eqn:V2; try discriminate.
    destruct (sim_handle_varassign _ _ _ _ _ _ _ _ _ H1 V1 V2) as [H2 Hvs].
    destruct (handle_expr s2 a) as [s3| |] eqn:X1; try discriminate.
    destruct (handle_expr sc2 a) as [sc3| |] eqn:X2; try discriminate.
    intros E1 E2; inversion E1; inversion E2; subst. split; [|exact Hvs].
    eapply sim_handle_expr; eassumption.
  - intros E1 E2; inversion E1; inversion E2; subst. split; [exact H1 | left; reflexivity].
Qed.

Lemma sim_check_from : forall p s sc i vs per,
  sim s sc -> check_from s i (map snd p) = Ok vs -> check_from_c sc i p = Ok per ->
  forall vd, In vd (concat per) -> In vd vs.
Proof.
  induction p as [|[c l] p IH]; intros s sc i vs per H E1 E2 vd Hin; simpl in *.
  - inversion E2; subst. destruct Hin.
  - destruct (check_line s i l) as [[s' v1]| |] eqn:L1; try discriminate.
    destruct (check_line_c sc i c l) as [[sc' vc1]| |] eqn:L2; try discriminate.
    destruct (check_from s' (S i) (map snd p)) as [r1| |] eqn:R1; try discriminate.
    destruct (check_from_c sc' (S i) p) as [rc| |] eqn:R2; try discriminate.
    inversion E1; inversion E2; subst. simpl in Hin.
    destruct (sim_check_line _ _ _ _ _ _ _ _ _ H L1 L2) as [H' Hvs].
    apply in_app_iff in Hin. apply in_app_iff. destruct Hin as [Hin|Hin].
    + destruct Hvs as [-> | ->]; [destruct Hin | left; exact Hin].
    + right. eapply IH; eassumption.
Qed.

(* every verdict given with conditional sections is also given without them *)
Theorem cond_verdicts_subset (p : cprogram) (vs vsc : list verdict) :
  check (map snd p) = Ok vs -> check_c p = Ok vsc -> incl vsc vs.
Proof.
  unfold check, check_c, check_lines_c. intros E1 E2.
  destruct (check_from_c new_scope 0 p) as [per| |] eqn:E; try discriminate.
  inversion E2; subst. intros vd Hin. eapply sim_check_from; [apply sim_refl_new | exact E1 | exact E | exact Hin].
Qed.

(* hence they are as sound: the partial theorem with conditional sections.
   (A section ".if <condition without variables>" that make does not take is
   outside this statement: deletable speaks about the lines make reads.) *)
Theorem verdict_sound_cond (p : cprogram) (vs vsc : list verdict) (vd : verdict) :
  wf_program (map snd p) = true -> check (map snd p) = Ok vs -> check_c p = Ok vsc -> In vd vsc ->
  guard (map snd p) vd = true -> deletable (map snd p) (vd_flagged vd).
Proof.
  intros Hw E1 E2 Hin Hg.
  apply (verdict_sound_partial (map snd p) vs vd Hw E1); [|exact Hg].
  exact (cond_verdicts_subset p vs vsc E1 E2 vd Hin).
Qed.

(* ----- the run without sections fails exactly when the run with sections does ----- *)

Lemma handle_varassign_not_panic s i a d : handle_varassign s i a d <> Panic.
Proof.
  unfold handle_varassign, constant_value.
  destruct (is_constant (vi_var (s_vars s (a_var a))));
    repeat (cbv iota beta;
            match goal with
            | |- context [match ?x with _ => _ end] => destruct x
            end);
    discriminate.
Qed.

Lemma handle_varassign_ok s i a d : exists s' vs, handle_varassign s i a d = Ok (s', vs).
Proof.
  destruct (handle_varassign s i a d) as [[s' vs]| |] eqn:E.
  - exists s', vs; reflexivity.
  - exfalso; exact (handle_varassign_not_panic _ _ _ _ E).
  - exfalso; exact (handle_varassign_total _ _ _ _ E).
Qed.

Lemma sim_handle_expr_ok s sc a sc' :
  sim s sc -> handle_expr sc a = Ok sc' -> exists s', handle_expr s a = Ok s'.
Proof.
  intro H. unfold handle_expr.
  pose proof (sim_fold_read (uses (a_val a)) s sc H) as H1.
  assert (Hn : s_names (fold_left read_one (uses (a_val a)) s) = s_names (fold_left read_one (uses (a_val a)) sc)) by apply H1.
  rewrite Hn. rewrite (closure_ext _ _ (sim_refs _ _ H1)).
  destruct (a_op a); try (intros _; eexists; reflexivity);
    (destruct (closure _ _ _); try discriminate; intros _; eexists; reflexivity).
Qed.

Lemma sim_check_line_ok s sc i c l sc' vsc :
  sim s sc -> check_line_c sc i c l = Ok (sc', vsc) -> exists s' vs, check_line s i l = Ok (s', vs).
Proof.
  intros H. unfold check_line, check_line_c.
  assert (Hp : s_path s = s_path sc) by apply H.
  destruct (update_include_path sc l) as [sc1| |] eqn:U2; try discriminate.
  assert (exists s1, update_include_path s l = Ok s1) as [s1 U1].
  { revert U2. unfold update_include_path. rewrite Hp. destruct (l_lineno l =? 1)%N; [eexists; reflexivity|].
    destruct (ipath_pop_until (s_path sc) (l_file l)); try discriminate. eexists; reflexivity. }
  rewrite U1. pose proof (sim_update_include_path _ _ _ _ _ H U1 U2) as H1.
  destruct (l_body l) as [a|]; [|intros _; eexists; eexists; reflexivity].
  destruct (handle_varassign sc1 i a c) as [[sc2 vsc2]| |] eqn:V2; try discriminate.
  destruct (handle_varassign_ok s1 i a false) as (s2 & vs2 & V1). rewrite V1.
  destruct (sim_handle_varassign _ _ _ _ _ _ _ _ _ H1 V1 V2) as [H2 _].
  destruct (handle_expr sc2 a) as [sc3| |] eqn:X2; try discriminate.
  destruct (sim_handle_expr_ok _ _ _ _ H2 X2) as [s3 X1]. rewrite X1.
  intros _. eexists; eexists; reflexivity.
Qed.

Lemma sim_check_from_ok : forall p s sc i per,
  sim s sc -> check_from_c sc i p = Ok per -> exists vs, check_from s i (map snd p) = Ok vs.
Proof.
  induction p as [|[c l] p IH]; intros s sc i per H E; simpl in *; [eexists; reflexivity|].
  destruct (check_line_c sc i c l) as [[sc' vc1]| |] eqn:L2; try discriminate.
  destruct (check_from_c sc' (S i) p) as [rc| |] eqn:R2; try discriminate.
  destruct (sim_check_line_ok _ _ _ _ _ _ _ H L2) as (s' & v1 & L1). rewrite L1.
  destruct (sim_check_line _ _ _ _ _ _ _ _ _ H L1 L2) as [H' _].
  destruct (IH _ _ _ _ H' R2) as [r1 R1]. rewrite R1. eexists; reflexivity.
Qed.

Theorem cond_verdicts_subset_total (p : cprogram) (vsc : list verdict) :
  check_c p = Ok vsc -> exists vs, check (map snd p) = Ok vs /\ incl vsc vs.
Proof.
  intro E2. assert (exists vs, check (map snd p) = Ok vs) as [vs E1].
  { revert E2. unfold check, check_c, check_lines_c.
    destruct (check_from_c new_scope 0 p) as [per| |] eqn:E; try discriminate. intros _.
    eapply sim_check_from_ok; [apply sim_refl_new | exact E]. }
  exists vs. split; [exact E1 | exact (cond_verdicts_subset p vs vsc E1 E2)].
Qed.

Theorem verdict_sound_cond_total (p : cprogram) (vsc : list verdict) (vd : verdict) :
  wf_program (map snd p) = true -> check_c p = Ok vsc -> In vd vsc ->
  guard (map snd p) vd = true -> deletable (map snd p) (vd_flagged vd).
Proof.
  intros Hw E2 Hin Hg. destruct (cond_verdicts_subset_total p vsc E2) as (vs & E1 & _).
  exact (verdict_sound_cond p vs vsc vd Hw E1 E2 Hin Hg).
Qed.
