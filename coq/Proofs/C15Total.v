(* C15: the compact fixers never panic on the inputs their callers give them. *)
From PV Require Import Lib.Bytes Model.Tabs Model.Varalign Model.LayoutFix Proofs.LayoutFix.
From Coq Require Import ZifyBool ZifyN ZifyNat Lia.
Open Scope Z_scope.

Lemma replace_at_0_total s from to : str_eqb from to = false -> has_prefix from s = true ->
  exists t, replace_at s 0 from to = Ok t.
Proof.
  intros NE HP. unfold replace_at. rewrite NE.
  assert (L : (0 <? len s + 1) = true) by (unfold len; lia).
  rewrite L. cbn [negb]. change (0 <? 0) with false. change (Z.to_nat 0) with 0%nat. cbn [skipn firstn app].
  unfold has_prefix in HP. destruct (strip_prefix from s) as [r|]; [|discriminate]. eexists; reflexivity.
Qed.

Theorem directive_total sn raw0 ind d : 0 <= d ->
  exists r, checkDirectiveIndentation sn raw0 ind d = Ok r.
Proof.
  intro Hd. unfold checkDirectiveIndentation. cbv zeta. destruct sn; [eexists; reflexivity|].
  destruct (Z.ltb_spec d 0); [lia|].
  destruct (str_eqb ind (spaces d)) eqn:E; [eexists; reflexivity|].
  destruct (has_prefix (DOT :: ind) raw0) eqn:HP; [|eexists; reflexivity].
  apply replace_at_0_total; [|exact HP].
  destruct (str_eqb (DOT :: ind) (DOT :: spaces d)) eqn:E2; [|reflexivity].
  apply str_eqb_spec in E2. inversion E2 as [E3]. rewrite E3 in E. rewrite str_eqb_refl in E. discriminate.
Qed.

Lemma map_res_total {A B} (f : A -> res B) l :
  (forall a, exists b, f a = Ok b) -> exists l', map_res f l = Ok l'.
Proof.
  intro H. induction l as [|a l [l' IH]]; [eexists; reflexivity|].
  destruct (H a) as [b Hb]. cbn [map_res]. rewrite Hb. cbn [bind]. rewrite IH. cbn [bind]. eexists; reflexivity.
Qed.

Theorem shell_total r0 rs : has_prefix [TAB; TAB] r0 = true ->
  exists raws', shellTabs true (r0 :: rs) = Ok raws'.
Proof.
  intro HP. unfold shellTabs. cbn [negb].
  assert (NE : str_eqb (leading_tabs r0) [TAB] = false).
  { unfold has_prefix in HP. destruct (strip_prefix [TAB; TAB] r0) as [r|] eqn:E; [|discriminate].
    apply strip_prefix_some in E. subst r0. unfold leading_tabs. cbn.
    destruct (span (fun c : N => (c =? TAB)%N) r). reflexivity. }
  apply map_res_total. intro r. destruct (has_prefix (leading_tabs r0) r) eqn:H; [|eexists; reflexivity].
  apply replace_at_0_total; assumption.
Qed.
