(* C19: ContainsPath agrees with the infix relation on component lists, for a sub
   path in canonical form. *)
From PV Require Import Lib.Bytes Model.Paths Spec.PathDenote Proofs.PathsBase Proofs.PathsPrefix.
Open Scope N_scope.

(* ---------- list infix ---------- *)
Lemma list_infixb_unfold a b :
  list_infixb a b = list_prefixb a b || match b with [] => false | _ :: b' => list_infixb a b' end.
Proof. destruct b; reflexivity. Qed.

Lemma list_infixb_spec a b : list_infixb a b = true <-> exists pre post, b = pre ++ a ++ post.
Proof.
  split.
  - induction b as [|y b IH]; rewrite list_infixb_unfold; intro H; apply orb_true_iff in H as [H|H].
    + apply list_prefixb_spec in H as [c H]. exists [], c. exact H.
    + discriminate.
    + apply list_prefixb_spec in H as [c H]. exists [], c. exact H.
    + destruct (IH H) as (pre & post & ->). exists (y :: pre), post. reflexivity.
  - intros (pre & post & ->). induction pre as [|y pre IH].
    + rewrite list_infixb_unfold. simpl app. rewrite list_prefixb_app. reflexivity.
    + change (list_infixb a ((y :: pre) ++ a ++ post))
        with (list_prefixb a (y :: pre ++ a ++ post) || list_infixb a (pre ++ a ++ post)).
      rewrite IH. apply orb_true_r.
Qed.

Lemma list_infixb_nil b : list_infixb [] b = true.
Proof. rewrite list_infixb_unfold. reflexivity. Qed.

(* ---------- join_segs is strings.Join ---------- *)
Lemma join_segs_join l : join_segs l = join_slash l.
Proof.
  induction l as [|x l IH]; [reflexivity|]. destruct l as [|y l]; [reflexivity|].
  change (join_segs (x :: y :: l)) with (x ++ 47 :: join_segs (y :: l)). rewrite IH. reflexivity.
Qed.

Lemma join_app l1 l2 : l1 <> [] -> l2 <> [] -> join_slash (l1 ++ l2) = join_slash l1 ++ slash :: join_slash l2.
Proof.
  intros H1 H2. induction l1 as [|x l1 IH]; [contradiction|]. destruct l1 as [|y l1].
  - simpl. destruct l2; [contradiction|reflexivity].
  - change (join_slash ((x :: y :: l1) ++ l2)) with (x ++ slash :: join_slash ((y :: l1) ++ l2)).
    rewrite IH by discriminate.
    change (join_slash (x :: y :: l1)) with (x ++ slash :: join_slash (y :: l1)).
    rewrite <- app_assoc. reflexivity.
Qed.

(* ---------- the loop ---------- *)
Section Loop.
Variable sub : str.

Lemma contains_loop_sound n : forall first prev rest,
  contains_loop n first prev rest sub = true ->
  ((first || (prev =? slash)) = true /\ has_prefix_path rest sub = true) \/
  (exists a b, rest = a ++ slash :: b /\ has_prefix_path b sub = true).
Proof.
  induction n as [|n IH]; intros first prev rest H; [discriminate|].
  simpl in H. destruct ((first || (prev =? slash)) && has_prefix_path rest sub) eqn:E.
  - left. apply andb_true_iff in E. exact E.
  - right. destruct rest as [|c r]; [discriminate|].
    destruct (IH _ _ _ H) as [[H1 H2]|(a & b & -> & H2)].
    + simpl in H1. apply N.eqb_eq in H1. subst c. exists [], r. split; [reflexivity|exact H2].
    + exists (c :: a), b. split; [reflexivity|exact H2].
Qed.

Lemma contains_loop_here n first prev rest :
  (first || (prev =? slash)) = true -> has_prefix_path rest sub = true ->
  contains_loop (S n) first prev rest sub = true.
Proof. intros H1 H2. simpl. rewrite H1, H2. reflexivity. Qed.

Lemma contains_loop_later n : forall first prev a b,
  has_prefix_path b sub = true -> (S (length a) < n)%nat ->
  contains_loop n first prev (a ++ slash :: b) sub = true.
Proof.
  induction n as [|n IH]; intros first prev a b Hb Hn; [lia|].
  simpl. destruct ((first || (prev =? slash)) && has_prefix_path (a ++ slash :: b) sub); [reflexivity|].
  destruct a as [|c a]; simpl.
  - destruct n as [|n]; [lia|]. apply contains_loop_here; [reflexivity|exact Hb].
  - apply IH; [exact Hb|simpl in Hn; lia].
Qed.
End Loop.

(* ---------- a measure: the text of a path is at least as long as its canonical text ---------- *)
Fixpoint weight (l : list str) : nat :=
  match l with [] => O | x :: t => (S (length x) + weight t)%nat end.

Lemma weight_app a b : weight (a ++ b) = (weight a + weight b)%nat.
Proof. induction a as [|x a IH]; simpl; [reflexivity|]. rewrite IH. lia. Qed.

Lemma weight_join l : l <> [] -> S (length (join_slash l)) = weight l.
Proof.
  induction l as [|x l IH]; intro H; [contradiction|]. destruct l as [|y l].
  - simpl. lia.
  - change (join_slash (x :: y :: l)) with (x ++ slash :: join_slash (y :: l)).
    rewrite app_length. change (weight (x :: y :: l)) with (S (length x) + weight (y :: l))%nat.
    rewrite <- IH by discriminate. simpl length. lia.
Qed.

Lemma weight_text p : S (length p) = weight (split_slash p).
Proof. rewrite <- (join_split p) at 1. apply weight_join. apply split_nonempty. Qed.

Lemma weight_filter f l : (weight (filter f l) <= weight l)%nat.
Proof. induction l as [|x l IH]; simpl; [lia|]. destruct (f x); simpl; lia. Qed.

Lemma weight_components p : (weight (components p) <= S (length p))%nat.
Proof.
  rewrite weight_text. unfold components. rewrite (segs_split p).
  destruct p as [|c s] eqn:Ep; [simpl; lia|]. rewrite <- Ep.
  destruct (split_cons p) as (x & t & E). rewrite E.
  rewrite (rooted_split p x t) by (subst; discriminate || exact E).
  destruct x as [|d x]; simpl.
  - pose proof (weight_filter seg_is_name t). lia.
  - pose proof (weight_filter seg_is_name ((d :: x) :: t)) as H. simpl in H. exact H.
Qed.

Lemma join_parts_canonical q : canonical q -> q <> [].
Proof.
  unfold canonical, canonical_text. intros H E. rewrite E in H. vm_compute in H. discriminate.
Qed.

Lemma canonical_length q b :
  canonical q -> b <> [] -> list_prefixb (components q) (components b) = true ->
  (length q <= length b)%nat.
Proof.
  intros Hq Hb H. assert (Hb1 : (1 <= length b)%nat) by (destruct b; [contradiction|simpl; lia]).
  assert (Hw : (weight (components q) <= S (length b))%nat).
  { apply list_prefixb_spec in H as [c H].
    pose proof (weight_components b) as Hwb. rewrite H, weight_app in Hwb. lia. }
  unfold canonical, canonical_text in Hq. clear H.
  destruct (components q) as [|x t].
  - rewrite Hq. exact Hb1.
  - destruct x as [|c x]; [destruct t as [|y t]|].
    + rewrite Hq. exact Hb1.
    + rewrite Hq, join_segs_join. rewrite <- weight_join in Hw by discriminate. lia.
    + rewrite Hq, join_segs_join. rewrite <- weight_join in Hw by discriminate. lia.
Qed.

(* ---------- cutting a path in front of one of its names ---------- *)
Lemma filter_split_at {A} (f : A -> bool) l : forall u x v,
  filter f l = u ++ x :: v ->
  exists l1 l2, l = l1 ++ x :: l2 /\ filter f l1 = u /\ f x = true /\ filter f l2 = v.
Proof.
  induction l as [|y l IH]; intros u x v H; simpl in H.
  - destruct u; discriminate.
  - destruct (f y) eqn:Ey.
    + destruct u as [|z u]; simpl in H; injection H as E1 E2.
      * subst y. exists [], l. repeat split; auto.
      * subst z. destruct (IH _ _ _ E2) as (l1 & l2 & -> & H3 & H4 & H5).
        exists (y :: l1), l2. simpl. rewrite Ey, H3. repeat split; auto.
    + destruct (IH _ _ _ H) as (l1 & l2 & -> & H3 & H4 & H5).
      exists (y :: l1), l2. simpl. rewrite Ey. repeat split; auto.
Qed.

Lemma names_split_at p u x v :
  names p = u ++ x :: v ->
  exists b, b <> [] /\ rooted b = false /\ names b = x :: v /\ (p = b \/ exists a, p = a ++ slash :: b).
Proof.
  intro H. unfold names in H. rewrite (segs_split p) in H.
  destruct (filter_split_at _ _ _ _ _ H) as (l1 & l2 & El & H1 & Hx & H2).
  pose proof (split_noslash p) as Hns. rewrite El in Hns. apply Forall_app in Hns as [Hns1 Hns2].
  assert (Hxne : x <> []) by (intros ->; discriminate).
  exists (join_slash (x :: l2)). repeat split.
  - destruct x as [|c x]; [contradiction|]. destruct l2; simpl; discriminate.
  - inversion Hns2; subst. rewrite rooted_join by assumption. destruct x; [contradiction|reflexivity].
  - unfold names. rewrite (segs_split (join_slash (x :: l2))), split_join; [|discriminate|exact Hns2].
    simpl. rewrite Hx, H2. reflexivity.
  - rewrite <- (join_split p), El. destruct l1 as [|y l1].
    + left. reflexivity.
    + right. exists (join_slash (y :: l1)). apply join_app; discriminate.
Qed.

(* ---------- auxiliary facts ---------- *)
Lemma has_prefix_path_nil sub : sub <> [] -> sub <> dotstr -> has_prefix_path [] sub = false.
Proof.
  intros H1 H2. unfold has_prefix_path, text_prefix.
  destruct sub as [|c s] eqn:E; [contradiction|]. rewrite <- E in *.
  replace (strip_prefix sub []) with (@None str) by (rewrite E; reflexivity).
  replace (is_empty sub) with false by (rewrite E; reflexivity).
  destruct (str_eqb sub dotstr) eqn:Ed; [apply str_eqb_spec in Ed; contradiction|].
  simpl quick_reject. cbv iota. pose proof (parts_nonempty sub H1). destruct (parts sub); [contradiction|reflexivity].
Qed.

Lemma has_double_slash_mid a b : has_double_slash (a ++ slash :: slash :: b) = true.
Proof.
  induction a as [|c a IH]; [reflexivity|].
  simpl app. destruct a as [|d a].
  - simpl. rewrite orb_true_r. reflexivity.
  - simpl in *. rewrite IH. apply orb_true_r.
Qed.

Lemma canonical_named q : canonical q -> plain_dot_or_named q.
Proof. unfold canonical, canonical_text, plain_dot_or_named. intros H E. rewrite E in H. exact H. Qed.

Lemma empty_component_first p pre post t :
  components p = pre ++ ([] :: t) ++ post -> pre = [].
Proof.
  intro H. destruct pre as [|y pre]; [reflexivity|]. exfalso.
  unfold components in H. fold (names p) in H.
  assert (Hin : In [] (names p)).
  { destruct (rooted p); simpl in H.
    - inversion H. rewrite H2. apply in_or_app. right. left. reflexivity.
    - rewrite H. simpl. right. apply in_or_app. right. left. reflexivity. }
  apply name_nonempty in Hin as [Hin _]. contradiction.
Qed.

(* ---------- the theorem ---------- *)
Theorem contains_is_parts_infix p sub :
  p <> [] -> canonical sub -> (rooted sub = false \/ has_double_slash p = false) ->
  contains_path p sub = path_infixb sub p.
Proof.
  intros Hp Hc Hg. pose proof (join_parts_canonical sub Hc) as Hs.
  pose proof (canonical_named sub Hc) as Hnamed.
  unfold contains_path, path_infixb.
  destruct (str_eqb sub dotstr) eqn:Ed.
  { apply str_eqb_spec in Ed. subst sub. change (components dotstr) with (@nil str).
    rewrite list_infixb_nil, orb_true_r. reflexivity. }
  rewrite orb_false_r. apply str_eqb_false in Ed.
  assert (Hpre : forall b, b <> [] -> has_prefix_path b sub = path_prefixb sub b).
  { intros b Hb. apply prefix_is_parts_prefix; try assumption. intro; contradiction. }
  assert (Hcs : components sub <> []) by (intro E; apply Hnamed in E; contradiction).
  destruct (list_infixb (components sub) (components p)) eqn:Ei.
  - (* the components occur: the loop finds them *)
    apply list_infixb_spec in Ei as (pre & post & Ei).
    assert (Hfind : exists b, b <> [] /\ has_prefix_path b sub = true /\ (p = b \/ exists a, p = a ++ slash :: b)).
    { destruct (rooted sub) eqn:Rs.
      - (* a rooted sub path can only sit at the front *)
        destruct (components sub) as [|x t] eqn:Ecs; [contradiction|].
        destruct (components_head sub x t Ecs) as [Hx _]. rewrite Rs in Hx. destruct x; [|discriminate].
        pose proof (empty_component_first p pre post t Ei) as ->. simpl in Ei.
        exists p. split; [exact Hp|]. split; [|left; reflexivity].
        rewrite (Hpre p Hp). unfold path_prefixb. rewrite Ecs, Ei. rewrite Rs.
        destruct (components_head p [] (t ++ post) Ei) as [Hr _]. rewrite <- Hr. simpl eqb.
        change ([] :: t ++ post) with (([] :: t) ++ post). rewrite list_prefixb_app. reflexivity.
      - assert (Ens : components sub = names sub) by (unfold components; rewrite Rs; reflexivity).
        destruct (names sub) as [|x t] eqn:En; [rewrite Ens in Hcs; contradiction|].
        assert (Hx : x <> []).
        { assert (In x (names sub)) by (rewrite En; left; reflexivity). apply name_nonempty in H. tauto. }
        assert (Hnp : exists u, names p = u ++ x :: (t ++ post)).
        { rewrite Ens in Ei. unfold components in Ei. fold (names p) in Ei. destruct (rooted p); simpl in Ei.
          - destruct pre as [|y pre]; simpl in Ei; inversion Ei; subst; [contradiction|].
            exists pre. assumption.
          - exists pre. exact Ei. }
        destruct Hnp as [u Hnp]. destruct (names_split_at p u x (t ++ post) Hnp) as (b & Hb & Rb & Nb & Hpb).
        exists b. split; [exact Hb|]. split; [|exact Hpb].
        rewrite (Hpre b Hb). unfold path_prefixb. rewrite Rs, Rb. simpl eqb.
        rewrite Ens. unfold components. rewrite Rb. simpl app. fold (names b). rewrite Nb.
        change (x :: t ++ post) with ((x :: t) ++ post). apply list_prefixb_app. }
    destruct Hfind as (b & Hb & Hbs & Hpb).
    assert (Hlen : (length sub <= length b)%nat).
    { apply canonical_length; try assumption. rewrite (Hpre b Hb) in Hbs.
      unfold path_prefixb in Hbs. apply andb_true_iff in Hbs. tauto. }
    destruct Hpb as [->|[a ->]].
    + apply Nat.leb_le in Hlen. rewrite Hlen. apply contains_loop_here; [reflexivity|exact Hbs].
    + assert (Hl2 : (length sub <=? length (a ++ slash :: b))%nat = true).
      { apply Nat.leb_le. rewrite app_length. simpl. lia. }
      rewrite Hl2. apply contains_loop_later; [exact Hbs|]. rewrite app_length. simpl. lia.
  - (* the components do not occur: the loop finds nothing *)
    destruct (length sub <=? length p)%nat; [|reflexivity].
    destruct (contains_loop (S (length p - length sub)) true 0 p sub) eqn:El; [|reflexivity].
    exfalso. apply contains_loop_sound in El.
    assert (Hno : forall pre post, components p <> pre ++ components sub ++ post).
    { intros pre post E. assert (list_infixb (components sub) (components p) = true)
        by (apply list_infixb_spec; eauto). congruence. }
    destruct El as [[_ H]|(a & b & E & H)].
    + rewrite (Hpre p Hp) in H. unfold path_prefixb in H. apply andb_true_iff in H as [_ H].
      apply list_prefixb_spec in H as [c H]. apply (Hno [] c). exact H.
    + destruct b as [|c0 b0] eqn:Eb; [rewrite has_prefix_path_nil in H by assumption; discriminate|].
      rewrite <- Eb in *. assert (Hb : b <> []) by (subst; discriminate).
      rewrite (Hpre b Hb) in H. unfold path_prefixb in H. apply andb_true_iff in H as [Hr H].
      apply eqb_prop in Hr.
      destruct (rooted b) eqn:Rb.
      * (* then p contains "//" and sub is rooted: excluded *)
        destruct Hg as [Hg|Hg]; [congruence|].
        rewrite Eb in Rb. simpl in Rb. apply N.eqb_eq in Rb. rewrite E, Eb, Rb in Hg.
        rewrite has_double_slash_mid in Hg. discriminate.
      * apply list_prefixb_spec in H as [c H].
        assert (Ecb : components b = names b) by (unfold components; rewrite Rb; reflexivity).
        apply (Hno ((if rooted p then [[]] else []) ++ names a) c).
        unfold components at 1. fold (names p). rewrite E, names_app_slash.
        rewrite <- Ecb, H, <- !app_assoc. reflexivity.
Qed.
