(* C19: ContainsPath agrees with the infix relation on component lists. *)
From PV Require Import Lib.Bytes Model.Paths Spec.PathDenote Proofs.PathsBase Proofs.PathsClean
  Proofs.PathsRender Proofs.PathsPrefix.
Open Scope N_scope.

(* ---------- list infix ---------- *)
Lemma list_infixb_unfold a b :
  list_infixb a b = list_prefixb a b || match b with [] => false | _ :: b' => list_infixb a b' end.
Proof. destruct b; reflexivity. Qed.

Lemma list_infixb_spec a b : list_infixb a b = true <-> exists pre post, b = pre ++ a ++ post.
Proof.
  split.
  - induction b as [|y b IH]; rewrite list_infixb_unfold; intro H; apply orb_true_iff in H as [H|H].
    + apply list_prefixb_spec in H as [c H]. exists [], c. exact H.
    + discriminate.
    + apply list_prefixb_spec in H as [c H]. exists [], c. exact H.
    + destruct (IH H) as (pre & post & ->). exists (y :: pre), post. reflexivity.
  - intros (pre & post & ->). induction pre as [|y pre IH].
    + rewrite list_infixb_unfold. simpl app. rewrite list_prefixb_app. reflexivity.
    + change (list_infixb a ((y :: pre) ++ a ++ post))
        with (list_prefixb a (y :: pre ++ a ++ post) || list_infixb a (pre ++ a ++ post)).
      rewrite IH. apply orb_true_r.
Qed.

Lemma list_infixb_nil b : list_infixb [] b = true.
Proof. rewrite list_infixb_unfold. reflexivity. Qed.

Lemma join_app l1 l2 : l1 <> [] -> l2 <> [] -> join_slash (l1 ++ l2) = join_slash l1 ++ slash :: join_slash l2.
Proof.
  intros H1 H2. induction l1 as [|x l1 IH]; [contradiction|]. destruct l1 as [|y l1].
  - simpl. destruct l2; [contradiction|reflexivity].
  - change (join_slash ((x :: y :: l1) ++ l2)) with (x ++ slash :: join_slash ((y :: l1) ++ l2)).
    rewrite IH by discriminate.
    change (join_slash (x :: y :: l1)) with (x ++ slash :: join_slash (y :: l1)).
    rewrite <- app_assoc. reflexivity.
Qed.

(* ---------- the loop ---------- *)
Section Loop.
Variable sub : str.

Definition not_slash_first (rest : str) : bool :=
  match rest with [] => true | c :: _ => negb (c =? slash) end.

Lemma contains_loop_unfold first prev rest :
  contains_loop first prev rest sub =
  if (first || ((prev =? slash) && not_slash_first rest)) && has_prefix_path rest sub then true
  else match rest with [] => false | c :: r => contains_loop false c r sub end.
Proof. destruct rest; reflexivity. Qed.

Lemma contains_loop_sound rest : forall first prev,
  contains_loop first prev rest sub = true ->
  ((first || ((prev =? slash) && not_slash_first rest)) = true /\ has_prefix_path rest sub = true) \/
  (exists a b, rest = a ++ slash :: b /\ not_slash_first b = true /\ has_prefix_path b sub = true).
Proof.
  induction rest as [|c r IH]; intros first prev H; rewrite contains_loop_unfold in H.
  - destruct ((first || ((prev =? slash) && not_slash_first [])) && has_prefix_path [] sub) eqn:E; [|discriminate].
    left. apply andb_true_iff in E. exact E.
  - destruct ((first || ((prev =? slash) && not_slash_first (c :: r))) && has_prefix_path (c :: r) sub) eqn:E.
    + left. apply andb_true_iff in E. exact E.
    + right. destruct (IH _ _ H) as [[H1 H2]|(a & b & -> & H2 & H3)].
      * simpl in H1. apply andb_true_iff in H1 as [H1 H1']. apply N.eqb_eq in H1. subst c.
        exists [], r. repeat split; assumption.
      * exists (c :: a), b. repeat split; assumption.
Qed.

Lemma contains_loop_here first prev rest :
  (first || ((prev =? slash) && not_slash_first rest)) = true -> has_prefix_path rest sub = true ->
  contains_loop first prev rest sub = true.
Proof. intros H1 H2. rewrite contains_loop_unfold, H1, H2. reflexivity. Qed.

Lemma contains_loop_later a : forall first prev b,
  not_slash_first b = true -> has_prefix_path b sub = true ->
  contains_loop first prev (a ++ slash :: b) sub = true.
Proof.
  induction a as [|c a IH]; intros first prev b Hn Hb; rewrite contains_loop_unfold.
  - simpl app. destruct ((first || ((prev =? slash) && not_slash_first (slash :: b))) && has_prefix_path (slash :: b) sub);
      [reflexivity|]. apply contains_loop_here; [|exact Hb]. simpl. exact Hn.
  - simpl app. destruct ((first || ((prev =? slash) && not_slash_first (c :: a ++ slash :: b)))
                         && has_prefix_path (c :: a ++ slash :: b) sub); [reflexivity|].
    apply IH; assumption.
Qed.
End Loop.

(* ---------- cutting a path in front of one of its names ---------- *)
Lemma filter_split_at {A} (f : A -> bool) l : forall u x v,
  filter f l = u ++ x :: v ->
  exists l1 l2, l = l1 ++ x :: l2 /\ filter f l1 = u /\ f x = true /\ filter f l2 = v.
Proof.
  induction l as [|y l IH]; intros u x v H; simpl in H.
  - destruct u; discriminate.
  - destruct (f y) eqn:Ey.
    + destruct u as [|z u]; simpl in H; injection H as E1 E2.
      * subst y. exists [], l. repeat split; auto.
      * subst z. destruct (IH _ _ _ E2) as (l1 & l2 & -> & H3 & H4 & H5).
        exists (y :: l1), l2. simpl. rewrite Ey, H3. repeat split; auto.
    + destruct (IH _ _ _ H) as (l1 & l2 & -> & H3 & H4 & H5).
      exists (y :: l1), l2. simpl. rewrite Ey. repeat split; auto.
Qed.

Lemma names_split_at p u x v :
  names p = u ++ x :: v ->
  exists b, b <> [] /\ rooted b = false /\ names b = x :: v /\ (p = b \/ exists a, p = a ++ slash :: b).
Proof.
  intro H. unfold names in H. rewrite (segs_split p) in H.
  destruct (filter_split_at _ _ _ _ _ H) as (l1 & l2 & El & H1 & Hx & H2).
  pose proof (split_noslash p) as Hns. rewrite El in Hns. apply Forall_app in Hns as [Hns1 Hns2].
  assert (Hxne : x <> []) by (intros ->; discriminate).
  exists (join_slash (x :: l2)). repeat split.
  - destruct x as [|c x]; [contradiction|]. destruct l2; simpl; discriminate.
  - inversion Hns2; subst. rewrite rooted_join by assumption. destruct x; [contradiction|reflexivity].
  - unfold names. rewrite (segs_split (join_slash (x :: l2))), split_join; [|discriminate|exact Hns2].
    simpl. rewrite Hx, H2. reflexivity.
  - rewrite <- (join_split p), El. destruct l1 as [|y l1].
    + left. reflexivity.
    + right. exists (join_slash (y :: l1)). apply join_app; discriminate.
Qed.

(* ---------- auxiliary facts ---------- *)
(* the empty rest (after a trailing slash) only matches a sub path without components *)
Lemma has_prefix_path_nil sub : sub <> [] ->
  has_prefix_path [] sub = match components sub with [] => true | _ => false end.
Proof.
  intro H1. unfold has_prefix_path, text_prefix.
  destruct sub as [|c s] eqn:E; [contradiction|]. rewrite <- E in *.
  replace (strip_prefix sub []) with (@None str) by (rewrite E; reflexivity).
  replace (is_empty sub) with false by (rewrite E; reflexivity).
  destruct (str_eqb sub dotstr) eqn:Ed; [apply str_eqb_spec in Ed; rewrite Ed; reflexivity|].
  simpl quick_reject. cbv iota. rewrite (is_dot_parts_components sub H1).
  destruct (components sub) eqn:Ec; [reflexivity|].
  pose proof (parts_nonempty sub H1). destruct (parts sub); [contradiction|reflexivity].
Qed.

Lemma not_slash_first_rooted b : not_slash_first b = negb (rooted b).
Proof. destruct b; reflexivity. Qed.

Lemma empty_component_first p pre post t :
  components p = pre ++ ([] :: t) ++ post -> pre = [].
Proof.
  intro H. destruct pre as [|y pre]; [reflexivity|]. exfalso.
  unfold components in H. fold (names p) in H.
  assert (Hin : In [] (names p)).
  { destruct (rooted p); simpl in H.
    - inversion H. rewrite H2. apply in_or_app. right. left. reflexivity.
    - rewrite H. simpl. right. apply in_or_app. right. left. reflexivity. }
  apply name_nonempty in Hin as [Hin _]. contradiction.
Qed.

(* ---------- the theorem ---------- *)
Theorem contains_is_parts_infix p sub :
  p <> [] -> sub <> [] -> (components sub = [] -> nocolon p) ->
  contains_path p sub = path_infixb sub p.
Proof.
  intros Hp Hs Hg. unfold contains_path, path_infixb.
  destruct (str_eqb sub dotstr) eqn:Ed.
  { apply str_eqb_spec in Ed. subst sub. change (components dotstr) with (@nil str).
    rewrite list_infixb_nil, orb_true_r. reflexivity. }
  rewrite orb_false_r.
  (* HasPrefixPath on a rest b of p *)
  assert (Hpre : forall a b, b <> [] -> (p = b \/ p = a ++ slash :: b) ->
                 has_prefix_path b sub = path_prefixb sub b).
  { intros a b Hb Hpb. apply prefix_is_parts_prefix; try assumption.
    intro Hc. apply nocolon_is_abs. specialize (Hg Hc). intro Hin. apply Hg.
    destruct Hpb as [->| ->]; [exact Hin|]. apply in_or_app. right. right. exact Hin. }
  destruct (list_infixb (components sub) (components p)) eqn:Ei.
  - (* the components occur: the loop finds them *)
    destruct (components sub) as [|x0 t0] eqn:Ecs.
    { (* no component: every relative rest matches *)
      apply components_nil in Ecs as Hn. destruct Hn as [Rs Ns].
      assert (Hrel : forall a b, b <> [] -> rooted b = false -> (p = b \/ p = a ++ slash :: b) ->
                     has_prefix_path b sub = true).
      { intros a b Hb Rb Hpb. rewrite (Hpre a b Hb Hpb). unfold path_prefixb. rewrite Ecs, Rs, Rb. reflexivity. }
      destruct (rooted p) eqn:Rp.
      - (* skip the leading slashes *)
        destruct p as [|c p']; [contradiction|]. simpl in Rp. apply N.eqb_eq in Rp. subst c.
        rewrite contains_loop_unfold.
        cbn [orb andb]. destruct (has_prefix_path _ sub); [reflexivity|].
        assert (Hk : forall a r, slash :: p' = a ++ slash :: r -> contains_loop false slash r sub = true).
        { intros a r. revert a. induction r as [|c r IH]; intros a Ea.
          - apply contains_loop_here; [reflexivity|]. rewrite (has_prefix_path_nil sub Hs), Ecs. reflexivity.
          - destruct (N.eqb_spec c slash) as [->|Hne].
            + rewrite contains_loop_unfold. simpl not_slash_first. simpl andb.
              apply (IH (a ++ [slash])). rewrite Ea, <- app_assoc. reflexivity.
            + apply contains_loop_here.
              * simpl. apply N.eqb_neq in Hne. rewrite Hne. reflexivity.
              * apply (Hrel a (c :: r)); [discriminate| |right; exact Ea].
                simpl. apply N.eqb_neq. exact Hne. }
        apply (Hk [] p'). reflexivity.
      - apply contains_loop_here; [reflexivity|]. apply (Hrel [] p Hp Rp). left. reflexivity. }
    rewrite <- Ecs in *. assert (Hcs : components sub <> []) by (rewrite Ecs; discriminate).
    apply list_infixb_spec in Ei as (pre & post & Ei).
    assert (Hfind : exists b, b <> [] /\ has_prefix_path b sub = true /\
                              (p = b \/ exists a, p = a ++ slash :: b /\ rooted b = false)).
    { destruct (rooted sub) eqn:Rs.
      - (* a rooted sub path can only sit at the front *)
        destruct (components sub) as [|x t] eqn:Ecs2; [contradiction|].
        destruct (components_head sub x t Ecs2) as [Hx _]. rewrite Rs in Hx. destruct x; [|discriminate].
        pose proof (empty_component_first p pre post t Ei) as ->. simpl in Ei.
        exists p. split; [exact Hp|]. split; [|left; reflexivity].
        rewrite (Hpre [] p Hp (or_introl eq_refl)). unfold path_prefixb. rewrite Ecs2, Ei. rewrite Rs.
        destruct (components_head p [] (t ++ post) Ei) as [Hr _]. rewrite <- Hr. simpl eqb.
        change ([] :: t ++ post) with (([] :: t) ++ post). rewrite list_prefixb_app. reflexivity.
      - assert (Ens : components sub = names sub) by (unfold components; rewrite Rs; reflexivity).
        destruct (names sub) as [|x t] eqn:En; [rewrite Ens in Hcs; contradiction|].
        assert (Hx : x <> []).
        { assert (In x (names sub)) by (rewrite En; left; reflexivity). apply name_nonempty in H. tauto. }
        assert (Hnp : exists u, names p = u ++ x :: (t ++ post)).
        { rewrite Ens in Ei. unfold components in Ei. fold (names p) in Ei. destruct (rooted p); simpl in Ei.
          - destruct pre as [|y pre]; simpl in Ei; inversion Ei; subst; [contradiction|].
            exists pre. assumption.
          - exists pre. exact Ei. }
        destruct Hnp as [u Hnp]. destruct (names_split_at p u x (t ++ post) Hnp) as (b & Hb & Rb & Nb & Hpb).
        assert (Hgoal : forall a0, (p = b \/ p = a0 ++ slash :: b) -> has_prefix_path b sub = true).
        { intros a0 Hpb'. rewrite (Hpre a0 b Hb Hpb'). unfold path_prefixb. rewrite Rs, Rb. simpl eqb.
          rewrite Ens. unfold components. rewrite Rb. simpl app. fold (names b). rewrite Nb.
          change (x :: t ++ post) with ((x :: t) ++ post). apply list_prefixb_app. }
        exists b. split; [exact Hb|]. destruct Hpb as [E|[a E]].
        + split; [apply (Hgoal []); left; exact E|left; exact E].
        + split; [apply (Hgoal a); right; exact E|right; exists a; split; assumption]. }
    destruct Hfind as (b & Hb & Hbs & [->|(a & -> & Rb)]).
    + apply contains_loop_here; [reflexivity|exact Hbs].
    + apply contains_loop_later; [|exact Hbs]. rewrite not_slash_first_rooted, Rb. reflexivity.
  - (* the components do not occur: the loop finds nothing *)
    destruct (contains_loop true 0 p sub) eqn:El; [|reflexivity].
    exfalso. apply contains_loop_sound in El.
    assert (Hno : forall pre post, components p <> pre ++ components sub ++ post).
    { intros pre post E. assert (list_infixb (components sub) (components p) = true)
        by (apply list_infixb_spec; eauto). congruence. }
    destruct El as [[_ H]|(a & b & E & Hnb & H)].
    + rewrite (Hpre [] p Hp (or_introl eq_refl)) in H. unfold path_prefixb in H. apply andb_true_iff in H as [_ H].
      apply list_prefixb_spec in H as [c H]. apply (Hno [] c). exact H.
    + destruct b as [|c0 b0] eqn:Eb.
      { rewrite (has_prefix_path_nil sub Hs) in H. destruct (components sub) eqn:Ec; [|discriminate].
        apply (Hno (components p) []). simpl. rewrite ?app_nil_r. reflexivity. }
      rewrite <- Eb in *. assert (Hb : b <> []) by (subst; discriminate).
      rewrite (Hpre a b Hb (or_intror E)) in H. unfold path_prefixb in H. apply andb_true_iff in H as [Hr H].
      apply eqb_prop in Hr. rewrite not_slash_first_rooted in Hnb. apply negb_true_iff in Hnb.
      apply list_prefixb_spec in H as [c H].
      assert (Ecb : components b = names b) by (unfold components; rewrite Hnb; reflexivity).
      apply (Hno ((if rooted p then [[]] else []) ++ names a) c).
      unfold components at 1. fold (names p). rewrite E, names_app_slash.
      rewrite <- Ecb, H, <- !app_assoc. reflexivity.
Qed.
