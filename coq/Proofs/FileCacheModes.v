(* The file cache across load modes: Model/FileCache.v instantiated with the C09
   model of convertToLogicalLines (Model/FileCacheLines.v).  Props/C20.v states these. *)
From PV Require Import Lib.Bytes Model.FileCache Model.FileCacheLines Spec.FreshLoad
  Proofs.FileCacheLists Proofs.FileCacheWf Proofs.FileCacheInv Proofs.FileCache.
From PV Require Model.Lines Spec.LinesSpec Proofs.LinesLoop.
Open Scope N_scope.

(* what a Load shows for the logical lines ls of the C09 model: no fix attached *)
Definition lobs_of_line (l : Model.Lines.line) : lobs :=
  (Model.Lines.lineno l, Model.Lines.text l, Model.Lines.raws l, false).

(* what a cache-less Load(f, o) returns, written with the C09 model directly *)
Definition mode_read (disk : list (N * str)) (fn : fname) (o : N) (got : option (list lobs)) : Prop :=
  match map_get (key fn) disk with
  | None => got = None
  | Some raw =>
    if FileCache.is_empty raw && has_opt o NotEmpty then got = None
    else exists ls e,
        Model.Lines.convert_to_logical_lines raw (has_opt o Makefile) = Model.Lines.Ok (ls, e) /\
        got = Some (map lobs_of_line ls)
  end.

Lemma fresh_read_mode_read disk fn o : mode_read disk fn o (fresh_read convert_lines disk fn o).
Proof.
  unfold mode_read, fresh_read.
  destruct (map_get (key fn) disk) as [raw|]; [|reflexivity].
  assert (X : exists ls e,
             Model.Lines.convert_to_logical_lines raw (has_opt o Makefile) = Model.Lines.Ok (ls, e) /\
             Some (map fresh_line (convert_lines raw o)) = Some (map lobs_of_line ls)).
  { destruct (Proofs.LinesLoop.convert_total raw (has_opt o Makefile)) as [ls H].
    eexists; eexists; split; [exact H|].
    unfold convert_lines. rewrite H. rewrite map_map. reflexivity. }
  destruct raw as [|c raw].
  - cbn [FileCache.is_empty andb]. destruct (has_opt o NotEmpty); [reflexivity|exact X].
  - cbn [FileCache.is_empty andb]. exact X.
Qed.

Theorem load_transparent_mixed_modes :
  forall is_mk md cap disk s fn o s' r, (1 <= cap)%nat -> reach convert_lines is_mk md cap disk s ->
  guard_step s (OLoad fn o) = true ->
  load convert_lines is_mk s fn o = Ok (s', r) ->
  mode_read (st_disk s) fn o (load_obs s' r) /\ st_disk s' = st_disk s.
Proof.
  intros is_mk md cap disk s fn o s' r Hc R G L.
  destruct (load_transparent convert_lines is_mk md cap disk s fn o s' r Hc R G L) as [H1 H2].
  split; [|exact H2]. rewrite H1. apply fresh_read_mode_read.
Qed.

(* plain mode: one logical line per physical line, whatever was loaded before *)
Theorem plain_load_one_line_per_physical_line :
  forall is_mk md cap disk s fn o s' r obs, (1 <= cap)%nat -> reach convert_lines is_mk md cap disk s ->
  guard_step s (OLoad fn o) = true ->
  has_opt o Makefile = false ->
  load convert_lines is_mk s fn o = Ok (s', r) ->
  load_obs s' r = Some obs ->
  Forall (fun ob : lobs => let '(no, text, raw, fx) := ob in
            exists p, raw = [p] /\ text = Spec.LinesSpec.content p /\ fx = false) obs /\
  (forall k ob, nth_error obs k = Some ob -> fst (fst (fst ob)) = 1 + N.of_nat k).
Proof.
  intros is_mk md cap disk s fn o s' r obs Hc R G Hm L Ho.
  destruct (load_transparent_mixed_modes is_mk md cap disk s fn o s' r Hc R G L) as [H _].
  unfold mode_read in H. rewrite Ho, Hm in H.
  destruct (map_get (key fn) (st_disk s)) as [raw|]; [|discriminate].
  destruct (FileCache.is_empty raw && has_opt o NotEmpty); [discriminate|].
  destruct H as (ls & e & Hconv & Heq). injection Heq as ->.
  pose proof (Proofs.LinesLoop.grouping_exact_plain raw ls e Hconv) as Hg.
  assert (Hone : Forall (fun l => exists p, Model.Lines.raws l = [p]) ls).
  { eapply Forall_impl; [|exact Hg]. intros l (p & Hp & _). exists p; exact Hp. }
  split.
  - rewrite Forall_forall in *. intros ob Hin. apply in_map_iff in Hin.
    destruct Hin as (l & <- & Hl). destruct (Hg l Hl) as (p & Hp & Ht).
    unfold lobs_of_line. exists p. auto.
  - intros k ob Hk. rewrite nth_error_map in Hk.
    destruct (nth_error ls k) as [l|] eqn:Hl; [|discriminate]. injection Hk as <-.
    destruct (nth_error_split _ _ Hl) as (pre & post & Hsplit & Hlen).
    unfold lobs_of_line; cbn [fst].
    rewrite (Proofs.LinesLoop.numbering_exact_prop raw false ls e Hconv pre l post Hsplit).
    f_equal. f_equal. subst k. rewrite Hsplit in Hone.
    apply Forall_app in Hone. destruct Hone as [Hpre _].
    clear - Hpre. induction Hpre as [|x t (p & Hp) _ IH]; [reflexivity|].
    cbn [flat_map]. rewrite Hp. cbn [app length]. f_equal. exact IH.
Qed.

(* ---------- a hit happens only for exactly the requested options ---------- *)

Lemma remove_old_entries_hits c c' : remove_old_entries c = Ok c' -> c_hits c' = c_hits c.
Proof.
  unfold remove_old_entries, remove_old_entries_sorted.
  destruct (rev (sort_desc (c_store c) (c_table c))) as [|lst t]; [discriminate|].
  destruct (strip_min _ _ _ _) as [rkeep m']. intros H; injection H as <-. reflexivity.
Qed.

Lemma put_hits c k o ls c' : put c k o ls = Ok c' -> c_hits c' = c_hits c.
Proof.
  unfold put. destruct (map_get k (c_map c)).
  - intros H; injection H as <-. reflexivity.
  - destruct (Nat.eqb (length (c_table c)) (c_cap c)).
    + destruct (remove_old_entries c) as [c1|w] eqn:E; [|discriminate].
      cbn [bind]. intros H; injection H as <-. cbn [c_hits]. eapply remove_old_entries_hits; eauto.
    + cbn [bind]. intros H; injection H as <-. reflexivity.
Qed.

Theorem hit_same_options : forall convert is_mk s fn o s' r,
  load convert is_mk s fn o = Ok (s', r) ->
  (c_hits (st_cache s') = c_hits (st_cache s) \/ c_hits (st_cache s') = c_hits (st_cache s) + 1) /\
  (c_hits (st_cache s') = c_hits (st_cache s) + 1 <->
   exists eid, map_get (key fn) (c_map (st_cache s)) = Some eid /\
               e_opts (entry_at (c_store (st_cache s)) eid) = o).
Proof.
  intros convert is_mk s fn o s' r. unfold load, get.
  assert (Hne : forall n, n <> n + 1) by (intros n; lia).
  assert (Miss : forall c1 h1,
    c_hits c1 = c_hits (st_cache s) ->
    match map_get (key fn) (st_disk s) with
    | Some raw =>
        if FileCache.is_empty raw && has_opt o NotEmpty
        then if has_opt o MustSucceed then Stop Fatal
             else Ok (mkState c1 h1 (st_views s) (st_disk s) (st_pending s), None)
        else bind (if is_mk (key fn) then put c1 (key fn) o (seq (length h1) (length (convert raw o))) else Ok c1)
               (fun c2 => Ok (mkState c2 (h1 ++ map (new_line fn) (convert raw o))
                                (st_views s ++ [(fn, seq (length h1) (length (convert raw o)))])
                                (st_disk s) (st_pending s), Some (length (st_views s))))
    | None => if has_opt o MustSucceed then Stop Fatal
              else Ok (mkState c1 h1 (st_views s) (st_disk s) (st_pending s), None)
    end = Ok (s', r) -> c_hits (st_cache s') = c_hits (st_cache s)).
  { intros c1 h1 Hh. destruct (map_get (key fn) (st_disk s)) as [raw|].
    - destruct (FileCache.is_empty raw && has_opt o NotEmpty).
      + destruct (has_opt o MustSucceed); [discriminate|]. intros H; injection H as <- _. exact Hh.
      + destruct (is_mk (key fn)).
        * destruct (put c1 (key fn) o _) as [c2|w] eqn:P; [|discriminate].
          cbn [bind]. intros H; injection H as <- _. cbn [st_cache].
          rewrite (put_hits _ _ _ _ _ P). exact Hh.
        * cbn [bind]. intros H; injection H as <- _. exact Hh.
    - destruct (has_opt o MustSucceed); [discriminate|]. intros H; injection H as <- _. exact Hh. }
  destruct (map_get (key fn) (c_map (st_cache s))) as [eid|] eqn:E.
  - destruct (N.eqb_spec (e_opts (entry_at (c_store (st_cache s)) eid)) o) as [Ho|Ho].
    + intros H; injection H as <- _. cbn [st_cache c_hits]. split; [right; reflexivity|].
      split; [intros _; exists eid; auto|reflexivity].
    + intros H. apply Miss in H; [|reflexivity]. split; [left; exact H|].
      rewrite H. split; [intros X; exfalso; eapply Hne; exact X|].
      intros (eid' & E' & Ho'). injection E' as <-. contradiction.
  - intros H. apply Miss in H; [|reflexivity]. split; [left; exact H|].
    rewrite H. split; [intros X; exfalso; eapply Hne; exact X|].
    intros (eid' & E' & _). discriminate.
Qed.

(* ---------- the "superset" hit condition is not transparent ---------- *)

(* f.mk = "A= \\\n b\nC= d\n": two logical lines in Makefile mode, three in plain mode *)
Definition modes_disk : list (N * str) := [(0, [65; 61; 32; 92; 10; 32; 98; 10; 67; 61; 32; 100; 10])].

(* transparency of the variant for the shortest interesting histories: two loads
   of the same file on a fresh G, nothing else (no fix: the guard holds trivially) *)
Definition superset_hit_transparent : Prop :=
  forall disk fn o1 o2 s1 r1 s2 r2,
    load_superset convert_lines all_mk (init_state 2 disk) fn o1 = Ok (s1, r1) ->
    load_superset convert_lines all_mk s1 fn o2 = Ok (s2, r2) ->
    load_obs s2 r2 = fresh_read convert_lines disk fn o2.

Theorem superset_hit_refuted : ~ superset_hit_transparent.
Proof.
  intros H.
  destruct (load_superset convert_lines all_mk (init_state 2 modes_disk) (0, 0) 4) as [[s1 r1]|w] eqn:L1;
    [|vm_compute in L1; discriminate].
  destruct (load_superset convert_lines all_mk s1 (0, 0) 0) as [[s2 r2]|w] eqn:L2;
    [|vm_compute in L1; injection L1 as <- <-; vm_compute in L2; discriminate].
  specialize (H modes_disk (0, 0) 4 0 s1 r1 s2 r2 L1 L2).
  vm_compute in L1. injection L1 as <- <-. vm_compute in L2. injection L2 as <- <-.
  vm_compute in H. discriminate.
Qed.

(* the same two loads on the faithful model: mk then plain, plain then mk *)
Definition modes_run (o1 o2 : N) :=
  run convert_lines all_mk ModeDefault (init_state 2 modes_disk) [OLoad (0, 0) o1; OLoad (0, 1) o2].

Lemma modes_example :
  snd (fst (modes_run 4 0)) =
    [ObsLoad (fresh_read convert_lines modes_disk (0, 0) 4); ObsLoad (fresh_read convert_lines modes_disk (0, 1) 0)] /\
  snd (fst (modes_run 0 4)) =
    [ObsLoad (fresh_read convert_lines modes_disk (0, 0) 0); ObsLoad (fresh_read convert_lines modes_disk (0, 1) 4)] /\
  fresh_read convert_lines modes_disk (0, 0) 4 <> fresh_read convert_lines modes_disk (0, 0) 0 /\
  c_hits (st_cache (fst (fst (modes_run 4 0)))) = 0 /\
  c_hits (st_cache (fst (fst (modes_run 4 4)))) = 1.
Proof. vm_compute. repeat split; try reflexivity. discriminate. Qed.
