(* Corollary of verdict_sound_partial for a single makefile without '!=' and
   without '$' in ':=' assignments: every verdict is sound.  The only work is to
   show that the "included file" arm of the default case is never taken, i.e.
   that all include paths are the one-element path of the file. *)
From PV Require Import Lib.Bytes Model.Redundant Spec.MakeEval Spec.VerdictSound Spec.SingleFile
  Proofs.MakeEvalLemmas Proofs.Redundant Proofs.RedundantSound Proofs.RedundantReads.

(* when the current path includes-or-equals every recorded path, a verdict either
   flags the current line, or says "overwritten", or comes from a shell assignment *)
Lemma verdict_shape_same_paths s idx a s' vs vd :
  handle_varassign s idx a false = Ok (s', vs) -> In vd vs ->
  includes_or_equals_all (s_path s) (vi_paths (s_vars s (a_var a))) = true ->
  vd_flagged vd = idx \/ vd_kind vd = KOverwritten \/ a_op a = OpShell.
Proof.
  unfold handle_varassign. intros H Hin Hp. rewrite Hp in H.
  destruct (rev (v_writes (vi_var (s_vars s (a_var a))))) as [|prev rest] eqn:Er.
  { inversion H; subst. destruct Hin. }
  unfold constant_value in H.
  destruct (v_cond (vi_var (s_vars s (a_var a))) || false);
    [inversion H; subst; destruct Hin|].
  destruct (vi_last (s_vars s (a_var a)));
    try (inversion H; subst; destruct Hin; fail);
  destruct (a_op a) eqn:Eo; simpl in H;
  destruct (has_make_vars (a_val a)); simpl in H;
  destruct (str_eqb (v_value (vi_var (s_vars s (a_var a)))) (render (a_val a))) eqn:Ev; simpl in H;
  destruct (included_by_or_equals_all (s_path s) (vi_paths (s_vars s (a_var a)))); simpl in H;
  destruct (is_constant (vi_var (s_vars s (a_var a)))) eqn:Ek; simpl in H;
  inversion H; subst; simpl in Hin; try contradiction;
  destruct Hin as [<-|[]]; simpl; auto.
Qed.

Definition one_path (f : N) (s : scope) : Prop :=
  s_path s = [f] /\ forall x, Forall (fun q => q = [f]) (vi_paths (s_vars s x)).

Lemma ipath_equals_refl p : ipath_equals p p = true.
Proof. induction p as [|x p IH]; simpl; [reflexivity|]. rewrite N.eqb_refl. exact IH. Qed.

Lemma includes_or_equals_all_same f qs :
  Forall (fun q => q = [f]) qs -> includes_or_equals_all [f] qs = true.
Proof.
  intro H. unfold includes_or_equals_all. apply forallb_forall. intros q Hq.
  rewrite Forall_forall in H. rewrite (H q Hq). rewrite ipath_equals_refl. apply orb_true_r.
Qed.

Lemma handle_expr_paths f : forall us s,
  one_path f s ->
  one_path f (fold_left (fun s w =>
        let info := s_vars s w in
        let info' := mkInfo (var_read (vi_var info)) (vi_paths info ++ [s_path s]) ARead in
        mkScope (upd (s_vars s) w info') (s_path s)) us s).
Proof.
  induction us as [|w us IH]; intros s H; simpl; [exact H|].
  apply IH. destruct H as [Hp Hv]. split; [exact Hp|].
  intro x. simpl. unfold upd. destruct (str_eqb w x); [|apply Hv].
  simpl. apply Forall_app. split; [apply Hv|]. constructor; [exact Hp|constructor].
Qed.

Lemma check_line_paths f s idx l s' vs :
  one_path f s -> l_file l = f -> (l_lineno l =? 1) = false ->
  check_line s idx l = Ok (s', vs) -> one_path f s'.
Proof.
  intros [Hp Hv] Hf Hn. unfold check_line, update_include_path. rewrite Hn, Hp, Hf.
  unfold ipath_pop_until. simpl. rewrite N.eqb_refl. simpl.
  destruct (l_body l) as [a|].
  - destruct (handle_varassign _ idx a false) as [[s2 vs2]|] eqn:E2; [|discriminate].
    intro H; inversion H; subst. apply handle_varassign_scope in E2. subst s2.
    unfold handle_expr. apply handle_expr_paths. split; [reflexivity|].
    intro x. simpl. unfold upd. destruct (str_eqb (a_var a) x); [|apply Hv].
    simpl. apply Forall_app. split; [apply Hv|]. constructor; [reflexivity|constructor].
  - intro H; inversion H; subst. split; [reflexivity|exact Hv].
Qed.

Lemma forallb_firstn {A} (f : A -> bool) n l : forallb f l = true -> forallb f (firstn n l) = true.
Proof.
  revert n; induction l as [|x l IH]; intros [|n] H; simpl; try reflexivity.
  simpl in H. apply andb_true_iff in H as [H1 H2]. rewrite H1, IH; auto.
Qed.

Lemma forallb_skipn {A} (f : A -> bool) n l : forallb f l = true -> forallb f (skipn n l) = true.
Proof.
  revert n; induction l as [|x l IH]; intros [|n] H; simpl; try reflexivity; try exact H.
  simpl in H. apply andb_true_iff in H as [H1 H2]. apply IH; exact H2.
Qed.

Lemma forallb_impl {A} (f g : A -> bool) l :
  (forall x, f x = true -> g x = true) -> forallb f l = true -> forallb g l = true.
Proof.
  intro H. induction l as [|x l IH]; simpl; [reflexivity|]. intro E.
  apply andb_true_iff in E as [E1 E2]. rewrite (H x E1), IH; auto.
Qed.

(* the guard holds for a verdict that flags the current line or says
   "overwritten", in a program with plain eager lines and no '!=' *)
Lemma guard_of_shape p vd :
  eager_plain p = true -> no_shell p = true ->
  (Nat.ltb (vd_flagged vd) (vd_because vd) = false \/ vd_kind vd = KOverwritten) ->
  guard p vd = true.
Proof.
  intros Hep Hns Hshape. unfold guard.
  assert (H1 : forall x q, forallb eager_plain_line q = true -> plain_on x q = true).
  { intros x q. unfold plain_on. apply forallb_impl. intros l E. rewrite E. apply orb_true_r. }
  rewrite H1 by (apply forallb_firstn; exact Hep).
  assert (H2 : (if Nat.ltb (vd_flagged vd) (vd_because vd)
                then eager_plain (between p (Nat.min (vd_flagged vd) (vd_because vd))
                                            (Nat.max (vd_flagged vd) (vd_because vd)))
                else true) = true).
  { destruct (Nat.ltb (vd_flagged vd) (vd_because vd)); [|reflexivity].
    unfold between, eager_plain. apply forallb_firstn, forallb_skipn. exact Hep. }
  rewrite H2. simpl.
  assert (H3 : backward_default_ok p vd = true).
  { unfold backward_default_ok. destruct Hshape as [E|E]; rewrite E; [reflexivity|].
    destruct (Nat.ltb (vd_flagged vd) (vd_because vd)); reflexivity. }
  rewrite H3. simpl.
  unfold forward_same_ok. destruct (Nat.ltb (vd_because vd) (vd_flagged vd)); [|reflexivity].
  destruct (line_op p (vd_flagged vd)) as [[| | | |]|]; try reflexivity;
    (unfold no_shell_on; apply forallb_firstn; revert Hns; unfold no_shell; apply forallb_impl;
     intros l E; destruct (l_body l) as [a|]; [|reflexivity];
     apply negb_true_iff in E; rewrite E; rewrite andb_false_r; reflexivity).
Qed.

Lemma single_gen f : forall ls pre s vs,
  inv_struct pre s -> one_path f s ->
  forallb (fun l => (l_file l =? f) && negb (l_lineno l =? 1)) ls = true ->
  no_shell ls = true ->
  check_from s (length pre) ls = Ok vs ->
  forall vd, In vd vs ->
  Nat.ltb (vd_flagged vd) (vd_because vd) = false \/ vd_kind vd = KOverwritten.
Proof.
  induction ls as [|l ls IH]; intros pre s vs Hstruct Hpath Hsf Hns Hck vd Hin.
  - simpl in Hck. inversion Hck; subst. destruct Hin.
  - simpl in Hck. destruct (check_line s (length pre) l) as [[s' vs0]|] eqn:E1; [|discriminate].
    destruct (check_from s' (S (length pre)) ls) as [rest|] eqn:E2; [|discriminate].
    inversion Hck; subst vs.
    simpl in Hsf. apply andb_true_iff in Hsf as [Hl Hsf]. apply andb_true_iff in Hl as [Hf Hn].
    apply N.eqb_eq in Hf. apply negb_true_iff in Hn.
    simpl in Hns. apply andb_true_iff in Hns as [Hnl Hns].
    apply in_app_or in Hin as [Hin|Hin].
    + pose proof (line_verdict_at _ _ _ _ _ _ Hstruct E1 Hin) as Hat.
      unfold check_line, update_include_path in E1. destruct Hpath as [Hp Hv].
      rewrite Hn, Hp, Hf in E1. unfold ipath_pop_until in E1. simpl in E1.
      rewrite N.eqb_refl in E1. simpl in E1.
      destruct (l_body l) as [a|] eqn:Eb; [|inversion E1; subst; destruct Hin].
      destruct (handle_varassign _ (length pre) a false) as [[s2 vs2]|] eqn:E3; [|discriminate].
      inversion E1; subst s' vs0.
      destruct (verdict_shape_same_paths _ _ _ _ _ _ E3 Hin) as [Hs|[Hs|Hs]].
      * simpl. apply includes_or_equals_all_same. apply Hv.
      * left. apply Nat.ltb_ge. unfold emitted_at in Hat. lia.
      * right; exact Hs.
      * rewrite Hs in Hnl. discriminate.
    + assert (Hlen : length (pre ++ [l]) = S (length pre)) by (rewrite app_length; simpl; lia).
      rewrite <- Hlen in E2.
      apply (IH (pre ++ [l]) s' rest); auto.
      * eapply inv_struct_step; eauto.
      * eapply check_line_paths; eauto.
Qed.

Theorem single_file_sound :
  forall (p : program) (vs : list verdict) (vd : verdict),
    wf_program p = true -> single_file p = true -> eager_plain p = true -> no_shell p = true ->
    check p = Ok vs -> In vd vs -> deletable p (vd_flagged vd).
Proof.
  intros p vs vd Hwf Hsf Hep Hns Hck Hin.
  apply (verdict_sound_partial p vs vd Hwf Hck Hin). apply guard_of_shape; auto.
  destruct p as [|l0 r]; [simpl in Hck; inversion Hck; subst; destruct Hin|].
  simpl in Hsf. apply andb_true_iff in Hsf as [H1 Hr].
  unfold check in Hck. simpl in Hck.
  destruct (check_line new_scope 0 l0) as [[s' vs0]|] eqn:E1; [|discriminate].
  destruct (check_from s' 1 r) as [rest|] eqn:E2; [|discriminate].
  inversion Hck; subst vs. simpl in Hns. apply andb_true_iff in Hns as [_ Hns].
  apply in_app_or in Hin as [Hin|Hin].
  - (* the first line emits nothing *)
    unfold check_line, update_include_path in E1. rewrite H1 in E1. simpl in E1.
    destruct (l_body l0) as [a|]; [|inversion E1; subst; destruct Hin].
    unfold handle_varassign in E1. simpl in E1. inversion E1; subst. destruct Hin.
  - apply (single_gen (l_file l0) r [l0] s' rest); auto.
    + apply (inv_struct_step [] new_scope l0 s' vs0 inv_struct_init E1).
    + unfold check_line, update_include_path in E1. rewrite H1 in E1. simpl in E1.
      destruct (l_body l0) as [a|].
      * inversion E1; subst.
        unfold handle_expr. apply handle_expr_paths. split; [reflexivity|].
        intro x. simpl. unfold upd. destruct (str_eqb (a_var a) x); simpl; repeat constructor.
      * inversion E1; subst. split; [reflexivity|]. intro x. simpl. constructor.
Qed.
