(* Theorems about Model/CvsEntries.v.

   - split_slash / join_slash round trip, parse_entry_line_spec
   - the calendar: days_from_civil (civil_from_days d) = d for ALL d : Z
     (one vm_compute sweep over the 146097 days of an era, lifted to all eras
     algebraically), month/day ranges
   - ansic_parse (ansic_utc s) = Some s for ansic_lo <= s < ansic_hi, hence
     ansic_utc is injective on the instants whose year has four digits
   - the decision isLocallyModified: does not consult the environment; the
     local-time mutant does. *)
From Coq Require Import ZArith Lia ZifyBool ZifyN List.
From PV Require Import Lib.Bytes Model.CvsEntries.
Import ListNotations.
Open Scope Z_scope.

(* ------------------------------------------------------------------ *)
(* finite sweeps: range_all k lo f checks f on [lo, lo + 2^k)           *)
(* ------------------------------------------------------------------ *)
Fixpoint range_all (k : nat) (lo : Z) (f : Z -> bool) : bool :=
  match k with
  | O => f lo
  | S k' => range_all k' lo f && range_all k' (lo + 2 ^ Z.of_nat k') f
  end.

Lemma range_all_spec k : forall lo f, range_all k lo f = true ->
  forall x, lo <= x < lo + 2 ^ Z.of_nat k -> f x = true.
Proof.
  induction k as [|k IH]; intros lo f H x Hx.
  - cbn [range_all] in H. change (2 ^ Z.of_nat 0) with 1 in Hx.
    assert (x = lo) by lia. subst. exact H.
  - cbn [range_all] in H. apply andb_true_iff in H as [H1 H2].
    assert (E : 2 ^ Z.of_nat (S k) = 2 ^ Z.of_nat k + 2 ^ Z.of_nat k).
    { rewrite Nat2Z.inj_succ, Z.pow_succ_r by lia. lia. }
    rewrite E in Hx.
    destruct (Z_lt_le_dec x (lo + 2 ^ Z.of_nat k)).
    + apply (IH lo f H1). lia.
    + apply (IH _ f H2). lia.
Qed.

(* ------------------------------------------------------------------ *)
(* the calendar                                                        *)
(* ------------------------------------------------------------------ *)

(* everything that is needed about one era, as a boolean *)
Definition doe_ok (doe : Z) : bool :=
  if 146097 <=? doe then true else
  let '(yoe, m, d) := ymd_of_doe doe in
  (0 <=? yoe) && (yoe <=? 399) && (1 <=? m) && (m <=? 12) && (1 <=? d) && (d <=? 31)
  && (doe_of_ymd yoe m d =? doe)
  && (if doe <? 146037 then (if m <=? 2 then 1 else 0) + yoe <=? 399
      else (yoe =? 399) && (m <=? 2)).

Lemma doe_sweep : range_all 18 0 doe_ok = true.
Proof. vm_cast_no_check (eq_refl true). Qed.

Lemma ymd_of_doe_facts doe yoe m d :
  0 <= doe < 146097 -> ymd_of_doe doe = (yoe, m, d) ->
  0 <= yoe <= 399 /\ 1 <= m <= 12 /\ 1 <= d <= 31 /\ doe_of_ymd yoe m d = doe /\
  (doe < 146037 -> (if m <=? 2 then 1 else 0) + yoe <= 399) /\
  (146037 <= doe -> yoe = 399 /\ m <= 2).
Proof.
  intros Hd E.
  assert (H : doe_ok doe = true).
  { apply (range_all_spec 18 0 doe_ok doe_sweep). change (2 ^ Z.of_nat 18) with 262144. lia. }
  unfold doe_ok in H. rewrite E in H.
  destruct (146097 <=? doe) eqn:E0; [lia|].
  destruct (doe <? 146037) eqn:E1; lia.
Qed.

Theorem days_from_civil_from_days : forall d, days_from_civil (civil_from_days d) = d.
Proof.
  intro z0. unfold civil_from_days.
  set (z := z0 + 719468).
  destruct (ymd_of_doe (z mod 146097)) as [[yoe m] d] eqn:E.
  pose proof (Z.mod_pos_bound z 146097 ltac:(lia)) as Hb.
  destruct (ymd_of_doe_facts _ _ _ _ Hb E) as (Hy & Hm & Hd & Hdoe & _).
  unfold days_from_civil.
  replace ((if m <=? 2 then 1 else 0) + yoe + z / 146097 * 400 - (if m <=? 2 then 1 else 0))
    with (yoe + z / 146097 * 400) by lia.
  rewrite Z.div_add, Z.mod_add by lia.
  rewrite Z.div_small, Z.mod_small by lia.
  rewrite Hdoe.
  pose proof (Z.div_mod z 146097 ltac:(lia)). unfold z in *. lia.
Qed.

Theorem civil_from_days_range : forall d,
  let '(y, m, dd) := civil_from_days d in 1 <= m <= 12 /\ 1 <= dd <= 31.
Proof.
  intro z0. unfold civil_from_days.
  set (z := z0 + 719468).
  destruct (ymd_of_doe (z mod 146097)) as [[yoe m] d] eqn:E.
  pose proof (Z.mod_pos_bound z 146097 ltac:(lia)) as Hb.
  destruct (ymd_of_doe_facts _ _ _ _ Hb E) as (Hy & Hm & Hd & _). split; assumption.
Qed.

(* the years of the days 0000-01-01 .. 9999-12-31 have four digits *)
Lemma civil_from_days_year4 z0 y m d :
  -719528 <= z0 < 2932897 -> civil_from_days z0 = (y, m, d) -> 0 <= y <= 9999.
Proof.
  intros Hz. unfold civil_from_days.
  set (z := z0 + 719468).
  destruct (ymd_of_doe (z mod 146097)) as [[yoe m'] d'] eqn:E.
  pose proof (Z.mod_pos_bound z 146097 ltac:(lia)) as Hb.
  destruct (ymd_of_doe_facts _ _ _ _ Hb E) as (Hy & Hm & Hd & _ & Hlo & Hhi).
  intro H; inversion H; subst; clear H.
  pose proof (Z.div_mod z 146097 ltac:(lia)) as Hdm.
  assert (-1 <= z / 146097 <= 24) by (unfold z in *; lia).
  destruct (Z_lt_le_dec (z mod 146097) 146037) as [Hlt|Hge].
  - specialize (Hlo Hlt). assert (0 <= z / 146097) by (unfold z in *; lia).
    destruct (m <=? 2); lia.
  - destruct (Hhi Hge) as [-> Hm2]. assert (z / 146097 <= 23) by (unfold z in *; lia).
    destruct (m <=? 2) eqn:Em; lia.
Qed.

(* ------------------------------------------------------------------ *)
(* an independent parser of the ANSIC layout (fixed columns)           *)
(* ------------------------------------------------------------------ *)
Definition digit_of (c : N) : option Z :=
  if is_digit c then Some (Z.of_N c - 48) else None.

(* two digits *)
Definition parse2 (a b : N) : option Z :=
  match digit_of a, digit_of b with
  | Some x, Some y => Some (10 * x + y)
  | _, _ => None
  end.
(* a space or a digit, then a digit *)
Definition parse2s (a b : N) : option Z :=
  if (a =? 32)%N then digit_of b else parse2 a b.
Definition parse4 (a b c d : N) : option Z :=
  match parse2 a b, parse2 c d with
  | Some x, Some y => Some (100 * x + y)
  | _, _ => None
  end.
Definition parse_month (s : str) : option Z :=
  if str_eqb s [74; 97; 110]%N then Some 1
  else if str_eqb s [70; 101; 98]%N then Some 2
  else if str_eqb s [77; 97; 114]%N then Some 3
  else if str_eqb s [65; 112; 114]%N then Some 4
  else if str_eqb s [77; 97; 121]%N then Some 5
  else if str_eqb s [74; 117; 110]%N then Some 6
  else if str_eqb s [74; 117; 108]%N then Some 7
  else if str_eqb s [65; 117; 103]%N then Some 8
  else if str_eqb s [83; 101; 112]%N then Some 9
  else if str_eqb s [79; 99; 116]%N then Some 10
  else if str_eqb s [78; 111; 118]%N then Some 11
  else if str_eqb s [68; 101; 99]%N then Some 12
  else None.

(* columns: 0-2 weekday (ignored), 4-6 month, 8-9 day, 11-12 hour, 14-15 minute,
   17-18 second, 20-23 year; the separators are not looked at *)
Definition ansic_parse (s : str) : option Z :=
  match s with
  | [_; _; _; _; m1; m2; m3; _; d1; d2; _; h1; h2; _; mi1; mi2; _; s1; s2; _; y1; y2; y3; y4] =>
      match parse_month [m1; m2; m3], parse2s d1 d2, parse2 h1 h2, parse2 mi1 mi2,
            parse2 s1 s2, parse4 y1 y2 y3 y4 with
      | Some m, Some d, Some hh, Some mi, Some ss, Some y =>
          Some (days_from_civil (y, m, d) * 86400 + hh * 3600 + mi * 60 + ss)
      | _, _, _, _, _, _ => None
      end
  | _ => None
  end.

Lemma digit_of_byte q : 0 <= q <= 9 -> digit_of (digit_byte q) = Some q.
Proof.
  intro H. unfold digit_of, digit_byte, is_digit.
  replace ((48 <=? Z.to_N (48 + q))%N && (Z.to_N (48 + q) <=? 57)%N) with true by lia.
  f_equal. lia.
Qed.

Lemma digit_byte_not_space q : 0 <= q -> (digit_byte q =? 32)%N = false.
Proof. intro H. unfold digit_byte. lia. Qed.

Lemma parse2_fmt2_zero n a b : 0 <= n < 100 -> fmt2_zero n = [a; b] -> parse2 a b = Some n.
Proof.
  intros H E. unfold fmt2_zero in E. inversion E; subst; clear E.
  unfold parse2. rewrite !digit_of_byte.
  - f_equal. pose proof (Z.div_mod n 10 ltac:(lia)). lia.
  - pose proof (Z.mod_pos_bound n 10 ltac:(lia)). lia.
  - assert (0 <= n / 10 < 10) by (split; [apply Z.div_pos|apply Z.div_lt_upper_bound]; lia). lia.
Qed.

Lemma parse2s_fmt2_space n a b : 1 <= n < 100 -> fmt2_space n = [a; b] -> parse2s a b = Some n.
Proof.
  intros H E. unfold fmt2_space in E. inversion E; subst; clear E.
  unfold parse2s.
  assert (Hm : 0 <= n mod 10 <= 9) by (pose proof (Z.mod_pos_bound n 10 ltac:(lia)); lia).
  destruct (n <? 10) eqn:E.
  - change (32 =? 32)%N with true. cbv iota. rewrite digit_of_byte by exact Hm.
    f_equal. apply Z.mod_small. lia.
  - assert (0 <= n / 10 < 10) by (split; [apply Z.div_pos|apply Z.div_lt_upper_bound]; lia).
    rewrite digit_byte_not_space by lia.
    unfold parse2. rewrite !digit_of_byte by lia.
    f_equal. pose proof (Z.div_mod n 10 ltac:(lia)). lia.
Qed.

Lemma fmt_year_4 y : 0 <= y <= 9999 ->
  fmt_year y = [digit_byte (y / 1000); digit_byte (y / 100 mod 10);
                digit_byte (y / 10 mod 10); digit_byte (y mod 10)].
Proof.
  intro H. unfold fmt_year, fmt_abs4.
  replace (y <? 0) with false by lia. replace (y <? 10000) with true by lia. reflexivity.
Qed.

Lemma parse4_year y : 0 <= y <= 9999 ->
  parse4 (digit_byte (y / 1000)) (digit_byte (y / 100 mod 10))
         (digit_byte (y / 10 mod 10)) (digit_byte (y mod 10)) = Some y.
Proof.
  intro H. unfold parse4, parse2.
  assert (0 <= y / 1000 <= 9) by (split; [apply Z.div_pos|apply Z.lt_succ_r, Z.div_lt_upper_bound]; lia).
  pose proof (Z.mod_pos_bound (y / 100) 10 ltac:(lia)).
  pose proof (Z.mod_pos_bound (y / 10) 10 ltac:(lia)).
  pose proof (Z.mod_pos_bound y 10 ltac:(lia)).
  rewrite !digit_of_byte by lia. f_equal.
  pose proof (Z.div_mod y 10 ltac:(lia)).
  pose proof (Z.div_mod (y / 10) 10 ltac:(lia)).
  pose proof (Z.div_mod (y / 100) 10 ltac:(lia)).
  assert (y / 10 / 10 = y / 100) by (rewrite Z.div_div by lia; reflexivity).
  assert (y / 100 / 10 = y / 1000) by (rewrite Z.div_div by lia; reflexivity).
  lia.
Qed.

Lemma day_name_shape w : exists a b c, day_name w = [a; b; c].
Proof. unfold day_name. repeat destruct (_ =? _); eauto. Qed.

Lemma month_name_shape m : exists a b c, month_name m = [a; b; c].
Proof. unfold month_name. repeat destruct (_ =? _); eauto. Qed.

Lemma parse_month_name m : 1 <= m <= 12 -> parse_month (month_name m) = Some m.
Proof.
  intro H.
  assert (C : m = 1 \/ m = 2 \/ m = 3 \/ m = 4 \/ m = 5 \/ m = 6 \/ m = 7 \/ m = 8 \/ m = 9 \/
              m = 10 \/ m = 11 \/ m = 12) by lia.
  repeat (destruct C as [->|C]; [vm_compute; reflexivity|]). subst. vm_compute. reflexivity.
Qed.

Theorem ansic_parse_format : forall s, ansic_lo <= s < ansic_hi -> ansic_parse (ansic_utc s) = Some s.
Proof.
  intros s Hs. unfold ansic_lo, ansic_hi in Hs. unfold ansic_utc.
  pose proof (Z.div_mod s 86400 ltac:(lia)) as Hdm.
  pose proof (Z.mod_pos_bound s 86400 ltac:(lia)) as Hr.
  set (days := s / 86400) in *. set (r := s mod 86400) in *.
  assert (Hdays : -719528 <= days < 2932897) by lia.
  pose proof (civil_from_days_range days) as Hrange.
  pose proof (days_from_civil_from_days days) as Hinv.
  destruct (civil_from_days days) as [[y m] d] eqn:E.
  pose proof (civil_from_days_year4 _ _ _ _ Hdays E) as Hy.
  destruct Hrange as [Hm Hd].
  destruct (day_name_shape (weekday_of_days days)) as (w1 & w2 & w3 & ->).
  pose proof (parse_month_name m Hm) as Hpm.
  destruct (month_name_shape m) as (m1 & m2 & m3 & Em). rewrite Em in *.
  rewrite (fmt_year_4 y Hy).
  pose proof (parse2s_fmt2_space d) as Pd.
  pose proof (parse2_fmt2_zero (r / 3600)) as Ph.
  pose proof (parse2_fmt2_zero (r mod 3600 / 60)) as Pmi.
  pose proof (parse2_fmt2_zero (r mod 60)) as Ps.
  unfold fmt2_space, fmt2_zero in *.
  cbn [app]. unfold ansic_parse.
  rewrite Hpm.
  rewrite (Pd _ _ ltac:(lia) eq_refl).
  assert (0 <= r / 3600 < 24) by (split; [apply Z.div_pos|apply Z.div_lt_upper_bound]; lia).
  pose proof (Z.mod_pos_bound r 3600 ltac:(lia)).
  assert (0 <= r mod 3600 / 60 < 60) by (split; [apply Z.div_pos|apply Z.div_lt_upper_bound]; lia).
  pose proof (Z.mod_pos_bound r 60 ltac:(lia)).
  rewrite (Ph _ _ ltac:(lia) eq_refl).
  rewrite (Pmi _ _ ltac:(lia) eq_refl).
  rewrite (Ps _ _ ltac:(lia) eq_refl).
  rewrite (parse4_year y Hy).
  rewrite Hinv. f_equal.
  pose proof (Z.div_mod r 3600 ltac:(lia)).
  pose proof (Z.div_mod (r mod 3600) 60 ltac:(lia)).
  assert (r mod 3600 mod 60 = r mod 60).
  { symmetry. rewrite (Z.div_mod r 3600) at 1 by lia.
    replace (3600 * (r / 3600)) with ((60 * (r / 3600)) * 60) by lia.
    rewrite Z.add_comm, Z.mod_add by lia. reflexivity. }
  lia.
Qed.

Theorem ansic_utc_injective : forall s1 s2,
  ansic_lo <= s1 < ansic_hi -> ansic_lo <= s2 < ansic_hi -> ansic_utc s1 = ansic_utc s2 -> s1 = s2.
Proof.
  intros s1 s2 H1 H2 E.
  pose proof (ansic_parse_format s1 H1) as P1. pose proof (ansic_parse_format s2 H2) as P2.
  rewrite E in P1. congruence.
Qed.

Theorem ansic_utc_length : forall s, ansic_lo <= s < ansic_hi -> length (ansic_utc s) = 24%nat.
Proof.
  intros s Hs. unfold ansic_lo, ansic_hi in Hs. unfold ansic_utc.
  pose proof (Z.div_mod s 86400 ltac:(lia)) as Hdm.
  pose proof (Z.mod_pos_bound s 86400 ltac:(lia)) as Hr.
  set (days := s / 86400) in *. set (r := s mod 86400) in *.
  assert (Hdays : -719528 <= days < 2932897) by lia.
  destruct (civil_from_days days) as [[y m] d] eqn:E.
  pose proof (civil_from_days_year4 _ _ _ _ Hdays E) as Hy.
  destruct (day_name_shape (weekday_of_days days)) as (w1 & w2 & w3 & ->).
  destruct (month_name_shape m) as (m1 & m2 & m3 & ->).
  rewrite (fmt_year_4 y Hy). reflexivity.
Qed.

(* ------------------------------------------------------------------ *)
(* examples (the right-hand sides were printed by go1.23.5:            *)
(*   time.Unix(s, 0).UTC().Format(time.ANSIC))                         *)
(* ------------------------------------------------------------------ *)
Example ansic_ex_1521633600 : ansic_utc (1521633600) = [87; 101; 100; 32; 77; 97; 114; 32; 50; 49; 32; 49; 50; 58; 48; 48; 58; 48; 48; 32; 50; 48; 49; 56]%N. (* "Wed Mar 21 12:00:00 2018" *)
Proof. vm_compute. reflexivity. Qed.
Example ansic_ex_0 : ansic_utc (0) = [84; 104; 117; 32; 74; 97; 110; 32; 32; 49; 32; 48; 48; 58; 48; 48; 58; 48; 48; 32; 49; 57; 55; 48]%N. (* "Thu Jan  1 00:00:00 1970" *)
Proof. vm_compute. reflexivity. Qed.
Example ansic_ex_m1 : ansic_utc (-1) = [87; 101; 100; 32; 68; 101; 99; 32; 51; 49; 32; 50; 51; 58; 53; 57; 58; 53; 57; 32; 49; 57; 54; 57]%N. (* "Wed Dec 31 23:59:59 1969" *)
Proof. vm_compute. reflexivity. Qed.
Example ansic_ex_951782400 : ansic_utc (951782400) = [84; 117; 101; 32; 70; 101; 98; 32; 50; 57; 32; 48; 48; 58; 48; 48; 58; 48; 48; 32; 50; 48; 48; 48]%N. (* "Tue Feb 29 00:00:00 2000" *)
Proof. vm_compute. reflexivity. Qed.
Example ansic_ex_951868799 : ansic_utc (951868799) = [84; 117; 101; 32; 70; 101; 98; 32; 50; 57; 32; 50; 51; 58; 53; 57; 58; 53; 57; 32; 50; 48; 48; 48]%N. (* "Tue Feb 29 23:59:59 2000" *)
Proof. vm_compute. reflexivity. Qed.
Example ansic_ex_m2203891200 : ansic_utc (-2203891200) = [84; 104; 117; 32; 77; 97; 114; 32; 32; 49; 32; 48; 48; 58; 48; 48; 58; 48; 48; 32; 49; 57; 48; 48]%N. (* "Thu Mar  1 00:00:00 1900" *)
Proof. vm_compute. reflexivity. Qed.
Example ansic_ex_4107456000 : ansic_utc (4107456000) = [83; 117; 110; 32; 70; 101; 98; 32; 50; 56; 32; 48; 48; 58; 48; 48; 58; 48; 48; 32; 50; 49; 48; 48]%N. (* "Sun Feb 28 00:00:00 2100" *)
Proof. vm_compute. reflexivity. Qed.
Example ansic_ex_4107542400 : ansic_utc (4107542400) = [77; 111; 110; 32; 77; 97; 114; 32; 32; 49; 32; 48; 48; 58; 48; 48; 58; 48; 48; 32; 50; 49; 48; 48]%N. (* "Mon Mar  1 00:00:00 2100" *)
Proof. vm_compute. reflexivity. Qed.
Example ansic_ex_253402300799 : ansic_utc (253402300799) = [70; 114; 105; 32; 68; 101; 99; 32; 51; 49; 32; 50; 51; 58; 53; 57; 58; 53; 57; 32; 57; 57; 57; 57]%N. (* "Fri Dec 31 23:59:59 9999" *)
Proof. vm_compute. reflexivity. Qed.
Example ansic_ex_253402300800 : ansic_utc (253402300800) = [83; 97; 116; 32; 74; 97; 110; 32; 32; 49; 32; 48; 48; 58; 48; 48; 58; 48; 48; 32; 49; 48; 48; 48; 48]%N. (* "Sat Jan  1 00:00:00 10000" *)
Proof. vm_compute. reflexivity. Qed.
Example ansic_ex_m62167219200 : ansic_utc (-62167219200) = [83; 97; 116; 32; 74; 97; 110; 32; 32; 49; 32; 48; 48; 58; 48; 48; 58; 48; 48; 32; 48; 48; 48; 48]%N. (* "Sat Jan  1 00:00:00 0000" *)
Proof. vm_compute. reflexivity. Qed.
Example ansic_ex_m62167219201 : ansic_utc (-62167219201) = [70; 114; 105; 32; 68; 101; 99; 32; 51; 49; 32; 50; 51; 58; 53; 57; 58; 53; 57; 32; 45; 48; 48; 48; 49]%N. (* "Fri Dec 31 23:59:59 -0001" *)
Proof. vm_compute. reflexivity. Qed.
Example ansic_ex_m62198755200 : ansic_utc (-62198755200) = [70; 114; 105; 32; 74; 97; 110; 32; 32; 49; 32; 48; 48; 58; 48; 48; 58; 48; 48; 32; 45; 48; 48; 48; 49]%N. (* "Fri Jan  1 00:00:00 -0001" *)
Proof. vm_compute. reflexivity. Qed.
Example ansic_ex_m62135596800 : ansic_utc (-62135596800) = [77; 111; 110; 32; 74; 97; 110; 32; 32; 49; 32; 48; 48; 58; 48; 48; 58; 48; 48; 32; 48; 48; 48; 49]%N. (* "Mon Jan  1 00:00:00 0001" *)
Proof. vm_compute. reflexivity. Qed.
Example ansic_ex_1709210096 : ansic_utc (1709210096) = [84; 104; 117; 32; 70; 101; 98; 32; 50; 57; 32; 49; 50; 58; 51; 52; 58; 53; 54; 32; 50; 48; 50; 52]%N. (* "Thu Feb 29 12:34:56 2024" *)
Proof. vm_compute. reflexivity. Qed.
Example ansic_ex_68169600000 : ansic_utc (68169600000) = [83; 97; 116; 32; 77; 97; 114; 32; 49; 56; 32; 48; 48; 58; 48; 48; 58; 48; 48; 32; 52; 49; 51; 48]%N. (* "Sat Mar 18 00:00:00 4130" *)
Proof. vm_compute. reflexivity. Qed.
Example civil_ex_1900_03_01 : civil_from_days (-25508) = (1900, 3, 1).
Proof. vm_compute. reflexivity. Qed.
Example civil_ex_2100_02_28 : civil_from_days 47540 = (2100, 2, 28).
Proof. vm_compute. reflexivity. Qed.
Example civil_ex_2100_03_01 : civil_from_days 47541 = (2100, 3, 1).
Proof. vm_compute. reflexivity. Qed.
Example weekday_ex_epoch : weekday_of_days 0 = 4.
Proof. reflexivity. Qed.

(* ------------------------------------------------------------------ *)
(* isLocallyModified                                                   *)
(* ------------------------------------------------------------------ *)

(* the decision never looks at the environment (time zone, user, locale, ...) *)
Theorem locally_modified_env_independent : forall e1 e2 es name st,
  is_locally_modified e1 es name st = is_locally_modified e2 es name st.
Proof. reflexivity. Qed.

Definition wit_env (off : Z) : env := mk_env (fun _ => off) [] [] [] [] 0%N.
Definition wit_name : str := [97%N].
Definition wit_entries : entries :=
  [(wit_name, mk_cvs_entry wit_name [49%N] (ansic_utc 0) [] [])].

(* non-vacuity: the variant that formats in local time DOES depend on the environment *)
Theorem locally_modified_local_refuted :
  ~ (forall e1 e2 es name st,
       is_locally_modified_local e1 es name st = is_locally_modified_local e2 es name st).
Proof.
  intro H. specialize (H (wit_env 0) (wit_env 3600) wit_entries wit_name (Some 0)).
  vm_compute in H. discriminate H.
Qed.

Theorem locally_modified_spec : forall e es name st,
  is_locally_modified e es name st = true <->
  exists ent, entries_lookup es name = Some ent /\
    (st = None \/ exists s, st = Some s /\ ce_timestamp ent <> ansic_utc s).
Proof.
  intros e es name st. unfold is_locally_modified.
  destruct (entries_lookup es name) as [ent|].
  - destruct st as [s|].
    + rewrite negb_true_iff. split.
      * intro H. exists ent. split; [reflexivity|]. right. exists s. split; [reflexivity|].
        intro E. apply str_eqb_spec in E. congruence.
      * intros (ent' & E & [E'|(s' & E' & Hne)]); [discriminate|].
        inversion E; inversion E'; subst.
        destruct (str_eqb (ce_timestamp ent') (ansic_utc s')) eqn:B; [|reflexivity].
        apply str_eqb_spec in B. contradiction.
    + split; [|reflexivity]. intros _. exists ent. split; [reflexivity|]. left; reflexivity.
  - split; [discriminate|]. intros (ent & E & _). discriminate.
Qed.

(* ------------------------------------------------------------------ *)
(* strings.Split(s, "/") and the lines of CVS/Entries                  *)
(* ------------------------------------------------------------------ *)
Open Scope N_scope.

Lemma split_slash_nonempty s : split_slash s <> [].
Proof.
  destruct s as [|c s]; cbn [split_slash]; [discriminate|].
  destruct (c =? 47); [discriminate|]. destruct (split_slash s); discriminate.
Qed.

Theorem split_slash_join : forall s, join_slash (split_slash s) = s.
Proof.
  induction s as [|c s IH]; [reflexivity|]. cbn [split_slash].
  pose proof (split_slash_nonempty s) as Hne.
  destruct (N.eqb_spec c 47) as [->|Hc].
  - destruct (split_slash s) as [|f fs] eqn:E; [contradiction|].
    change (join_slash ([] :: f :: fs)) with ([] ++ [47] ++ join_slash (f :: fs)).
    rewrite IH. reflexivity.
  - destruct (split_slash s) as [|f fs] eqn:E; [contradiction|].
    destruct fs as [|g fs].
    + cbn [join_slash] in *. congruence.
    + change (join_slash ((c :: f) :: g :: fs)) with ((c :: f) ++ [47] ++ join_slash (g :: fs)).
      change (join_slash (f :: g :: fs)) with (f ++ [47] ++ join_slash (g :: fs)) in IH.
      rewrite <- IH. reflexivity.
Qed.

Theorem split_slash_no_slash : forall s f, In f (split_slash s) -> ~ In 47 f.
Proof.
  induction s as [|c s IH]; intros f Hin.
  - cbn in Hin. destruct Hin as [<-|[]]. intros [].
  - cbn [split_slash] in Hin. destruct (N.eqb_spec c 47) as [->|Hc].
    + destruct Hin as [<-|Hin]; [intros []|]. apply IH, Hin.
    + destruct (split_slash s) as [|g gs] eqn:E.
      * destruct Hin as [<-|[]]. intros [H|[]]. congruence.
      * destruct Hin as [<-|Hin].
        -- intros [H|H]; [congruence|]. apply (IH g); [left; reflexivity|exact H].
        -- apply IH. right. exact Hin.
Qed.

Lemma split_slash_plain f : ~ In 47 f -> split_slash f = [f].
Proof.
  induction f as [|c f IH]; intro H; [reflexivity|]. cbn [split_slash].
  destruct (N.eqb_spec c 47) as [->|Hc]; [exfalso; apply H; left; reflexivity|].
  rewrite IH; [reflexivity|]. intro Hin. apply H. right. exact Hin.
Qed.

Lemma split_slash_app f r : ~ In 47 f -> split_slash (f ++ 47 :: r) = f :: split_slash r.
Proof.
  induction f as [|c f IH]; intro H.
  - reflexivity.
  - cbn [app split_slash].
    destruct (N.eqb_spec c 47) as [->|Hc]; [exfalso; apply H; left; reflexivity|].
    rewrite IH; [reflexivity|]. intro Hin. apply H. right. exact Hin.
Qed.

(* a line of CVS/Entries yields an entry iff it is "/name/revision/timestamp/options/tagdate"
   with slash-free fields *)
Theorem parse_entry_line_spec : forall t e,
  parse_entry_line t = PrEntry e <->
  exists f1 f2 f3 f4 f5,
    t = [47] ++ f1 ++ [47] ++ f2 ++ [47] ++ f3 ++ [47] ++ f4 ++ [47] ++ f5 /\
    (~ In 47 f1 /\ ~ In 47 f2 /\ ~ In 47 f3 /\ ~ In 47 f4 /\ ~ In 47 f5) /\
    e = mk_cvs_entry f1 f2 f3 f4 f5.
Proof.
  intros t e. split.
  - unfold parse_entry_line, has_prefix.
    destruct (strip_prefix [47] t) as [r|] eqn:Ep; [|discriminate].
    apply strip_prefix_some in Ep.
    pose proof (split_slash_join t) as Hj.
    pose proof (split_slash_no_slash t) as Hn.
    destruct (split_slash t) as [|f0 [|f1 [|f2 [|f3 [|f4 [|f5 [|f6 l]]]]]]]; try discriminate.
    intro H. inversion H; subst e; clear H.
    exists f1, f2, f3, f4, f5.
    assert (f0 = []).
    { destruct f0 as [|c f0]; [reflexivity|]. exfalso.
      cbn [join_slash app] in Hj. rewrite Ep in Hj. cbn [app] in Hj. inversion Hj; subst c.
      apply (Hn (47 :: f0)); left; reflexivity. }
    subst f0. split; [|split; [|reflexivity]].
    + rewrite <- Hj. reflexivity.
    + repeat split; apply Hn; cbn; tauto.
  - intros (f1 & f2 & f3 & f4 & f5 & -> & (H1 & H2 & H3 & H4 & H5) & ->).
    unfold parse_entry_line, has_prefix. cbn [app strip_prefix].
    change (47 =? 47) with true. cbv iota.
    change (47 :: f1 ++ 47 :: f2 ++ 47 :: f3 ++ 47 :: f4 ++ 47 :: f5)
      with ([] ++ 47 :: f1 ++ 47 :: f2 ++ 47 :: f3 ++ 47 :: f4 ++ 47 :: f5).
    rewrite !split_slash_app by (assumption || intros []).
    rewrite split_slash_plain by assumption. reflexivity.
Qed.

(* split_slash mirrors len(strings.Split(s, "/")) = 1 + number of slashes *)
Lemma split_slash_length s :
  length (split_slash s) = S (length (filter (fun c => c =? 47) s)).
Proof.
  induction s as [|c s IH]; [reflexivity|]. cbn [split_slash filter].
  destruct (c =? 47).
  - cbn [length]. rewrite IH. reflexivity.
  - pose proof (split_slash_nonempty s).
    destruct (split_slash s); [contradiction|]. cbn [length] in *. exact IH.
Qed.

(* ------------------------------------------------------------------ *)
(* the map: entries[k] = e, delete(entries, k), entries[k]             *)
(* ------------------------------------------------------------------ *)
Lemma str_eqb_sym a b : str_eqb a b = str_eqb b a.
Proof.
  destruct (str_eqb a b) eqn:E1, (str_eqb b a) eqn:E2; try reflexivity.
  - apply str_eqb_spec in E1. subst. rewrite str_eqb_refl in E2. discriminate.
  - apply str_eqb_spec in E2. subst. rewrite str_eqb_refl in E1. discriminate.
Qed.

Lemma entries_lookup_put es k' e k :
  entries_lookup (entries_put es k' e) k = if str_eqb k k' then Some e else entries_lookup es k.
Proof.
  induction es as [|[k0 e0] es IH]; cbn [entries_put entries_lookup].
  - reflexivity.
  - destruct (str_eqb k' k0) eqn:E0; cbn [entries_lookup].
    + apply str_eqb_spec in E0. subst k0. destruct (str_eqb k k'); reflexivity.
    + rewrite IH. destruct (str_eqb k k0) eqn:E1; [|reflexivity].
      apply str_eqb_spec in E1. subst k0. rewrite str_eqb_sym, E0. reflexivity.
Qed.

Theorem entries_lookup_add es e k :
  entries_lookup (entries_add es e) k = if str_eqb k (ce_name e) then Some e else entries_lookup es k.
Proof. apply entries_lookup_put. Qed.

Theorem entries_lookup_del es k' k :
  entries_lookup (entries_del es k') k = if str_eqb k k' then None else entries_lookup es k.
Proof.
  induction es as [|[k0 e0] es IH]; cbn [entries_del entries_lookup].
  - destruct (str_eqb k k'); reflexivity.
  - destruct (str_eqb k' k0) eqn:E0; cbn [entries_lookup].
    + apply str_eqb_spec in E0. subst k0. rewrite IH. destruct (str_eqb k k'); reflexivity.
    + rewrite IH. destruct (str_eqb k k0) eqn:E1; [|reflexivity].
      apply str_eqb_spec in E1. subst k0. rewrite str_eqb_sym, E0. reflexivity.
Qed.

(* the association list really is a map: keys stay duplicate-free, and every
   entry is stored under its own name *)
Definition entries_wf (es : entries) : Prop :=
  NoDup (map fst es) /\ forall k e, In (k, e) es -> k = ce_name e.

Lemma entries_put_keys es k e x :
  In x (map fst (entries_put es k e)) -> x = k \/ In x (map fst es).
Proof.
  induction es as [|[k0 e0] es IH]; cbn [entries_put map fst In].
  - intuition congruence.
  - destruct (str_eqb k k0) eqn:E0; cbn [map fst In].
    + apply str_eqb_spec in E0. subst. intuition congruence.
    + intros [H|H]; [intuition congruence|]. apply IH in H. tauto.
Qed.

Lemma entries_add_wf es e : entries_wf es -> entries_wf (entries_add es e).
Proof.
  unfold entries_add. intros [Hnd Hk]. split.
  - clear Hk. induction es as [|[k0 e0] es IH]; cbn [entries_put map fst].
    + constructor; [intros []|constructor].
    + cbn [map fst] in Hnd. inversion Hnd as [|? ? Hnot Hnd']; subst.
      destruct (str_eqb (ce_name e) k0) eqn:E0; cbn [map fst].
      * apply str_eqb_spec in E0. subst k0. constructor; assumption.
      * constructor; [|apply IH; assumption].
        intro Hin. apply entries_put_keys in Hin. destruct Hin as [->|Hin]; [|contradiction].
        rewrite str_eqb_refl in E0. discriminate.
  - clear Hnd. induction es as [|[k0 e0] es IH]; cbn [entries_put].
    + intros k e1 [H|[]]. inversion H; subst. reflexivity.
    + destruct (str_eqb (ce_name e) k0) eqn:E0.
      * intros k e1 [H|H]; [inversion H; subst; reflexivity|]. apply Hk. right. exact H.
      * intros k e1 [H|H]; [apply Hk; left; exact H|].
        apply IH; [|exact H]. intros k' e' Hin. apply Hk. right. exact Hin.
Qed.

Lemma entries_del_incl es k x : In x (entries_del es k) -> In x es.
Proof.
  induction es as [|[k0 e0] es IH]; cbn [entries_del]; [tauto|].
  destruct (str_eqb k k0); cbn [In]; [tauto|]. intros [H|H]; tauto.
Qed.

Lemma entries_del_wf es k : entries_wf es -> entries_wf (entries_del es k).
Proof.
  intros [Hnd Hk]. split.
  - clear Hk. induction es as [|[k0 e0] es IH]; cbn [entries_del map fst]; [constructor|].
    cbn [map fst] in Hnd. inversion Hnd as [|? ? Hnot Hnd']; subst.
    destruct (str_eqb k k0); [apply IH; assumption|].
    cbn [map fst]. constructor; [|apply IH; assumption].
    intro Hin. apply Hnot. apply in_map_iff in Hin as (x & <- & Hx).
    apply in_map. apply (entries_del_incl _ _ _ Hx).
  - intros k' e' Hin. apply Hk. apply (entries_del_incl _ _ _ Hin).
Qed.

Lemma handle_line_wf st add text : entries_wf (fst st) -> entries_wf (fst (handle_line st add text)).
Proof.
  intro H. unfold handle_line. destruct (parse_entry_line text); cbn [fst]; try assumption.
  destruct add; [apply entries_add_wf|apply entries_del_wf]; assumption.
Qed.

Lemma handle_log_line_wf st text : entries_wf (fst st) -> entries_wf (fst (handle_log_line st text)).
Proof.
  intro H. unfold handle_log_line.
  destruct (strip_prefix [65; 32] text); [apply handle_line_wf; assumption|].
  destruct (strip_prefix [82; 32] text); [apply handle_line_wf; assumption|assumption].
Qed.

Theorem load_entries_wf entries_lines log_lines :
  entries_wf (fst (load_entries entries_lines log_lines)).
Proof.
  unfold load_entries.
  assert (G : forall (f : entries * N -> str -> entries * N),
            (forall st l, entries_wf (fst st) -> entries_wf (fst (f st l))) ->
            forall ls st, entries_wf (fst st) -> entries_wf (fst (fold_left f ls st))).
  { intros f Hf ls. induction ls as [|l ls IH]; intros st H; cbn [fold_left]; [exact H|].
    apply IH, Hf, H. }
  apply G; [apply handle_log_line_wf|].
  apply G; [intros; apply handle_line_wf; assumption|].
  split; [constructor|intros k e []].
Qed.

(* the last line that mentions a name decides: one step of the loop, seen through lookups *)
Theorem handle_line_lookup st add text k :
  entries_lookup (fst (handle_line st add text)) k =
  match parse_entry_line text with
  | PrEntry e => if str_eqb k (ce_name e) then (if add then Some e else None)
                 else entries_lookup (fst st) k
  | _ => entries_lookup (fst st) k
  end.
Proof.
  unfold handle_line. destruct (parse_entry_line text) as [| |e]; cbn [fst]; try reflexivity.
  destruct add; [rewrite entries_lookup_add|rewrite entries_lookup_del];
    destruct (str_eqb k (ce_name e)); reflexivity.
Qed.

(* the error counter counts exactly the PrInvalid lines *)
Theorem handle_line_errors st add text :
  snd (handle_line st add text) =
  (snd st + match parse_entry_line text with PrInvalid => 1 | _ => 0 end)%N.
Proof.
  unfold handle_line. destruct (parse_entry_line text); cbn [snd]; try lia.
Qed.

Lemma weekday_of_days_range d : (0 <= weekday_of_days d <= 6)%Z.
Proof. unfold weekday_of_days. pose proof (Z.mod_pos_bound (d + 4) 7 ltac:(lia)). lia. Qed.
