(* C14, part D: the theorems about the model's rewrites, as used by Props/C14.v,
   and the refutations of the unguarded statements. *)
From PV Require Import Lib.Bytes Gen.CondSimpSets Spec.BmakeCond Model.CondSimp
  Proofs.CondSimpA Proofs.CondSimpB Proofs.CondSimpNum Proofs.CondSimpC.
From Coq Require Import ZifyBool ZifyN ZifyNat.
Open Scope N_scope.

Lemma from_shape_outside e v ms neg fe :
  eval_expr e v ms = None -> eval e (from_shape neg fe v ms) = None.
Proof.
  intros H. unfold from_shape, atom.
  destruct (negb (Bool.eqb neg fe)), fe; cbn [eval eval_leaf]; rewrite H; reflexivity.
Qed.

Lemma mods_split (mods : list str) : mods <> [] -> mods = removelast mods ++ [last mods []].
Proof. intros H. apply app_removelast_last. exact H. Qed.

Lemma has_U_prefix mods c pat :
  mods <> [] -> last mods [] = c :: pat -> c <> 85 ->
  has_modifier s_U mods = true -> has_modifier s_U (removelast mods) = true.
Proof.
  intros Hne Hlast Hc H. unfold has_modifier in *.
  pose proof (f_equal (existsb (has_prefix s_U)) (mods_split mods Hne)) as Hs.
  rewrite H in Hs. symmetry in Hs. unfold str in *.
  rewrite existsb_app in Hs. apply orb_true_iff in Hs as [Hs|Hs]; [exact Hs|].
  cbn [existsb] in Hs. rewrite Hlast in Hs. unfold has_prefix, s_U in Hs. cbn [strip_prefix] in Hs.
  destruct (N.eqb_spec 85 c); [congruence|discriminate].
Qed.

(* where pkglint did not add :U, the expression before the last modifier is defined,
   provided the variable really is defined whenever isDefined says so *)
Lemma prefix_defined cx v mods c pat e d s :
  mods <> [] -> last mods [] = c :: pat -> c <> 85 ->
  (is_defined (cx_seen_prefs cx) (cx_var cx v) = true -> e v <> None) ->
  negb (is_defined (cx_seen_prefs cx) (cx_var cx v)) && negb (has_modifier s_U mods) = false ->
  eval_expr e v (map classify_mod (removelast mods)) = Some (d, s) -> d <> DUndef.
Proof.
  intros Hne Hlast Hc Hdef Hu Hev. apply andb_false_iff in Hu as [Hu|Hu]; apply negb_false_iff in Hu.
  - specialize (Hdef Hu). unfold eval_expr in Hev. destruct (e v); [|congruence].
    apply apply_mods_regular in Hev. congruence.
  - apply (has_U_prefix mods c pat Hne Hlast Hc) in Hu. apply has_U_classify in Hu.
    unfold eval_expr in Hev. destruct (e v); eapply apply_mods_has_U; eassumption.
Qed.

Lemma MN_not_U (positive : bool) : (if positive then 77 else 78) <> 85.
Proof. destruct positive; discriminate. Qed.

(* ---------- simplifyWord ---------- *)

(* the guards under which the :Mword -> == word rewrite is correct; they are
   conditions on the pattern and on the value, the Go code checks none of them *)
Definition word_guards (e : env) (v : str) (fe positive : bool) (pat : str) : Prop :=
  (* G1: the literal is compared as a string *)
  (needs_quotes pat = true \/ try_parse_number pat = None) /\
  (* G2: the bare ${V:Mpat} is true when the word matches, i.e. pat is not a number zero *)
  (fe = false -> positive = true -> truthy pat false = true) /\
  (* G3: with :N the value is neither empty nor (in the bare form) a number zero *)
  (positive = false -> forall s, e v = Some s -> s <> [] /\ (fe = false -> truthy s false = true)).

Theorem word_rewrite_partial cx v mods fe neg rw e :
  In rw (simplify_word cx v mods fe neg) ->
  exists f t pat (positive : bool),
    rw_from_c rw = Some f /\ rw_to_c rw = Some t /\
    last mods [] = (if positive then 77 else 78) :: pat /\
    ((is_defined (cx_seen_prefs cx) (cx_var cx v) = true -> e v <> None) ->
     (forall d s, eval_expr e v (map classify_mod (removelast mods)) = Some (d, s) -> wordlike s) ->
     word_guards e v fe positive pat ->
     preserves e f t).
Proof.
  intros Hin. destruct (simplify_word_inv _ _ _ _ _ _ Hin)
    as (pat & positive & Hlast & Hne & Hpl & Hpne & Hpw & _ & HNdef & HNpre & _ & Hf & Ht).
  do 4 eexists. split; [exact Hf|]. split; [exact Ht|]. split; [exact Hlast|].
  intros Hdef Hword (G1 & G2 & G3).
  set (pms := map classify_mod (removelast mods)) in *.
  destruct (eval_expr e v pms) as [[d s]|] eqn:Hev.
  - apply word_tree_preserves with (d := d) (s := s); auto.
    + apply (Hword d s eq_refl).
    + intros Hu _. eapply prefix_defined; try eassumption. apply MN_not_U.
    + intros Hpos. specialize (HNdef Hpos). specialize (HNpre Hpos).
      subst pms. rewrite HNpre in Hev. unfold eval_expr in Hev. cbn [map apply_mods] in Hev.
      destruct (e v) as [x|] eqn:Ev; [|exfalso; apply (Hdef HNdef); reflexivity].
      injection Hev as <- <-. apply G3; auto.
  - intros r Hr. rewrite from_shape_outside in Hr; [discriminate|].
    apply eval_expr_snoc_none. exact Hev.
Qed.

(* ---------- simplifyYesNo ---------- *)

Theorem yesno_rewrite_partial cx v mods fe neg rw e :
  In rw (fst (simplify_yesno cx v mods fe neg)) ->
  exists f t pat (positive : bool),
    rw_from_c rw = Some f /\ rw_to_c rw = Some t /\
    last mods [] = (if positive then 77 else 78) :: pat /\
    ((is_defined (cx_seen_prefs cx) (cx_var cx v) = true -> e v <> None) ->
     (forall d s, eval_expr e v (map classify_mod (removelast mods)) = Some (d, s) -> wordlike s) ->
     (* with :N the value is neither empty nor (in the bare form) a number zero *)
     (positive = false -> forall s, e v = Some s -> s <> [] /\ (fe = false -> truthy s false = true)) ->
     preserves e f t).
Proof.
  intros Hin. destruct (simplify_yesno_inv _ _ _ _ _ _ Hin)
    as (pat & ls & positive & Hlast & Hne & Hyn & Hlne & _ & HNdef & HNpre & _ & Hf & Ht).
  do 4 eexists. split; [exact Hf|]. split; [exact Ht|]. split; [exact Hlast|].
  intros Hdef Hword G3.
  set (pms := map classify_mod (removelast mods)) in *.
  destruct (eval_expr e v pms) as [[d s]|] eqn:Hev.
  - apply yesno_tree_preserves with (d := d) (s := s); auto.
    + apply (Hword d s eq_refl).
    + intros Hu _. eapply prefix_defined; try eassumption. apply MN_not_U.
    + intros Hpos. specialize (HNdef Hpos). specialize (HNpre Hpos).
      subst pms. rewrite HNpre in Hev. unfold eval_expr in Hev. cbn [map apply_mods] in Hev.
      destruct (e v) as [x|] eqn:Ev; [|exfalso; apply (Hdef HNdef); reflexivity].
      injection Hev as <- <-. apply G3; auto.
  - intros r Hr. rewrite from_shape_outside in Hr; [discriminate|].
    apply eval_expr_snoc_none. exact Hev.
Qed.

(* the positive (:M) yes/no rewrite needs no guard at all *)
Corollary yesno_rewrite_M_preserves cx v mods fe neg rw e :
  In rw (fst (simplify_yesno cx v mods fe neg)) ->
  (exists pat, last mods [] = 77 :: pat) ->
  exists f t, rw_from_c rw = Some f /\ rw_to_c rw = Some t /\
    ((is_defined (cx_seen_prefs cx) (cx_var cx v) = true -> e v <> None) ->
     (forall d s, eval_expr e v (map classify_mod (removelast mods)) = Some (d, s) -> wordlike s) ->
     preserves e f t).
Proof.
  intros Hin (pat0 & Hl0).
  destruct (yesno_rewrite_partial cx v mods fe neg rw e Hin) as (f & t & pat & positive & Hf & Ht & Hl & H).
  exists f, t. split; [exact Hf|]. split; [exact Ht|]. intros Hdef Hw. apply H; auto.
  intros Hpos. subst positive. rewrite Hl0 in Hl. discriminate.
Qed.

(* ---------- simplifyMatch ---------- *)

Theorem match_rewrite_equivalent cx v mods fe neg rw e :
  In rw (simplify_match cx v mods fe neg) ->
  exists f t pat,
    rw_from_c rw = Some f /\ rw_to_c rw = Some t /\ last mods [] = 77 :: pat /\
    (e v <> None ->   (* isDefined said so: simplifyMatch fires only then *)
     forall d r, eval_expr e v (map classify_mod (removelast mods) ++ [ModM pat]) = Some (d, r) ->
       nonempty (skip_cspace r) = nonempty r ->            (* no leading \v \f \r *)
       (* what mayMatchNumber(pat) = false is taken to promise *)
       (cx_mmn cx pat <> MmnYes -> r <> [] -> truthy r false = true) ->
       equivalent e f t).
Proof.
  intros Hin. destruct (simplify_match_inv _ _ _ _ _ _ Hin)
    as (pat & Hlast & Hne & Hfe & Hdef & Hpne & _ & Hf & Ht).
  do 3 eexists. split; [exact Hf|]. split; [exact Ht|]. split; [exact Hlast|].
  intros Hv d r Hev Hsp Hmay.
  apply match_tree_equivalent with (d := d) (r := r); auto.
  - unfold eval_expr in Hev. destruct (e v); [|congruence]. apply apply_mods_regular in Hev. congruence.
  - intros Hm Hr. apply Hmay; [|exact Hr]. destruct (cx_mmn cx pat); congruence.
Qed.

(* ---------- checkAnd ---------- *)

Theorem and_rewrite_partial cs rw e :
  In rw (check_and cs) ->
  exists v ms, cs = [MDefined v; MNot (MEmpty v ms)] /\
    rw_from rw = s_defined_lp ++ v ++ s_rp_and /\ rw_to rw = [] /\
    (forallb keeps_empty (map classify_mod ms) = true ->
     equivalent e (CAnd (CDefined v) (CNot (CEmpty v (map classify_mod ms))))
                  (CNot (CEmpty v (map classify_mod ms)))).
Proof.
  intros Hin. destruct (check_and_inv _ _ Hin) as (v & ms & Hcs & _ & Hf & Ht).
  exists v, ms. repeat split; auto. apply and_tree_equivalent_fragment.
Qed.

(* ================= the unguarded statements are false ================= *)

(* a single-valued, always defined variable V; bsd.prefs.mk included *)
Definition ex_var : str := [86].
Definition ex_cx : ctx :=
  mkctx (fun _ => mkvarinfo true false false true true false true) true (fun _ => MmnNo).
Definition ex_cx_undef : ctx :=
  mkctx (fun _ => mkvarinfo true false false false false false true) true (fun _ => MmnNo).

(* simplifyWord without the guards G1-G3 *)
Definition word_full : Prop :=
  forall cx v mods fe neg rw e f t,
    In rw (simplify_word cx v mods fe neg) ->
    rw_from_c rw = Some f -> rw_to_c rw = Some t ->
    (is_defined (cx_seen_prefs cx) (cx_var cx v) = true -> e v <> None) ->
    (forall d s, eval_expr e v (map classify_mod (removelast mods)) = Some (d, s) -> wordlike s) ->
    preserves e f t.

Lemma not_preserves e f t : eval e f = Some TFalse -> eval e t = Some TTrue -> ~ preserves e f t.
Proof.
  intros Hf Ht H. destruct (H TFalse Hf) as (r' & Hr & Heq). rewrite Ht in Hr. injection Hr as <-.
  specialize (Heq ltac:(discriminate)). discriminate.
Qed.

(* one concrete rewrite of the model, with its trees and their values *)
Definition counterexample (l : list rewrite) (e : env) : Prop :=
  exists rw f t, l = [rw] /\ rw_from_c rw = Some f /\ rw_to_c rw = Some t /\
                 eval e f = Some TFalse /\ eval e t = Some TTrue.

Definition is_tri (a : option tri) (b : tri) : bool :=
  match a, b with
  | Some TTrue, TTrue | Some TFalse, TFalse | Some TMalformed, TMalformed => true
  | _, _ => false
  end.
Lemma is_tri_sound a b : is_tri a b = true -> a = Some b.
Proof. destruct a as [[| |]|], b; simpl; congruence. Qed.

(* closed, computable form: evaluated by vm_compute on a closed boolean *)
Definition rewrite_values (l : list rewrite) (e : env) (vf vt : tri) : bool :=
  match l with
  | [rw] => match rw_from_c rw, rw_to_c rw with
            | Some f, Some t => is_tri (eval e f) vf && is_tri (eval e t) vt
            | _, _ => false
            end
  | _ => false
  end.

Lemma rewrite_values_sound l e vf vt : rewrite_values l e vf vt = true ->
  exists rw f t, l = [rw] /\ rw_from_c rw = Some f /\ rw_to_c rw = Some t /\
                 eval e f = Some vf /\ eval e t = Some vt.
Proof.
  unfold rewrite_values. destruct l as [|rw [|? ?]]; try discriminate.
  destruct (rw_from_c rw) as [f|] eqn:Ef; [|discriminate].
  destruct (rw_to_c rw) as [t|] eqn:Et; [|discriminate].
  intros H. apply andb_true_iff in H as [H1 H2]. apply is_tri_sound in H1, H2.
  exists rw, f, t. auto.
Qed.

(* ${V:Nfoo} -> ${V} != foo, V = "" (defined, empty) *)
Definition ex_N_mods : list str := [[78; 102; 111; 111]].
Lemma word_cex_N_empty :
  counterexample (simplify_word ex_cx ex_var ex_N_mods false true) (env1 ex_var (Some [])).
Proof. try unfold counterexample. apply rewrite_values_sound. vm_compute. reflexivity. Qed.

(* ${V:M1e1} -> ${V} == 1e1, V = "10" *)
Definition ex_1e1_mods : list str := [[77; 49; 101; 49]].
Lemma word_cex_numeric_literal :
  counterexample (simplify_word ex_cx ex_var ex_1e1_mods false true) (env1 ex_var (Some [49; 48])).
Proof. try unfold counterexample. apply rewrite_values_sound. vm_compute. reflexivity. Qed.

(* ${V:M0} -> ${V} == "0", V = "0" *)
Definition ex_0_mods : list str := [[77; 48]].
Lemma word_cex_bare_zero :
  counterexample (simplify_word ex_cx ex_var ex_0_mods false true) (env1 ex_var (Some [48])).
Proof. try unfold counterexample. apply rewrite_values_sound. vm_compute. reflexivity. Qed.

Lemma wordlike_ex_value (x : option str) (Hx : match x with Some s => wordlike s | None => True end) mods :
  mods = [] -> forall d s, eval_expr (env1 ex_var x) ex_var (map classify_mod mods) = Some (d, s) -> wordlike s.
Proof.
  intros -> d s. unfold eval_expr, env1. rewrite str_eqb_refl. destruct x; simpl; intros H; injection H as <- <-;
    [exact Hx|exact wordlike_nil].
Qed.

Lemma refute_word (mods : list str) (fe neg : bool) (x : str) :
  removelast mods = [] -> wordlike x ->
  counterexample (simplify_word ex_cx ex_var mods fe neg) (env1 ex_var (Some x)) -> ~ word_full.
Proof.
  intros Hpre Hx (rw & f & t & Hl & Hf & Ht & Ef & Et) H.
  apply (not_preserves _ _ _ Ef Et).
  apply (H ex_cx ex_var mods fe neg rw); auto.
  - rewrite Hl. left. reflexivity.
  - intros _. unfold env1. rewrite str_eqb_refl. discriminate.
  - rewrite Hpre. apply (wordlike_ex_value (Some x) Hx []). reflexivity.
Qed.

Theorem word_full_refuted : ~ word_full.
Proof. apply (refute_word ex_N_mods false true []); [reflexivity|reflexivity|exact word_cex_N_empty]. Qed.

Theorem word_full_refuted_numeric_literal : ~ word_full.
Proof. apply (refute_word ex_1e1_mods false true [49; 48]); [reflexivity|reflexivity|exact word_cex_numeric_literal]. Qed.

Theorem word_full_refuted_bare_zero : ~ word_full.
Proof. apply (refute_word ex_0_mods false true [48]); [reflexivity|reflexivity|exact word_cex_bare_zero]. Qed.

(* simplifyYesNo without the :N guard *)
Definition yesno_full : Prop :=
  forall cx v mods fe neg rw e f t,
    In rw (fst (simplify_yesno cx v mods fe neg)) ->
    rw_from_c rw = Some f -> rw_to_c rw = Some t ->
    (is_defined (cx_seen_prefs cx) (cx_var cx v) = true -> e v <> None) ->
    (forall d s, eval_expr e v (map classify_mod (removelast mods)) = Some (d, s) -> wordlike s) ->
    preserves e f t.

(* ${V:N[yY][eE][sS]} -> ${V:tl} != yes, V = "" *)
Definition ex_Nyes_mods : list str := [[78; 91; 121; 89; 93; 91; 101; 69; 93; 91; 115; 83; 93]].
Lemma yesno_cex_N_empty :
  counterexample (fst (simplify_yesno ex_cx ex_var ex_Nyes_mods false true)) (env1 ex_var (Some [])).
Proof. try unfold counterexample. apply rewrite_values_sound. vm_compute. reflexivity. Qed.

Theorem yesno_full_refuted : ~ yesno_full.
Proof.
  destruct yesno_cex_N_empty as (rw & f & t & Hl & Hf & Ht & Ef & Et). intros H.
  apply (not_preserves _ _ _ Ef Et).
  apply (H ex_cx ex_var ex_Nyes_mods false true rw); auto.
  - rewrite Hl. left. reflexivity.
  - intros _. unfold env1. rewrite str_eqb_refl. discriminate.
  - apply (wordlike_ex_value (Some []) wordlike_nil []). reflexivity.
Qed.

(* checkAnd without looking at the modifiers *)
Definition and_full : Prop :=
  forall cs rw e v ms, In rw (check_and cs) -> cs = [MDefined v; MNot (MEmpty v ms)] ->
    equivalent e (CAnd (CDefined v) (CNot (CEmpty v (map classify_mod ms))))
                 (CNot (CEmpty v (map classify_mod ms))).

(* defined(V) && !empty(V:Ux) -> !empty(V:Ux), V undefined *)
Definition ex_Ux_mods : list str := [[85; 120]].
Definition ex_and_from : cond := CAnd (CDefined ex_var) (CNot (CEmpty ex_var (map classify_mod ex_Ux_mods))).
Definition ex_and_to : cond := CNot (CEmpty ex_var (map classify_mod ex_Ux_mods)).
Lemma and_cex : is_tri (eval (env1 ex_var None) ex_and_from) TFalse && is_tri (eval (env1 ex_var None) ex_and_to) TTrue = true.
Proof. vm_compute. reflexivity. Qed.

Theorem and_full_refuted : ~ and_full.
Proof.
  intros H.
  assert (Hin : In (mkrw KAnd (s_defined_lp ++ ex_var ++ s_rp_and) [] None None)
                   (check_and [MDefined ex_var; MNot (MEmpty ex_var ex_Ux_mods)])).
  { left. reflexivity. }
  specialize (H _ _ (env1 ex_var None) ex_var ex_Ux_mods Hin eq_refl). unfold equivalent in H.
  pose proof and_cex as C. apply andb_true_iff in C as [C1 C2]. apply is_tri_sound in C1, C2.
  fold ex_and_from in H. fold ex_and_to in H. rewrite C1, C2 in H. discriminate.
Qed.

(* simplifyMatch: the promise taken from mayMatchNumber is needed.
   !empty(V:M0x[0-9].) -> ${V:M0x[0-9].} when mayMatchNumber says "no", V = "0x0." :
   strtod reads 0x0. as a hexadecimal floating constant with value zero *)
Definition ex_hex_mods : list str := [[77; 48; 120; 91; 48; 45; 57; 93; 46]].
Example match_needs_mmn_promise :
  exists rw f t, simplify_match ex_cx ex_var ex_hex_mods true true = [rw] /\
    rw_from_c rw = Some f /\ rw_to_c rw = Some t /\
    eval (env1 ex_var (Some [48; 120; 48; 46])) f = Some TTrue /\
    eval (env1 ex_var (Some [48; 120; 48; 46])) t = Some TFalse.
Proof. try unfold counterexample. apply rewrite_values_sound. vm_compute. reflexivity. Qed.

(* ================= the hypotheses are satisfiable ================= *)

(* !empty(V:Malpha) -> ${V} == alpha : guards hold, values agree for V = alpha, beta, "" *)
Definition ex_alpha : str := [97; 108; 112; 104; 97].
Definition ex_Malpha_mods : list str := [77 :: ex_alpha].
Example word_guards_satisfiable :
  word_guards (env1 ex_var (Some ex_alpha)) ex_var true true ex_alpha.
Proof.
  unfold word_guards. split; [right; vm_compute; reflexivity|]. split; [discriminate|discriminate].
Qed.

Example word_rewrite_example :
  (exists rw f t, simplify_word ex_cx ex_var ex_Malpha_mods true true = [rw] /\
    rw_from_c rw = Some f /\ rw_to_c rw = Some t /\
    eval (env1 ex_var (Some ex_alpha)) f = Some TTrue /\ eval (env1 ex_var (Some ex_alpha)) t = Some TTrue) /\
  (exists rw f t, simplify_word ex_cx ex_var ex_Malpha_mods true true = [rw] /\
    rw_from_c rw = Some f /\ rw_to_c rw = Some t /\
    eval (env1 ex_var (Some [98])) f = Some TFalse /\ eval (env1 ex_var (Some [98])) t = Some TFalse).
Proof. split; apply rewrite_values_sound; vm_compute; reflexivity. Qed.

(* the possibly undefined variable: ${V:Malpha} is malformed, ${V:U} == alpha is false *)
Example word_rewrite_undefined_example :
  exists rw f t, simplify_word ex_cx_undef ex_var ex_Malpha_mods false true = [rw] /\
    rw_from_c rw = Some f /\ rw_to_c rw = Some t /\
    eval (env1 ex_var None) f = Some TMalformed /\ eval (env1 ex_var None) t = Some TFalse.
Proof. try unfold counterexample. apply rewrite_values_sound. vm_compute. reflexivity. Qed.

(* ---------- simplifyMatch, with mayMatchNumber's promise stated on single words ---------- *)
From PV Require Import Proofs.CondSimpWords.

Theorem match_rewrite_equivalent_words cx v mods fe neg rw e :
  In rw (simplify_match cx v mods fe neg) ->
  exists f t pat,
    rw_from_c rw = Some f /\ rw_to_c rw = Some t /\ last mods [] = 77 :: pat /\
    (e v <> None ->   (* isDefined said so: simplifyMatch fires only then *)
     forall d s, eval_expr e v (map classify_mod (removelast mods)) = Some (d, s) ->
       clean s ->      (* the value has no white space other than blank, tab, newline *)
       (* mayMatchNumber(pat) = false: no word that matches pat is a number *)
       (cx_mmn cx pat <> MmnYes ->
        forall w, w <> [] -> wordlike w -> str_match w pat = true -> try_parse_number w = None) ->
       equivalent e f t).
Proof.
  intros Hin. destruct (match_rewrite_equivalent cx v mods fe neg rw e Hin) as (f & t & pat & Hf & Ht & Hl & H).
  exists f, t, pat. split; [exact Hf|]. split; [exact Ht|]. split; [exact Hl|].
  intros Hv d s Hev Hcl Hnum.
  pose proof (eval_expr_snoc e v _ (ModM pat) d s Hev) as Hlast. cbn [apply_mod] in Hlast.
  apply (H Hv d _ Hlast).
  - apply (match_result_head (fun w => str_match w pat) s Hcl).
  - intros Hm. apply (match_result_bare pat s Hcl (Hnum Hm)).
Qed.
