(* C14, part D: the theorems about the model's rewrites, as used by Props/C14.v,
   and the refutations of the unguarded statements. *)
From PV Require Import Lib.Bytes Gen.CondSimpSets Spec.BmakeCond Model.CondSimp
  Proofs.CondSimpA Proofs.CondSimpB Proofs.CondSimpNum Proofs.CondSimpC.
From Coq Require Import ZifyBool ZifyN ZifyNat.
Open Scope N_scope.

Lemma from_shape_outside e v ms neg fe :
  eval_expr e v ms = None -> eval e (from_shape neg fe v ms) = None.
Proof.
  intros H. unfold from_shape, atom.
  destruct (negb (Bool.eqb neg fe)), fe; cbn [eval eval_leaf]; rewrite H; reflexivity.
Qed.

Lemma mods_split (mods : list str) : mods <> [] -> mods = removelast mods ++ [last mods []].
Proof. intros H. apply app_removelast_last. exact H. Qed.

Lemma has_U_prefix mods c pat :
  mods <> [] -> last mods [] = c :: pat -> c <> 85 ->
  has_modifier s_U mods = true -> has_modifier s_U (removelast mods) = true.
Proof.
  intros Hne Hlast Hc H. unfold has_modifier in *.
  pose proof (f_equal (existsb (has_prefix s_U)) (mods_split mods Hne)) as Hs.
  rewrite H in Hs. symmetry in Hs. unfold str in *.
  rewrite existsb_app in Hs. apply orb_true_iff in Hs as [Hs|Hs]; [exact Hs|].
  cbn [existsb] in Hs. rewrite Hlast in Hs. unfold has_prefix, s_U in Hs. cbn [strip_prefix] in Hs.
  destruct (N.eqb_spec 85 c); [congruence|discriminate].
Qed.

(* where pkglint did not add :U, the expression before the last modifier is defined,
   provided the variable really is defined whenever isDefined says so *)
Lemma prefix_defined cx v mods c pat e d s :
  mods <> [] -> last mods [] = c :: pat -> c <> 85 ->
  (is_defined (cx_seen_prefs cx) (cx_var cx v) = true -> e v <> None) ->
  negb (is_defined (cx_seen_prefs cx) (cx_var cx v)) && negb (has_modifier s_U mods) = false ->
  eval_expr e v (map classify_mod (removelast mods)) = Some (d, s) -> d <> DUndef.
Proof.
  intros Hne Hlast Hc Hdef Hu Hev. apply andb_false_iff in Hu as [Hu|Hu]; apply negb_false_iff in Hu.
  - specialize (Hdef Hu). unfold eval_expr in Hev. destruct (e v); [|congruence].
    apply apply_mods_regular in Hev. congruence.
  - apply (has_U_prefix mods c pat Hne Hlast Hc) in Hu. apply has_U_classify in Hu.
    unfold eval_expr in Hev. destruct (e v); eapply apply_mods_has_U; eassumption.
Qed.

Lemma MN_not_U (positive : bool) : (if positive then 77 else 78) <> 85.
Proof. destruct positive; discriminate. Qed.

(* ---------- simplifyWord ---------- *)

(* the one guard the Go code still lacks: with :N the value is neither empty
   nor (in the bare form) a number zero *)
Definition word_N_guard (e : env) (v : str) (fe positive : bool) : Prop :=
  positive = false -> forall s, e v = Some s -> s <> [] /\ (fe = false -> truthy s false = true).

Theorem word_rewrite_partial cx v mods fe neg rw e :
  In rw (simplify_word cx v mods fe neg) ->
  exists f t pat (positive : bool),
    rw_from_c rw = Some f /\ rw_to_c rw = Some t /\
    last mods [] = (if positive then 77 else 78) :: pat /\
    ((is_defined (cx_seen_prefs cx) (cx_var cx v) = true -> e v <> None) ->
     (forall d s, eval_expr e v (map classify_mod (removelast mods)) = Some (d, s) -> wordlike s) ->
     word_N_guard e v fe positive ->
     preserves e f t).
Proof.
  intros Hin. destruct (simplify_word_inv _ _ _ _ _ _ Hin)
    as (pat & positive & Hlast & Hne & Hpl & Hpne & Hpw & _ & HNdef & HNpre & Hnum & Hlit & _ & Hf & Ht).
  do 4 eexists. split; [exact Hf|]. split; [exact Ht|]. split; [exact Hlast|].
  intros Hdef Hword G3.
  set (pms := map classify_mod (removelast mods)) in *.
  destruct (eval_expr e v pms) as [[d s]|] eqn:Hev.
  - apply word_tree_preserves with (d := d) (s := s); auto.
    + (* no nested reference in the literal: mkCondModifierPatternLiteral has no '$' *)
      apply lit_pattern_no_dollar. exact Hlit.
    + (* the literal is compared as a string: quoted, or not a number *)
      destruct (numeric_head pat) eqn:En.
      * left. unfold needs_quotes. rewrite En. rewrite !orb_true_r. reflexivity.
      * right. apply numeric_head_false_not_number; assumption.
    + apply (Hword d s eq_refl).
    + intros Hu _. eapply prefix_defined; try eassumption. apply MN_not_U.
    + (* the bare form is only rewritten for a literal that is not a number *)
      intros Hfe _. unfold truthy.
      rewrite (numeric_head_false_not_number pat (Hnum Hfe) Hlit Hpne). destruct pat; [congruence|reflexivity].
    + intros Hpos. specialize (HNdef Hpos). specialize (HNpre Hpos).
      subst pms. rewrite HNpre in Hev. unfold eval_expr in Hev. cbn [map apply_mods] in Hev.
      destruct (e v) as [x|] eqn:Ev; [|exfalso; apply (Hdef HNdef); reflexivity].
      injection Hev as <- <-. apply G3; auto.
  - intros r Hr. rewrite from_shape_outside in Hr; [discriminate|].
    apply eval_expr_snoc_none. exact Hev.
Qed.

(* the :M form needs no guard: it holds for every admitted value *)
Corollary word_rewrite_M_preserves cx v mods fe neg rw e :
  In rw (simplify_word cx v mods fe neg) ->
  (exists pat, last mods [] = 77 :: pat) ->
  exists f t, rw_from_c rw = Some f /\ rw_to_c rw = Some t /\
    ((is_defined (cx_seen_prefs cx) (cx_var cx v) = true -> e v <> None) ->
     (forall d s, eval_expr e v (map classify_mod (removelast mods)) = Some (d, s) -> wordlike s) ->
     preserves e f t).
Proof.
  intros Hin (pat0 & Hl0).
  destruct (word_rewrite_partial cx v mods fe neg rw e Hin) as (f & t & pat & positive & Hf & Ht & Hl & H).
  exists f, t. split; [exact Hf|]. split; [exact Ht|]. intros Hdef Hw. apply H; auto.
  intros Hpos. subst positive. rewrite Hl0 in Hl. discriminate.
Qed.

(* ---------- simplifyYesNo ---------- *)

(* no guard is left: :N is only rewritten in the empty() form of a variable
   that is declared NonemptyIfDefined, and that declaration is taken as true *)
Theorem yesno_rewrite_preserves cx v mods fe neg rw e :
  In rw (fst (simplify_yesno cx v mods fe neg)) ->
  exists f t,
    rw_from_c rw = Some f /\ rw_to_c rw = Some t /\
    ((is_defined (cx_seen_prefs cx) (cx_var cx v) = true -> e v <> None) ->
     (vi_nonempty_if_defined (cx_var cx v) = true -> e v <> Some []) ->
     (forall d s, eval_expr e v (map classify_mod (removelast mods)) = Some (d, s) -> wordlike s) ->
     preserves e f t).
Proof.
  intros Hin. destruct (simplify_yesno_inv _ _ _ _ _ _ Hin)
    as (pat & ls & positive & Hlast & Hne & Hyn & Hlne & _ & HN & HNpre & _ & Hf & Ht).
  do 2 eexists. split; [exact Hf|]. split; [exact Ht|].
  intros Hdef Hnonempty Hword.
  set (pms := map classify_mod (removelast mods)) in *.
  destruct (eval_expr e v pms) as [[d s]|] eqn:Hev.
  - apply yesno_tree_preserves with (d := d) (s := s); auto.
    + apply (Hword d s eq_refl).
    + intros Hu _. eapply prefix_defined; try eassumption. apply MN_not_U.
    + intros Hpos. destruct (HN Hpos) as (HNdef & Hfe & Hnz). specialize (HNpre Hpos).
      subst pms. rewrite HNpre in Hev. unfold eval_expr in Hev. cbn [map apply_mods] in Hev.
      destruct (e v) as [x|] eqn:Ev; [|exfalso; apply (Hdef HNdef); reflexivity].
      injection Hev as <- <-. split; [|congruence].
      intros ->. apply (Hnonempty Hnz). reflexivity.
  - intros r Hr. rewrite from_shape_outside in Hr; [discriminate|].
    apply eval_expr_snoc_none. exact Hev.
Qed.

(* ---------- simplifyMatch ---------- *)

Theorem match_rewrite_equivalent cx v mods fe neg rw e :
  In rw (simplify_match cx v mods fe neg) ->
  exists f t pat,
    rw_from_c rw = Some f /\ rw_to_c rw = Some t /\ last mods [] = 77 :: pat /\
    (e v <> None ->   (* isDefined said so: simplifyMatch fires only then *)
     forall d r, eval_expr e v (map classify_mod (removelast mods) ++ [ModM pat]) = Some (d, r) ->
       nonempty (skip_cspace r) = nonempty r ->            (* no leading \v \f \r *)
       (* what mayMatchNumber(pat) = false is taken to promise *)
       (cx_mmn cx pat <> MmnYes -> r <> [] -> truthy r false = true) ->
       equivalent e f t).
Proof.
  intros Hin. destruct (simplify_match_inv _ _ _ _ _ _ Hin)
    as (pat & Hlast & Hne & Hfe & Hdef & Hpne & _ & _ & Hf & Ht).
  do 3 eexists. split; [exact Hf|]. split; [exact Ht|]. split; [exact Hlast|].
  intros Hv d r Hev Hsp Hmay.
  apply match_tree_equivalent with (d := d) (r := r); auto.
  - unfold eval_expr in Hev. destruct (e v); [|congruence]. apply apply_mods_regular in Hev. congruence.
  - intros Hm Hr. apply Hmay; [|exact Hr]. destruct (cx_mmn cx pat); congruence.
Qed.

(* ---------- checkAnd ---------- *)

Theorem and_rewrite_equivalent cs rw e :
  In rw (check_and cs) ->
  exists v ms, cs = [MDefined v; MNot (MEmpty v ms)] /\
    rw_from rw = s_defined_lp ++ v ++ s_rp_and /\ rw_to rw = [] /\
    equivalent e (CAnd (CDefined v) (CNot (CEmpty v (map classify_mod ms))))
                 (CNot (CEmpty v (map classify_mod ms))).
Proof.
  intros Hin. destruct (check_and_inv _ _ Hin) as (v & ms & Hcs & _ & Hf & Ht & HU).
  exists v, ms. repeat split; auto. apply and_tree_equivalent_fragment. apply no_U_keeps_empty. exact HU.
Qed.

(* ================= the one unguarded statement that is still false ================= *)

(* a single-valued, always defined variable V; bsd.prefs.mk included *)
Definition ex_var : str := [86].
Definition ex_cx : ctx :=
  mkctx (fun _ => mkvarinfo true false false true true false true false) true (fun _ => MmnNo).
Definition ex_cx_undef : ctx :=
  mkctx (fun _ => mkvarinfo true false false false false false true false) true (fun _ => MmnNo).

(* simplifyWord without the :N guard *)
Definition word_full : Prop :=
  forall cx v mods fe neg rw e f t,
    In rw (simplify_word cx v mods fe neg) ->
    rw_from_c rw = Some f -> rw_to_c rw = Some t ->
    (is_defined (cx_seen_prefs cx) (cx_var cx v) = true -> e v <> None) ->
    (forall d s, eval_expr e v (map classify_mod (removelast mods)) = Some (d, s) -> wordlike s) ->
    preserves e f t.

Lemma not_preserves e f t : eval e f = Some TFalse -> eval e t = Some TTrue -> ~ preserves e f t.
Proof.
  intros Hf Ht H. destruct (H TFalse Hf) as (r' & Hr & Heq). rewrite Ht in Hr. injection Hr as <-.
  specialize (Heq ltac:(discriminate)). discriminate.
Qed.

(* one concrete rewrite of the model, with its trees and their values *)
Definition counterexample (l : list rewrite) (e : env) : Prop :=
  exists rw f t, l = [rw] /\ rw_from_c rw = Some f /\ rw_to_c rw = Some t /\
                 eval e f = Some TFalse /\ eval e t = Some TTrue.

Definition is_tri (a : option tri) (b : tri) : bool :=
  match a, b with
  | Some TTrue, TTrue | Some TFalse, TFalse | Some TMalformed, TMalformed => true
  | _, _ => false
  end.
Lemma is_tri_sound a b : is_tri a b = true -> a = Some b.
Proof. destruct a as [[| |]|], b; simpl; congruence. Qed.

(* closed, computable form: evaluated by vm_compute on a closed boolean *)
Definition rewrite_values (l : list rewrite) (e : env) (vf vt : tri) : bool :=
  match l with
  | [rw] => match rw_from_c rw, rw_to_c rw with
            | Some f, Some t => is_tri (eval e f) vf && is_tri (eval e t) vt
            | _, _ => false
            end
  | _ => false
  end.

Lemma rewrite_values_sound l e vf vt : rewrite_values l e vf vt = true ->
  exists rw f t, l = [rw] /\ rw_from_c rw = Some f /\ rw_to_c rw = Some t /\
                 eval e f = Some vf /\ eval e t = Some vt.
Proof.
  unfold rewrite_values. destruct l as [|rw [|? ?]]; try discriminate.
  destruct (rw_from_c rw) as [f|] eqn:Ef; [|discriminate].
  destruct (rw_to_c rw) as [t|] eqn:Et; [|discriminate].
  intros H. apply andb_true_iff in H as [H1 H2]. apply is_tri_sound in H1, H2.
  exists rw, f, t. auto.
Qed.

(* ${V:Nfoo} -> ${V} != foo, V = "" (defined, empty) *)
Definition ex_N_mods : list str := [[78; 102; 111; 111]].
Lemma word_cex_N_empty :
  counterexample (simplify_word ex_cx ex_var ex_N_mods false true) (env1 ex_var (Some [])).
Proof. try unfold counterexample. apply rewrite_values_sound. vm_compute. reflexivity. Qed.

Lemma wordlike_ex_value (x : option str) (Hx : match x with Some s => wordlike s | None => True end) mods :
  mods = [] -> forall d s, eval_expr (env1 ex_var x) ex_var (map classify_mod mods) = Some (d, s) -> wordlike s.
Proof.
  intros -> d s. unfold eval_expr, env1. rewrite str_eqb_refl. destruct x; simpl; intros H; injection H as <- <-;
    [exact Hx|exact wordlike_nil].
Qed.

Theorem word_full_refuted : ~ word_full.
Proof.
  destruct word_cex_N_empty as (rw & f & t & Hl & Hf & Ht & Ef & Et). intros H.
  apply (not_preserves _ _ _ Ef Et).
  apply (H ex_cx ex_var ex_N_mods false true rw); auto.
  - rewrite Hl. left. reflexivity.
  - intros _. unfold env1. rewrite str_eqb_refl. discriminate.
  - apply (wordlike_ex_value (Some []) wordlike_nil []). reflexivity.
Qed.

(* simplifyMatch: the promise taken from mayMatchNumber is needed.
   !empty(V:M0x[0-9].) -> ${V:M0x[0-9].} when mayMatchNumber says "no", V = "0x0." :
   strtod reads 0x0. as a hexadecimal floating constant with value zero *)
Definition ex_hex_mods : list str := [[77; 48; 120; 91; 48; 45; 57; 93; 46]].
Definition ex_hex_line : str := [].
Example match_needs_mmn_promise :
  exists rw f t, simplify_match ex_cx ex_var ex_hex_mods true true = [rw] /\
    rw_from_c rw = Some f /\ rw_to_c rw = Some t /\
    eval (env1 ex_var (Some [48; 120; 48; 46])) f = Some TTrue /\
    eval (env1 ex_var (Some [48; 120; 48; 46])) t = Some TFalse.
Proof. apply rewrite_values_sound. vm_compute. reflexivity. Qed.

(* ================= the hypotheses are satisfiable ================= *)

Definition ex_alpha : str := [97; 108; 112; 104; 97].
Definition ex_Malpha_mods : list str := [77 :: ex_alpha].

(* !empty(V:Malpha) -> ${V} == alpha : true/true for V = alpha, false/false for V = b *)
Example word_rewrite_example :
  (exists rw f t, simplify_word ex_cx ex_var ex_Malpha_mods true true = [rw] /\
    rw_from_c rw = Some f /\ rw_to_c rw = Some t /\
    eval (env1 ex_var (Some ex_alpha)) f = Some TTrue /\ eval (env1 ex_var (Some ex_alpha)) t = Some TTrue) /\
  (exists rw f t, simplify_word ex_cx ex_var ex_Malpha_mods true true = [rw] /\
    rw_from_c rw = Some f /\ rw_to_c rw = Some t /\
    eval (env1 ex_var (Some [98])) f = Some TFalse /\ eval (env1 ex_var (Some [98])) t = Some TFalse).
Proof. split; apply rewrite_values_sound; vm_compute; reflexivity. Qed.

(* the possibly undefined variable: ${V:Malpha} is malformed, ${V:U} == alpha is false *)
Example word_rewrite_undefined_example :
  exists rw f t, simplify_word ex_cx_undef ex_var ex_Malpha_mods false true = [rw] /\
    rw_from_c rw = Some f /\ rw_to_c rw = Some t /\
    eval (env1 ex_var None) f = Some TMalformed /\ eval (env1 ex_var None) t = Some TFalse.
Proof. apply rewrite_values_sound. vm_compute. reflexivity. Qed.

(* the repaired cases: no rewrite is offered any more *)
Example repaired_no_rewrite :
  simplify_word ex_cx ex_var [[77; 48]] false true = []                         (* ${V:M0}   *)
  /\ simplify_word ex_cx ex_var [[77; 49; 101; 49]] false true = []            (* ${V:M1e1} *)
  /\ fst (simplify_yesno ex_cx ex_var [[78; 91; 121; 89; 93]] false true) = [] (* ${V:N[yY]} *)
  /\ check_and [MDefined ex_var; MNot (MEmpty ex_var [[85; 120]])] = [].       (* defined(V) && !empty(V:Ux) *)
Proof. vm_compute. repeat split; reflexivity. Qed.

(* ... and !empty(V:M1e1) now gets its quotes: ${V} == "1e1" *)
Example repaired_quotes :
  exists rw, simplify_word ex_cx ex_var [[77; 49; 101; 49]] true true = [rw] /\
             rw_to rw = [36; 123; 86; 125; 32; 61; 61; 32; 34; 49; 101; 49; 34].
Proof. eexists. vm_compute. split; reflexivity. Qed.

(* ---------- simplifyMatch, with mayMatchNumber's promise stated on single words ---------- *)
From PV Require Import Proofs.CondSimpWords.

Theorem match_rewrite_equivalent_words cx v mods fe neg rw e :
  In rw (simplify_match cx v mods fe neg) ->
  exists f t pat,
    rw_from_c rw = Some f /\ rw_to_c rw = Some t /\ last mods [] = 77 :: pat /\
    (e v <> None ->   (* isDefined said so: simplifyMatch fires only then *)
     forall d s, eval_expr e v (map classify_mod (removelast mods)) = Some (d, s) ->
       clean s ->      (* the value has no white space other than blank, tab, newline *)
       (* mayMatchNumber(pat) = false: no word that matches pat is a number *)
       (cx_mmn cx pat <> MmnYes ->
        forall w, w <> [] -> wordlike w -> str_match w pat = true -> try_parse_number w = None) ->
       equivalent e f t).
Proof.
  intros Hin. destruct (match_rewrite_equivalent cx v mods fe neg rw e Hin) as (f & t & pat & Hf & Ht & Hl & H).
  exists f, t, pat. split; [exact Hf|]. split; [exact Ht|]. split; [exact Hl|].
  intros Hv d s Hev Hcl Hnum.
  assert (Hnd : no_dollar pat = true).
  { destruct (simplify_match_inv _ _ _ _ _ _ Hin) as (pat' & Hl' & _ & _ & _ & _ & Hnd & _).
    rewrite Hl in Hl'. injection Hl' as <-. exact Hnd. }
  pose proof (eval_expr_snoc e v _ (ModM pat) d s Hev) as Hlast. cbn [apply_mod] in Hlast.
  rewrite (expand_pat_literal e pat Hnd) in Hlast.
  apply (H Hv d _ Hlast).
  - apply (match_result_head (fun w => str_match w pat) s Hcl).
  - intros Hm. apply (match_result_bare pat s Hcl (Hnum Hm)).
Qed.
