(* show_diags_subset_default, the part that is true: when no check uses
   Replace/ReplaceAfter (the only operation whose effect on texts/Line.Text
   depends on the mode) and the level of a diagnostic is determined by its
   message, every diagnostic printed with -f is printed by the default run. *)
From PV Require Import Lib.Bytes Model.Modes Proofs.Modes.
Open Scope N_scope.

Definition op_no_ra (o : op) : Prop := match o with OReplaceAfter _ _ _ => False | _ => True end.
Definition event_no_ra (e : event) : Prop :=
  match e with EFix _ _ _ _ _ ops => Forall op_no_ra ops | _ => True end.
Definition event_level (lvl : str -> level) (e : event) : Prop :=
  match e with
  | EDiag _ lv _ msg => lv = lvl msg
  | EFix _ lv _ msg _ _ => lv = lvl msg
  | _ => True
  end.
Definition checks_ok (lvl : str -> level) (cs : list check) : Prop :=
  forall c ls e, In c cs -> In e (c ls) -> event_no_ra e /\ event_level lvl e.

Lemma do_op_no_ra m1 m2 skip f o : op_no_ra o -> do_op m1 skip f o = do_op m2 skip f o.
Proof. destruct o; cbn; intros H; try reflexivity. destruct H. Qed.
Lemma do_ops_no_ra m1 m2 skip ops : Forall op_no_ra ops -> forall f, do_ops m1 skip f ops = do_ops m2 skip f ops.
Proof.
  induction 1 as [|o ops Ho _ IH]; intros f; cbn [do_ops]; [reflexivity|].
  rewrite (do_op_no_ra m1 m2 skip f o Ho). destruct (do_op m2 skip f o); [apply IH|reflexivity].
Qed.

Lemma key_eqb_true a b : key_eqb a b = true -> a = b.
Proof.
  destruct a as [[f1 [a1 b1]] m1], b as [[f2 [a2 b2]] m2]. cbn. intros H.
  repeat (apply andb_true_iff in H as [H ?]).
  apply str_eqb_spec in H. apply str_eqb_spec in H0. apply N.eqb_eq in H1. apply N.eqb_eq in H2. congruence.
Qed.

(* every key in `logged` has been printed, at the level its message determines *)
Definition LogInv (lvl : str -> level) (g : lg) : Prop :=
  forall f ln msg, In (f, ln, msg) (g_logged g) -> In (IDiag (lvl msg) f ln msg) (g_out g).
Definition grows (g g' : lg) : Prop := exists x, g_out g' = g_out g ++ x.

Lemma grows_refl g : grows g g. Proof. exists []. rewrite app_nil_r. reflexivity. Qed.
Ltac gsame := exists []; rewrite app_nil_r; reflexivity.
Lemma grows_in g g' it : grows g g' -> In it (g_out g) -> In it (g_out g').
Proof. intros [x ->] H. apply in_or_app. left. exact H. Qed.

(* FirstTime followed by Logf, with nothing suppressed before: the diagnostic
   is in the output afterwards, and LogInv is kept *)
Lemma first_time_logf lvl g k lv :
  LogInv lvl g -> g_suppressDiag g = false -> lv = lvl (snd k) ->
  let g' := logf_diag (snd (first_time g k)) lv (fst (fst k)) (snd (fst k)) (snd k) in
  LogInv lvl g' /\ grows g g' /\ In (IDiag lv (fst (fst k)) (snd (fst k)) (snd k)) (g_out g') /\ g_logged g' = g_logged (snd (first_time g k)).
Proof.
  intros HL Hs Hlv. destruct k as [[f ln] msg]. cbn [fst snd] in *. unfold first_time.
  destruct (existsb (key_eqb (f, ln, msg)) (g_logged g)) eqn:E; cbn [snd].
  - apply existsb_exists in E as (k' & Hin & Hk). apply key_eqb_true in Hk. subst k'.
    unfold logf_diag. cbn. repeat split.
    + exact HL.
    + gsame.
    + subst lv. apply HL. exact Hin.
  - unfold logf_diag. cbn. rewrite Hs. cbn. repeat split.
    + intros f' ln' msg' [Hk|Hin]; apply in_or_app.
      * inversion Hk; subst. right. left. reflexivity.
      * left. apply HL. exact Hin.
    + eexists. reflexivity.
    + apply in_or_app. right. left. reflexivity.
Qed.

Lemma diag_default lvl only g l lv fmt msg :
  LogInv lvl g -> lv = lvl msg ->
  LogInv lvl (diag Default only g l lv fmt msg) /\ grows g (diag Default only g l lv fmt msg).
Proof.
  intros HL Hlv. unfold diag. cbn [is_autofix Default m_show m_fix orb]. unfold relevant.
  destruct (shall_be_logged only fmt) eqn:Er; cbn [negb].
  2:{ split; [exact HL|gsame]. }
  set (g1 := set_suppress g false false).
  assert (HL1 : LogInv lvl g1) by exact HL.
  destruct (first_time_logf lvl g1 (l_file l, line_linenos l, msg) lv HL1 eq_refl Hlv) as (H1 & H2 & _ & _).
  cbn [fst snd] in *.
  destruct (first_time g1 (l_file l, line_linenos l, msg)) as [ft g2] eqn:E2. cbn [snd] in *.
  destruct ft; cbn [negb].
  - split; [exact H1|exact H2].
  - (* not the first time: nothing printed, flags reset *)
    unfold first_time in E2. destruct (existsb _ _); inversion E2. subst g2.
    split; [exact HL|gsame].
Qed.

Lemma apply_fix_default lvl only g f lv fmt msg expl :
  LogInv lvl g -> lv = lvl msg ->
  let g' := fst (apply_fix Default only g f lv fmt msg expl) in
  LogInv lvl g' /\ grows g g'
  /\ (shall_be_logged only fmt = true -> str_eqb fmt silent_format = false ->
      In (IDiag lv (l_file (f_line f)) (affected_linenos (f_line f) (f_acts f)) msg) (g_out g')).
Proof.
  intros HL Hlv. rewrite apply_fix_eq. unfold apply_fix'.
  cbn [is_autofix Default m_show m_fix orb negb andb].
  rewrite orb_true_r, andb_true_r.
  destruct (shall_be_logged only fmt) eqn:Er; cbn [negb fst].
  2:{ repeat split; [exact HL|gsame|discriminate]. }
  rewrite andb_true_r.
  set (g1 := set_suppress g false false).
  assert (HL1 : LogInv lvl g1) by exact HL.
  destruct (str_eqb fmt silent_format) eqn:Es; cbn [negb andb].
  { repeat split; [exact HL|gsame|discriminate]. }
  destruct (first_time_logf lvl g1 (l_file (f_line f), affected_linenos (f_line f) (f_acts f), msg) lv HL1 eq_refl Hlv)
    as (H1 & H2 & H3 & _). cbn [fst snd] in *.
  set (g2 := logf_diag _ lv _ _ msg) in *.
  assert (Hg : forall g4, (g4 = g2 \/ g4 = explain g2) ->
           LogInv lvl g4 /\ grows g g4 /\ In (IDiag lv (l_file (f_line f)) (affected_linenos (f_line f) (f_acts f)) msg) (g_out g4)).
  { intros g4 [E4 | E4]; subst g4; [auto|].
    unfold LogInv, grows. rewrite explain_out.
    assert (El : g_logged (explain g2) = g_logged g2) by (unfold explain; destruct (g_suppressExpl g2); reflexivity).
    rewrite El. auto. }
  destruct expl; [destruct (Hg (explain g2)) as (A & B & C); auto|destruct (Hg g2) as (A & B & C); auto].
Qed.

(* the -f side: a diagnostic in the output after Apply was there before, or is
   the transaction's own diagnostic *)
Lemma apply_fix_show only g f lv fmt msg expl it :
  is_diag_item it = true ->
  In it (g_out (fst (apply_fix ShowAutofix only g f lv fmt msg expl))) ->
  In it (g_out g)
  \/ (shall_be_logged only fmt = true /\ str_eqb fmt silent_format = false
      /\ it = IDiag lv (l_file (f_line f)) (affected_linenos (f_line f) (f_acts f)) msg).
Proof.
  intros Hd. rewrite apply_fix_eq. unfold apply_fix'.
  cbn [is_autofix ShowAutofix m_show m_fix orb negb andb].
  rewrite orb_false_r.
  destruct (shall_be_logged only fmt) eqn:Er; cbn [negb andb fst]; [|auto].
  destruct (nonempty (f_acts f)); cbn [negb fst]; [|auto].
  rewrite andb_true_r.
  set (g1 := set_suppress g false false).
  destruct (str_eqb fmt silent_format) eqn:Es; cbn [negb].
  - destruct (fold_logf_fix (l_file (f_line f)) (f_acts f) g1 eq_refl) as [Ho _]. cbn [andb].
    rewrite Ho. intros H. apply in_app_or in H as [H|H]; [left; exact H|].
    exfalso. unfold fix_items in H. apply in_map_iff in H as (a & <- & _). discriminate.
  - set (g2 := logf_diag g1 lv (l_file (f_line f)) (affected_linenos (f_line f) (f_acts f)) msg).
    assert (H2s : g_suppressDiag g2 = false) by apply logf_diag_sd.
    destruct (fold_logf_fix (l_file (f_line f)) (f_acts f) g2 H2s) as [Ho _].
    assert (Hout : forall b : bool, g_out (if b then explain (fold_left (fun g a => logf_fix g (l_file (f_line f)) a) (f_acts f) g2)
                              else fold_left (fun g a => logf_fix g (l_file (f_line f)) a) (f_acts f) g2)
                   = g_out g ++ [IDiag lv (l_file (f_line f)) (affected_linenos (f_line f) (f_acts f)) msg] ++ fix_items (l_file (f_line f)) (f_acts f)).
    { intros b. destruct b; [rewrite explain_out|]; rewrite Ho; unfold g2, logf_diag; cbn; rewrite <- app_assoc; reflexivity. }
    cbn [andb]. rewrite Hout. intros H.
    apply in_app_or in H as [H|H]; [left; exact H|].
    apply in_app_or in H as [[H|[]]|H]; [right; auto|].
    exfalso. unfold fix_items in H. apply in_map_iff in H as (a & <- & _). discriminate.
Qed.

Lemma LogInv_grows lvl g g' : LogInv lvl g -> g_logged g' = g_logged g -> grows g g' -> LogInv lvl g'.
Proof. intros HL El Hg f ln msg Hin. rewrite El in Hin. eapply grows_in; [exact Hg|]. apply HL, Hin. Qed.

Lemma summary_logged m g : g_logged (summary m g) = g_logged g.
Proof. unfold summary. destruct (m_fix m); reflexivity. Qed.
Lemma summary_grows m g : grows g (summary m g).
Proof. unfold summary. destruct (m_fix m); [gsame|]. eexists. reflexivity. Qed.
Lemma summary_diags m g it : is_diag_item it = true -> In it (g_out (summary m g)) -> In it (g_out g).
Proof.
  intros Hd. unfold summary. destruct (m_fix m); [auto|]. cbn [g_out]. intros H.
  apply in_app_or in H as [H|H]; [exact H|]. exfalso.
  cbn in H. destruct H as [<-|H]; [discriminate|].
  apply in_app_or in H as [H|H].
  - destruct (g_explAvail g); [destruct H as [<-|[]]; discriminate|destruct H].
  - destruct (g_autofixAvail g); [|destruct H].
    apply in_app_or in H as [H|H].
    + destruct (negb (m_show m)); [destruct H as [<-|[]]; discriminate|destruct H].
    + destruct H as [<-|[]]. discriminate.
Qed.
Lemma save_logged m g ls : g_logged (save m g ls) = g_logged g.
Proof. unfold save. destruct (m_fix m); [reflexivity|]. destruct (existsb _ _); reflexivity. Qed.
Lemma explain_logged g : g_logged (explain g) = g_logged g.
Proof. unfold explain. destruct (g_suppressExpl g); reflexivity. Qed.

Definition DInv (lvl : str -> level) (sD sS : state) : Prop :=
  s_lines sD = s_lines sS /\ s_panic sD = s_panic sS /\ LogInv lvl (s_lg sD)
  /\ (forall it, is_diag_item it = true -> In it (g_out (s_lg sS)) -> In it (g_out (s_lg sD))).

Lemma step_DInv lvl only sD sS e :
  event_no_ra e -> event_level lvl e -> DInv lvl sD sS ->
  DInv lvl (step Default only sD e) (step ShowAutofix only sS e).
Proof.
  intros Hra Hlv (Hl & Hp & HL & Hsub). unfold step. rewrite <- Hp, <- Hl.
  destruct (s_panic sD) eqn:Ep.
  { repeat split; auto; congruence. }
  destruct e as [i lv fmt msg| |i lv fmt msg expl ops| |].
  - destruct (nth_error (s_lines sD) i) as [l|]; [|repeat split; cbn [s_lines s_lg s_panic panic]; auto].
    destruct (diag_default lvl only (s_lg sD) l lv fmt msg HL Hlv) as [H1 H2].
    repeat split; cbn [s_lines s_lg s_panic]; auto.
    intros it Hd Hin. eapply grows_in; [exact H2|]. apply Hsub; [exact Hd|exact Hin].
  - repeat split; cbn [s_lines s_lg s_panic]; auto.
    + eapply LogInv_grows; [exact HL|apply explain_logged|]. exists []. rewrite explain_out, app_nil_r. reflexivity.
    + intros it Hd Hin. rewrite explain_out in *. auto.
  - destruct (nth_error (s_lines sD) i) as [l|]; [|repeat split; cbn [s_lines s_lg s_panic panic]; auto].
    destruct (expl && _); [repeat split; cbn [s_lines s_lg s_panic panic]; auto|].
    destruct (match ops with [] => false | _ => _ end); [repeat split; cbn [s_lines s_lg s_panic panic]; auto|].
    rewrite (do_ops_no_ra Default ShowAutofix _ ops Hra).
    destruct (do_ops ShowAutofix _ _ ops) as [f|]; [|repeat split; cbn [s_lines s_lg s_panic panic]; auto].
    destruct (apply_fix_default lvl only (s_lg sD) f lv fmt msg expl HL Hlv) as (A & B & C).
    pose proof (apply_fix_show only (s_lg sS) f lv fmt msg expl) as S1.
    pose proof (apply_fix_line Default ShowAutofix only (s_lg sD) (s_lg sS) f lv fmt msg expl) as FL.
    destruct (apply_fix Default only (s_lg sD) f lv fmt msg expl) as [gD lD].
    destruct (apply_fix ShowAutofix only (s_lg sS) f lv fmt msg expl) as [gS lS].
    cbn [fst snd] in *. subst lS.
    repeat split; cbn [s_lines s_lg s_panic]; auto.
    intros it Hd Hin. destruct (S1 it Hd Hin) as [H|(H1 & H2 & ->)].
    + eapply grows_in; [exact B|]. apply Hsub; assumption.
    + apply C; assumption.
  - repeat split; cbn [s_lines s_lg s_panic]; auto.
    + eapply LogInv_grows; [exact HL|apply save_logged|]. exists []. rewrite save_out, app_nil_r. reflexivity.
    + intros it Hd Hin. rewrite save_out in *. auto.
  - repeat split; cbn [s_lines s_lg s_panic]; auto.
    + eapply LogInv_grows; [exact HL|apply summary_logged|apply summary_grows].
    + intros it Hd Hin. eapply grows_in; [apply summary_grows|]. apply Hsub; [exact Hd|].
      eapply summary_diags; eauto.
Qed.

Lemma run_events_DInv lvl only evs : forall sD sS,
  Forall (fun e => event_no_ra e /\ event_level lvl e) evs -> DInv lvl sD sS ->
  DInv lvl (run_events Default only sD evs) (run_events ShowAutofix only sS evs).
Proof.
  induction evs as [|e evs IH]; intros sD sS Hf H; cbn; [exact H|].
  inversion Hf as [|? ? [H1 H2] Hf']; subst. apply IH; [exact Hf'|]. apply step_DInv; assumption.
Qed.

Lemma checks_DInv lvl only (cs : list check) : forall sD sS,
  (forall c ls e, In c cs -> In e (c ls) -> event_no_ra e /\ event_level lvl e) -> DInv lvl sD sS ->
  DInv lvl (fold_left (run_check Default only) cs sD) (fold_left (run_check ShowAutofix only) cs sS).
Proof.
  induction cs as [|c cs IH]; intros sD sS Hok H; cbn [fold_left]; [exact H|].
  apply IH; [intros c' ls e Hc He; apply (Hok c' ls e); [right; exact Hc|exact He]|].
  assert (E : run_check ShowAutofix only sS c = run_events ShowAutofix only sS (c (s_lines sD)))
    by (unfold run_check; destruct H as [El _]; rewrite El; reflexivity).
  rewrite E. change (run_check Default only sD c) with (run_events Default only sD (c (s_lines sD))).
  apply run_events_DInv; [|exact H].
  rewrite Forall_forall. intros e He. apply (Hok c (s_lines sD) e); [left; reflexivity|exact He].
Qed.

(* the guard spelled out: no check uses Replace/ReplaceAfter, and the level of
   a diagnostic is a function of its message *)
Theorem show_diags_subset_default_partial lvl only ls cs :
  checks_ok lvl cs ->
  forall it, In it (diags (run ShowAutofix only ls cs)) -> In it (diags (run Default only ls cs)).
Proof.
  intros Hok it Hin. unfold diags in *. apply filter_In in Hin as [Hin Hd]. apply filter_In. split; [|exact Hd].
  assert (H0 : DInv lvl (init ls) (init ls)).
  { repeat split; auto. intros f ln msg []. }
  pose proof (checks_DInv lvl only cs _ _ Hok H0) as H1.
  pose proof (step_DInv lvl only _ _ ESave I I H1) as (_ & _ & _ & Hsub).
  apply Hsub; assumption.
Qed.

(* the witness of the refutation violates exactly the first guard *)
Example partial_guard_needed : ~ checks_ok (fun _ => Note) [wit_check1; wit_check2].
Proof.
  intros H. destruct (H wit_check1 [] _ (or_introl eq_refl) (or_introl eq_refl)) as [Hra _].
  cbn in Hra. inversion Hra as [|? ? X _]. exact X.
Qed.
