(* Paragraphs made only of single-line assignments (Model/Varalign.v):
   what one pass does (`aligned`), canonical separation, the second pass is
   silent, the 72-column rule (refuted / partial). *)
From PV Require Import Lib.Bytes Model.Tabs Model.Varalign Proofs.Tabs Proofs.VaralignBlanks.
From Coq Require Import ZifyBool ZifyN ZifyNat Permutation Sorted.
Open Scope Z_scope.

(* ---------- sort_desc ---------- *)

Lemma insert_desc_perm x l : Permutation (insert_desc x l) (x :: l).
Proof.
  induction l as [|y l IH]; simpl; [reflexivity|].
  destruct (fst x <? fst y); [|reflexivity].
  rewrite IH. apply perm_swap.
Qed.

Lemma sort_desc_perm l : Permutation (sort_desc l) l.
Proof.
  induction l as [|x l IH]; simpl; [reflexivity|].
  unfold sort_desc in *. simpl. rewrite insert_desc_perm. constructor. exact IH.
Qed.

Definition ge_fst (x y : Z * bool) : Prop := fst y <= fst x.

Lemma insert_desc_sorted x l : StronglySorted ge_fst l -> StronglySorted ge_fst (insert_desc x l).
Proof.
  induction l as [|y l IH]; intro S; simpl.
  - constructor; constructor.
  - inversion S as [|? ? S' F]; subst.
    destruct (Z.ltb_spec (fst x) (fst y)).
    + constructor; [apply IH, S'|].
      apply Forall_forall. intros z Hz.
      apply (Permutation_in _ (insert_desc_perm x l)) in Hz. destruct Hz as [<-|Hz].
      * unfold ge_fst. lia.
      * rewrite Forall_forall in F. apply F, Hz.
    + constructor; [exact S|]. constructor; [unfold ge_fst; lia|].
      rewrite Forall_forall in *. intros z Hz. specialize (F z Hz). unfold ge_fst in *. lia.
Qed.

Lemma sort_desc_sorted l : StronglySorted ge_fst (sort_desc l).
Proof.
  induction l as [|x l IH]; [constructor|]. unfold sort_desc in *. simpl.
  apply insert_desc_sorted, IH.
Qed.

(* ---------- single-line paragraphs ---------- *)

Definition single_ok (p : parts) : Prop := cont p = [] /\ parts_has_nl p = false.
Definition w0 (p : parts) : Z := spaceBeforeValueColumn p.

Lemma w0_nonneg p : 0 <= w0 p.
Proof. unfold w0, spaceBeforeValueColumn, varnameOpColumn. apply twa0_nonneg, twa0_nonneg. lia. Qed.

Lemma w0_pos p : vo p <> [] -> 0 < w0 p.
Proof.
  intro H. unfold w0, spaceBeforeValueColumn. apply twa0_pos_nonempty; [|exact H].
  unfold varnameOpColumn. apply twa0_nonneg. lia.
Qed.

Lemma single_not_cont p : cont p = [] -> isContinuation p = false.
Proof. unfold isContinuation. intros ->. reflexivity. Qed.
Lemma single_not_ec p : cont p = [] -> isEmptyContinuation p = false.
Proof. unfold isEmptyContinuation. intro H. rewrite (single_not_cont p H). apply andb_false_r. Qed.

(* the widths that varnameOpWidths looks at *)
Definition widths_of (para : list parts) : list (Z * bool) :=
  flat_map (fun p => if negb (isEmptyContinuation p)
                     then [(spaceBeforeValueColumn p, isContinuation p)] else []) para.

Lemma widths_single para : Forall (fun p => cont p = []) para ->
  widths_of para = map (fun p => (w0 p, false)) para.
Proof.
  induction 1 as [|p para Hp _ IH]; [reflexivity|]. unfold widths_of in *. simpl.
  rewrite (single_not_ec p Hp), (single_not_cont p Hp). simpl. rewrite IH. reflexivity.
Qed.

(* what varnameOpWidths guarantees: every line is at most minVarnameOpWidth wide,
   except the outlier; there is a line that is not the outlier *)
Lemma varnameOpWidths_facts para mvow out :
  Forall (fun p => cont p = []) para -> para <> [] ->
  varnameOpWidths para = (mvow, out) ->
  0 <= mvow /\ 0 <= out /\
  (forall p, In p para -> w0 p <= mvow \/ (0 < out /\ w0 p = out)) /\
  (exists p, In p para /\ ~ (0 < out /\ w0 p = out)) /\
  (exists p, In p para /\ (mvow = w0 p)) /\
  (0 < out -> mvow < out).
Proof.
  intros S NE. unfold varnameOpWidths. fold (widths_of para). rewrite (widths_single para S).
  set (ws := map (fun p => (w0 p, false)) para).
  pose proof (sort_desc_perm ws) as P. pose proof (sort_desc_sorted ws) as SS.
  assert (INV : forall x, In x (sort_desc ws) -> exists p, In p para /\ x = (w0 p, false)).
  { intros x Hx. apply (Permutation_in _ P) in Hx. unfold ws in Hx. apply in_map_iff in Hx as (p & E & Hp).
    exists p. split; [exact Hp|congruence]. }
  assert (ALL : forall p, In p para -> In (w0 p, false) (sort_desc ws)).
  { intros p Hp. apply (Permutation_in _ (Permutation_sym P)). unfold ws. apply in_map_iff. exists p. auto. }
  destruct (sort_desc ws) as [|[L Lc] rest] eqn:E.
  { exfalso. destruct para as [|p para']; [congruence|]. specialize (ALL p (or_introl eq_refl)). inversion ALL. }
  destruct (INV (L, Lc) (or_introl eq_refl)) as (pL & HpL & EL). inversion EL; subst L Lc. clear EL.
  inversion SS as [|? ? SSr FL]; subst.
  destruct rest as [|[S2 S2c] rest'].
  - (* one line *)
    cbn [negb andb]. rewrite Z.eqb_refl. cbn [negb andb]. intro H; inversion H; subst; clear H.
    pose proof (w0_nonneg pL).
    refine (conj _ (conj _ (conj _ (conj _ (conj _ _))))); [lia|lia| | | |lia].
    + intros p Hp. specialize (ALL p Hp). destruct ALL as [Q|[]]. inversion Q. left; lia.
    + exists pL. split; [exact HpL|lia].
    + exists pL. auto.
  - destruct (INV (S2, S2c) (or_intror (or_introl eq_refl))) as (pS & HpS & ES). inversion ES; subst S2 S2c. clear ES.
    assert (LE : w0 pS <= w0 pL). { inversion FL; subst. unfold ge_fst in *. simpl in *. lia. }
    assert (OTHERS : forall p, In p para -> w0 p = w0 pL \/ w0 p <= w0 pS).
    { intros p Hp. specialize (ALL p Hp). destruct ALL as [Q|[Q|Q]].
      - inversion Q. left; lia.
      - inversion Q. right; lia.
      - inversion SSr as [|? ? _ FS]; subst. rewrite Forall_forall in FS. specialize (FS _ Q).
        unfold ge_fst in FS. simpl in FS. right; lia. }
    pose proof (w0_nonneg pL). pose proof (w0_nonneg pS).
    cbn [negb andb].
    destruct (negb (w0 pS =? 0) && (Z.quot (w0 pS) 8 + 1 <? Z.quot (w0 pL) 8) && true) eqn:HO;
      intro HH; inversion HH; subst; clear HH.
    + (* outlier *)
      apply andb_true_iff in HO as [HO _]. apply andb_true_iff in HO as [H1 H2].
      rewrite !Z.quot_div_nonneg in H2 by lia.
      assert (w0 pS < w0 pL).
      { pose proof (Z.div_mod (w0 pS) 8 ltac:(lia)). pose proof (Z.div_mod (w0 pL) 8 ltac:(lia)).
        pose proof (Z.mod_pos_bound (w0 pS) 8 ltac:(lia)). pose proof (Z.mod_pos_bound (w0 pL) 8 ltac:(lia)). lia. }
      refine (conj _ (conj _ (conj _ (conj _ (conj _ _))))); [lia|lia| | | |lia].
      * intros p Hp. destruct (OTHERS p Hp); [right; lia|left; lia].
      * exists pS. split; [exact HpS|lia].
      * exists pS. auto.
    + refine (conj _ (conj _ (conj _ (conj _ (conj _ _))))); [lia|lia| | | |lia].
      * intros p Hp. destruct (OTHERS p Hp); left; lia.
      * exists pL. split; [exact HpL|lia].
      * exists pL. auto.
Qed.

(* varnameOpWidths only looks at the widths before the value and at the continuation marker *)
Lemma varnameOpWidths_ext (f : parts -> parts) para :
  (forall p, spaceBeforeValueColumn (f p) = spaceBeforeValueColumn p /\
             isContinuation (f p) = isContinuation p /\ isEmptyContinuation (f p) = isEmptyContinuation p) ->
  varnameOpWidths (map f para) = varnameOpWidths para.
Proof.
  intro H. unfold varnameOpWidths.
  assert (E : forall l, flat_map (fun p => if negb (isEmptyContinuation p)
                     then [(spaceBeforeValueColumn p, isContinuation p)] else []) (map f l)
              = flat_map (fun p => if negb (isEmptyContinuation p)
                     then [(spaceBeforeValueColumn p, isContinuation p)] else []) l).
  { induction l as [|p l IH]; [reflexivity|]. simpl. destruct (H p) as (A & B & C).
    rewrite A, B, C, IH. reflexivity. }
  rewrite E. reflexivity.
Qed.

(* ---------- spaceWidths ---------- *)

Definition excluded (out : Z) (p : parts) : bool :=
  isEmptyContinuation p || ((0 <? out) && (spaceBeforeValueColumn p =? out)).

Definition sw_step (out : Z) (mm : Z * Z) (p : parts) : Z * Z :=
  if excluded out p then mm
  else ((if valueColumn p <? fst mm then valueColumn p else fst mm),
        (if snd mm <? valueColumn p then valueColumn p else snd mm)).

Lemma spaceWidths_fold para out : spaceWidths para out =
  fold_left (sw_step out) para (MaxInt, MinInt).
Proof. reflexivity. Qed.

Lemma spaceWidths_all_equal W para out : MinInt < W < MaxInt ->
  (forall p, In p para -> excluded out p = false -> valueColumn p = W) ->
  (exists p, In p para /\ excluded out p = false) ->
  spaceWidths para out = (W, W).
Proof.
  intros HW HA HE. rewrite spaceWidths_fold.
  assert (G : forall l acc,
    (forall p, In p l -> excluded out p = false -> valueColumn p = W) ->
    (acc = (MaxInt, MinInt) \/ acc = (W, W)) ->
    let r := fold_left (sw_step out) l acc in
    (r = (W, W)) \/ (r = acc /\ acc = (MaxInt, MinInt) /\ forall p, In p l -> excluded out p = true)).
  { induction l as [|p l IH]; intros acc Hl Hacc; simpl.
    - destruct Hacc as [->| ->]; [right; repeat split; intros ? []|left; reflexivity].
    - destruct (excluded out p) eqn:X.
      + replace (sw_step out acc p) with acc by (unfold sw_step; rewrite X; reflexivity).
        destruct (IH acc (fun q Hq => Hl q (or_intror Hq)) Hacc) as [R|(R & A & F)]; [left; exact R|].
        right. split; [exact R|]. split; [exact A|]. intros q [<-|Hq]; auto.
      + assert (NA : sw_step out acc p = (W, W)).
        { unfold sw_step. rewrite X, (Hl p (or_introl eq_refl) X).
          destruct Hacc as [->| ->]; simpl.
          - destruct (Z.ltb_spec W MaxInt); [|lia]. destruct (Z.ltb_spec MinInt W); [|lia]. reflexivity.
          - rewrite Z.ltb_irrefl. reflexivity. }
        rewrite NA.
        destruct (IH (W, W) (fun q Hq => Hl q (or_intror Hq)) (or_intror eq_refl)) as [R|(R & A & _)].
        * left; exact R.
        * left. rewrite R. reflexivity. }
  destruct (G para (MaxInt, MinInt) HA (or_introl eq_refl)) as [R|(_ & _ & F)]; [exact R|].
  destruct HE as (p & Hp & X). rewrite (F p Hp) in X. discriminate.
Qed.

(* ---------- optimalWidth ---------- *)

Lemma optimalWidth_unfold para :
  optimalWidth para =
  (let mvow := fst (varnameOpWidths para) in
   let out := snd (varnameOpWidths para) in
   let mn := fst (spaceWidths para out) in
   let mx := snd (spaceWidths para out) in
   if (mvow <? mn) && (mn =? mx) && (Z.rem mn 8 =? 0) then mn
   else if mvow =? 0 then 0 else mvow / 8 * 8 + 8).
Proof.
  unfold optimalWidth. destruct (varnameOpWidths para) as [a b]. simpl.
  destruct (spaceWidths para b) as [c d]. reflexivity.
Qed.

Lemma optimalWidth_facts para mvow out :
  Forall (fun p => cont p = []) para -> para <> [] ->
  varnameOpWidths para = (mvow, out) ->
  let W := optimalWidth para in
  0 <= W /\ W mod 8 = 0 /\ (0 < W -> mvow < W) /\ (0 < mvow -> 0 < W).
Proof.
  intros S NE EV W. destruct (varnameOpWidths_facts para mvow out S NE EV) as (M0 & _).
  subst W. rewrite optimalWidth_unfold, EV. cbn [fst snd].
  set (mn := fst (spaceWidths para out)). set (mx := snd (spaceWidths para out)).
  destruct ((mvow <? mn) && (mn =? mx) && (Z.rem mn 8 =? 0)) eqn:C.
  - apply andb_true_iff in C as [C C3]. apply andb_true_iff in C as [C1 C2].
    assert (0 <= mn) by lia. rewrite Z.rem_mod_nonneg in C3 by lia. repeat split; lia.
  - destruct (Z.eqb_spec mvow 0).
    + repeat split; lia.
    + pose proof (Z.div_mod mvow 8 ltac:(lia)). pose proof (Z.mod_pos_bound mvow 8 ltac:(lia)).
      repeat split; lia.
Qed.

(* ---------- one line ---------- *)

Definition tabs_to (W : Z) (p : parts) : str := tabs ((W - w0 p / 8 * 8) / 8).
(* tabWidthSlice(leadingComment, varnameOp, space, value) *)
Definition width_with (p : parts) (space : str) : Z := twa0 (twa0 (w0 p) space) (val p).
(* the line fits into 72 columns (with at least one space) and would not after the alignment *)
Definition blockedb (W : Z) (p : parts) : bool :=
  (width_with p (if is_nil (sbv p) then [SP] else sbv p) <=? 72) && (72 <? width_with p (tabs_to W p)).
Definition keeps_tabs (p : parts) : bool := negb (is_nil (sbv p)) && all_tabs (sbv p).

Definition new_sbv (W : Z) (p : parts) : str :=
  if W <=? 0 then sbv p
  else if W <=? w0 p then (if isCanonicalInitial p W then sbv p else [SP])
  else if blockedb W p then (if keeps_tabs p then sbv p else [SP])
  else tabs_to W p.
Definition aligned (W : Z) (p : parts) : parts := set_sbv p (new_sbv W p).

(* the info that realign leaves behind for a single line *)
Definition align_info (W : Z) (p : parts) : info :=
  if str_eqb (new_sbv W p) (sbv p) then mk_info (parts_string p) p
  else mkInfo (parts_string (aligned W p)) false (aligned W p) [(sbv p, new_sbv W p)].

Lemma set_sbv_same p : set_sbv p (sbv p) = p.
Proof. destruct p; reflexivity. Qed.

Lemma alignmentToWidths_tabs a W : 0 <= a < W -> W mod 8 = 0 ->
  alignmentToWidths a W = Some (tabs ((W - a / 8 * 8) / 8)) /\ 0 < (W - a / 8 * 8) / 8.
Proof.
  intros [H0 Hlt] HW. unfold alignmentToWidths.
  destruct (Z.leb_spec W a); [lia|].
  pose proof (Z.div_mod a 8 ltac:(lia)). pose proof (Z.mod_pos_bound a 8 ltac:(lia)).
  pose proof (Z.div_mod W 8 ltac:(lia)).
  assert (DIFF : a / 8 * 8 <> W / 8 * 8) by lia.
  destruct (Z.eqb_spec (a / 8 * 8) (W / 8 * 8)); [contradiction|]. cbn [negb].
  rewrite indent_nonneg by lia. unfold indent_tot.
  set (d := W - a / 8 * 8).
  assert (Dm : d mod 8 = 0).
  { unfold d. replace (W - a / 8 * 8) with (W + (- (a / 8)) * 8) by lia. rewrite Z.mod_add; lia. }
  rewrite Dm. change (spaces 0) with (@nil N). rewrite app_nil_r.
  split; [reflexivity|].
  pose proof (Z.div_mod d 8 ltac:(lia)). unfold d in *. lia.
Qed.

Lemma twa0_tabs k w : 0 < k -> twa0 w (tabs k) = (w / 8 + k) * 8.
Proof.
  intro Hk. pose proof (twa0_tabs_spaces k 0 w ltac:(lia) ltac:(lia)) as T.
  change (spaces 0) with (@nil N) in T. rewrite app_nil_r in T. rewrite T.
  destruct (Z.eqb_spec k 0); lia.
Qed.

Lemma tabs_to_reaches W p : 0 < W -> W mod 8 = 0 -> w0 p < W ->
  twa0 (w0 p) (tabs_to W p) = W /\ 0 < (W - w0 p / 8 * 8) / 8.
Proof.
  intros HW Hm Hlt. pose proof (w0_nonneg p) as H0.
  destruct (alignmentToWidths_tabs (w0 p) W ltac:(lia) Hm) as [_ K]. split; [|exact K].
  unfold tabs_to. rewrite twa0_tabs by exact K.
  pose proof (Z.div_mod (w0 p) 8 ltac:(lia)). pose proof (Z.mod_pos_bound (w0 p) 8 ltac:(lia)).
  pose proof (Z.div_mod W 8 ltac:(lia)).
  replace ((W - w0 p / 8 * 8) / 8) with (W / 8 - w0 p / 8).
  - lia.
  - replace (W - w0 p / 8 * 8) with (W + (- (w0 p / 8)) * 8) by lia. rewrite Z.div_add; lia.
Qed.

Lemma new_sbv_tabs W p : 0 < W -> w0 p < W -> blockedb W p = false -> new_sbv W p = tabs_to W p.
Proof.
  intros HW Hlt B. unfold new_sbv. destruct (Z.leb_spec W 0); [lia|].
  destruct (Z.leb_spec W (w0 p)); [lia|]. rewrite B. reflexivity.
Qed.

Lemma aligned_reaches W p : 0 < W -> W mod 8 = 0 -> w0 p < W -> blockedb W p = false ->
  valueColumn (aligned W p) = W.
Proof.
  intros HW Hm Hlt B. unfold aligned, valueColumn. cbn [sbv set_sbv].
  rewrite new_sbv_tabs by assumption.
  change (spaceBeforeValueColumn (set_sbv p (tabs_to W p))) with (w0 p).
  apply tabs_to_reaches; assumption.
Qed.

Lemma w0_aligned W p : w0 (aligned W p) = w0 p.
Proof. reflexivity. Qed.

(* alignValueSingle, fully characterised *)
Lemma tabs_not_sp k : 0 < k -> str_eqb (tabs k) [SP] = false.
Proof. intro H. unfold tabs. destruct (Z.to_nat k) eqn:E; [lia|reflexivity]. Qed.

Lemma alignValueSingle_spec p W : 0 < W -> W mod 8 = 0 ->
  alignValueSingle (mk_info (parts_string p) p) W = Ok (align_info W p).
Proof.
  intros HW Hm. pose proof (w0_nonneg p) as H0.
  unfold alignValueSingle. cbn [ps mk_info text fixedSBC log]. fold (w0 p).
  assert (REPL : forall ns, str_eqb ns (sbv p) = false ->
    do_replace (mk_info (parts_string p) p) (spaceBeforeValueIndex p) (sbv p) ns false (set_sbv p ns)
    = Ok (mkInfo (parts_string (set_sbv p ns)) false (set_sbv p ns) [(sbv p, ns)])).
  { intros ns Q. unfold do_replace. cbn [text ps log fixedSBC mk_info].
    unfold parts_string at 1.
    replace (spaceBeforeValueIndex p) with (len (lc p ++ vo p))
      by (unfold spaceBeforeValueIndex, varnameOpIndex; rewrite len_app; lia).
    rewrite (app_assoc (lc p)).
    rewrite replace_at_succeeds.
    - cbn [bind]. unfold parts_string. cbn. rewrite <- app_assoc. reflexivity.
    - intro E. rewrite E, str_eqb_refl in Q. discriminate. }
  destruct (Z.leb_spec W (w0 p)) as [Hle|Hgt].
  - (* the line sticks out *)
    assert (NS : new_sbv W p = if isCanonicalInitial p W then sbv p else [SP]).
    { unfold new_sbv. destruct (Z.leb_spec W 0); [lia|]. destruct (Z.leb_spec W (w0 p)); [reflexivity|lia]. }
    assert (A : alignmentToWidths (w0 p) W = Some []).
    { unfold alignmentToWidths. destruct (Z.leb_spec W (w0 p)); [reflexivity|lia]. }
    rewrite A. cbn [lift bind is_nil andb]. unfold align_info, aligned. rewrite NS.
    destruct (isCanonicalInitial p W) eqn:C.
    + rewrite str_eqb_refl. reflexivity.
    + cbv zeta. rewrite str_eqb_refl. cbn [negb andb].
      destruct (str_eqb [SP] (sbv p)) eqn:Q; [reflexivity|]. apply REPL, Q.
  - destruct (tabs_to_reaches W p HW Hm Hgt) as [R K].
    destruct (alignmentToWidths_tabs (w0 p) W ltac:(lia) Hm) as [A _].
    rewrite A. cbn [lift bind]. fold (tabs_to W p).
    assert (NN : is_nil (tabs_to W p) = false).
    { unfold tabs_to, tabs. destruct (Z.to_nat ((W - w0 p / 8 * 8) / 8)) eqn:E; [lia|reflexivity]. }
    rewrite NN. cbn [andb]. cbv zeta.
    rewrite (tabs_not_sp _ K : str_eqb (tabs_to W p) [SP] = false). cbn [negb andb].
    fold (width_with p (if is_nil (sbv p) then [SP] else sbv p)) (width_with p (tabs_to W p)).
    fold (blockedb W p). fold (keeps_tabs p).
    assert (NS : new_sbv W p = if blockedb W p then (if keeps_tabs p then sbv p else [SP]) else tabs_to W p).
    { unfold new_sbv. destruct (Z.leb_spec W 0); [lia|]. destruct (Z.leb_spec W (w0 p)); [lia|reflexivity]. }
    unfold align_info, aligned. rewrite NS.
    destruct (blockedb W p); cbn [andb].
    + destruct (keeps_tabs p).
      * rewrite str_eqb_refl. reflexivity.
      * destruct (str_eqb [SP] (sbv p)) eqn:Q; [reflexivity|]. apply REPL, Q.
    + destruct (str_eqb (tabs_to W p) (sbv p)) eqn:Q; [reflexivity|]. apply REPL, Q.
Qed.

Lemma align_info_ps W p : ps (align_info W p) = aligned W p.
Proof.
  unfold align_info. destruct (str_eqb (new_sbv W p) (sbv p)) eqn:Q; [|reflexivity].
  apply str_eqb_spec in Q. unfold aligned. rewrite Q, set_sbv_same. reflexivity.
Qed.
Lemma align_info_text W p : text (align_info W p) = parts_string (aligned W p).
Proof.
  unfold align_info. destruct (str_eqb (new_sbv W p) (sbv p)) eqn:Q; [|reflexivity].
  apply str_eqb_spec in Q. unfold aligned. rewrite Q, set_sbv_same. reflexivity.
Qed.
Lemma align_info_fixed W p : fixedSBC (align_info W p) = false.
Proof. unfold align_info. destruct (str_eqb _ _); reflexivity. Qed.

(* realign on a single line *)
Lemma realign_single p W : cont p = [] -> 0 <= W -> W mod 8 = 0 ->
  realign (single p) W = Ok [align_info W p].
Proof.
  intros Hc HW Hm. pose proof (single_not_cont p Hc) as NC. pose proof (single_not_ec p Hc) as EC.
  unfold realign, single.
  assert (RM : rightMargin [mk_info (parts_string p) p] = Ok (false, 0)).
  { unfold rightMargin. cbn [ps mk_info].
    destruct (is_nil (val p)); cbn [skipn flat_map ps mk_info]; rewrite ?NC; reflexivity. }
  rewrite RM. cbn [bind snd ps mk_info]. rewrite EC, NC. cbn [negb andb].
  cbn [realign_loop negb orb].
  destruct (Z.ltb_spec 0 W) as [Hp|Hz]; cbn [orb].
  - unfold realignDetails. cbn [ps mk_info andb]. rewrite NC. cbn [andb negb].
    rewrite alignValueSingle_spec by assumption. cbn [bind fst snd].
    rewrite align_info_fixed. cbn [negb].
    unfold alignContinuation. rewrite align_info_ps.
    assert (NC' : isContinuation (aligned W p) = false) by exact NC.
    rewrite NC'. reflexivity.
  - assert (W = 0) by lia. subst W. cbn [bind fst snd fixedSBC mk_info negb].
    unfold alignContinuation. cbn [ps mk_info]. rewrite NC. cbn [negb bind].
    unfold align_info, new_sbv. cbn. rewrite str_eqb_refl. reflexivity.
Qed.

(* ---------- the whole paragraph ---------- *)

Lemma map_res_first_parts para : map_res first_parts (map single para) = Ok para.
Proof. induction para as [|p para IH]; [reflexivity|]. simpl. rewrite IH. reflexivity. Qed.

Lemma single_consistent para :
  existsb (existsb (fun i => negb (str_eqb (text i) (parts_string (ps i))))) (map single para) = false.
Proof.
  induction para as [|p para IH]; [reflexivity|]. simpl. rewrite str_eqb_refl. simpl. exact IH.
Qed.

Lemma single_nl para : Forall single_ok para ->
  existsb (existsb (fun i => parts_has_nl (ps i))) (map single para) = false.
Proof.
  induction 1 as [|p para [_ Hp] _ IH]; [reflexivity|]. simpl. rewrite Hp. simpl. exact IH.
Qed.

Lemma conts_of para : Forall single_ok para -> Forall (fun p => cont p = []) para.
Proof. intro H. eapply Forall_impl; [|exact H]. intros p [C _]. exact C. Qed.

Lemma map_res_realign para W : Forall single_ok para -> 0 <= W -> W mod 8 = 0 ->
  map_res (fun l => realign l W) (map single para) = Ok (map (fun p => [align_info W p]) para).
Proof.
  induction 1 as [|p para [Hc _] _ IH]; intros HW Hm; [reflexivity|]. cbn [map map_res].
  rewrite realign_single by assumption. cbn [bind]. rewrite IH by assumption. reflexivity.
Qed.

(* one pass over a paragraph of single-line assignments *)
Theorem realign_para_spec para : Forall single_ok para -> para <> [] ->
  realign_para para = Ok (map (fun p => [align_info (optimalWidth para) p]) para).
Proof.
  intros S NE. unfold realign_para, finish.
  destruct para as [|p0 para0] eqn:EP; [congruence|]. rewrite <- EP in *.
  assert (N : is_nil (map single para) = false) by (rewrite EP; reflexivity).
  rewrite N. cbn [orb]. rewrite single_consistent, (single_nl para S), map_res_first_parts. cbn [bind].
  destruct (varnameOpWidths para) as [mvow out] eqn:EV.
  destruct (optimalWidth_facts para mvow out (conts_of para S) NE EV) as (W0 & Wm & _).
  apply map_res_realign; assumption.
Qed.

Definition parts_of (r : res (list (list info))) : res (list parts) :=
  match r with Ok ms => Ok (map ps (concat ms)) | Panic => Panic end.
(* the lines after one pass, as parts *)
Definition realign_lines (para : list parts) : res (list parts) := parts_of (realign_para para).

Lemma realign_lines_spec para : Forall single_ok para -> para <> [] ->
  realign_lines para = Ok (map (aligned (optimalWidth para)) para).
Proof.
  intros S NE. unfold realign_lines. rewrite realign_para_spec by assumption. unfold parts_of. f_equal.
  induction para as [|p para IH]; [reflexivity|]. simpl. rewrite align_info_ps. f_equal.
  clear IH S NE. generalize (optimalWidth (p :: para)). intro W.
  induction para as [|q para IH]; [reflexivity|]. simpl. rewrite align_info_ps, IH. reflexivity.
Qed.

(* ---------- aligned_canonical ---------- *)

Definition canonical_sep (s : str) : Prop := (s <> [] /\ all_tabs s = true) \/ s = [SP].

Lemma all_tabs_tabs k : all_tabs (tabs k) = true.
Proof. unfold tabs, all_tabs. induction (Z.to_nat k); simpl; auto. Qed.

Lemma new_sbv_canonical W p : 0 < W -> W mod 8 = 0 -> canonical_sep (new_sbv W p).
Proof.
  intros HW Hm. pose proof (w0_nonneg p). unfold new_sbv.
  destruct (Z.leb_spec W 0); [lia|]. destruct (Z.leb_spec W (w0 p)).
  - destruct (isCanonicalInitial p W) eqn:C; [|right; reflexivity].
    unfold isCanonicalInitial in C. destruct (is_nil (sbv p)) eqn:Nl; [discriminate|].
    apply is_nil_false in Nl.
    destruct (str_eqb (sbv p) [SP] && (W <? valueColumn p)) eqn:Q.
    + apply andb_true_iff in Q as [Q _]. apply str_eqb_spec in Q. right; exact Q.
    + left. split; assumption.
  - destruct (blockedb W p).
    + destruct (keeps_tabs p) eqn:KT; [|right; reflexivity].
      unfold keeps_tabs in KT. apply andb_true_iff in KT as [K1 K2].
      left. split; [|exact K2]. apply is_nil_false. destruct (is_nil (sbv p)); [discriminate|reflexivity].
    + destruct (tabs_to_reaches W p HW Hm ltac:(lia)) as [_ K].
      left. split; [|apply all_tabs_tabs]. unfold tabs_to, tabs. destruct (Z.to_nat _) eqn:E; [lia|discriminate].
Qed.

Theorem aligned_canonical para para' :
  Forall single_ok para -> Forall (fun p => vo p <> []) para -> para <> [] ->
  realign_lines para = Ok para' ->
  Forall (fun p' => canonical_sep (sbv p')) para'.
Proof.
  intros S V NE H. rewrite realign_lines_spec in H by assumption. inversion H; subst; clear H.
  destruct (varnameOpWidths para) as [mvow out] eqn:EV.
  destruct (optimalWidth_facts para mvow out (conts_of para S) NE EV) as (W0 & Wm & _ & WP).
  destruct (varnameOpWidths_facts para mvow out (conts_of para S) NE EV) as (_ & _ & _ & _ & (pm & Hpm & Em) & _).
  assert (0 < optimalWidth para).
  { apply WP. rewrite Em. apply w0_pos. rewrite Forall_forall in V. apply V, Hpm. }
  apply Forall_forall. intros p' Hp'. apply in_map_iff in Hp' as (p & <- & Hp).
  unfold aligned. cbn [sbv set_sbv]. apply new_sbv_canonical; assumption.
Qed.

(* ---------- second_pass_noop ---------- *)

Definition small (p : parts) : Prop := line_width p < MaxInt - 8.

Lemma valueColumn_le_width p : valueColumn p <= line_width p.
Proof.
  unfold line_width, continuationColumn, spaceAfterValueColumn, twa0.
  pose proof (twa_ge (val p) (valueColumn p) 0%nat).
  pose proof (twa_ge (sav p) (twa (valueColumn p) 0 (val p)) 0%nat).
  pose proof (twa_ge (cont p) (twa (twa (valueColumn p) 0 (val p)) 0 (sav p)) 0%nat). lia.
Qed.
Lemma w0_le_valueColumn p : w0 p <= valueColumn p.
Proof. unfold valueColumn, w0, twa0. apply twa_ge. Qed.

Lemma twa_ge_succ s w : s <> [] -> w + 1 <= twa w 0 s.
Proof.
  destruct s as [|c s]; [congruence|]. intros _. simpl. destruct (c =? TAB)%N.
  - pose proof (twa_ge s (w / 8 * 8 + 8) 0%nat).
    pose proof (Z.div_mod w 8 ltac:(lia)). pose proof (Z.mod_pos_bound w 8 ltac:(lia)). lia.
  - pose proof (twa_ge s (w + 1) (pred (rune_size c s))). lia.
Qed.

Lemma width_with_mono p s1 s2 : twa0 (w0 p) s1 <= twa0 (w0 p) s2 -> width_with p s1 <= width_with p s2.
Proof. intro H. unfold width_with, twa0 in *. apply twa_mono, H. Qed.

Lemma width_with_sp_le p : sbv p <> [] -> width_with p [SP] <= width_with p (sbv p).
Proof.
  intro H. apply width_with_mono. unfold twa0. simpl twa at 1.
  pose proof (twa_ge_succ (sbv p) (w0 p) H). lia.
Qed.

Lemma new_sbv_idem W p : 0 <= W -> W mod 8 = 0 -> new_sbv W (aligned W p) = new_sbv W p.
Proof.
  intros HW Hm. unfold new_sbv at 1. rewrite w0_aligned.
  destruct (Z.leb_spec W 0) as [|Hp]; [unfold aligned; reflexivity|].
  destruct (Z.leb_spec W (w0 p)) as [Hle|Hgt].
  - assert (E : new_sbv W p = if isCanonicalInitial p W then sbv p else [SP]).
    { unfold new_sbv. destruct (Z.leb_spec W 0); [lia|]. destruct (Z.leb_spec W (w0 p)); [reflexivity|lia]. }
    destruct (isCanonicalInitial p W) eqn:C.
    + unfold aligned. rewrite E, set_sbv_same, C. reflexivity.
    + unfold aligned. rewrite E.
      assert (C2 : isCanonicalInitial (set_sbv p [SP]) W = true).
      { unfold isCanonicalInitial. cbn [sbv set_sbv is_nil]. rewrite str_eqb_refl. cbn [andb].
        assert (W < valueColumn (set_sbv p [SP])).
        { unfold valueColumn. cbn [sbv set_sbv]. change (spaceBeforeValueColumn (set_sbv p [SP])) with (w0 p).
          unfold twa0. simpl. lia. }
        destruct (Z.ltb_spec W (valueColumn (set_sbv p [SP]))); [reflexivity|lia]. }
      rewrite C2. reflexivity.
  - assert (E : new_sbv W p = if blockedb W p then (if keeps_tabs p then sbv p else [SP]) else tabs_to W p).
    { unfold new_sbv. destruct (Z.leb_spec W 0); [lia|]. destruct (Z.leb_spec W (w0 p)); [lia|reflexivity]. }
    destruct (tabs_to_reaches W p Hp Hm Hgt) as [R K].
    change (tabs_to W (aligned W p)) with (tabs_to W p).
    destruct (blockedb W p) eqn:B.
    + destruct (keeps_tabs p) eqn:KT.
      * unfold aligned. rewrite E, set_sbv_same, B, KT. reflexivity.
      * (* the line got a single space: it is blocked again and has no tabs *)
        unfold aligned. rewrite E.
        assert (B2 : blockedb W (set_sbv p [SP]) = true).
        { unfold blockedb in *. cbn [sbv set_sbv is_nil].
          change (tabs_to W (set_sbv p [SP])) with (tabs_to W p).
          change (width_with (set_sbv p [SP])) with (width_with p).
          apply andb_true_iff in B as [B1 B2]. rewrite B2, andb_true_r.
          destruct (is_nil (sbv p)) eqn:Nl; [exact B1|].
          apply is_nil_false in Nl. pose proof (width_with_sp_le p Nl). lia. }
        rewrite B2. reflexivity.
    + (* aligned with tabs: it now stands at W, not blocked *)
      unfold aligned. rewrite E.
      assert (B2 : blockedb W (set_sbv p (tabs_to W p)) = false).
      { unfold blockedb. cbn [sbv set_sbv].
        change (tabs_to W (set_sbv p (tabs_to W p))) with (tabs_to W p).
        change (width_with (set_sbv p (tabs_to W p))) with (width_with p).
        assert (NN : is_nil (tabs_to W p) = false).
        { unfold tabs_to, tabs. destruct (Z.to_nat ((W - w0 p / 8 * 8) / 8)) eqn:E2; [lia|reflexivity]. }
        rewrite NN. destruct (Z.leb_spec (width_with p (tabs_to W p)) 72); [|reflexivity].
        destruct (Z.ltb_spec 72 (width_with p (tabs_to W p))); [lia|reflexivity]. }
      rewrite B2. reflexivity.
Qed.

Lemma aligned_idem W p : 0 <= W -> W mod 8 = 0 -> aligned W (aligned W p) = aligned W p.
Proof.
  intros HW Hm. unfold aligned at 1. rewrite new_sbv_idem by assumption.
  unfold aligned. destruct p; reflexivity.
Qed.

Lemma aligned_zero p : aligned 0 p = p.
Proof. unfold aligned, new_sbv. cbn. apply set_sbv_same. Qed.

Lemma single_ok_aligned W p : single_ok p -> single_ok (aligned W p).
Proof.
  intros [C N]. split; [exact C|].
  unfold parts_has_nl, aligned in *. cbn [lc vo sbv val sav cont set_sbv].
  apply orb_false_iff in N as [N N6]. apply orb_false_iff in N as [N N5].
  apply orb_false_iff in N as [N N4]. apply orb_false_iff in N as [N N3].
  apply orb_false_iff in N as [N1 N2]. rewrite N1, N2, N4, N5, N6.
  assert (NS : has_nl (new_sbv W p) = false).
  { unfold new_sbv. destruct (W <=? 0); [exact N3|]. destruct (W <=? w0 p).
    - destruct (isCanonicalInitial p W); [exact N3|reflexivity].
    - destruct (blockedb W p); [destruct (keeps_tabs p); [exact N3|reflexivity]|].
      unfold tabs_to, tabs, has_nl. induction (Z.to_nat _); simpl; auto. }
  rewrite NS. reflexivity.
Qed.

(* the fold of spaceWidths: bounds and attainment *)
Lemma spaceWidths_bounds out l : forall acc,
  let r := fold_left (sw_step out) l acc in
  fst r <= fst acc /\ snd acc <= snd r /\
  (forall p, In p l -> excluded out p = false -> fst r <= valueColumn p <= snd r).
Proof.
  induction l as [|q l IH]; intro acc; simpl.
  - split; [lia|]. split; [lia|]. intros ? [].
  - destruct (IH (sw_step out acc q)) as (A & B & C).
    assert (S : fst (sw_step out acc q) <= fst acc /\ snd acc <= snd (sw_step out acc q) /\
                (excluded out q = false -> fst (sw_step out acc q) <= valueColumn q <= snd (sw_step out acc q))).
    { unfold sw_step. destruct (excluded out q); cbn [fst snd]; [repeat split; try lia; discriminate|].
      destruct (Z.ltb_spec (valueColumn q) (fst acc)); destruct (Z.ltb_spec (snd acc) (valueColumn q)); lia. }
    destruct S as (S1 & S2 & S3).
    split; [lia|]. split; [lia|]. intros p [<-|Hp] X; [specialize (S3 X); lia|apply C; assumption].
Qed.

Lemma spaceWidths_attained out l : forall acc,
  let r := fold_left (sw_step out) l acc in
  fst r = fst acc \/ exists p, In p l /\ excluded out p = false /\ fst r = valueColumn p.
Proof.
  induction l as [|q l IH]; intro acc; simpl; [left; reflexivity|].
  destruct (IH (sw_step out acc q)) as [E|(p & Hp & X & E)].
  - rewrite E. unfold sw_step. destruct (excluded out q) eqn:X; [left; reflexivity|]. cbn [fst].
    destruct (Z.ltb_spec (valueColumn q) (fst acc)); [|left; reflexivity].
    right. exists q. auto.
  - right. exists p. auto.
Qed.

Lemma optimalWidth_settled para : Forall single_ok para -> Forall small para -> para <> [] ->
  let W := optimalWidth para in
  optimalWidth (map (aligned W) para) = W.
Proof.
  intros S SM NE W.
  destruct (varnameOpWidths para) as [mvow out] eqn:EV.
  pose proof (conts_of para S) as CS.
  destruct (optimalWidth_facts para mvow out CS NE EV) as (W0 & Wm & WM & _). fold W in W0, Wm, WM.
  destruct (varnameOpWidths_facts para mvow out CS NE EV) as (M0 & O0 & F1 & (pe & Hpe & Xpe) & (pm & Hpm & Em) & _).
  destruct (Z.eq_dec W 0) as [Z0|NZ].
  { rewrite Z0. rewrite (map_ext _ (fun p => p) aligned_zero), map_id. exact Z0. }
  assert (WP : 0 < W) by lia. specialize (WM WP).
  assert (EV' : varnameOpWidths (map (aligned W) para) = (mvow, out)).
  { rewrite varnameOpWidths_ext; [exact EV|]. intro p. repeat split. }
  (* every line that counts is narrower than W before its value *)
  assert (INC : forall p, In p para -> excluded out p = false -> w0 p < W).
  { intros p Hp X. destruct (F1 p Hp) as [Le|[Op Eo]]; [lia|].
    exfalso. unfold excluded in X. apply orb_false_iff in X as [_ X]. fold (w0 p) in X.
    destruct (Z.ltb_spec 0 out); [|lia]. destruct (Z.eqb_spec (w0 p) out); [discriminate|lia]. }
  assert (XPE : excluded out pe = false).
  { unfold excluded. rewrite Forall_forall in CS. rewrite (single_not_ec pe (CS pe Hpe)). cbn [orb]. fold (w0 pe).
    destruct (Z.ltb_spec 0 out); [|reflexivity]. destruct (Z.eqb_spec (w0 pe) out); [tauto|reflexivity]. }
  assert (XA : forall p, excluded out (aligned W p) = excluded out p) by reflexivity.
  (* after the pass no value of a counting line starts to the right of W *)
  assert (COL : forall p, In p para -> excluded out p = false -> valueColumn (aligned W p) <= W).
  { intros p Hp X. pose proof (INC p Hp X) as Hlt. pose proof (w0_nonneg p).
    destruct (tabs_to_reaches W p WP Wm Hlt) as [R K].
    destruct (blockedb W p) eqn:B; [|rewrite aligned_reaches by assumption; lia].
    assert (E : new_sbv W p = if keeps_tabs p then sbv p else [SP]).
    { unfold new_sbv. destruct (Z.leb_spec W 0); [lia|]. destruct (Z.leb_spec W (w0 p)); [lia|]. rewrite B. reflexivity. }
    unfold aligned. rewrite E. destruct (keeps_tabs p) eqn:KT.
    - rewrite set_sbv_same. unfold blockedb in B. apply andb_true_iff in B as [B1 B2].
      unfold keeps_tabs in KT. apply andb_true_iff in KT as [K1 _].
      destruct (is_nil (sbv p)); [discriminate|].
      destruct (Z_le_gt_dec (valueColumn p) W) as [|Hgt]; [assumption|exfalso].
      assert (width_with p (tabs_to W p) <= width_with p (sbv p)).
      { apply width_with_mono. rewrite R. unfold valueColumn, w0 in *. lia. }
      lia.
    - unfold valueColumn. cbn [sbv set_sbv]. change (spaceBeforeValueColumn (set_sbv p [SP])) with (w0 p).
      unfold twa0. simpl. lia. }
  (* W is below MaxInt *)
  assert (WB : W < MaxInt).
  { unfold W. rewrite optimalWidth_unfold, EV. cbn [fst snd].
    set (mn := fst (spaceWidths para out)). set (mx := snd (spaceWidths para out)).
    destruct ((mvow <? mn) && (mn =? mx) && (Z.rem mn 8 =? 0)) eqn:C.
    - destruct (spaceWidths_attained out para (MaxInt, MinInt)) as [E|(p & Hp & X & E)];
        cbn zeta in E; rewrite <- spaceWidths_fold in E; fold mn in E; cbn [fst] in E.
      + exfalso. destruct (spaceWidths_bounds out para (MaxInt, MinInt)) as (_ & _ & Bd).
        cbn zeta in Bd. rewrite <- spaceWidths_fold in Bd. fold mn mx in Bd.
        specialize (Bd pe Hpe XPE). rewrite Forall_forall in SM. specialize (SM pe Hpe). unfold small in SM.
        pose proof (valueColumn_le_width pe). unfold MaxInt in *. lia.
      + rewrite E. rewrite Forall_forall in SM. specialize (SM p Hp). unfold small in SM.
        pose proof (valueColumn_le_width p). unfold MaxInt in *. lia.
    - destruct (Z.eqb_spec mvow 0); [unfold MaxInt; lia|].
      rewrite Forall_forall in SM. specialize (SM pm Hpm). unfold small in SM.
      pose proof (valueColumn_le_width pm). pose proof (w0_le_valueColumn pm).
      pose proof (Z.div_mod mvow 8 ltac:(lia)). pose proof (Z.mod_pos_bound mvow 8 ltac:(lia)).
      unfold MaxInt in *. lia. }
  (* which branch of optimalWidth produced W *)
  assert (BR : ((mvow <? fst (spaceWidths para out)) && (fst (spaceWidths para out) =? snd (spaceWidths para out))
                && (Z.rem (fst (spaceWidths para out)) 8 =? 0) = true /\ W = fst (spaceWidths para out)
                /\ W = snd (spaceWidths para out))
               \/ (W = mvow / 8 * 8 + 8 /\ mvow <> 0)).
  { assert (EW : W = optimalWidth para) by reflexivity. rewrite EW. rewrite optimalWidth_unfold, EV. cbn [fst snd].
    destruct ((mvow <? fst (spaceWidths para out)) && (fst (spaceWidths para out) =? snd (spaceWidths para out))
              && (Z.rem (fst (spaceWidths para out)) 8 =? 0)) eqn:C.
    - left. split; [reflexivity|]. apply andb_true_iff in C as [C _]. apply andb_true_iff in C as [_ C]. lia.
    - right. destruct (Z.eqb_spec mvow 0) as [Zm|]; [|split; [reflexivity|assumption]].
      exfalso. unfold W in NZ. rewrite optimalWidth_unfold, EV in NZ. cbn [fst snd] in NZ.
      rewrite C in NZ. rewrite Zm in NZ. apply NZ. reflexivity. }
  rewrite optimalWidth_unfold, EV'. cbn [fst snd].
  destruct BR as [(C & E1 & E2)|[E3 MNZ]].
  - (* the paragraph was aligned at W already: no counting line is blocked, all stay at W *)
    destruct (spaceWidths_bounds out para (MaxInt, MinInt)) as (_ & _ & Bd).
    cbn zeta in Bd. rewrite <- spaceWidths_fold in Bd. rewrite <- E1, <- E2 in Bd.
    rewrite (spaceWidths_all_equal W).
    + cbn [fst snd]. destruct (Z.ltb_spec mvow W); [|lia]. rewrite Z.eqb_refl. cbn [andb].
      rewrite Z.rem_mod_nonneg by lia. rewrite Wm. reflexivity.
    + unfold MinInt. lia.
    + intros p' Hp' X. apply in_map_iff in Hp' as (p & <- & Hp). rewrite XA in X.
      pose proof (INC p Hp X) as Hlt. destruct (tabs_to_reaches W p WP Wm Hlt) as [R K].
      apply aligned_reaches; try assumption.
      assert (VC : valueColumn p = W) by (specialize (Bd p Hp X); lia).
      assert (NB : sbv p <> []).
      { intro Hn. unfold valueColumn in VC. rewrite Hn in VC. unfold twa0 in VC. simpl in VC. unfold w0 in Hlt. lia. }
      unfold blockedb. apply is_nil_false in NB. rewrite NB.
      assert (EQW : width_with p (sbv p) = width_with p (tabs_to W p)).
      { unfold width_with. rewrite R. unfold valueColumn, w0 in *. rewrite VC. reflexivity. }
      rewrite EQW. destruct (Z.leb_spec (width_with p (tabs_to W p)) 72); [|reflexivity].
      destruct (Z.ltb_spec 72 (width_with p (tabs_to W p))); [lia|reflexivity].
    + exists (aligned W pe). split; [apply in_map, Hpe|rewrite XA; exact XPE].
  - (* W is the next tab stop after the widest name *)
    set (mn' := fst (spaceWidths (map (aligned W) para) out)).
    set (mx' := snd (spaceWidths (map (aligned W) para) out)).
    destruct ((mvow <? mn') && (mn' =? mx') && (Z.rem mn' 8 =? 0)) eqn:C'.
    + apply andb_true_iff in C' as [C' C3]. apply andb_true_iff in C' as [C1 C2].
      assert (0 <= mn') by lia. rewrite Z.rem_mod_nonneg in C3 by lia.
      assert (LEW : mn' <= W).
      { destruct (spaceWidths_attained out (map (aligned W) para) (MaxInt, MinInt)) as [E|(p' & Hp' & X & E)];
          cbn zeta in E; rewrite <- spaceWidths_fold in E; fold mn' in E; cbn [fst] in E.
        - exfalso. destruct (spaceWidths_bounds out (map (aligned W) para) (MaxInt, MinInt)) as (_ & _ & Bd).
          cbn zeta in Bd. rewrite <- spaceWidths_fold in Bd. fold mn' mx' in Bd.
          specialize (Bd (aligned W pe) (in_map _ _ _ Hpe) XPE).
          pose proof (COL pe Hpe XPE). lia.
        - apply in_map_iff in Hp' as (p & <- & Hp). rewrite XA in X. rewrite E. apply COL; assumption. }
      pose proof (Z.div_mod mvow 8 ltac:(lia)). pose proof (Z.mod_pos_bound mvow 8 ltac:(lia)).
      pose proof (Z.div_mod mn' 8 ltac:(lia)). lia.
    + destruct (Z.eqb_spec mvow 0) as [Zm|]; [contradiction|symmetry; exact E3].
Qed.

(* after one pass, a second pass changes nothing and logs nothing *)
Theorem second_pass_noop para para' :
  Forall single_ok para -> Forall small para ->
  realign_lines para = Ok para' ->
  realign_para para' = Ok (map single para').
Proof.
  intros S SM H. destruct para as [|p0 pr] eqn:EP.
  { cbn in H. inversion H; subst. reflexivity. }
  rewrite <- EP in *. assert (NE : para <> []) by (rewrite EP; discriminate).
  rewrite realign_lines_spec in H by assumption. inversion H; subst para'; clear H.
  set (W := optimalWidth para).
  destruct (varnameOpWidths para) as [mvow out] eqn:EV.
  destruct (optimalWidth_facts para mvow out (conts_of para S) NE EV) as (W0 & Wm & _). fold W in W0, Wm.
  assert (S' : Forall single_ok (map (aligned W) para)).
  { apply Forall_forall. intros p' Hp'. apply in_map_iff in Hp' as (p & <- & Hp).
    apply single_ok_aligned. rewrite Forall_forall in S. apply S, Hp. }
  assert (NE' : map (aligned W) para <> []) by (rewrite EP; discriminate).
  rewrite realign_para_spec by assumption.
  pose proof (optimalWidth_settled para S SM NE) as OW. fold W in OW. cbn zeta in OW. rewrite OW.
  f_equal. rewrite !map_map. apply map_ext. intro p.
  unfold align_info. rewrite new_sbv_idem by assumption.
  assert (E : sbv (aligned W p) = new_sbv W p) by reflexivity.
  rewrite E, str_eqb_refl. reflexivity.
Qed.

(* in particular the lines are a fixed point *)
Lemma parts_of_single l : map ps (concat (map single l)) = l.
Proof. induction l as [|p l IH]; [reflexivity|]. simpl. rewrite IH. reflexivity. Qed.

Corollary second_pass_lines para para' :
  Forall single_ok para -> Forall small para ->
  realign_lines para = Ok para' -> realign_lines para' = Ok para'.
Proof.
  intros S SM H. unfold realign_lines at 1. rewrite (second_pass_noop para para' S SM H).
  unfold parts_of. rewrite parts_of_single. reflexivity.
Qed.

(* one pass never panics on a single-line paragraph *)
Theorem realign_lines_total para : Forall single_ok para -> exists para', realign_lines para = Ok para'.
Proof.
  intro S. destruct para as [|p0 pr] eqn:EP; [exists []; reflexivity|].
  rewrite <- EP in *. eexists. apply realign_lines_spec; [exact S|rewrite EP; discriminate].
Qed.

(* ---------- the 72 column rule ---------- *)

Lemma line_width_mono p p' : same_core p p' -> sav p' = sav p -> valueColumn p' <= valueColumn p ->
  line_width p' <= line_width p.
Proof.
  intros (_ & _ & V & C) SA H. unfold line_width, continuationColumn, spaceAfterValueColumn, twa0.
  rewrite V, C, SA. apply twa_mono, twa_mono, twa_mono, H.
Qed.

(* the guard: the common column does not lie to the right of the line's present
   value column, and a line that sticks out has at least one blank already *)
Definition not_shifted (W : Z) (p : parts) : Prop :=
  (w0 p < W -> W <= valueColumn p) /\ (W <= w0 p -> sbv p <> []).

Lemma aligned_not_wider W p : 0 <= W -> W mod 8 = 0 -> not_shifted W p ->
  line_width (aligned W p) <= line_width p.
Proof.
  intros HW Hm [G1 G2]. apply line_width_mono; [unfold aligned, same_core; cbn; auto|reflexivity|].
  destruct (Z.eq_dec W 0) as [->|NZ]; [rewrite aligned_zero; lia|].
  assert (SPC : sbv p <> [] -> valueColumn (set_sbv p [SP]) <= valueColumn p).
  { intro NB. unfold valueColumn. cbn [sbv set_sbv]. change (spaceBeforeValueColumn (set_sbv p [SP])) with (w0 p).
    unfold twa0 at 1. simpl twa.
    pose proof (twa_ge_succ (sbv p) (spaceBeforeValueColumn p) NB). unfold twa0, w0 in *. lia. }
  destruct (Z_lt_le_dec (w0 p) W) as [Hlt|Hle].
  - specialize (G1 Hlt). destruct (blockedb W p) eqn:B.
    + unfold aligned, new_sbv. destruct (Z.leb_spec W 0); [lia|]. destruct (Z.leb_spec W (w0 p)); [lia|].
      rewrite B. destruct (keeps_tabs p); [rewrite set_sbv_same; lia|].
      apply SPC. intro Hn. unfold valueColumn in G1. rewrite Hn in G1. unfold twa0 in G1. simpl in G1. unfold w0 in Hlt. lia.
    + rewrite aligned_reaches by (assumption || lia). exact G1.
  - unfold aligned, new_sbv. destruct (Z.leb_spec W 0); [lia|]. destruct (Z.leb_spec W (w0 p)); [|lia].
    destruct (isCanonicalInitial p W); [rewrite set_sbv_same; lia|]. apply SPC, G2, Hle.
Qed.

Theorem no_widen_not_shifted para para' :
  Forall single_ok para -> para <> [] ->
  realign_lines para = Ok para' ->
  Forall2 (fun p p' => not_shifted (optimalWidth para) p -> line_width p' <= line_width p) para para'.
Proof.
  intros S NE H. rewrite realign_lines_spec in H by assumption. inversion H; subst; clear H.
  destruct (varnameOpWidths para) as [mvow out] eqn:EV.
  destruct (optimalWidth_facts para mvow out (conts_of para S) NE EV) as (W0 & Wm & _).
  remember (optimalWidth para) as W eqn:EW. clear EW.
  clear S NE EV. induction para as [|p para IH]; simpl; constructor; [|exact IH].
  intro G. apply aligned_not_wider; assumption.
Qed.

(* with the patch: a line whose value is separated from the operator by at least one
   blank is never pushed beyond column 72 *)
Lemma line_width_plain p : sav p = [] -> cont p = [] -> line_width p = width_with p (sbv p).
Proof. intros A C. unfold line_width, continuationColumn, spaceAfterValueColumn, width_with, valueColumn, w0. rewrite A, C. reflexivity. Qed.

Lemma aligned_fits W p : 0 <= W -> W mod 8 = 0 -> sbv p <> [] -> sav p = [] -> cont p = [] ->
  line_width p <= 72 -> line_width (aligned W p) <= 72.
Proof.
  intros HW Hm NB SA CO H72.
  rewrite (line_width_plain (aligned W p)) by assumption. rewrite line_width_plain in H72 by assumption.
  change (width_with (aligned W p)) with (width_with p). unfold aligned. cbn [sbv set_sbv].
  pose proof (width_with_sp_le p NB) as SPLE.
  unfold new_sbv. destruct (Z.leb_spec W 0); [exact H72|].
  destruct (Z.leb_spec W (w0 p)).
  - destruct (isCanonicalInitial p W); lia.
  - destruct (blockedb W p) eqn:B.
    + destruct (keeps_tabs p); lia.
    + unfold blockedb in B. apply is_nil_false in NB. rewrite NB in B.
      destruct (Z.leb_spec (width_with p (sbv p)) 72); [|lia]. cbn [andb] in B.
      destruct (Z.ltb_spec 72 (width_with p (tabs_to W p))); [discriminate|lia].
Qed.

Theorem no_widen_72_partial para para' :
  Forall single_ok para -> para <> [] ->
  realign_lines para = Ok para' ->
  Forall2 (fun p p' => sbv p <> [] -> sav p = [] -> line_width p <= 72 -> line_width p' <= 72) para para'.
Proof.
  intros S NE H. rewrite realign_lines_spec in H by assumption. inversion H; subst; clear H.
  destruct (varnameOpWidths para) as [mvow out] eqn:EV.
  destruct (optimalWidth_facts para mvow out (conts_of para S) NE EV) as (W0 & Wm & _).
  remember (optimalWidth para) as W eqn:EW. clear EW. clear NE EV.
  induction S as [|p para [Cp _] _ IH]; simpl; constructor; [|exact IH].
  intros NB SA. apply aligned_fits; assumption.
Qed.
