(* Proofs for C18 (Model/PatchSum.v against Spec/PatchSumSpec.v); reuses C09. *)
From PV Require Import Lib.Bytes Lib.LinesLib Model.Lines Spec.LinesSpec Proofs.Lines Proofs.LinesLoop
  Model.PatchSum Spec.PatchSumSpec.
From Coq Require Import ZifyBool ZifyN ZifyNat.
Open Scope N_scope.

(* ---- the tag test -------------------------------------------------------- *)

Lemma contains_is_has_tag s : contains s skip_text = has_tag s.
Proof.
  unfold has_tag. induction s as [|c s IH]; [reflexivity|].
  cbn [contains suffixes existsb]. rewrite IH. reflexivity.
Qed.

(* ---- the bytes that are hashed ------------------------------------------- *)

Definition keep (r : str) : bool := negb (contains r skip_text).

Lemma flat_map_filter {A B} (f : A -> list B) (p : B -> bool) (l : list A) :
  flat_map (fun a => filter p (f a)) l = filter p (flat_map f l).
Proof.
  induction l as [|a l IH]; simpl; [reflexivity|]. rewrite IH.
  clear IH. induction (f a) as [|b bs IHb]; simpl; [reflexivity|].
  destruct (p b); simpl; rewrite IHb; reflexivity.
Qed.

Lemma hashed_bytes_filter ls : hashed_bytes ls = concat (filter keep (flat_map raws ls)).
Proof. unfold hashed_bytes. rewrite (flat_map_filter raws keep). reflexivity. Qed.

Lemma keep_concat r : concat (if keep r then [r] else []) = keep_line r.
Proof.
  unfold keep, keep_line. rewrite contains_is_has_tag.
  destruct (has_tag r); simpl; [reflexivity|apply app_nil_r].
Qed.

Lemma split_filter_lines s : forall cur,
  concat (filter keep (filter nonempty (split_after_acc cur s))) = filter_lines cur s.
Proof.
  induction s as [|c s IH]; intros cur.
  - cbn [split_after_acc filter_lines filter]. destruct cur as [|a cur].
    + reflexivity.
    + cbn [nonempty is_empty negb filter]. apply keep_concat.
  - cbn [split_after_acc filter_lines]. unfold nl. destruct (c =? 10).
    + cbn [filter]. replace (nonempty (cur ++ [c])) with true by (destruct cur; reflexivity).
      cbn [filter]. rewrite <- IH, <- keep_concat.
      destruct (keep (cur ++ [c])); simpl; [rewrite app_nil_r|]; reflexivity.
    + apply IH.
Qed.

Theorem digest_input_exact s mk ls e :
  convert_to_logical_lines s mk = Ok (ls, e) -> hashed_bytes ls = makepatchsum_filter s.
Proof.
  intros Hc. rewrite hashed_bytes_filter, (raws_are_raw_lines _ _ _ _ Hc).
  apply split_filter_lines.
Qed.

(* ---- checkPatchSha1 ------------------------------------------------------ *)

Section WithHash.
Variable H : str -> str.

Theorem compute_is_makepatchsum s mk ls e :
  convert_to_logical_lines s mk = Ok (ls, e) -> compute_patch_sha1_hex H ls = makepatchsum H s.
Proof.
  intros Hc. unfold compute_patch_sha1_hex, makepatchsum. rewrite (digest_input_exact _ _ _ _ Hc). reflexivity.
Qed.

Theorem check_cases s d :
  check_patch_sha1 H (Some s) d =
  if str_eqb d (makepatchsum H s) then Silent else Differs d (makepatchsum H s).
Proof.
  unfold check_patch_sha1. destruct (convert_total s false) as [ls Hc]. rewrite Hc.
  rewrite (compute_is_makepatchsum _ _ _ _ Hc). reflexivity.
Qed.

Theorem accept_iff_equal s d :
  check_patch_sha1 H (Some s) d = Silent <-> d = makepatchsum H s.
Proof.
  rewrite check_cases. destruct (str_eqb d (makepatchsum H s)) eqn:E.
  - apply str_eqb_spec in E. tauto.
  - split; [discriminate|]. intros ->. rewrite str_eqb_refl in E. discriminate.
Qed.

Theorem reject_reports_digest s d :
  d <> makepatchsum H s -> check_patch_sha1 H (Some s) d = Differs d (makepatchsum H s).
Proof.
  intros Hd. rewrite check_cases. destruct (str_eqb d (makepatchsum H s)) eqn:E; [|reflexivity].
  apply str_eqb_spec in E. contradiction.
Qed.

Theorem check_total p d : check_patch_sha1 H p d <> LoadPanic.
Proof.
  destruct p as [s|]; [|discriminate]. rewrite check_cases. destruct (str_eqb _ _); discriminate.
Qed.
End WithHash.

(* ---- Autofix.Replace ------------------------------------------------------ *)

Lemma index_from_spec s sub : forall i j, index_from s sub i = Some j ->
  exists k, j = (i + k)%nat /\ (k + length sub <= length s)%nat /\
            s = firstn k s ++ sub ++ skipn (k + length sub) s.
Proof.
  induction s as [|c s IH]; intros i j; cbn [index_from].
  - destruct (has_prefix sub []) eqn:E; [|discriminate]. intros Hj; inversion Hj; subst.
    apply has_prefix_true in E as [r Hr]. exists 0%nat. split; [lia|].
    destruct sub; [split; [simpl; lia|reflexivity]|discriminate].
  - destruct (has_prefix sub (c :: s)) eqn:E.
    + intros Hj; inversion Hj; subst. apply has_prefix_true in E as [r Hr]. exists 0%nat.
      split; [lia|]. split; [rewrite Hr, app_length; lia|].
      cbn [firstn app Nat.add]. rewrite Hr at 2. rewrite skipn_app_exact. exact Hr.
    + intros Hj. destruct (IH _ _ Hj) as [k [-> [Hle Hs]]]. exists (S k). split; [lia|].
      split; [simpl; lia|]. cbn [firstn Nat.add skipn app]. f_equal. exact Hs.
Qed.

Lemma replace_once_spec s from to r :
  replace_once s from to = (true, r) ->
  exists pre post, s = pre ++ from ++ post /\ r = pre ++ to ++ post.
Proof.
  unfold replace_once. destruct (str_index s from) as [i|] eqn:Ei; [|discriminate].
  destruct (str_last_index s from) as [j|]; [|discriminate].
  destruct (Nat.eqb i j); [|discriminate]. intros Hr; inversion Hr; subst.
  destruct (index_from_spec _ _ _ _ Ei) as [k [-> [_ Hs]]]. simpl Nat.add.
  exists (firstn k s), (skipn (k + length from) s). split; [exact Hs|reflexivity].
Qed.

Lemma replace_once_false s from to r : replace_once s from to = (false, r) -> r = s.
Proof.
  unfold replace_once. destruct (str_index s from); [|intros Hr; inversion Hr; reflexivity].
  destruct (str_last_index s from); [|intros Hr; inversion Hr; reflexivity].
  destruct (Nat.eqb _ _); intros Hr; inversion Hr; reflexivity.
Qed.

(* Replace either leaves the texts alone or replaces one occurrence of `from` by
   `to` in one text, and nothing else *)
Theorem autofix_replace_spec texts from to :
  autofix_replace texts from to = texts \/
  exists before pre post after,
    texts = before ++ (pre ++ from ++ post) :: after /\
    autofix_replace texts from to = before ++ (pre ++ to ++ post) :: after.
Proof.
  unfold autofix_replace. destruct (_ =? 1); [|left; reflexivity].
  induction texts as [|t rest IH]; [left; reflexivity|].
  cbn [replace_in_texts]. destruct (replace_once t from to) as [[|] r] eqn:E.
  - right. destruct (replace_once_spec _ _ _ _ E) as [pre [post [-> ->]]].
    exists [], pre, post, rest. split; reflexivity.
  - destruct IH as [IH|[before [pre [post [after [H1 H2]]]]]].
    + left. rewrite IH. reflexivity.
    + right. exists (t :: before), pre, post, after. rewrite H2, H1. split; reflexivity.
Qed.

Section Fix.
Variable H : str -> str.

(* what the fix writes is the makepatchsum digest, and that digest is accepted *)
Theorem fix_then_accept s d h :
  check_patch_sha1 H (Some s) d = Differs d h ->
  h = makepatchsum H s /\ check_patch_sha1 H (Some s) h = Silent /\
  forall texts,
    fix_distinfo_line texts (Differs d h) = texts \/
    exists before pre post after,
      texts = before ++ (pre ++ d ++ post) :: after /\
      fix_distinfo_line texts (Differs d h) = before ++ (pre ++ h ++ post) :: after.
Proof.
  rewrite check_cases. destruct (str_eqb d (makepatchsum H s)); [discriminate|].
  intros Hd; inversion Hd; subst. split; [reflexivity|]. split.
  - apply accept_iff_equal. reflexivity.
  - intros texts. apply autofix_replace_spec.
Qed.

(* the Replace precondition, spelled out with the Go library functions: the stale
   hash is counted once in the line and its first occurrence is its last *)
Theorem fix_then_accept_partial s d h t i :
  check_patch_sha1 H (Some s) d = Differs d h ->
  str_count t d = 1 -> str_index t d = Some i -> str_last_index t d = Some i ->
  exists pre post, t = pre ++ d ++ post /\ length pre = i /\
    fix_distinfo_line [t] (Differs d h) = [pre ++ h ++ post] /\
    check_patch_sha1 H (Some s) h = Silent.
Proof.
  intros Hc Hn Hi Hl. destruct (fix_then_accept _ _ _ Hc) as [_ [Hs _]].
  destruct (index_from_spec _ _ _ _ Hi) as [k [Hk [Hle Ht]]]. simpl in Hk. subst k.
  exists (firstn i t), (skipn (i + length d) t). split; [exact Ht|]. split.
  - apply firstn_length_le. lia.
  - split; [|exact Hs]. cbn [fix_distinfo_line]. unfold autofix_replace. cbn [fold_left].
    rewrite N.add_0_l, Hn. cbn [N.eqb Pos.eqb replace_in_texts]. unfold replace_once.
    rewrite Hi, Hl, Nat.eqb_refl. reflexivity.
Qed.
End Fix.

(* the unguarded claim "the fix always writes the digest into the line" is false:
   when the stale hash occurs a second time in the line (e.g. in the file name)
   Replace refuses and the line stays as it is *)
Definition fix_always_full : Prop :=
  forall (H : str -> str) s d h pre post,
    check_patch_sha1 H (Some s) d = Differs d h ->
    fix_distinfo_line [pre ++ d ++ post] (Differs d h) = [pre ++ h ++ post].

Theorem fix_always_refuted : ~ fix_always_full.
Proof.
  intros F. specialize (F (fun _ => [49]) [] [48] [49] [48] []).
  assert (C : check_patch_sha1 (fun _ => [49]) (Some []) [48] = Differs [48] [49]) by (vm_compute; reflexivity).
  specialize (F C). vm_compute in F. discriminate.
Qed.

(* ---- Package.AutofixDistinfo ---------------------------------------------- *)

Lemma autofix_replace_refuses texts from to :
  fold_left (fun n t => n + str_count t from) texts 0 <> 1 -> autofix_replace texts from to = texts.
Proof. unfold autofix_replace. intros Hn. apply N.eqb_neq in Hn. rewrite Hn. reflexivity. Qed.

(* a line in which the old hash is not counted exactly once stays as it is *)
Theorem autofix_distinfo_partial lines old new j texts :
  nth_error lines j = Some texts ->
  fold_left (fun n t => n + str_count t old) texts 0 <> 1 ->
  nth_error (autofix_distinfo lines old new) j = Some texts.
Proof.
  intros Hj Hn. unfold autofix_distinfo. rewrite nth_error_map, Hj. simpl.
  rewrite (autofix_replace_refuses _ _ _ Hn). reflexivity.
Qed.

(* "AutofixDistinfo only rewrites the entry of the patch that was fixed (line i)" is
   false: every line that records the same hash is rewritten *)
Definition autofix_distinfo_full : Prop :=
  forall lines old new (i j : nat) texts, j <> i ->
    nth_error lines j = Some texts -> nth_error (autofix_distinfo lines old new) j = Some texts.

Definition twin_aa : str := [83;72;65;49;32;40;112;97;116;99;104;45;97;97;41;32;61;32;48;10]. (* SHA1 (patch-aa) = 0 *)
Definition twin_ab : str := [83;72;65;49;32;40;112;97;116;99;104;45;97;98;41;32;61;32;48;10]. (* SHA1 (patch-ab) = 0 *)

Theorem autofix_distinfo_refuted : ~ autofix_distinfo_full.
Proof.
  intros F. specialize (F [[twin_aa]; [twin_ab]] [48] [49] 0%nat 1%nat [twin_ab] ltac:(discriminate) eq_refl).
  vm_compute in F. discriminate.
Qed.
