(* Proofs for C18 (Model/PatchSum.v against Spec/PatchSumSpec.v); reuses C09. *)
From PV Require Import Lib.Bytes Lib.LinesLib Model.Lines Spec.LinesSpec Proofs.Lines Proofs.LinesLoop
  Model.PatchSum Spec.PatchSumSpec.
From Coq Require Import ZifyBool ZifyN ZifyNat.
Open Scope N_scope.

(* ---- the tag test -------------------------------------------------------- *)

Lemma contains_is_has_tag s : contains s skip_text = has_tag s.
Proof.
  unfold has_tag. induction s as [|c s IH]; [reflexivity|].
  cbn [contains suffixes existsb]. rewrite IH. reflexivity.
Qed.

(* ---- the bytes that are hashed ------------------------------------------- *)

Definition keep (r : str) : bool := negb (contains r skip_text).

Lemma flat_map_filter {A B} (f : A -> list B) (p : B -> bool) (l : list A) :
  flat_map (fun a => filter p (f a)) l = filter p (flat_map f l).
Proof.
  induction l as [|a l IH]; simpl; [reflexivity|]. rewrite IH.
  clear IH. induction (f a) as [|b bs IHb]; simpl; [reflexivity|].
  destruct (p b); simpl; rewrite IHb; reflexivity.
Qed.

Lemma hashed_bytes_filter ls : hashed_bytes ls = concat (filter keep (flat_map raws ls)).
Proof. unfold hashed_bytes. rewrite (flat_map_filter raws keep). reflexivity. Qed.

Lemma keep_concat r : concat (if keep r then [r] else []) = keep_line r.
Proof.
  unfold keep, keep_line. rewrite contains_is_has_tag.
  destruct (has_tag r); simpl; [reflexivity|apply app_nil_r].
Qed.

Lemma split_filter_lines s : forall cur,
  concat (filter keep (filter nonempty (split_after_acc cur s))) = filter_lines cur s.
Proof.
  induction s as [|c s IH]; intros cur.
  - cbn [split_after_acc filter_lines filter]. destruct cur as [|a cur].
    + reflexivity.
    + cbn [nonempty is_empty negb filter]. apply keep_concat.
  - cbn [split_after_acc filter_lines]. unfold nl. destruct (c =? 10).
    + cbn [filter]. replace (nonempty (cur ++ [c])) with true by (destruct cur; reflexivity).
      cbn [filter]. rewrite <- IH, <- keep_concat.
      destruct (keep (cur ++ [c])); simpl; [rewrite app_nil_r|]; reflexivity.
    + apply IH.
Qed.

Theorem digest_input_exact s mk ls e :
  convert_to_logical_lines s mk = Ok (ls, e) -> hashed_bytes ls = makepatchsum_filter s.
Proof.
  intros Hc. rewrite hashed_bytes_filter, (raws_are_raw_lines _ _ _ _ Hc).
  apply split_filter_lines.
Qed.

(* ---- checkPatchSha1 ------------------------------------------------------ *)

Section WithHash.
Variable H : str -> str.

Theorem compute_is_makepatchsum s mk ls e :
  convert_to_logical_lines s mk = Ok (ls, e) -> compute_patch_sha1_hex H ls = makepatchsum H s.
Proof.
  intros Hc. unfold compute_patch_sha1_hex, makepatchsum. rewrite (digest_input_exact _ _ _ _ Hc). reflexivity.
Qed.

Theorem check_cases s d :
  check_patch_sha1 H (Some s) d =
  if str_eqb d (makepatchsum H s) then Silent else Differs d (makepatchsum H s).
Proof.
  unfold check_patch_sha1. destruct (convert_total s false) as [ls Hc]. rewrite Hc.
  rewrite (compute_is_makepatchsum _ _ _ _ Hc). reflexivity.
Qed.

Theorem accept_iff_equal s d :
  check_patch_sha1 H (Some s) d = Silent <-> d = makepatchsum H s.
Proof.
  rewrite check_cases. destruct (str_eqb d (makepatchsum H s)) eqn:E.
  - apply str_eqb_spec in E. tauto.
  - split; [discriminate|]. intros ->. rewrite str_eqb_refl in E. discriminate.
Qed.

Theorem reject_reports_digest s d :
  d <> makepatchsum H s -> check_patch_sha1 H (Some s) d = Differs d (makepatchsum H s).
Proof.
  intros Hd. rewrite check_cases. destruct (str_eqb d (makepatchsum H s)) eqn:E; [|reflexivity].
  apply str_eqb_spec in E. contradiction.
Qed.

Theorem check_total p d : check_patch_sha1 H p d <> LoadPanic.
Proof.
  destruct p as [s|]; [|discriminate]. rewrite check_cases. destruct (str_eqb _ _); discriminate.
Qed.
End WithHash.

(* ---- Autofix.Replace ------------------------------------------------------ *)

Lemma index_from_spec s sub : forall i j, index_from s sub i = Some j ->
  exists k, j = (i + k)%nat /\ (k + length sub <= length s)%nat /\
            s = firstn k s ++ sub ++ skipn (k + length sub) s.
Proof.
  induction s as [|c s IH]; intros i j; cbn [index_from].
  - destruct (has_prefix sub []) eqn:E; [|discriminate]. intros Hj; inversion Hj; subst.
    apply has_prefix_true in E as [r Hr]. exists 0%nat. split; [lia|].
    destruct sub; [split; [simpl; lia|reflexivity]|discriminate].
  - destruct (has_prefix sub (c :: s)) eqn:E.
    + intros Hj; inversion Hj; subst. apply has_prefix_true in E as [r Hr]. exists 0%nat.
      split; [lia|]. split; [rewrite Hr, app_length; lia|].
      cbn [firstn app Nat.add]. rewrite Hr at 2. rewrite skipn_app_exact. exact Hr.
    + intros Hj. destruct (IH _ _ Hj) as [k [-> [Hle Hs]]]. exists (S k). split; [lia|].
      split; [simpl; lia|]. cbn [firstn Nat.add skipn app]. f_equal. exact Hs.
Qed.

Lemma replace_once_spec s from to r :
  replace_once s from to = (true, r) ->
  exists pre post, s = pre ++ from ++ post /\ r = pre ++ to ++ post.
Proof.
  unfold replace_once. destruct (str_index s from) as [i|] eqn:Ei; [|discriminate].
  destruct (str_last_index s from) as [j|]; [|discriminate].
  destruct (Nat.eqb i j); [|discriminate]. intros Hr; inversion Hr; subst.
  destruct (index_from_spec _ _ _ _ Ei) as [k [-> [_ Hs]]]. simpl Nat.add.
  exists (firstn k s), (skipn (k + length from) s). split; [exact Hs|reflexivity].
Qed.

Lemma replace_once_false s from to r : replace_once s from to = (false, r) -> r = s.
Proof.
  unfold replace_once. destruct (str_index s from); [|intros Hr; inversion Hr; reflexivity].
  destruct (str_last_index s from); [|intros Hr; inversion Hr; reflexivity].
  destruct (Nat.eqb _ _); intros Hr; inversion Hr; reflexivity.
Qed.

(* Replace either leaves the texts alone or replaces one occurrence of `from` by
   `to` in one text, and nothing else *)
Theorem autofix_replace_spec texts from to :
  autofix_replace texts from to = texts \/
  exists before pre post after,
    texts = before ++ (pre ++ from ++ post) :: after /\
    autofix_replace texts from to = before ++ (pre ++ to ++ post) :: after.
Proof.
  unfold autofix_replace. destruct (_ =? 1); [|left; reflexivity].
  induction texts as [|t rest IH]; [left; reflexivity|].
  cbn [replace_in_texts]. destruct (replace_once t from to) as [[|] r] eqn:E.
  - right. destruct (replace_once_spec _ _ _ _ E) as [pre [post [-> ->]]].
    exists [], pre, post, rest. split; reflexivity.
  - destruct IH as [IH|[before [pre [post [after [H1 H2]]]]]].
    + left. rewrite IH. reflexivity.
    + right. exists (t :: before), pre, post, after. rewrite H2, H1. split; reflexivity.
Qed.

(* ---- unique occurrences ---------------------------------------------------- *)

(* sub occurs at no position of s *)
Fixpoint occ_free (sub s : str) : bool :=
  negb (has_prefix sub s) && match s with [] => true | _ :: t => occ_free sub t end.
(* sub occurs at no position of pre ++ x that lies inside pre *)
Fixpoint pre_free (sub pre x : str) : bool :=
  match pre with
  | [] => true
  | c :: p => negb (has_prefix sub (c :: p ++ x)) && pre_free sub p x
  end.

Lemma occ_free_count sub t : occ_free sub t = true -> forall k, count_from t sub k = 0.
Proof.
  induction t as [|c t IH]; intros Hf k; [reflexivity|].
  cbn [occ_free] in Hf. apply andb_true_iff in Hf as [H1 H2]. apply negb_true_iff in H1.
  cbn [count_from]. destruct k; [rewrite H1|]; apply IH; exact H2.
Qed.

Lemma occ_free_last sub t : occ_free sub t = true -> forall i, last_index_from t sub i = None.
Proof.
  induction t as [|c t IH]; intros Hf i; cbn [occ_free] in Hf;
    apply andb_true_iff in Hf as [H1 H2]; apply negb_true_iff in H1; cbn [last_index_from].
  - rewrite H1. reflexivity.
  - rewrite (IH H2), H1. reflexivity.
Qed.

Lemma index_pre sub pre x : pre_free sub pre x = true -> has_prefix sub x = true ->
  forall i, index_from (pre ++ x) sub i = Some (i + length pre)%nat.
Proof.
  induction pre as [|c p IH]; intros Hp Hx i.
  - simpl. rewrite Nat.add_0_r. destruct x; cbn [index_from]; rewrite Hx; reflexivity.
  - cbn [pre_free] in Hp. apply andb_true_iff in Hp as [H1 H2]. apply negb_true_iff in H1.
    cbn [app index_from]. cbn [app] in H1. rewrite H1, (IH H2 Hx). f_equal. simpl. lia.
Qed.

Lemma last_pre sub pre c x' : pre_free sub pre (c :: x') = true -> has_prefix sub (c :: x') = true ->
  occ_free sub x' = true ->
  forall i, last_index_from (pre ++ c :: x') sub i = Some (i + length pre)%nat.
Proof.
  induction pre as [|a p IH]; intros Hp Hx Hf i.
  - simpl. rewrite Nat.add_0_r. cbn [last_index_from]. rewrite (occ_free_last _ _ Hf), Hx. reflexivity.
  - cbn [pre_free] in Hp. apply andb_true_iff in Hp as [_ H2].
    cbn [app last_index_from]. rewrite (IH H2 Hx Hf). f_equal. simpl. lia.
Qed.

Lemma count_pre sub pre c x' : pre_free sub pre (c :: x') = true -> has_prefix sub (c :: x') = true ->
  occ_free sub x' = true -> count_from (pre ++ c :: x') sub 0 = 1.
Proof.
  induction pre as [|a p IH]; intros Hp Hx Hf.
  - cbn [app count_from]. rewrite Hx, (occ_free_count _ _ Hf). reflexivity.
  - cbn [pre_free] in Hp. apply andb_true_iff in Hp as [H1 H2]. apply negb_true_iff in H1.
    cbn [app count_from]. cbn [app] in H1. rewrite H1. apply IH; assumption.
Qed.

Lemma has_prefix_app sub post : has_prefix sub (sub ++ post) = true.
Proof. apply has_prefix_true. eauto. Qed.

(* Replace with a text that occurs exactly once, at the end of pre *)
Lemma autofix_replace_unique pre b sub' post to :
  pre_free (b :: sub') pre ((b :: sub') ++ post) = true ->
  occ_free (b :: sub') (sub' ++ post) = true ->
  autofix_replace [pre ++ (b :: sub') ++ post] (b :: sub') to = [pre ++ to ++ post].
Proof.
  intros Hp Hf.
  assert (Hx : has_prefix (b :: sub') (b :: sub' ++ post) = true) by apply (has_prefix_app (b :: sub') post).
  change ((b :: sub') ++ post) with (b :: sub' ++ post) in *.
  unfold autofix_replace. cbn [fold_left]. rewrite N.add_0_l. cbn [str_count].
  rewrite (count_pre _ _ _ _ Hp Hx Hf). change (1 =? 1) with true. cbn iota. cbn [replace_in_texts].
  unfold replace_once, str_index, str_last_index.
  rewrite (index_pre _ _ _ Hp Hx), (last_pre _ _ _ _ Hp Hx Hf). cbn [Nat.add]. rewrite Nat.eqb_refl.
  f_equal. rewrite firstn_app_exact. f_equal. f_equal.
  change (b :: sub' ++ post) with ((b :: sub') ++ post). rewrite app_assoc, <- app_length.
  apply skipn_app_exact.
Qed.

(* sufficient conditions on the bytes *)
Lemma has_prefix_head_ne h rest c s : (c =? h) = false -> has_prefix (h :: rest) (c :: s) = false.
Proof. intros Hc. unfold has_prefix. cbn [strip_prefix]. rewrite N.eqb_sym, Hc. reflexivity. Qed.

Lemma pre_free_head h rest pre x :
  forallb (fun c => negb (c =? h)) pre = true -> pre_free (h :: rest) pre x = true.
Proof.
  induction pre as [|c p IH]; intros Hf; [reflexivity|]. cbn [forallb] in Hf.
  apply andb_true_iff in Hf as [H1 H2]. apply negb_true_iff in H1.
  cbn [pre_free]. rewrite (has_prefix_head_ne _ _ _ _ H1), (IH H2). reflexivity.
Qed.

(* no byte h is immediately followed by a byte g *)
Fixpoint no_pair (h g : N) (s : str) : bool :=
  match s with
  | [] => true
  | c :: t => negb ((c =? h) && head_is (fun c' => c' =? g) t) && no_pair h g t
  end.

Lemma occ_free_pair h g rest s : no_pair h g s = true -> occ_free (h :: g :: rest) s = true.
Proof.
  induction s as [|c t IH]; intros Hn; [reflexivity|].
  cbn [no_pair] in Hn. apply andb_true_iff in Hn as [H1 H2]. cbn [occ_free]. rewrite (IH H2), andb_true_r.
  apply negb_true_iff. apply negb_true_iff in H1. unfold has_prefix. cbn [strip_prefix].
  rewrite (N.eqb_sym h c). destruct (c =? h); [|reflexivity]. simpl in H1.
  destruct t as [|c' t']; [reflexivity|]. cbn [head_is] in H1. cbn [strip_prefix].
  rewrite (N.eqb_sym g c'), H1. reflexivity.
Qed.

Lemma no_pair_free h g s : forallb (fun c => negb (c =? g)) s = true -> no_pair h g s = true.
Proof.
  induction s as [|c t IH]; intros Hf; [reflexivity|]. cbn [forallb] in Hf.
  apply andb_true_iff in Hf as [_ H2]. cbn [no_pair]. rewrite (IH H2), andb_true_r.
  destruct t as [|c' t']; [rewrite andb_false_r; reflexivity|]. cbn [head_is].
  cbn [forallb] in H2. apply andb_true_iff in H2 as [H3 _]. apply negb_true_iff in H3.
  rewrite H3, andb_false_r. reflexivity.
Qed.

(* ---- the fix of checkPatchSha1 ------------------------------------------------ *)

(* SHA1 (name) = hash LF : a patch entry as the distinfo grammar admits it
   (the line regex in distinfo.go): no closing parenthesis in the name, no blank
   in the hash *)
Definition sha1_open : str := [83; 72; 65; 49; 32; 40].
Definition entry_line (name hash : str) : str := (sha1_open ++ name) ++ (entry_sep ++ hash) ++ [10].
Definition name_ok (name : str) : bool := forallb (fun c => negb (c =? 41)) name.
Definition hash_ok (hash : str) : bool := forallb (fun c => negb (c =? 32)) hash.

Lemma replace_after_entry name d h :
  name_ok name = true -> hash_ok d = true ->
  autofix_replace_after entry_sep [entry_line name d] d h = [entry_line name h].
Proof.
  intros Hn Hd. unfold autofix_replace_after, entry_line, entry_sep.
  change ([41; 32; 61; 32] ++ d) with (41 :: [32; 61; 32] ++ d).
  change ([41; 32; 61; 32] ++ h) with (41 :: [32; 61; 32] ++ h).
  apply autofix_replace_unique.
  - apply pre_free_head. unfold sha1_open. rewrite forallb_app. unfold name_ok in Hn. rewrite Hn. reflexivity.
  - change (([32; 61; 32] ++ d) ++ [10]) with (32 :: 61 :: 32 :: d ++ [10]).
    apply (occ_free_pair 41 32 ([61; 32] ++ d)).
    cbn [no_pair head_is]. simpl (32 =? 41). simpl (61 =? 41). cbn [andb negb].
    apply no_pair_free. rewrite forallb_app. unfold hash_ok in Hd. rewrite Hd. reflexivity.
Qed.

Section Fix.
Variable H : str -> str.

(* what the fix writes is the makepatchsum digest, and that digest is accepted;
   ReplaceAfter changes nothing else *)
Theorem fix_then_accept s d h :
  check_patch_sha1 H (Some s) d = Differs d h ->
  h = makepatchsum H s /\ check_patch_sha1 H (Some s) h = Silent /\
  forall texts,
    fix_distinfo_line texts (Differs d h) = texts \/
    exists before pre post after,
      texts = before ++ (pre ++ (entry_sep ++ d) ++ post) :: after /\
      fix_distinfo_line texts (Differs d h) = before ++ (pre ++ (entry_sep ++ h) ++ post) :: after.
Proof.
  rewrite check_cases. destruct (str_eqb d (makepatchsum H s)); [discriminate|].
  intros Hd; inversion Hd; subst. split; [reflexivity|]. split.
  - apply accept_iff_equal. reflexivity.
  - intros texts. apply autofix_replace_spec.
Qed.

(* for every entry line of the distinfo grammar the fix writes exactly the digest,
   and the entry is accepted afterwards -- no guard about further occurrences of the
   stale hash (e.g. in the file name) is needed any more *)
Theorem fix_always s d h name :
  name_ok name = true -> hash_ok d = true ->
  check_patch_sha1 H (Some s) d = Differs d h ->
  fix_distinfo_line [entry_line name d] (Differs d h) = [entry_line name h] /\
  h = makepatchsum H s /\ check_patch_sha1 H (Some s) h = Silent.
Proof.
  intros Hn Hd Hc. destruct (fix_then_accept _ _ _ Hc) as [Hh [Hs _]].
  split; [|split; assumption]. cbn [fix_distinfo_line]. apply replace_after_entry; assumption.
Qed.
End Fix.

(* ---- Package.AutofixDistinfo ---------------------------------------------- *)

Lemma autofix_replace_refuses texts from to :
  fold_left (fun n t => n + str_count t from) texts 0 <> 1 -> autofix_replace texts from to = texts.
Proof. unfold autofix_replace. intros Hn. apply N.eqb_neq in Hn. rewrite Hn. reflexivity. Qed.

(* the entry of a patch whose own digest is not the new one is never touched: in
   particular a correct entry of another patch with the same old digest stays correct *)
Theorem autofix_distinfo_keeps lines old new j texts other :
  nth_error lines j = Some (texts, Some other) -> other <> new ->
  nth_error (autofix_distinfo lines old new) j = Some texts.
Proof.
  intros Hj Hn. unfold autofix_distinfo. rewrite nth_error_map, Hj. simpl.
  destruct (str_eqb other new) eqn:E; [apply str_eqb_spec in E; contradiction|reflexivity].
Qed.

(* any line in which the old hash is not counted exactly once is left alone *)
Theorem autofix_distinfo_partial lines old new j l :
  nth_error lines j = Some l ->
  fold_left (fun n t => n + str_count t old) (fst l) 0 <> 1 ->
  nth_error (autofix_distinfo lines old new) j = Some (fst l).
Proof.
  intros Hj Hn. unfold autofix_distinfo. rewrite nth_error_map, Hj. simpl.
  rewrite (autofix_replace_refuses _ _ _ Hn). destruct (snd l) as [o|]; [destruct (negb _)|]; reflexivity.
Qed.

