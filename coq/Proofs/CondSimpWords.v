(* C14: the result of ${V:Mpat} as a bare expression.  If no single word that
   matches the pattern is a number, the result is "true" exactly when it is
   non-empty: one word is not a number by assumption, several words contain a
   blank, where strtoul and strtod stop. *)
From PV Require Import Lib.Bytes Spec.BmakeCond Proofs.CondSimpA.
From Coq Require Import ZifyBool ZifyN ZifyNat.
Open Scope N_scope.

(* the only white space in the value is blank, tab, newline (what Str_Words splits at) *)
Definition clean (s : str) : Prop := forall c, In c s -> is_cspace c = true -> is_ws c = true.

Lemma clean_cons c s : clean (c :: s) -> clean s.
Proof. intros H x Hx. apply H. right. exact Hx. Qed.

Lemma wordlike_app a b : wordlike a -> wordlike b -> wordlike (a ++ b).
Proof. unfold wordlike. rewrite forallb_app. intros -> ->. reflexivity. Qed.

(* every word Str_Words returns is non-empty and free of white space *)
Lemma split_ws_words s : forall cur, clean s -> wordlike cur ->
  Forall (fun w => w <> [] /\ wordlike w) (split_ws s cur).
Proof.
  induction s as [|c s IH]; intros cur Hcl Hcur; simpl.
  - destruct cur; constructor; [split; [discriminate|exact Hcur]|constructor].
  - pose proof (clean_cons _ _ Hcl) as Hcl'.
    destruct (is_ws c) eqn:Ews.
    + destruct cur.
      * apply IH; [exact Hcl'|exact wordlike_nil].
      * constructor; [split; [discriminate|exact Hcur]|]. apply IH; [exact Hcl'|exact wordlike_nil].
    + apply IH; [exact Hcl'|]. apply wordlike_app; [exact Hcur|].
      apply wordlike_cons. split; [|exact wordlike_nil].
      destruct (is_cspace c) eqn:Ec; [|reflexivity].
      rewrite (Hcl c (or_introl eq_refl) Ec) in Ews. discriminate.
Qed.

Lemma words_spec s : clean s -> Forall (fun w => w <> [] /\ wordlike w) (words s).
Proof. intros H. apply split_ws_words; [exact H|exact wordlike_nil]. Qed.

Lemma Forall_filter {A} (P : A -> Prop) f l : Forall P l -> Forall P (filter f l).
Proof.
  induction 1 as [|x l Hx _ IH]; simpl; [constructor|]. destruct (f x); [constructor; assumption|exact IH].
Qed.

Lemma Forall_filter_true {A} (f : A -> bool) l : Forall (fun x => f x = true) (filter f l).
Proof.
  induction l as [|x l IH]; simpl; [constructor|]. destruct (f x) eqn:E; [constructor; assumption|exact IH].
Qed.

(* ---------- strtoul and strtod never step over a blank ---------- *)

Lemma span_keeps (f : N -> bool) (b : N) s : f b = false -> In b s -> In b (snd (span f s)).
Proof.
  intros Hf. induction s as [|c s IH]; intros Hin; [contradiction|]. simpl.
  destruct (f c) eqn:E.
  - destruct Hin as [->|Hin]; [congruence|]. destruct (span f s) as [a r]. simpl in *. apply IH. exact Hin.
  - exact Hin.
Qed.

Lemma take_sign_keeps s : In 32 s -> In 32 (snd (take_sign s)).
Proof.
  unfold take_sign. destruct s as [|c r]; [contradiction|]. intros Hin.
  destruct (N.eqb_spec c 45) as [->|]; [destruct Hin as [H|H]; [discriminate|exact H]|].
  destruct (N.eqb_spec c 43) as [->|]; [destruct Hin as [H|H]; [discriminate|exact H]|].
  exact Hin.
Qed.

Lemma take_exponent_keeps m1 m2 s : m1 <> 32 -> m2 <> 32 -> In 32 s -> In 32 (snd (take_exponent m1 m2 s)).
Proof.
  intros H1 H2. unfold take_exponent. destruct s as [|c r]; [contradiction|]. intros Hin.
  destruct ((c =? m1) || (c =? m2)) eqn:E; [|exact Hin].
  assert (Hc : c <> 32) by lia.
  destruct Hin as [Heq|Hin]; [congruence|].
  pose proof (take_sign_keeps r Hin) as Hs. destruct (take_sign r) as [neg r1]. simpl in Hs.
  pose proof (span_keeps is_digit 32 r1 eq_refl Hs) as Hd. destruct (span is_digit r1) as [ds r2]. simpl in Hd.
  destruct ds; simpl; [right; exact Hin|exact Hd].
Qed.

Lemma strtoul_keeps s hex : skip_cspace s = s -> In 32 s ->
  In 32 (snd (strtoul s hex)).
Proof.
  intros Hsk Hin. unfold strtoul. rewrite Hsk.
  pose proof (take_sign_keeps s Hin) as Hs. destruct (take_sign s) as [neg s2]. simpl in Hs.
  destruct hex.
  - set (s3 := match s2 with
               | z :: x :: h :: _ => if (z =? 48) && is_x x && is_hexdigit h then tl (tl s2) else s2
               | _ => s2
               end).
    assert (H3 : In 32 s3).
    { subst s3. destruct s2 as [|z [|x [|h t]]]; try exact Hs.
      destruct ((z =? 48) && is_x x && is_hexdigit h) eqn:E; [|exact Hs].
      simpl. unfold is_x in E.
      destruct Hs as [H|[H|H]]; [lia|lia|exact H]. }
    pose proof (span_keeps is_hexdigit 32 s3 eq_refl H3) as Hd.
    destruct (span is_hexdigit s3) as [ds r]. simpl in Hd. destruct ds; simpl; assumption.
  - pose proof (span_keeps is_digit 32 s2 eq_refl Hs) as Hd.
    destruct (span is_digit s2) as [ds r]. simpl in Hd. destruct ds; simpl; assumption.
Qed.

(* optional fraction: "." digits *)
Lemma frac_keeps (f : N -> bool) (r1 fp r2 : str) : f 32 = false -> In 32 r1 ->
  match r1 with
  | d :: r1' => if d =? 46 then span f r1' else ([], r1)
  | [] => ([], r1)
  end = (fp, r2) -> In 32 r2.
Proof.
  intros Hf Hin. destruct r1 as [|d r1']; [contradiction|].
  destruct (N.eqb_spec d 46) as [->|].
  - destruct Hin as [H|H]; [discriminate|]. intros E.
    pose proof (span_keeps f 32 r1' Hf H) as K. rewrite E in K. exact K.
  - intros E. injection E as <- <-. exact Hin.
Qed.

Lemma strtod_keeps s : skip_cspace s = s -> In 32 s -> In 32 (snd (strtod s)).
Proof.
  intros Hsk Hin. unfold strtod. rewrite Hsk.
  pose proof (take_sign_keeps s Hin) as Hs. destruct (take_sign s) as [neg s2]. simpl in Hs.
  (* the decimal branch *)
  assert (Hdec : In 32 (snd (let (ip, r1) := span is_digit s2 in
                             let (fp, r2) := match r1 with
                                             | d :: r1' => if d =? 46 then span is_digit r1' else ([], r1)
                                             | [] => ([], r1)
                                             end in
                             match ip ++ fp with
                             | [] => (mknum 0 1, s)
                             | _ => let (ex, r3) := take_exponent 101 69 r2 in
                                    (num_div (scale (if neg then (- dec_value (ip ++ fp))%Z else dec_value (ip ++ fp)) 10 ex)
                                             (10 ^ Z.of_nat (length fp)), r3)
                             end))).
  { pose proof (span_keeps is_digit 32 s2 eq_refl Hs) as H1. destruct (span is_digit s2) as [ip r1]. simpl in H1.
    destruct (match r1 with d :: r1' => if d =? 46 then span is_digit r1' else ([], r1) | [] => ([], r1) end) as [fp r2] eqn:Efr.
    pose proof (frac_keeps is_digit r1 fp r2 eq_refl H1 Efr) as H2.
    destruct (ip ++ fp); [exact Hin|].
    pose proof (take_exponent_keeps 101 69 r2 ltac:(discriminate) ltac:(discriminate) H2) as H3.
    destruct (take_exponent 101 69 r2) as [ex r3]. exact H3. }
  destruct s2 as [|z [|x r]]; try exact Hdec.
  destruct ((z =? 48) && is_x x) eqn:E; [|exact Hdec].
  assert (Hr : In 32 r).
  { unfold is_x in E. destruct Hs as [H|[H|H]]; [lia|lia|exact H]. }
  pose proof (span_keeps is_hexdigit 32 r eq_refl Hr) as H1. destruct (span is_hexdigit r) as [ip r1]. simpl in H1.
  destruct (match r1 with d :: r1' => if d =? 46 then span is_hexdigit r1' else ([], r1) | [] => ([], r1) end) as [fp r2] eqn:Efr.
  pose proof (frac_keeps is_hexdigit r1 fp r2 eq_refl H1 Efr) as H2.
  destruct (ip ++ fp) eqn:Eipfp; [exact Hdec|].
  pose proof (take_exponent_keeps 112 80 r2 ltac:(discriminate) ltac:(discriminate) H2) as H3.
  destruct (take_exponent 112 80 r2) as [ex r3]. exact H3.
Qed.

(* a string with a blank after its first (non-blank) byte is not a number *)
Lemma blank_not_number s : skip_cspace s = s -> In 32 s -> try_parse_number s = None.
Proof.
  intros Hsk Hin. unfold try_parse_number. destruct s as [|c0 s']; [contradiction|].
  set (hex := match c0 :: s' with _ :: x :: _ => x =? 120 | _ => false end).
  pose proof (strtoul_keeps (c0 :: s') hex Hsk Hin) as H1.
  pose proof (strtod_keeps (c0 :: s') Hsk Hin) as H2.
  destruct (strtoul (c0 :: s') hex) as [[[conv neg] mag] rest]. simpl in H1.
  destruct (strtod (c0 :: s')) as [v r']. simpl in H2.
  destruct rest as [|e rest']; [contradiction|]. destruct r' as [|x r'']; [contradiction|].
  destruct ((e =? 46) || (e =? 101) || (e =? 69)); reflexivity.
Qed.

(* ---------- the value of ${V:Mpat} as a bare expression ---------- *)

Lemma join_sp_two w w2 rest : join_sp (w :: w2 :: rest) = w ++ 32 :: join_sp (w2 :: rest).
Proof. reflexivity. Qed.

Theorem match_result_bare pat s :
  clean s ->
  (forall w, w <> [] -> wordlike w -> str_match w pat = true -> try_parse_number w = None) ->
  let r := join_sp (filter (fun w => str_match w pat) (words s)) in
  nonempty (skip_cspace r) = nonempty r /\ (r <> [] -> truthy r false = true).
Proof.
  intros Hcl Hnum r.
  pose proof (Forall_filter _ (fun w => str_match w pat) _ (words_spec s Hcl)) as Hw.
  pose proof (Forall_filter_true (fun w => str_match w pat) (words s)) as Hm.
  subst r. destruct (filter (fun w => str_match w pat) (words s)) as [|w [|w2 rest]].
  - split; [reflexivity|intros H; exfalso; apply H; reflexivity].
  - inversion Hw as [|? ? [Hne Hwl] _]; subst. inversion Hm as [|? ? Hmw _]; subst. simpl.
    split; [rewrite wordlike_skip by exact Hwl; reflexivity|].
    intros _. unfold truthy. rewrite (Hnum w Hne Hwl Hmw). destruct w; [congruence|reflexivity].
  - inversion Hw as [|? ? [Hne Hwl] _]; subst. rewrite join_sp_two.
    assert (Hsk : skip_cspace (w ++ 32 :: join_sp (w2 :: rest)) = w ++ 32 :: join_sp (w2 :: rest)).
    { destruct w as [|c w']; [congruence|]. apply wordlike_cons in Hwl as [Hc _]. simpl. rewrite Hc. reflexivity. }
    split; [rewrite Hsk; reflexivity|].
    intros _. unfold truthy. rewrite blank_not_number; [|exact Hsk|apply in_or_app; right; left; reflexivity].
    destruct w; [congruence|reflexivity].
Qed.

(* the first half needs no assumption about numbers *)
Lemma match_result_head (f : str -> bool) s :
  clean s -> let r := join_sp (filter f (words s)) in nonempty (skip_cspace r) = nonempty r.
Proof.
  intros Hcl r. pose proof (Forall_filter _ f _ (words_spec s Hcl)) as Hw.
  subst r. destruct (filter f (words s)) as [|w [|w2 rest]].
  - reflexivity.
  - inversion Hw as [|? ? [Hne Hwl] _]; subst. simpl. rewrite wordlike_skip by exact Hwl. reflexivity.
  - inversion Hw as [|? ? [Hne Hwl] _]; subst. rewrite join_sp_two.
    destruct w as [|c w']; [congruence|]. apply wordlike_cons in Hwl as [Hc _]. simpl. rewrite Hc. reflexivity.
Qed.
