(* Proofs about the Logger machine (Model/Logger.v).
   Part A: presentation options do not touch the "core" of the Logger state
   (suppressDiag, suppressExpl, logged, the counters, explanationsAvailable,
   autofixAvailable, the emitted diagnostic tuples).  One lemma per helper. *)
From PV Require Import Lib.Bytes Lib.Utf8 Model.Escape Model.Logger.
From Coq Require Import ZifyBool ZifyN ZifyNat.
Open Scope N_scope.

Definition core (l : logger) :=
  (l_suppress_diag l, l_suppress_expl l, l_logged l, l_errors l, l_warnings l, l_notes l,
   l_expl_avail l, l_fix_avail l, l_emitted l).

(* two option records that differ at most in -e -s -g -q *)
Definition agree (o1 o2 : opts) : Prop :=
  lo_show_autofix o1 = lo_show_autofix o2 /\ lo_autofix o1 = lo_autofix o2 /\ lo_only o1 = lo_only o2.

Lemma agree_is_autofix o1 o2 : agree o1 o2 -> is_autofix o1 = is_autofix o2.
Proof. intros (H1 & H2 & _). unfold is_autofix. rewrite H1, H2. reflexivity. Qed.

(* ---------- helpers that only write ---------- *)

Lemma core_set_out l v : core (set_out l v) = core l. Proof. reflexivity. Qed.
Lemma core_set_err l v : core (set_err l v) = core l. Proof. reflexivity. Qed.
Lemma core_set_prev_line l v : core (set_prev_line l v) = core l. Proof. reflexivity. Qed.
Lemma core_set_explained l v : core (set_explained l v) = core l. Proof. reflexivity. Qed.
Lemma core_set_panicked l v : core (set_panicked l v) = core l. Proof. reflexivity. Qed.

Lemma core_out_write l s : core (out_write l s) = core l. Proof. reflexivity. Qed.
Lemma core_out_write_line l s : core (out_write_line l s) = core l. Proof. reflexivity. Qed.
Lemma core_out_separate l : core (out_separate l) = core l.
Proof. unfold out_separate. destruct (sw_separate (l_out l)). reflexivity. Qed.

Lemma core_write_line l p t : core (write_line l p t) = core l.
Proof. unfold write_line. destruct (has_suffix_nl t); reflexivity. Qed.

Lemma core_write_lines l p ts : core (write_lines l p ts) = core l.
Proof.
  unfold write_lines. revert l. induction ts as [|t ts IH]; intro l; simpl; [reflexivity|].
  rewrite IH. apply core_write_line.
Qed.

Lemma core_write_diff_lines l p raws texts flags : core (write_diff_lines l p raws texts flags) = core l.
Proof.
  revert l texts flags. induction raws as [|r raws IH]; intros l texts flags; simpl; [reflexivity|].
  destruct flags as [|f flags]; [reflexivity|]. rewrite IH.
  destruct f; [|apply core_write_line].
  destruct (nonempty_list (hd [] texts)); rewrite ?core_write_line; reflexivity.
Qed.

Lemma core_write_diff o l ln fv : core (write_diff o l ln fv) = core l.
Proof.
  unfold write_diff. destruct (is_autofix o); [|apply core_write_diff_lines].
  destruct (changed_flags (ln_raws ln) (fv_texts fv)); [apply core_write_diff_lines|reflexivity].
Qed.

Lemma core_write_source o l ln fv : core (write_source o l ln fv) = core l.
Proof.
  unfold write_source. destruct (negb (lo_show_source o)); [reflexivity|].
  destruct (is_autofix o).
  - rewrite core_out_separate, core_write_lines, core_write_diff, core_write_lines. reflexivity.
  - destruct (match l_prev_line l with Some p => p =? ln_id ln | None => false end); [reflexivity|].
    rewrite core_write_diff, core_out_separate. reflexivity.
Qed.

(* ---------- helpers that read or write the core: congruence in the core ---------- *)

Ltac core_inv H :=
  unfold core in H; cbn in H; inversion H; subst; clear H.

Lemma relevant_congr o1 o2 l1 l2 f :
  agree o1 o2 -> core l1 = core l2 ->
  fst (relevant o1 l1 f) = fst (relevant o2 l2 f) /\
  core (snd (relevant o1 l1 f)) = core (snd (relevant o2 l2 f)).
Proof.
  intros (_ & _ & Ho) H. unfold relevant, shall_be_logged. rewrite Ho.
  destruct l1, l2. core_inv H. split; reflexivity.
Qed.

Lemma first_time_congr l1 l2 f n m :
  core l1 = core l2 ->
  fst (first_time l1 f n m) = fst (first_time l2 f n m) /\
  core (snd (first_time l1 f n m)) = core (snd (first_time l2 f n m)).
Proof.
  intros H. unfold first_time. destruct l1, l2. core_inv H. cbn [l_logged].
  match goal with |- context [if ?c then _ else _] => destruct c end; split; reflexivity.
Qed.

Lemma logf_congr o1 o2 l1 l2 lv f n m :
  core l1 = core l2 -> core (logf o1 l1 lv f n m) = core (logf o2 l2 lv f n m).
Proof.
  intros H. unfold logf. destruct l1, l2. core_inv H. cbn.
  destruct l_suppress_diag0; [reflexivity|].
  destruct lv; reflexivity.
Qed.

Lemma core_fold_out {A} (f : logger -> A -> logger) (xs : list A) l :
  (forall l x, core (f l x) = core l) -> core (fold_left f xs l) = core l.
Proof.
  intro Hf. revert l. induction xs as [|x xs IH]; intro l; simpl; [reflexivity|].
  rewrite IH. apply Hf.
Qed.

(* what Explain does to the core *)
Lemma core_explain o l e :
  core (explain o l e) = if l_suppress_expl l then core l else core (set_expl_avail l true).
Proof.
  unfold explain. destruct (l_suppress_expl l); [reflexivity|].
  destruct (negb (lo_explain o)); [reflexivity|].
  destruct (once_seen _ _); [reflexivity|].
  rewrite core_out_write_line.
  rewrite core_fold_out.
  - rewrite core_out_separate. reflexivity.
  - intros l0 x. rewrite core_out_write_line. destruct (nonempty_list x); reflexivity.
Qed.

Lemma explain_congr o1 o2 l1 l2 e :
  core l1 = core l2 -> core (explain o1 l1 e) = core (explain o2 l2 e).
Proof.
  intro H. rewrite !core_explain. destruct l1, l2. core_inv H. cbn. reflexivity.
Qed.

Lemma set_suppress_expl_congr l1 l2 v : core l1 = core l2 -> core (set_suppress_expl l1 v) = core (set_suppress_expl l2 v).
Proof. intro H. destruct l1, l2. core_inv H. reflexivity. Qed.
Lemma set_suppress_diag_congr l1 l2 v : core l1 = core l2 -> core (set_suppress_diag l1 v) = core (set_suppress_diag l2 v).
Proof. intro H. destruct l1, l2. core_inv H. reflexivity. Qed.
Lemma set_fix_avail_congr l1 l2 v : core l1 = core l2 -> core (set_fix_avail l1 v) = core (set_fix_avail l2 v).
Proof. intro H. destruct l1, l2. core_inv H. reflexivity. Qed.

(* ---------- Diag ---------- *)

Lemma diag_congr o1 o2 l1 l2 ln lv f m :
  agree o1 o2 -> core l1 = core l2 -> core (diag o1 l1 ln lv f m) = core (diag o2 l2 ln lv f m).
Proof.
  intros Ha H. unfold diag. rewrite (agree_is_autofix _ _ Ha).
  destruct (is_autofix o2); [apply set_suppress_expl_congr; assumption|].
  destruct (relevant_congr o1 o2 l1 l2 f Ha H) as [Hr Hc].
  destruct (relevant o1 l1 f) as [r1 la], (relevant o2 l2 f) as [r2 lb]. cbn in Hr, Hc. subst r2.
  destruct (negb r1); [assumption|].
  destruct (first_time_congr la lb (ln_file ln) (linenos ln) m Hc) as [Hf Hc2].
  destruct (first_time la _ _ _) as [f1 lc], (first_time lb _ _ _) as [f2 ld]. cbn in Hf, Hc2. subst f2.
  destruct (negb f1); [apply set_suppress_diag_congr; assumption|].
  apply logf_congr.
  assert (forall o l, core (if lo_show_source o
                           then write_source o (if match l_prev_line l with Some p => p =? ln_id ln | None => false end
                                                then l else out_separate l) ln no_fix
                           else l) = core l) as Hs.
  { intros o l. destruct (lo_show_source o); [|reflexivity]. rewrite core_write_source.
    destruct (match l_prev_line l with Some p => p =? ln_id ln | None => false end); [reflexivity|apply core_out_separate]. }
  rewrite !Hs. assumption.
Qed.

(* ---------- Autofix.Apply ---------- *)

Lemma fold_logf_congr o1 o2 (g : str * Z -> str) file actions l1 l2 :
  core l1 = core l2 ->
  core (fold_left (fun l (a : str * Z) => logf o1 l LAutofix file (g a) (fst a)) actions l1) =
  core (fold_left (fun l (a : str * Z) => logf o2 l LAutofix file (g a) (fst a)) actions l2).
Proof.
  revert l1 l2. induction actions as [|a actions IH]; intros l1 l2 H; simpl; [assumption|].
  apply IH. apply logf_congr. assumption.
Qed.

Lemma apply_fix_congr o1 o2 l1 l2 ln fv lv f m e actions :
  agree o1 o2 -> core l1 = core l2 ->
  core (apply_fix o1 l1 ln fv lv f m e actions) = core (apply_fix o2 l2 ln fv lv f m e actions).
Proof.
  intros Ha H. unfold apply_fix.
  destruct (relevant_congr o1 o2 l1 l2 f Ha H) as [Hr Hc].
  destruct (relevant o1 l1 f) as [r1 la], (relevant o2 l2 f) as [r2 lb]. cbn in Hr, Hc. subst r2.
  rewrite (agree_is_autofix _ _ Ha).
  destruct Ha as (Ha1 & Ha2 & Ha3). rewrite Ha1, Ha2.
  destruct (negb (r1 && (nonempty_list actions || negb (is_autofix o2)))); [assumption|].
  set (logDiagnostic := if str_eqb f silent_autofix_format then false
                        else if lo_autofix o2 && negb (lo_show_autofix o2) then false else true).
  (* first block: the diagnostic itself *)
  assert (core (if logDiagnostic
                then logf o1 (if is_autofix o2 then la
                              else let (ft, l) := first_time la (ln_file ln) (affected_linenos ln actions) m in
                                   if ft then write_source o1 l ln fv else l)
                       lv (ln_file ln) (affected_linenos ln actions) m
                else la) =
          core (if logDiagnostic
                then logf o2 (if is_autofix o2 then lb
                              else let (ft, l) := first_time lb (ln_file ln) (affected_linenos ln actions) m in
                                   if ft then write_source o2 l ln fv else l)
                       lv (ln_file ln) (affected_linenos ln actions) m
                else lb)) as H1.
  { destruct logDiagnostic; [|assumption]. apply logf_congr.
    destruct (is_autofix o2); [assumption|].
    destruct (first_time_congr la lb (ln_file ln) (affected_linenos ln actions) m Hc) as [Hf Hc2].
    destruct (first_time la _ _ _) as [f1 lc], (first_time lb _ _ _) as [f2 ld]. cbn in Hf, Hc2. subst f2.
    destruct f1; [rewrite !core_write_source|]; assumption. }
  revert H1.
  generalize (if logDiagnostic
              then logf o1 (if is_autofix o2 then la
                            else let (ft, l) := first_time la (ln_file ln) (affected_linenos ln actions) m in
                                 if ft then write_source o1 l ln fv else l)
                     lv (ln_file ln) (affected_linenos ln actions) m
              else la).
  generalize (if logDiagnostic
              then logf o2 (if is_autofix o2 then lb
                            else let (ft, l) := first_time lb (ln_file ln) (affected_linenos ln actions) m in
                                 if ft then write_source o2 l ln fv else l)
                     lv (ln_file ln) (affected_linenos ln actions) m
              else lb).
  intros lB lA H1.
  (* second block: the AUTOFIX lines *)
  assert (core (if is_autofix o2
                then write_source o1 (fold_left (fun l (a : str * Z) =>
                        logf o1 l LAutofix (ln_file ln) (if (snd a =? 0)%Z then [] else dec_of_Z (snd a)) (fst a)) actions lA) ln fv
                else lA) =
          core (if is_autofix o2
                then write_source o2 (fold_left (fun l (a : str * Z) =>
                        logf o2 l LAutofix (ln_file ln) (if (snd a =? 0)%Z then [] else dec_of_Z (snd a)) (fst a)) actions lB) ln fv
                else lB)) as H2.
  { destruct (is_autofix o2); [|assumption]. rewrite !core_write_source.
    apply (fold_logf_congr o1 o2 (fun a => if (snd a =? 0)%Z then [] else dec_of_Z (snd a))). assumption. }
  revert H2.
  generalize (if is_autofix o2
              then write_source o1 (fold_left (fun l (a : str * Z) =>
                      logf o1 l LAutofix (ln_file ln) (if (snd a =? 0)%Z then [] else dec_of_Z (snd a)) (fst a)) actions lA) ln fv
              else lA).
  generalize (if is_autofix o2
              then write_source o2 (fold_left (fun l (a : str * Z) =>
                      logf o2 l LAutofix (ln_file ln) (if (snd a =? 0)%Z then [] else dec_of_Z (snd a)) (fst a)) actions lB) ln fv
              else lB).
  intros lD lC H2.
  destruct (logDiagnostic && nonempty_list e); [apply explain_congr|]; assumption.
Qed.

(* ---------- the rest ---------- *)

Lemma core_hint l args a w : core (hint l args a w) = core l.
Proof. unfold hint. destruct (command_line args a); reflexivity. Qed.

Lemma core_show_summary o l args : core (show_summary o l args) = core l.
Proof.
  unfold show_summary. destruct (lo_quiet o || lo_autofix o); [reflexivity|].
  set (l1 := if lo_show_source o then out_separate l else l).
  assert (core l1 = core l) as H1 by (unfold l1; destruct (lo_show_source o); [apply core_out_separate|reflexivity]).
  set (l2 := out_write l1 _).
  assert (core l2 = core l) as H2 by (unfold l2; rewrite core_out_write; assumption).
  clearbody l2. clear l1 H1.
  set (l3 := if l_expl_avail l2 && negb (lo_explain o) then hint l2 args _ _ else l2).
  assert (core l3 = core l) as H3.
  { unfold l3. destruct (l_expl_avail l2 && negb (lo_explain o)); [rewrite core_hint|]; assumption. }
  clearbody l3.
  destruct (l_fix_avail l3); [|assumption].
  rewrite core_hint. destruct (negb (lo_show_autofix o)); [rewrite core_hint|]; assumption.
Qed.

Lemma step_congr o1 o2 l1 l2 ev :
  agree o1 o2 -> core l1 = core l2 -> core (log_step o1 l1 ev) = core (log_step o2 l2 ev).
Proof.
  intros Ha H. destruct ev; cbn [log_step].
  - apply diag_congr; assumption.
  - apply explain_congr; assumption.
  - apply apply_fix_congr; assumption.
  - unfold saved. destruct Ha as (_ & Ha2 & _). rewrite Ha2.
    destruct (negb (lo_autofix o2) && modified); [apply set_fix_avail_congr|]; assumption.
  - unfold tech_error. rewrite !core_set_err. assumption.
  - rewrite !core_show_summary. assumption.
Qed.

Lemma run_congr_from o1 o2 evs l1 l2 :
  agree o1 o2 -> core l1 = core l2 ->
  core (fold_left (log_step o1) evs l1) = core (fold_left (log_step o2) evs l2).
Proof.
  intros Ha. revert l1 l2. induction evs as [|ev evs IH]; intros l1 l2 H; simpl; [assumption|].
  apply IH. apply step_congr; assumption.
Qed.

(* for ALL event lists: option records that agree on ShowAutofix, Autofix and Only
   give the same diagnostic tuples, counters, availability flags and exit status,
   whatever -e -s -g -q are *)
Theorem presentation_irrelevant o1 o2 evs :
  agree o1 o2 ->
  let a := log_run o1 evs in let b := log_run o2 evs in
  l_emitted a = l_emitted b /\
  l_errors a = l_errors b /\ l_warnings a = l_warnings b /\ l_notes a = l_notes b /\
  l_expl_avail a = l_expl_avail b /\ l_fix_avail a = l_fix_avail b /\
  forall werror, exit_status werror a = exit_status werror b.
Proof.
  intros Ha a b.
  assert (core a = core b) as H by (apply run_congr_from; [assumption|reflexivity]).
  unfold core in H. inversion H as [[H1 H2 H3 H4 H5 H6 H7 H8 H9]].
  repeat split; try assumption. intro werror. unfold exit_status. rewrite H4, H5. reflexivity.
Qed.

(* ================================================================== *)
(* Part B: --only S prints a subset of what the unrestricted run prints *)

Definition with_only (o : opts) (only : list str) : opts :=
  mk_opts (lo_show_autofix o) (lo_autofix o) (lo_explain o) (lo_show_source o) (lo_gcc o) (lo_quiet o) only.

(* the tuple Logf records for (level, file, linenos, msg) *)
Definition tuple_of (lv : level) (file lnos msg : str) : diag_tuple :=
  let file' := if str_eqb file [46] then [] else file in
  (lv, file', if nonempty_list file' then lnos else [], msg).

(* what a Diag / Apply event wants to say: (format, level, file, linenos, msg) *)
Definition ev_diag (e : event) : option (str * level * str * str * str) :=
  match e with
  | EvDiag ln lv f m => Some (f, lv, ln_file ln, linenos ln, m)
  | EvFix ln fv lv f m ex actions =>
    if str_eqb f silent_autofix_format then None
    else Some (f, lv, ln_file ln, affected_linenos ln actions, m)
  | _ => None
  end.

Definition d_key (d : str * level * str * str * str) : str :=
  let '(f, lv, file, lnos, m) := d in once_key [file; lnos; m].
Definition d_tuple (d : str * level * str * str * str) : diag_tuple :=
  let '(f, lv, file, lnos, m) := d in tuple_of lv file lnos m.
Definition d_format (d : str * level * str * str * str) : str :=
  let '(f, lv, file, lnos, m) := d in f.

(* two events with the same duplicate-suppression key say the same thing
   ("equal message => equal level", and the NUL-joined key is unambiguous) *)
Definition key_determines_tuple (evs : list event) : Prop :=
  forall e1 e2 d1 d2, In e1 evs -> In e2 evs -> ev_diag e1 = Some d1 -> ev_diag e2 = Some d2 ->
    d_key d1 = d_key d2 -> d_tuple d1 = d_tuple d2.

Lemma logged_of_core l1 l2 : core l1 = core l2 -> l_logged l1 = l_logged l2 /\ l_emitted l1 = l_emitted l2.
Proof. unfold core. intro H. inversion H. split; congruence. Qed.

Lemma suppress_of_core l1 l2 : core l1 = core l2 -> l_suppress_diag l1 = l_suppress_diag l2.
Proof. unfold core. intro H. inversion H. congruence. Qed.

Definition le (l : logger) := (l_logged l, l_emitted l).

Lemma le_of_core l1 l2 : core l1 = core l2 -> le l1 = le l2.
Proof. intro H. unfold le. destruct (logged_of_core _ _ H) as [-> ->]. reflexivity. Qed.

Lemma le_explain o l e : le (explain o l e) = le l.
Proof.
  pose proof (core_explain o l e) as H. destruct (l_suppress_expl l).
  - apply le_of_core; assumption.
  - destruct (logged_of_core _ _ H) as [H1 H2]. unfold le. rewrite H1, H2. destruct l; reflexivity.
Qed.

Lemma le_logf o l lv f n m :
  le (logf o l lv f n m) =
  (l_logged l, if l_suppress_diag l then l_emitted l else l_emitted l ++ [tuple_of lv f n m]).
Proof.
  unfold logf, le, tuple_of. destruct l; cbn. destruct l_suppress_diag; [reflexivity|].
  destruct lv; reflexivity.
Qed.

Lemma emitted_logf o l lv f n m :
  l_emitted (logf o l lv f n m) = if l_suppress_diag l then l_emitted l else l_emitted l ++ [tuple_of lv f n m].
Proof. pose proof (le_logf o l lv f n m) as H. apply (f_equal snd) in H. exact H. Qed.

Lemma emitted_of_le l1 l2 : le l1 = le l2 -> l_emitted l1 = l_emitted l2.
Proof. intro H. apply (f_equal snd) in H. exact H. Qed.

Lemma suppress_logf o l lv f n m : l_suppress_diag (logf o l lv f n m) = false.
Proof.
  unfold logf. destruct l; cbn. destruct l_suppress_diag; [reflexivity|]. destruct lv; reflexivity.
Qed.

(* the effect of one event on (logged, emitted) without -f / -F *)
Definition default_effect (o : opts) (st : list str * list diag_tuple) (e : event) : list str * list diag_tuple :=
  match ev_diag e with
  | None => st
  | Some d =>
    if shall_be_logged o (d_format d) then
      if once_seen (fst st) (d_key d) then st
      else (d_key d :: fst st, snd st ++ [d_tuple d])
    else st
  end.

Lemma le_set_suppress_expl l v : le (set_suppress_expl l v) = le l. Proof. destruct l; reflexivity. Qed.
Lemma le_set_suppress_diag l v : le (set_suppress_diag l v) = le l. Proof. destruct l; reflexivity. Qed.
Lemma le_write_source o l ln fv : le (write_source o l ln fv) = le l.
Proof. apply le_of_core, core_write_source. Qed.
Lemma le_out_separate l : le (out_separate l) = le l.
Proof. apply le_of_core, core_out_separate. Qed.

Lemma relevant_le o l f : le (snd (relevant o l f)) = le l /\ fst (relevant o l f) = shall_be_logged o f /\
  l_suppress_diag (snd (relevant o l f)) = negb (shall_be_logged o f).
Proof. unfold relevant. destruct l; cbn. auto. Qed.

Lemma first_time_le l f n m :
  let k := once_key [f; n; m] in
  fst (first_time l f n m) = negb (once_seen (l_logged l) k) /\
  le (snd (first_time l f n m)) = (if once_seen (l_logged l) k then l_logged l else k :: l_logged l, l_emitted l) /\
  l_suppress_diag (snd (first_time l f n m)) = (if once_seen (l_logged l) k then true else l_suppress_diag l).
Proof.
  cbv zeta. unfold first_time. destruct (once_seen (l_logged l) (once_key [f; n; m])); destruct l; cbn; auto.
Qed.

Lemma step_default_effect o l e :
  is_autofix o = false -> le (log_step o l e) = default_effect o (le l) e.
Proof.
  intro Hm. unfold default_effect. destruct e; cbn [log_step ev_diag].
  - (* Diag *)
    unfold diag. rewrite Hm.
    destruct (relevant_le o l format) as (Hle & Hr & Hsd).
    destruct (relevant o l format) as [r la]. cbn [fst snd] in Hle, Hr, Hsd. subst r. cbn [d_format d_key d_tuple].
    destruct (shall_be_logged o format); cbn [negb]; [|assumption].
    destruct (first_time_le la (ln_file ln) (linenos ln) msg) as (Hf & Hle2 & Hsd2). cbv zeta in Hf, Hle2, Hsd2.
    destruct (first_time la (ln_file ln) (linenos ln) msg) as [ft lb]. cbn [fst snd] in Hf, Hle2, Hsd2. subst ft.
    assert (l_logged la = l_logged l /\ l_emitted la = l_emitted l) as [Hl1 Hl2] by (unfold le in Hle; inversion Hle; auto).
    rewrite Hl1 in *. cbn [fst snd le].
    destruct (once_seen (l_logged l) (once_key [ln_file ln; linenos ln; msg])); cbn [negb].
    + rewrite le_set_suppress_diag, Hle2, Hl2. reflexivity.
    + rewrite le_logf.
      set (lc := if lo_show_source o then _ else lb).
      assert (core lc = core lb) as Hc.
      { unfold lc. destruct (lo_show_source o); [|reflexivity]. rewrite core_write_source.
        destruct (match l_prev_line lb with Some p => p =? ln_id ln | None => false end); [reflexivity|apply core_out_separate]. }
      assert (l_suppress_diag lc = false) as ->.
      { rewrite (suppress_of_core _ _ Hc), Hsd2, Hsd. reflexivity. }
      destruct (logged_of_core _ _ Hc) as [-> ->].
      unfold le in Hle2. inversion Hle2 as [[H1 H2]]. rewrite H1, H2, Hl2. reflexivity.
  - (* Explain *) apply le_explain.
  - (* Apply *)
    unfold apply_fix. rewrite Hm.
    destruct (relevant_le o l format) as (Hle & Hr & Hsd).
    destruct (relevant o l format) as [r la]. cbn [fst snd] in Hle, Hr, Hsd. subst r.
    rewrite orb_true_r, andb_true_r.
    assert (lo_autofix o = false) as Hao by (unfold is_autofix in Hm; destruct (lo_autofix o); [discriminate|reflexivity]).
    rewrite Hao. cbn [andb].
    assert (l_logged la = l_logged l /\ l_emitted la = l_emitted l) as [Hl1 Hl2] by (unfold le in Hle; inversion Hle; auto).
    destruct (str_eqb format silent_autofix_format).
    + (* silent: nothing is logged *)
      destruct (shall_be_logged o format); cbn [negb andb]; assumption.
    + cbn [d_format d_key d_tuple].
      destruct (shall_be_logged o format); cbn [negb]; [|assumption].
      destruct (first_time_le la (ln_file ln) (affected_linenos ln actions) msg) as (Hf & Hle2 & Hsd2). cbv zeta in Hf, Hle2, Hsd2.
      destruct (first_time la (ln_file ln) (affected_linenos ln actions) msg) as [ft lb]. cbn [fst snd] in Hf, Hle2, Hsd2. subst ft.
      rewrite Hl1 in *. cbn [fst snd le andb].
      set (ld := logf o _ lv (ln_file ln) (affected_linenos ln actions) msg).
      assert (le (if nonempty_list explanation then explain o ld explanation else ld) = le ld) as ->
          by (destruct (nonempty_list explanation); [apply le_explain|reflexivity]).
      unfold ld. rewrite le_logf.
      destruct (once_seen (l_logged l) (once_key [ln_file ln; affected_linenos ln actions; msg])); cbn [negb].
      * rewrite Hsd2. unfold le in Hle2. inversion Hle2 as [[H1 H2]]. rewrite H1, H2, Hl2. reflexivity.
      * assert (core (write_source o lb ln fv) = core lb) as Hc by apply core_write_source.
        assert (l_suppress_diag (write_source o lb ln fv) = false) as ->.
        { rewrite (suppress_of_core _ _ Hc), Hsd2, Hsd. reflexivity. }
        destruct (logged_of_core _ _ Hc) as [-> ->].
        unfold le in Hle2. inversion Hle2 as [[H1 H2]]. rewrite H1, H2, Hl2. reflexivity.
  - (* Saved *) unfold saved. destruct (negb (lo_autofix o) && modified); [destruct l|]; reflexivity.
  - (* TechError *) reflexivity.
  - (* Summary *) apply le_of_core, core_show_summary.
Qed.

(* ---------- the list argument, without -f / -F ---------- *)

Lemma shall_be_logged_no_only o f : shall_be_logged (with_only o []) f = true.
Proof. reflexivity. Qed.

Lemma once_seen_In set k : once_seen set k = true <-> In k set.
Proof.
  unfold once_seen. rewrite existsb_exists. split.
  - intros (x & Hin & Heq). apply str_eqb_spec in Heq. subst. assumption.
  - intro Hin. exists k. split; [assumption|apply str_eqb_refl].
Qed.

Definition subset_inv (evs : list event) (sS s0 : list str * list diag_tuple) : Prop :=
  incl (snd sS) (snd s0) /\
  (forall k, In k (fst s0) -> forall e d, In e evs -> ev_diag e = Some d -> d_key d = k -> In (d_tuple d) (snd s0)).

Lemma default_effect_inv o S evs e sS s0 :
  key_determines_tuple evs -> In e evs -> subset_inv evs sS s0 ->
  subset_inv evs (default_effect (with_only o S) sS e) (default_effect (with_only o []) s0 e).
Proof.
  intros Hk Hin (Hincl & Hlog). unfold default_effect.
  destruct (ev_diag e) as [d|] eqn:Hd; [|split; assumption].
  rewrite shall_be_logged_no_only.
  (* the unrestricted run *)
  assert (subset_inv evs sS (if once_seen (fst s0) (d_key d) then s0 else (d_key d :: fst s0, snd s0 ++ [d_tuple d]))) as Hinv0.
  { destruct (once_seen (fst s0) (d_key d)) eqn:Es0; [split; assumption|]. split; cbn [fst snd].
    - intros x Hx. apply in_or_app. left. auto.
    - intros k [<-|Hk0] e' d' Hin' Hd' Hkey; apply in_or_app.
      + right. left. apply (Hk e e' d d' Hin Hin' Hd Hd'). congruence.
      + left. apply (Hlog k Hk0 e' d' Hin' Hd' Hkey). }
  destruct (shall_be_logged (with_only o S) (d_format d)); [|assumption].
  destruct (once_seen (fst sS) (d_key d)); [assumption|].
  (* the restricted run prints d: the unrestricted one prints it now or has printed it *)
  destruct Hinv0 as (Hincl0 & Hlog0). split; [|assumption]. cbn [snd].
  intros x Hx. apply in_app_or in Hx as [Hx|[<-|[]]]; [auto|].
  destruct (once_seen (fst s0) (d_key d)) eqn:Es0.
  - apply once_seen_In in Es0. apply (Hlog (d_key d) Es0 e d Hin Hd eq_refl).
  - cbn [snd]. apply in_or_app. right. left. reflexivity.
Qed.

Lemma run_default_subset o S evs all lS l0 :
  is_autofix o = false -> key_determines_tuple all -> incl evs all ->
  subset_inv all (le lS) (le l0) ->
  subset_inv all (le (fold_left (log_step (with_only o S)) evs lS)) (le (fold_left (log_step (with_only o [])) evs l0)).
Proof.
  intros Hm Hk. revert lS l0. induction evs as [|e evs IH]; intros lS l0 Hsub Hinv; simpl; [assumption|].
  apply IH; [intros x Hx; apply Hsub; right; assumption|].
  rewrite !step_default_effect by assumption.
  apply default_effect_inv; [assumption|apply Hsub; left; reflexivity|assumption].
Qed.

(* ---------- with -f or -F: Diag is silent, Apply prints whenever it is relevant and has actions ---------- *)

Definition fix_tuples (o : opts) (e : event) : list diag_tuple :=
  match e with
  | EvFix ln fv lv f m ex actions =>
    (if str_eqb f silent_autofix_format then []
     else if lo_autofix o && negb (lo_show_autofix o) then []
     else [tuple_of lv (ln_file ln) (affected_linenos ln actions) m]) ++
    map (fun a : str * Z => tuple_of LAutofix (ln_file ln) (if (snd a =? 0)%Z then [] else dec_of_Z (snd a)) (fst a)) actions
  | _ => []
  end.

Definition fix_passes (o : opts) (e : event) : bool :=
  match e with
  | EvFix ln fv lv f m ex actions => shall_be_logged o f && nonempty_list actions
  | _ => false
  end.

Lemma emitted_fold_logf o file (g : str * Z -> str) actions l :
  l_suppress_diag l = false ->
  l_emitted (fold_left (fun l (a : str * Z) => logf o l LAutofix file (g a) (fst a)) actions l) =
  l_emitted l ++ map (fun a => tuple_of LAutofix file (g a) (fst a)) actions /\
  l_suppress_diag (fold_left (fun l (a : str * Z) => logf o l LAutofix file (g a) (fst a)) actions l) = false.
Proof.
  revert l. induction actions as [|a actions IH]; intros l Hs; simpl.
  - rewrite app_nil_r. auto.
  - destruct (IH (logf o l LAutofix file (g a) (fst a)) (suppress_logf _ _ _ _ _ _)) as [-> ->].
    rewrite emitted_logf, Hs, <- app_assoc. auto.
Qed.

Lemma step_autofix_emitted o l e :
  is_autofix o = true ->
  l_emitted (log_step o l e) = l_emitted l ++ (if fix_passes o e then fix_tuples o e else []).
Proof.
  intro Hm. destruct e; cbn [log_step fix_passes fix_tuples]; rewrite ?app_nil_r.
  - unfold diag. rewrite Hm. destruct l; reflexivity.
  - apply emitted_of_le, le_explain.
  - unfold apply_fix. rewrite Hm.
    destruct (relevant_le o l format) as (Hle & Hr & Hsd).
    destruct (relevant o l format) as [r la]. cbn [fst snd] in Hle, Hr, Hsd. subst r.
    rewrite orb_false_r.
    assert (l_emitted la = l_emitted l) as Hl2 by (apply emitted_of_le; assumption).
    destruct (shall_be_logged o format && nonempty_list actions) eqn:Eg; cbn [negb]; [|rewrite app_nil_r; assumption].
    apply andb_true_iff in Eg as [Eg _]. rewrite Eg in Hsd. cbn in Hsd.
    set (logDiagnostic := if str_eqb format silent_autofix_format then false
                          else if lo_autofix o && negb (lo_show_autofix o) then false else true).
    set (lb := if logDiagnostic then logf o la lv (ln_file ln) (affected_linenos ln actions) msg else la).
    assert (l_suppress_diag lb = false /\
            l_emitted lb = l_emitted l ++ (if logDiagnostic then [tuple_of lv (ln_file ln) (affected_linenos ln actions) msg] else [])) as [Hsb Heb].
    { unfold lb. destruct logDiagnostic.
      - split; [apply suppress_logf|].
        rewrite emitted_logf, Hsd, Hl2. reflexivity.
      - rewrite app_nil_r. auto. }
    destruct (emitted_fold_logf o (ln_file ln) (fun a => if (snd a =? 0)%Z then [] else dec_of_Z (snd a)) actions lb Hsb) as [Hfold _].
    set (lc := write_source o (fold_left _ actions lb) ln fv).
    assert (l_emitted lc = l_emitted (fold_left (fun l (a : str * Z) =>
              logf o l LAutofix (ln_file ln) (if (snd a =? 0)%Z then [] else dec_of_Z (snd a)) (fst a)) actions lb)) as Hec.
    { apply emitted_of_le, le_write_source. }
    assert (l_emitted (if logDiagnostic && nonempty_list explanation then explain o lc explanation else lc) = l_emitted lc) as ->.
    { destruct (logDiagnostic && nonempty_list explanation); [|reflexivity]. apply emitted_of_le, le_explain. }
    rewrite Hec, Hfold, Heb, <- app_assoc. f_equal. f_equal.
    unfold logDiagnostic. destruct (str_eqb format silent_autofix_format); [reflexivity|].
    destruct (lo_autofix o && negb (lo_show_autofix o)); reflexivity.
  - unfold saved. destruct (negb (lo_autofix o) && modified); [destruct l|]; reflexivity.
  - reflexivity.
  - apply emitted_of_le, le_of_core, core_show_summary.
Qed.

Lemma run_autofix_subset o S evs lS l0 :
  is_autofix o = true -> incl (l_emitted lS) (l_emitted l0) ->
  incl (l_emitted (fold_left (log_step (with_only o S)) evs lS)) (l_emitted (fold_left (log_step (with_only o [])) evs l0)).
Proof.
  intros Hm. revert lS l0. induction evs as [|e evs IH]; intros lS l0 Hincl; simpl; [assumption|].
  apply IH. rewrite !step_autofix_emitted by assumption.
  assert (fix_tuples (with_only o S) e = fix_tuples (with_only o []) e) as Ht by (destruct e; reflexivity).
  intros x Hx. apply in_app_or in Hx as [Hx|Hx]; apply in_or_app; [left; auto|].
  right. destruct (fix_passes (with_only o S) e) eqn:E; [|destruct Hx].
  assert (fix_passes (with_only o []) e = true) as ->.
  { destruct e; try discriminate. cbn [fix_passes] in *. apply andb_true_iff in E as [_ E]. rewrite E. reflexivity. }
  rewrite <- Ht. assumption.
Qed.

(* every tuple printed with --only S is printed by the unrestricted run *)
Theorem only_is_subset o S evs :
  (is_autofix o = true \/ key_determines_tuple evs) ->
  incl (l_emitted (log_run (with_only o S) evs)) (l_emitted (log_run (with_only o []) evs)).
Proof.
  intros H. unfold log_run. destruct (is_autofix o) eqn:Hm.
  - apply run_autofix_subset; [assumption|intros x []].
  - destruct H as [H|Hk]; [discriminate|].
    apply (run_default_subset o S evs evs new_logger new_logger Hm Hk (incl_refl _)).
    split; [intros x []|intros k []].
Qed.
