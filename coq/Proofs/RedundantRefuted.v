(* Counterexamples to the soundness of the verdicts, evaluated on the model and
   on the reference evaluator by vm_compute.  Each was first found by the
   harness on the real code. *)
From PV Require Import Lib.Bytes Model.Redundant Spec.MakeEval Spec.VerdictSound Spec.SingleFile.

Definition vA : var := [86; 65]%N.   (* "VA" *)
Definition vB : var := [86; 66]%N.   (* "VB" *)
Definition vC : var := [86; 67]%N.   (* "VC" *)
Definition la : str := [97]%N.       (* "a" *)
Definition lb : str := [98]%N.       (* "b" *)
Definition l1 : str := [49]%N.       (* "1" *)
Definition l2 : str := [50]%N.       (* "2" *)

Definition asg (f n : N) (x : var) (o : op) (v : value) : line :=
  mkLine f n (Some (mkAssign x o v)).

(* DESIGN section 8 item 7:   VB= 1 / VA:= ${VB} / VA= ${VB} / VB= 2
   "Definition of VA is redundant because of line 2" on line 3;
   with line 3 VA is 2, without it VA is 1. *)
Definition prog_eval : program :=
  [ asg 0 1 vB OpAssign [Lit l1]; asg 0 2 vA OpEval [Ref vB];
    asg 0 3 vA OpAssign [Ref vB]; asg 0 4 vB OpAssign [Lit l2] ].
Definition verdict_eval : verdict := mkVerdict 2 1 KRedundant.

Lemma prog_eval_facts :
  wf_program prog_eval = true /\ check prog_eval = Ok [verdict_eval] /\
  final 6 (to_spec prog_eval) vA = Some l2 /\
  final 6 (to_spec (delete_nth 2 prog_eval)) vA = Some l1.
Proof. repeat split; vm_compute; reflexivity. Qed.

Lemma verdict_sound_refuted : ~ verdict_sound_on (fun _ _ => True).
Proof.
  intro H.
  destruct prog_eval_facts as (Hwf & Hck & H1 & H2).
  specialize (H prog_eval [verdict_eval] verdict_eval Hwf Hck (or_introl eq_refl) I 6%nat vA).
  simpl vd_flagged in H. rewrite H1, H2 in H. discriminate H.
Qed.

Lemma verdict_sound_full_refuted :
  ~ (forall (p : program) (vs : list verdict) (vd : verdict),
       wf_program p = true -> check p = Ok vs -> In vd vs -> deletable p (vd_flagged vd)).
Proof.
  intro H. apply verdict_sound_refuted. intros p vs vd Hwf Hck Hin _. exact (H p vs vd Hwf Hck Hin).
Qed.

(* VC= ${VA} / VA= a / VB:= ${VC} / VA= b :  "VA is overwritten in line 4" on
   line 2, but VB:= read VA through VC: with line 2 VB is a, without it b. *)
Definition prog_indirect : program :=
  [ asg 0 1 vC OpAssign [Ref vA]; asg 0 2 vA OpAssign [Lit la];
    asg 0 3 vB OpEval [Ref vC]; asg 0 4 vA OpAssign [Lit lb] ].
Lemma prog_indirect_facts :
  wf_program prog_indirect = true /\
  check prog_indirect = Ok [mkVerdict 1 3 KOverwritten] /\
  final 6 (to_spec prog_indirect) vB = Some la /\
  final 6 (to_spec (delete_nth 1 prog_indirect)) vB = Some lb.
Proof. repeat split; vm_compute; reflexivity. Qed.

(* VA= a / VA!= c / VA= a : line 3 "is redundant because of line 2" since the
   remembered text is still "a"; without line 3 VA is the output of c. *)
Definition prog_shell : program :=
  [ asg 0 1 vA OpAssign [Lit la]; asg 0 2 vA OpShell [Lit [99]%N];
    asg 0 3 vA OpAssign [Lit la] ].
Lemma prog_shell_facts :
  wf_program prog_shell = true /\
  check prog_shell = Ok [mkVerdict 0 1 KRedundant; mkVerdict 2 1 KRedundant] /\
  final 6 (to_spec prog_shell) vA = Some la /\
  final 6 (to_spec (delete_nth 2 prog_shell)) vA = Some [60; 99; 62]%N.
Proof. repeat split; vm_compute; reflexivity. Qed.

(* main: VA= b / VA= a / .include "inc"   inc: VA?= a
   line 2 "is redundant because of inc:1"; without it VA stays b. *)
Definition prog_incdefault : program :=
  [ asg 0 1 vA OpAssign [Lit lb]; asg 0 2 vA OpAssign [Lit la];
    mkLine 0 3 None; asg 1 1 vA OpDefault [Lit la] ].
Lemma prog_incdefault_facts :
  wf_program prog_incdefault = true /\
  check prog_incdefault = Ok [mkVerdict 0 1 KOverwritten; mkVerdict 1 3 KRedundant] /\
  final 6 (to_spec prog_incdefault) vA = Some la /\
  final 6 (to_spec (delete_nth 1 prog_incdefault)) vA = Some lb.
Proof. repeat split; vm_compute; reflexivity. Qed.

(* VA= a / VA!= ${VA} : line 1 "is redundant because of line 2", but the shell
   command reads it: with line 1 the command is "a", without it "". *)
Definition prog_shellself : program :=
  [ asg 0 1 vA OpAssign [Lit la]; asg 0 2 vA OpShell [Ref vA] ].
Lemma prog_shellself_facts :
  wf_program prog_shellself = true /\
  check prog_shellself = Ok [mkVerdict 0 1 KRedundant] /\
  final 6 (to_spec prog_shellself) vA = Some [60; 97; 62]%N /\
  final 6 (to_spec (delete_nth 0 prog_shellself)) vA = Some [60; 62]%N.
Proof. repeat split; vm_compute; reflexivity. Qed.

(* ----- each conjunct of the guard is needed ----- *)

Lemma refute (P : program -> verdict -> Prop) p vs vd x v1 v2 :
  wf_program p = true -> check p = Ok vs -> In vd vs -> P p vd ->
  final 6 (to_spec p) x = Some v1 ->
  final 6 (to_spec (delete_nth (vd_flagged vd) p)) x = Some v2 -> v1 <> v2 ->
  ~ verdict_sound_on P.
Proof.
  intros Hwf Hck Hin HP H1 H2 Hne H.
  specialize (H p vs vd Hwf Hck Hin HP 6%nat x). rewrite H1, H2 in H. congruence.
Qed.

(* without "no ':='/'!=' with a '$' strictly between the two lines" *)
Lemma guard_needs_between :
  ~ verdict_sound_on (fun p vd =>
      plain_on (line_var p (vd_flagged vd)) (firstn (S (Nat.max (vd_flagged vd) (vd_because vd))) p) = true /\
      backward_default_ok p vd = true /\ forward_same_ok p vd = true).
Proof.
  destruct prog_indirect_facts as (Hwf & Hck & H1 & H2).
  eapply (refute _ prog_indirect _ (mkVerdict 1 3 KOverwritten) vB);
    [exact Hwf|exact Hck|left; reflexivity| |exact H1|exact H2|discriminate].
  repeat split; vm_compute; reflexivity.
Qed.

(* without "the assignments to the variable are plain" *)
Lemma guard_needs_plain_on :
  ~ verdict_sound_on (fun p vd =>
      (if Nat.ltb (vd_flagged vd) (vd_because vd)
       then eager_plain (between p (Nat.min (vd_flagged vd) (vd_because vd)) (Nat.max (vd_flagged vd) (vd_because vd)))
       else true) = true /\
      backward_default_ok p vd = true /\ forward_same_ok p vd = true).
Proof.
  destruct prog_eval_facts as (Hwf & Hck & H1 & H2).
  eapply (refute _ prog_eval _ verdict_eval vA);
    [exact Hwf|exact Hck|left; reflexivity| |exact H1|exact H2|discriminate].
  repeat split; vm_compute; reflexivity.
Qed.

(* without forward_same_ok *)
Lemma guard_needs_forward_same_ok :
  ~ verdict_sound_on (fun p vd =>
      plain_on (line_var p (vd_flagged vd)) (firstn (S (Nat.max (vd_flagged vd) (vd_because vd))) p) = true /\
      (if Nat.ltb (vd_flagged vd) (vd_because vd)
       then eager_plain (between p (Nat.min (vd_flagged vd) (vd_because vd)) (Nat.max (vd_flagged vd) (vd_because vd)))
       else true) = true /\
      backward_default_ok p vd = true).
Proof.
  destruct prog_shell_facts as (Hwf & Hck & H1 & H2).
  eapply (refute _ prog_shell _ (mkVerdict 2 1 KRedundant) vA);
    [exact Hwf|exact Hck|right; left; reflexivity| |exact H1|exact H2|discriminate].
  repeat split; vm_compute; reflexivity.
Qed.

(* without backward_default_ok *)
Lemma guard_needs_backward_default_ok :
  ~ verdict_sound_on (fun p vd =>
      plain_on (line_var p (vd_flagged vd)) (firstn (S (Nat.max (vd_flagged vd) (vd_because vd))) p) = true /\
      (if Nat.ltb (vd_flagged vd) (vd_because vd)
       then eager_plain (between p (Nat.min (vd_flagged vd) (vd_because vd)) (Nat.max (vd_flagged vd) (vd_because vd)))
       else true) = true /\
      forward_same_ok p vd = true).
Proof.
  destruct prog_incdefault_facts as (Hwf & Hck & H1 & H2).
  eapply (refute _ prog_incdefault _ (mkVerdict 1 3 KRedundant) vA);
    [exact Hwf|exact Hck|right; left; reflexivity| |exact H1|exact H2|discriminate].
  repeat split; vm_compute; reflexivity.
Qed.

(* the guard is satisfiable, for each kind of verdict:
   VA= a / VA= a / VA?= b / VA= b : line 2 redundant, line 3 no effect, line 2 overwritten *)
Definition prog_good : program :=
  [ asg 0 1 vA OpAssign [Lit la]; asg 0 2 vA OpAssign [Lit la];
    asg 0 3 vA OpDefault [Lit lb]; asg 0 4 vA OpAssign [Lit lb] ].
Lemma prog_good_facts :
  wf_program prog_good = true /\
  check prog_good = Ok [mkVerdict 1 0 KRedundant; mkVerdict 2 1 KNoEffect; mkVerdict 2 3 KOverwritten] /\
  forallb (guard prog_good) [mkVerdict 1 0 KRedundant; mkVerdict 2 1 KNoEffect; mkVerdict 2 3 KOverwritten] = true.
Proof. repeat split; vm_compute; reflexivity. Qed.

(* a program with ':=' of a reference elsewhere is still inside the guard:
   VB:= ${VC} / VA= a / VA= a *)
Definition prog_good_eval : program :=
  [ asg 0 1 vB OpEval [Ref vC]; asg 0 2 vA OpAssign [Lit la]; asg 0 3 vA OpAssign [Lit la] ].
Lemma prog_good_eval_facts :
  wf_program prog_good_eval = true /\ check prog_good_eval = Ok [mkVerdict 2 1 KRedundant] /\
  guard prog_good_eval (mkVerdict 2 1 KRedundant) = true /\ eager_plain prog_good_eval = false.
Proof. repeat split; vm_compute; reflexivity. Qed.

Lemma prog_good_single :
  single_file prog_good = true /\ eager_plain prog_good = true /\ no_shell prog_good = true.
Proof. repeat split; vm_compute; reflexivity. Qed.
