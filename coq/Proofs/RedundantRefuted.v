(* Counterexamples to the soundness of the verdicts, evaluated on the model and
   on the reference evaluator by vm_compute.  Each was first found by the
   harness on the real code. *)
From PV Require Import Lib.Bytes Model.Redundant Spec.MakeEval Spec.VerdictSound.

Definition vA : var := [86; 65]%N.   (* "VA" *)
Definition vB : var := [86; 66]%N.   (* "VB" *)
Definition vC : var := [86; 67]%N.   (* "VC" *)
Definition la : str := [97]%N.       (* "a" *)
Definition lb : str := [98]%N.       (* "b" *)
Definition l1 : str := [49]%N.       (* "1" *)
Definition l2 : str := [50]%N.       (* "2" *)

Definition asg (f n : N) (x : var) (o : op) (v : value) : line :=
  mkLine f n (Some (mkAssign x o v)).

(* DESIGN section 8 item 7:   VB= 1 / VA:= ${VB} / VA= ${VB} / VB= 2
   "Definition of VA is redundant because of line 2" on line 3;
   with line 3 VA is 2, without it VA is 1. *)
Definition prog_eval : program :=
  [ asg 0 1 vB OpAssign [Lit l1]; asg 0 2 vA OpEval [Ref vB];
    asg 0 3 vA OpAssign [Ref vB]; asg 0 4 vB OpAssign [Lit l2] ].
Definition verdict_eval : verdict := mkVerdict 2 1 KRedundant.

Lemma prog_eval_facts :
  wf_program prog_eval = true /\ check prog_eval = Ok [verdict_eval] /\
  final 6 (to_spec prog_eval) vA = Some l2 /\
  final 6 (to_spec (delete_nth 2 prog_eval)) vA = Some l1.
Proof. repeat split; vm_compute; reflexivity. Qed.

Lemma verdict_sound_refuted : ~ verdict_sound_on (fun _ _ => True).
Proof.
  intro H.
  destruct prog_eval_facts as (Hwf & Hck & H1 & H2).
  specialize (H prog_eval [verdict_eval] verdict_eval Hwf Hck (or_introl eq_refl) I 6%nat vA).
  simpl vd_flagged in H. rewrite H1, H2 in H. discriminate H.
Qed.

(* VC= ${VA} / VA= a / VB:= ${VC} / VA= b :  "VA is overwritten in line 4" on
   line 2, but VB:= read VA through VC: with line 2 VB is a, without it b. *)
Definition prog_indirect : program :=
  [ asg 0 1 vC OpAssign [Ref vA]; asg 0 2 vA OpAssign [Lit la];
    asg 0 3 vB OpEval [Ref vC]; asg 0 4 vA OpAssign [Lit lb] ].
Lemma prog_indirect_facts :
  wf_program prog_indirect = true /\
  check prog_indirect = Ok [mkVerdict 1 3 KOverwritten] /\
  final 6 (to_spec prog_indirect) vB = Some la /\
  final 6 (to_spec (delete_nth 1 prog_indirect)) vB = Some lb.
Proof. repeat split; vm_compute; reflexivity. Qed.

(* VA= a / VA!= c / VA= a : line 3 "is redundant because of line 2" since the
   remembered text is still "a"; without line 3 VA is the output of c. *)
Definition prog_shell : program :=
  [ asg 0 1 vA OpAssign [Lit la]; asg 0 2 vA OpShell [Lit [99]%N];
    asg 0 3 vA OpAssign [Lit la] ].
Lemma prog_shell_facts :
  wf_program prog_shell = true /\
  check prog_shell = Ok [mkVerdict 0 1 KRedundant; mkVerdict 2 1 KRedundant] /\
  final 6 (to_spec prog_shell) vA = Some la /\
  final 6 (to_spec (delete_nth 2 prog_shell)) vA = Some [60; 99; 62]%N.
Proof. repeat split; vm_compute; reflexivity. Qed.

(* main: VA= b / VA= a / .include "inc"   inc: VA?= a
   line 2 "is redundant because of inc:1"; without it VA stays b. *)
Definition prog_incdefault : program :=
  [ asg 0 1 vA OpAssign [Lit lb]; asg 0 2 vA OpAssign [Lit la];
    mkLine 0 3 None; asg 1 1 vA OpDefault [Lit la] ].
Lemma prog_incdefault_facts :
  wf_program prog_incdefault = true /\
  check prog_incdefault = Ok [mkVerdict 0 1 KOverwritten; mkVerdict 1 3 KRedundant] /\
  final 6 (to_spec prog_incdefault) vA = Some la /\
  final 6 (to_spec (delete_nth 1 prog_incdefault)) vA = Some lb.
Proof. repeat split; vm_compute; reflexivity. Qed.
