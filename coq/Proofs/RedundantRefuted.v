(* The remaining counterexample to the soundness of the verdicts (model of the
   code with the fixes 01-04), and the former counterexamples, on which the
   repaired code no longer emits the wrong verdict.  All by vm_compute. *)
From PV Require Import Lib.Bytes Model.Redundant Spec.MakeEval Spec.VerdictSound.

Definition vA : var := [86; 65]%N.   (* "VA" *)
Definition vB : var := [86; 66]%N.   (* "VB" *)
Definition vC : var := [86; 67]%N.   (* "VC" *)
Definition la : str := [97]%N.       (* "a" *)
Definition lb : str := [98]%N.       (* "b" *)
Definition l1 : str := [49]%N.       (* "1" *)
Definition l2 : str := [50]%N.       (* "2" *)

Definition asg (f n : N) (x : var) (o : op) (v : value) : line :=
  mkLine f n (Some (mkAssign x o v)).

(* DESIGN section 8 item 7:   VB= 1 / VA:= ${VB} / VA= ${VB} / VB= 2
   "Definition of VA is redundant because of line 2" on line 3;
   with line 3 VA is 2, without it VA is 1. *)
Definition prog_eval : program :=
  [ asg 0 1 vB OpAssign [Lit l1]; asg 0 2 vA OpEval [Ref vB];
    asg 0 3 vA OpAssign [Ref vB]; asg 0 4 vB OpAssign [Lit l2] ].
Definition verdict_eval : verdict := mkVerdict 2 1 KRedundant.

Lemma prog_eval_facts :
  wf_program prog_eval = true /\ check prog_eval = Ok [verdict_eval] /\
  final 6 (to_spec prog_eval) vA = Some l2 /\
  final 6 (to_spec (delete_nth 2 prog_eval)) vA = Some l1.
Proof. repeat split; vm_compute; reflexivity. Qed.

Lemma verdict_sound_refuted : ~ verdict_sound_on (fun _ _ => True).
Proof.
  intro H.
  destruct prog_eval_facts as (Hwf & Hck & H1 & H2).
  specialize (H prog_eval [verdict_eval] verdict_eval Hwf Hck (or_introl eq_refl) I 6%nat vA).
  simpl vd_flagged in H. rewrite H1, H2 in H. discriminate H.
Qed.

Lemma verdict_sound_full_refuted :
  ~ (forall (p : program) (vs : list verdict) (vd : verdict),
       wf_program p = true -> check p = Ok vs -> In vd vs -> deletable p (vd_flagged vd)).
Proof.
  intro H. apply verdict_sound_refuted. intros p vs vd Hwf Hck Hin _. exact (H p vs vd Hwf Hck Hin).
Qed.

(* ----- repaired: the former counterexamples ----- *)

(* VC= ${VA} / VA= a / VB:= ${VC} / VA= b : ':=' now also reads VA, no verdict *)
Definition prog_indirect : program :=
  [ asg 0 1 vC OpAssign [Ref vA]; asg 0 2 vA OpAssign [Lit la];
    asg 0 3 vB OpEval [Ref vC]; asg 0 4 vA OpAssign [Lit lb] ].
Lemma prog_indirect_facts : check prog_indirect = Ok [].
Proof. vm_compute. reflexivity. Qed.

(* VA= a / VA!= c / VA= a : line 3 is no longer "redundant"; the '!=' line is
   now "overwritten in line 3", which is sound *)
Definition prog_shell : program :=
  [ asg 0 1 vA OpAssign [Lit la]; asg 0 2 vA OpShell [Lit [99]%N];
    asg 0 3 vA OpAssign [Lit la] ].
Lemma prog_shell_facts :
  check prog_shell = Ok [mkVerdict 0 1 KRedundant; mkVerdict 1 2 KOverwritten] /\
  deletable_b 6 prog_shell 0 = true /\ deletable_b 6 prog_shell 1 = true.
Proof. repeat split; vm_compute; reflexivity. Qed.

(* main: VA= b / VA= a / .include "inc"   inc: VA?= a : line 2 is no longer flagged *)
Definition prog_incdefault : program :=
  [ asg 0 1 vA OpAssign [Lit lb]; asg 0 2 vA OpAssign [Lit la];
    mkLine 0 3 None; asg 1 1 vA OpDefault [Lit la] ].
Lemma prog_incdefault_facts : check prog_incdefault = Ok [mkVerdict 0 1 KOverwritten].
Proof. vm_compute. reflexivity. Qed.

(* VA= a / VA!= ${VA} : no verdict *)
Definition prog_shellself : program :=
  [ asg 0 1 vA OpAssign [Lit la]; asg 0 2 vA OpShell [Ref vA] ].
Lemma prog_shellself_facts : check prog_shellself = Ok [].
Proof. vm_compute. reflexivity. Qed.

(* ----- the condition on the later line is needed ----- *)

Lemma refute (P : program -> verdict -> Prop) p vs vd x v1 v2 :
  wf_program p = true -> check p = Ok vs -> In vd vs -> P p vd ->
  final 6 (to_spec p) x = Some v1 ->
  final 6 (to_spec (delete_nth (vd_flagged vd) p)) x = Some v2 -> v1 <> v2 ->
  ~ verdict_sound_on P.
Proof.
  intros Hwf Hck Hin HP H1 H2 Hne H.
  specialize (H p vs vd Hwf Hck Hin HP 6%nat x). rewrite H1, H2 in H. congruence.
Qed.

(* with only the condition for flagged earlier lines the statement is false *)
Lemma guard_needs_eval_condition :
  ~ verdict_sound_on (fun p vd =>
      Nat.ltb (vd_flagged vd) (vd_because vd) = true ->
      eager_plain (between p (vd_flagged vd) (vd_because vd)) && line_plain p (vd_because vd) = true).
Proof.
  destruct prog_eval_facts as (Hwf & Hck & H1 & H2).
  eapply (refute _ prog_eval _ verdict_eval vA);
    [exact Hwf|exact Hck|left; reflexivity| |exact H1|exact H2|discriminate].
  vm_compute. discriminate.
Qed.

(* the guard is satisfiable, for each kind of verdict:
   VA= a / VA= a / VA?= b / VA= b : line 2 redundant, line 3 no effect, line 2 overwritten *)
Definition prog_good : program :=
  [ asg 0 1 vA OpAssign [Lit la]; asg 0 2 vA OpAssign [Lit la];
    asg 0 3 vA OpDefault [Lit lb]; asg 0 4 vA OpAssign [Lit lb] ].
Lemma prog_good_facts :
  wf_program prog_good = true /\
  check prog_good = Ok [mkVerdict 1 0 KRedundant; mkVerdict 2 1 KNoEffect; mkVerdict 2 3 KOverwritten] /\
  forallb (guard prog_good) [mkVerdict 1 0 KRedundant; mkVerdict 2 1 KNoEffect; mkVerdict 2 3 KOverwritten] = true.
Proof. repeat split; vm_compute; reflexivity. Qed.

(* a program with ':=' of a reference elsewhere is still inside the guard:
   VB:= ${VC} / VA= a / VA= a *)
Definition prog_good_eval : program :=
  [ asg 0 1 vB OpEval [Ref vC]; asg 0 2 vA OpAssign [Lit la]; asg 0 3 vA OpAssign [Lit la] ].
Lemma prog_good_eval_facts :
  wf_program prog_good_eval = true /\ check prog_good_eval = Ok [mkVerdict 2 1 KRedundant] /\
  guard prog_good_eval (mkVerdict 2 1 KRedundant) = true /\ eager_plain prog_good_eval = false.
Proof. repeat split; vm_compute; reflexivity. Qed.

Lemma prog_good_plain : eager_plain prog_good = true.
Proof. vm_compute. reflexivity. Qed.
