(* Proofs about Model/ShTok.v, part 4: splitIntoShellTokens.
   A. what an atom produced in the plain state can look like (blanks);
   B. the atoms of every token form a chain from the plain state (Spec.ShWords.atoms_chain);
   C. tokens, gaps and rest weave back to the input. *)
From PV Require Import Lib.Bytes Model.ShTok Spec.ShPartition Spec.ShWords
  Proofs.ShTok Proofs.ShTokLoop Proofs.ShTokSpec.
From Coq Require Import ZifyBool ZifyN ZifyNat.
Open Scope N_scope.

(* ---------- A. atoms produced in the plain state ---------- *)

Definition clean_byte (b : N) : bool := negb (is_hspace b) && negb (b =? 92).
Definition clean (c : str) : Prop := forallb clean_byte c = true.

Lemma blanks_escaped_clean_app c : clean c -> forall t, blanks_escaped (c ++ t) = blanks_escaped t.
Proof.
  induction c as [|b c IH]; intros H t; [reflexivity|].
  unfold clean in H. cbn [forallb] in H. apply andb_true_iff in H as [Hb Hc].
  unfold clean_byte in Hb. apply andb_true_iff in Hb as [H1 H2].
  cbn [app blanks_escaped]. destruct (b =? 92); [discriminate|].
  rewrite H1. cbn [andb]. apply IH. exact Hc.
Qed.

Lemma blanks_escaped_clean c : clean c -> blanks_escaped c = true.
Proof. intro H. rewrite <- (app_nil_r c). rewrite blanks_escaped_clean_app; auto. Qed.

(* an op whose match is a clean chunk *)
Definition adv_clean (o : op) : Prop :=
  forall s r, o s = Some r -> exists c, s = c ++ r /\ clean c.

Lemma adv_clean_byte b : clean_byte b = true -> adv_clean (op_byte b).
Proof.
  intros Hb [|c s] r H; cbn [op_byte] in H; [discriminate|].
  destruct (N.eqb_spec c b) as [->|]; [|discriminate]. injection H as ->.
  exists [b]. split; [reflexivity|]. unfold clean. cbn. rewrite Hb. reflexivity.
Qed.

Lemma adv_clean_string p : clean p -> adv_clean (op_string p).
Proof. intros Hp s r H. apply strip_prefix_some in H. exists p. auto. Qed.

Lemma adv_clean_span f : (forall b, f b = true -> clean_byte b = true) -> adv_clean (op_span f).
Proof.
  intros Hf s r H. destruct (op_span_some _ _ _ H) as (c & _ & E & A).
  exists c. split; [exact E|]. unfold clean. apply forallb_forall. intros b Hb.
  rewrite forallb_forall in A. auto.
Qed.

Lemma digit_clean b : is_digit b = true -> clean_byte b = true.
Proof. unfold is_digit, clean_byte, is_hspace. lia. Qed.

Lemma adv_clean_redirect : adv_clean re_redirect.
Proof.
  intros s r H. unfold re_redirect in H.
  destruct (first_prefix_some _ _ _ H) as (p & Hin & E).
  exists (fst (span is_digit s) ++ p). split.
  - rewrite <- app_assoc, <- E. symmetry. apply span_app.
  - unfold clean. rewrite forallb_app. apply andb_true_iff. split.
    + apply forallb_forall. intros b Hb. apply digit_clean.
      pose proof (span_all is_digit s) as A. rewrite forallb_forall in A. auto.
    + simpl in Hin. repeat (destruct Hin as [<-|Hin]; [reflexivity|]). contradiction.
Qed.

(* invariant of a switch of alternatives *)
Definition alt_inv (Q : atom -> Prop) (a : alt) : Prop :=
  forall s r c, fst (fst a) s = Some r -> s = c ++ r -> Q (mk_atom (snd (fst a)) c (snd a)).

Lemma first_alt_inv (Q : atom -> Prop) alts s :
  Forall alt_adv alts -> Forall (alt_inv Q) alts ->
  match first_alt alts s with Ok (Some (a, _)) => Q a | _ => True end.
Proof.
  intros Ha Hq. induction alts as [|[[o t] q] alts IH]; cbn [first_alt]; [exact I|].
  inversion Ha as [|? ? Ha1 Ha2]; subst. inversion Hq as [|? ? Hq1 Hq2]; subst.
  destruct (o s) as [r|] eqn:E; [|apply IH; assumption].
  destruct (Ha1 s r E) as (c & _ & Es & _). pose proof (Hq1 s r c E Es) as G.
  subst s. rewrite since_app. cbn [bind]. exact G.
Qed.

(* what ShAtom can return in the plain state *)
Definition plain_info (a : atom) : Prop :=
  (a_type a = ShtSpace /\ a_quot a = QPlain) \/
  (a_type a <> ShtSpace /\
   (a_type a = ShtExpr \/ a_type a = ShtShExpr \/ a_type a = ShtComment \/
    blanks_escaped (a_text a) = true)).

Lemma plain_info_clean t c q : t <> ShtSpace -> clean c -> plain_info (mk_atom t c q).
Proof. intros Ht Hc. right. split; [exact Ht|]. right. right. right. apply blanks_escaped_clean. exact Hc. Qed.

Lemma alt_inv_clean t o q : t <> ShtSpace -> adv_clean o -> alt_inv plain_info (o, t, q).
Proof.
  intros Ht Ho s r c E Es. cbn [fst snd] in *.
  destruct (Ho s r E) as (c' & Es' & Hc). rewrite Es in Es'. apply app_inv_tail in Es'. subst c'.
  apply plain_info_clean; assumption.
Qed.

Ltac inv_alts :=
  repeat (apply Forall_cons; [
    apply alt_inv_clean; [discriminate|
      first [ apply adv_clean_byte; reflexivity
            | apply adv_clean_string; reflexivity
            | apply adv_clean_redirect
            | (apply adv_clean_span; intros b Hb; apply N.eqb_eq in Hb; subst b; reflexivity) ]] |]);
  try apply Forall_nil.

Lemma sh_operator_info q s :
  match sh_operator q s with Ok (Some (a, _)) => plain_info a | _ => True end.
Proof. unfold sh_operator. apply first_alt_inv; [adv_alts|inv_alts]. Qed.

Lemma sh_expr_type q s :
  match sh_expr q s with Ok (Some (a, _)) => a_type a = ShtShExpr | _ => True end.
Proof.
  unfold sh_expr.
  destruct (op_string dollars s) as [s1|]; [|exact I].
  destruct (match s1 with [] => false | c :: _ => is_digit c end).
  - destruct (skip 1 s1) as [s2| |]; cbn [bind]; try exact I.
    destruct (since s s2) as [text| |]; cbn [bind]; try exact I.
    destruct (2 <=? length text)%nat; [reflexivity|exact I].
  - destruct (op_byte 123 s1) as [s2|].
    + destruct (re_shvarname s2) as [s3|]; [|exact I].
      destruct (op_byte 125 _) as [s5|]; [|exact I].
      destruct (since s s5); cbn [bind]; try exact I. reflexivity.
    + destruct (re_shvarname s1) as [s3|]; [|exact I].
      destruct (since s s3); cbn [bind]; try exact I. reflexivity.
Qed.

(* the bytes of a multi-byte rune after the first are >= 128 *)
Lemma utf8_width_tail c t :
  forallb (fun b => 128 <=? b) (firstn (utf8_width (c :: t) - 1) t) = true.
Proof.
  unfold utf8_width, is_cont.
  repeat match goal with
         | |- context [if ?b then _ else _] => destruct b eqn:?
         | |- context [match ?l with [] => _ | _ :: _ => _ end] => destruct l
         end; cbn [Nat.sub firstn forallb]; try reflexivity;
  repeat match goal with
         | H : (if ?b then _ else _) = _ |- _ => destruct b
         end; lia.
Qed.

Lemma high_clean_app c : forallb (fun b => 128 <=? b) c = true ->
  forall t, blanks_escaped (c ++ t) = blanks_escaped t.
Proof.
  intros H t. apply blanks_escaped_clean_app. unfold clean.
  apply forallb_forall. intros b Hb. rewrite forallb_forall in H. specialize (H b Hb).
  unfold clean_byte, is_hspace. lia.
Qed.

(* one iteration of the loop of shAtomInternal outside quotes: the chunk it consumes
   does not change whether the blanks of what follows are escaped *)
Lemma internal_step_plain s :
  match internal_step false false s with
  | Ok (Some r) => exists c, s = c ++ r /\ forall t, blanks_escaped (c ++ t) = blanks_escaped t
  | _ => True
  end.
Proof.
  unfold internal_step.
  destruct (re_text s) as [r|] eqn:E0.
  { destruct (op_span_some _ _ _ E0) as (c & _ & Es & A). exists c. split; [exact Es|].
    apply blanks_escaped_clean_app. unfold clean. apply forallb_forall. intros b Hb.
    rewrite forallb_forall in A. specialize (A b Hb).
    unfold is_text_byte in A. unfold clean_byte, is_hspace. lia. }
  lazy beta iota.
  destruct (op_string bs_dollars s) as [r|] eqn:E5.
  { apply strip_prefix_some in E5. exists bs_dollars. split; [exact E5|]. intro t. reflexivity. }
  destruct (re_bs_any s) as [r|] eqn:E6.
  { unfold re_bs_any in E6. destruct s as [|c0 [|d t0]]; try discriminate.
    destruct (N.eqb_spec c0 92) as [->|]; [|discriminate].
    destruct (d =? 36); [discriminate|].
    pose proof (utf8_width_pos d t0) as Wp. pose proof (utf8_width_tail d t0) as Wt.
    remember (utf8_width (d :: t0)) as w0 eqn:W0 in *. clear W0.
    injection E6 as <-.
    destruct w0 as [|w]; [lia|]. cbn [Nat.sub] in Wt. rewrite Nat.sub_0_r in Wt.
    exists (92 :: d :: firstn w t0). split.
    - change (skipn (S w) (d :: t0)) with (skipn w t0). cbn [app]. do 2 f_equal. symmetry. apply firstn_skipn.
    - intro t. cbn [app blanks_escaped]. cbn. apply high_clean_app. exact Wt. }
  destruct (re_dollars_other s) eqn:E7.
  { unfold re_dollars_other in E7. destruct s as [|a [|b [|c t]]]; try discriminate.
    apply andb_true_iff in E7 as [E7 _]. apply andb_true_iff in E7 as [Ea Eb].
    apply N.eqb_eq in Ea, Eb. subst a b. cbn.
    exists [36; 36]. split; [reflexivity|]. intro t0. reflexivity. }
  destruct (str_eqb s dollars) eqn:E8.
  { apply str_eqb_eq in E8. subst s. cbn. exists dollars. split; [reflexivity|]. intro; reflexivity. }
  destruct (str_eqb s [36]) eqn:E9.
  { apply str_eqb_eq in E9. subst s. cbn. exists [36]. split; [reflexivity|]. intro; reflexivity. }
  exact I.
Qed.

Lemma internal_loop_plain fuel : forall s r,
  internal_loop fuel false false s = Ok r ->
  exists c, s = c ++ r /\ forall t, blanks_escaped (c ++ t) = blanks_escaped t.
Proof.
  induction fuel as [|f IH]; intros s r H; [discriminate|]. cbn [internal_loop] in H.
  pose proof (internal_step_plain s) as S1.
  destruct (internal_step false false s) as [[r1|]| |]; cbn [bind] in H; try discriminate.
  - destruct S1 as (c1 & E1 & B1). destruct (IH r1 r H) as (c2 & E2 & B2).
    exists (c1 ++ c2). split; [rewrite <- app_assoc, <- E2; exact E1|].
    intro t. rewrite <- app_assoc, B1, B2. reflexivity.
  - injection H as <-. exists []. split; reflexivity.
Qed.

Lemma sh_atom_internal_plain_info iw s :
  match sh_atom_internal QPlain false false (iw, s) with
  | Ok (Some a, _) => plain_info a
  | _ => True
  end.
Proof.
  unfold sh_atom_internal.
  pose proof (sh_expr_type QPlain s) as T.
  destruct (sh_expr QPlain s) as [[[a r]|]| |]; cbn [bind]; try exact I.
  { right. rewrite T. split; [discriminate|auto]. }
  destruct (internal_loop (S (length s)) false false s) as [r| |] eqn:E; cbn [bind]; try exact I.
  destruct (internal_loop_plain _ _ _ E) as (c & Es & B).
  subst s. rewrite since_app. cbn [bind].
  destruct c as [|x c]; [exact I|].
  right. cbn [a_type a_text]. split; [discriminate|]. right. right. right.
  rewrite <- (app_nil_r (x :: c)). rewrite B. reflexivity.
Qed.

Lemma sh_atom_plain_info iw s :
  match sh_atom_plain (iw, s) with Ok (Some a, _) => plain_info a | _ => True end.
Proof.
  unfold sh_atom_plain.
  pose proof (sh_operator_info QPlain s) as H.
  destruct (sh_operator QPlain s) as [[[a r]|]| |]; cbn [bind]; try exact I; [exact H|].
  match goal with |- context [first_alt ?l s] =>
    assert (H1 : match first_alt l s with Ok (Some (a, _)) => plain_info a | _ => True end);
    [|destruct (first_alt l s) as [[[a r]|]| |]; cbn [bind]; try exact I; [exact H1|]]
  end.
  { apply first_alt_inv; [adv_alts|].
    apply Forall_cons; [|inv_alts].
    intros s0 r0 c0 _ _. left. split; reflexivity. }
  destruct ((match s with [] => false | c :: _ => c =? 35 end) && negb iw).
  - destruct (skip (length s) s); cbn [bind]; try exact I.
    right. split; [discriminate|]. cbn. auto.
  - unfold alts_then_internal.
    match goal with |- context [first_alt ?l s] =>
      assert (H2 : match first_alt l s with Ok (Some (a, _)) => plain_info a | _ => True end)
        by (apply first_alt_inv; [adv_alts|inv_alts]);
      destruct (first_alt l s) as [[[a r]|]| |]; cbn [bind]; try exact I; [exact H2|]
    end.
    apply sh_atom_internal_plain_info.
Qed.

Section WithExpr.

Variable expr : str -> option (str * str).
Hypothesis Hexpr : expr_contract expr.

Lemma sh_atom_plain_state_info iw (s : str) a st' :
  sh_atom expr QPlain (iw, s) = Ok (Some a, st') -> plain_info a.
Proof.
  unfold sh_atom. destruct s as [|c s]; [discriminate|].
  destruct (expr (c :: s)) as [[t r]|].
  - intro H. injection H as <- _. right. split; [discriminate|]. cbn. auto.
  - cbn [sh_atom_dispatch].
    match goal with |- context [bind ?X _] =>
      assert (H : match X with Ok (Some a, _) => plain_info a | _ => True end)
        by apply sh_atom_plain_info;
      destruct X as [[[a'|] [iw' r]]| |]
    end; cbn [bind]; intro E; try discriminate.
    injection E as <- _. exact H.
Qed.

(* ---------- B. the atoms of a token form a chain from the plain state ---------- *)

Definition last_quot (q : quoting) (l : list atom) : quoting :=
  match rev l with [] => q | a :: _ => a_quot a end.

Lemma last_quot_snoc q l a : last_quot q (l ++ [a]) = a_quot a.
Proof. unfold last_quot. rewrite rev_app_distr. reflexivity. Qed.

Lemma atoms_chain_snoc q l a :
  atoms_chain q l -> atom_blank_ok (last_quot q l) a -> atoms_chain q (l ++ [a]).
Proof.
  revert q. induction l as [|b l IH]; intros q Hc Ha; cbn [app atoms_chain] in *.
  - split; [exact Ha|exact I].
  - destruct Hc as [Hb Hc]. split; [exact Hb|]. apply IH; [exact Hc|].
    destruct l as [|b' l']; [exact Ha|].
    unfold last_quot in *. cbn [rev] in *.
    destruct (rev l' ++ [b']) eqn:E; [destruct (rev l'); discriminate|].
    cbn [app] in *. exact Ha.
Qed.

(* what peek returns when it has to call ShAtom in state q *)
Lemma peek_info k k1 : t_curr k = None -> peek expr k = Ok k1 ->
  match t_curr k1 with
  | None => t_q k1 = t_q k
  | Some a => t_q k1 = a_quot a /\ t_prevq k1 = t_q k /\ (t_q k = QPlain -> plain_info a)
  end.
Proof.
  intros Hc. unfold peek. rewrite Hc. destruct (t_st k) as [iw s].
  destruct (sh_atom expr (t_q k) (iw, s)) as [[[a|] st']| |] eqn:E; cbn [bind]; intro H; try discriminate;
    injection H as <-; cbn; [|reflexivity].
  repeat split. intro Hq. rewrite Hq in E. exact (sh_atom_plain_state_info _ _ _ _ E).
Qed.

Lemma skip_spaces_info fuel : forall k init k1 init1,
  t_curr k = None -> t_q k = QPlain ->
  skip_spaces expr fuel k init = Ok (k1, init1) ->
  match t_curr k1 with
  | None => True
  | Some a => t_q k1 = a_quot a /\ t_prevq k1 = QPlain /\ plain_info a /\ a_type a <> ShtSpace
  end.
Proof.
  induction fuel as [|f IH]; intros k init k1 init1 Hc Hq H; [discriminate|].
  cbn [skip_spaces] in H.
  destruct (peek expr k) as [k'| |] eqn:Ep; cbn [bind] in H; try discriminate.
  pose proof (peek_info k k' Hc Ep) as Hi.
  destruct (t_curr k') as [a|] eqn:Ec.
  - destruct Hi as (H1 & H2 & H3). specialize (H3 Hq).
    destruct (is_space_type (a_type a)) eqn:Sp.
    + refine (IH (set_curr k' None) _ k1 init1 eq_refl _ H).
      cbn. rewrite H1. destruct H3 as [[_ Hp]|[Hn _]]; [exact Hp|].
      apply is_space_type_true in Sp. contradiction.
    + injection H as <- _. rewrite Ec. rewrite H2, Hq. repeat split; auto.
      intro Z. rewrite Z in Sp. discriminate.
  - injection H as <- _. rewrite Ec. exact I.
Qed.

Lemma plain_info_blank_ok q a : (q = QPlain -> plain_info a) -> a_type a <> ShtSpace \/ q <> QPlain ->
  atom_blank_ok q a.
Proof.
  intros Hp Hs Hq. specialize (Hp Hq). destruct Hp as [[Hsp _]|[Hn Hr]].
  - destruct Hs; contradiction.
  - auto.
Qed.

Lemma collect_info fuel : forall k acc k2 res,
  t_curr k = None -> t_q k = last_quot QPlain acc -> atoms_chain QPlain acc ->
  collect_atoms expr fuel k acc = Ok (k2, res) ->
  atoms_chain QPlain res.
Proof.
  induction fuel as [|f IH]; intros k acc k2 res Hc Hq Hch H; [discriminate|].
  cbn [collect_atoms] in H.
  destruct (peek expr k) as [k'| |] eqn:Ep; cbn [bind] in H; try discriminate.
  pose proof (peek_info k k' Hc Ep) as Hi.
  destruct (t_curr k') as [a|] eqn:Ec.
  - destruct Hi as (H1 & H2 & H3).
    match type of H with (if ?b then _ else _) = _ => destruct b eqn:Stop end.
    + injection H as _ <-. exact Hch.
    + apply (IH (set_curr k' None) (acc ++ [a]) k2 res); [reflexivity| | |exact H].
      * cbn. rewrite last_quot_snoc. exact H1.
      * apply atoms_chain_snoc; [exact Hch|]. rewrite <- Hq.
        apply plain_info_blank_ok; [exact H3|].
        destruct (a_type a) eqn:Ty; try (left; discriminate).
        right. intro Hp. specialize (H3 Hp). destruct H3 as [[_ Hqa]|[Hn _]]; [|rewrite Ty in Hn; contradiction].
        rewrite H1, H2, Hqa, Hp in Stop. discriminate.
  - injection H as _ <-. exact Hch.
Qed.

Lemma sh_token_fuel_info fuel : forall st t st',
  sh_token_fuel expr fuel st = Ok (Some t, st') -> atoms_chain QPlain (tok_atoms t).
Proof.
  induction fuel as [|f IH]; intros st t st' H; [discriminate|].
  cbn [sh_token_fuel] in H.
  destruct (skip_spaces expr f (mk_tkst None QPlain QPlain st) (snd st)) as [[k init1]| |] eqn:Es;
    cbn [bind] in H; try discriminate.
  pose proof (skip_spaces_info f (mk_tkst None QPlain QPlain st) (snd st) k init1 eq_refl eq_refl Es) as Hi.
  destruct (t_curr k) as [a|] eqn:Ec; [|discriminate].
  destruct Hi as (H1 & H2 & H3 & H4).
  assert (Ha : atom_blank_ok QPlain a) by (apply plain_info_blank_ok; auto).
  destruct (str_eqb (a_text a) ulimit_cmd); [exact (IH _ _ _ H)|].
  destruct (negb (is_word (a_type a)) && negb (quoting_eqb (t_q k) QSubsh)).
  - unfold new_sh_token in H. destruct (a_text a); cbn [bind] in H; try discriminate.
    injection H as <- _. cbn. auto.
  - destruct (collect_atoms expr f k []) as [[k2 atoms]| |] eqn:Ecol; cbn [bind] in H; try discriminate.
    destruct (negb (quoting_eqb (t_q k2) QPlain)); [discriminate|].
    destruct (since init1 (snd (t_st k2))) as [text| |]; cbn [bind] in H; try discriminate.
    unfold new_sh_token in H. destruct text, atoms; cbn [bind] in H; try discriminate.
    injection H as <- _. cbn [tok_atoms].
    (* the first round of the loop takes the atom that is already there *)
    destruct f as [|f']; [discriminate|]. cbn [collect_atoms] in Ecol.
    rewrite (peek_some expr k a Ec) in Ecol. cbn [bind] in Ecol. rewrite Ec in Ecol.
    match type of Ecol with (if ?b then _ else _) = _ => destruct b end.
    + injection Ecol as _ E. discriminate.
    + refine (collect_info f' (set_curr k None) ([] ++ [a]) k2 _ eq_refl _ _ Ecol).
      * cbn. exact H1.
      * cbn. auto.
Qed.

Lemma sh_tokens_loop_info fuel : forall st l st',
  sh_tokens_loop expr fuel st = Ok (l, st') ->
  Forall (fun p => atoms_chain QPlain (tok_atoms (fst p))) l.
Proof.
  induction fuel as [|f IH]; intros st l st' H; [discriminate|].
  cbn [sh_tokens_loop] in H.
  destruct (sh_token expr st) as [[[t|] st1]| |] eqn:Et; cbn [bind] in H; try discriminate.
  - destruct (sh_tokens_loop expr f st1) as [[l1 st2]| |] eqn:El; cbn [bind] in H; try discriminate.
    injection H as <- _. constructor; [|exact (IH _ _ _ El)].
    cbn [fst]. unfold sh_token in Et. exact (sh_token_fuel_info _ _ _ _ Et).
  - injection H as <- _. constructor.
Qed.

(* ---------- C. splitIntoShellTokens ---------- *)

Lemma chain_weave : forall (l : list (str * list str * str)) (before final : str),
  chain_ok before l final ->
  exists gaps, length gaps = S (length l) /\ Forall gap_ok gaps /\
    before = weave gaps (map (fun x => fst (fst x)) l) final.
Proof.
  induction l as [|[[text atoms] after] l IH]; intros before final H; cbn [chain_ok] in H.
  - destruct H as (pieces & Hp & ->). exists [concat pieces]. split; [reflexivity|]. split.
    + constructor; [|constructor]. exists pieces. auto.
    + reflexivity.
  - destruct H as ((pieces & Hp & ->) & _ & _ & _ & _ & Hc).
    destruct (IH after final Hc) as (gaps & Hl & Hg & ->).
    exists (concat pieces :: gaps). split; [cbn; lia|]. split.
    + constructor; [exists pieces; auto|exact Hg].
    + destruct gaps; [discriminate|]. reflexivity.
Qed.

(* everything the step from the command text to the token strings guarantees *)
Definition split_result (text : str) (toks : list str) (rest : str) : Prop :=
  exists l in_word,
    sh_tokens expr text = Ok (l, (in_word, rest)) /\
    toks = map (fun p => tok_text (fst p)) l /\
    Forall (fun t => t <> []) toks /\
    Forall (fun p => tok_text (fst p) = concat (map a_text (tok_atoms (fst p))) /\
                     tok_atoms (fst p) <> [] /\
                     atoms_chain QPlain (tok_atoms (fst p))) l /\
    exists gaps, length gaps = S (length toks) /\ Forall gap_ok gaps /\
                 text = weave gaps toks rest.

Theorem split_tokens_ok (text : str) :
  exists toks rest, split_tokens expr text = Ok (toks, rest) /\ split_result text toks rest.
Proof.
  unfold split_tokens.
  destruct (sh_tokens_chain_ok expr Hexpr text) as (l & iw & r & E & Hc).
  rewrite E. cbn [bind].
  exists (map (fun p => tok_text (fst p)) l), r. split; [reflexivity|].
  exists l, iw. split; [exact E|]. split; [reflexivity|].
  pose proof (sh_tokens_loop_info _ _ _ _ E) as Hi.
  assert (Hg : Forall (fun p => tok_text (fst p) <> [] /\
                        tok_text (fst p) = concat (map a_text (tok_atoms (fst p))) /\
                        tok_atoms (fst p) <> []) l).
  { clear E Hi. revert Hc. generalize text. induction l as [|[t after] l IH]; intros b Hc; [constructor|].
    cbn [map chain_ok token_view fst snd] in Hc. destruct Hc as (_ & Hn & Ht & Ha & _ & Hc).
    constructor; [cbn [fst]; repeat split; auto|exact (IH _ Hc)].
    intro Z. apply Ha. rewrite Z. reflexivity. }
  split; [|split].
  - rewrite Forall_forall in *. intros t Ht. apply in_map_iff in Ht as (p & <- & Hp).
    apply (Hg p Hp).
  - rewrite Forall_forall in *. intros p Hp. destruct (Hg p Hp) as (_ & A & B).
    repeat split; auto.
  - destruct (chain_weave _ _ _ Hc) as (gaps & Hl & Hgo & Hw).
    exists gaps. rewrite !map_length in *. split; [exact Hl|]. split; [exact Hgo|].
    rewrite Hw. f_equal. rewrite map_map. reflexivity.
Qed.

End WithExpr.
