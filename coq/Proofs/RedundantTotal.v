(* The model never runs out of fuel: the rounds allotted to the closure of
   Var.Refs (one per known variable name) always suffice.  Pigeonhole: the set
   is duplicate-free, stays inside the known names, and every round that is not
   yet closed adds a name. *)
From PV Require Import Lib.Bytes Model.Redundant.

Definition mem (w : var) (l : list var) : bool := existsb (str_eqb w) l.

Lemma mem_In w l : mem w l = true <-> In w l.
Proof.
  unfold mem. rewrite existsb_exists. split.
  - intros (y & Hy & E). apply str_eqb_spec in E. subst y. exact Hy.
  - intro H. exists w. split; [exact H|apply str_eqb_refl].
Qed.

Lemma set_add_spec l w : forall y, In y (set_add l w) <-> In y l \/ y = w.
Proof.
  intro y. unfold set_add. fold (mem w l). destruct (mem w l) eqn:E.
  - apply mem_In in E. split; [auto|]. intros [H|H]; [exact H|subst; exact E].
  - rewrite in_app_iff. simpl. intuition.
Qed.

Lemma NoDup_snoc {A} (l : list A) w : NoDup l -> ~ In w l -> NoDup (l ++ [w]).
Proof.
  induction l as [|x l IH]; intros H Hn; simpl; [constructor; [intros []|constructor]|].
  inversion H; subst. constructor.
  - rewrite in_app_iff. simpl. intros [Hc|[Hc|[]]]; [contradiction|]. subst. apply Hn. left; reflexivity.
  - apply IH; [assumption|]. intro Hc. apply Hn. right; exact Hc.
Qed.

Lemma forallb_false_ex {A} (f : A -> bool) l :
  forallb f l = false -> exists y, In y l /\ f y = false.
Proof.
  induction l as [|x l IH]; simpl; [discriminate|]. destruct (f x) eqn:E; simpl.
  - intro H. destruct (IH H) as (y & Hy & Hf). exists y. auto.
  - intros _. exists x. auto.
Qed.

Lemma set_add_NoDup l w : NoDup l -> NoDup (set_add l w).
Proof.
  intro H. unfold set_add. fold (mem w l). destruct (mem w l) eqn:E; [exact H|].
  apply NoDup_snoc; [exact H|]. intro Hin. apply mem_In in Hin. congruence.
Qed.

Lemma set_add_all_spec ws : forall l y, In y (set_add_all l ws) <-> In y l \/ In y ws.
Proof.
  induction ws as [|w ws IH]; intros l y; simpl; [intuition|].
  unfold set_add_all in *. simpl. rewrite IH, set_add_spec. intuition.
Qed.

Lemma set_add_all_NoDup ws : forall l, NoDup l -> NoDup (set_add_all l ws).
Proof.
  induction ws as [|w ws IH]; intros l H; simpl; [exact H|].
  unfold set_add_all in *. simpl. apply IH. apply set_add_NoDup. exact H.
Qed.

Lemma set_add_length l w : (length l <= length (set_add l w))%nat.
Proof. unfold set_add. destruct (existsb (str_eqb w) l); [lia|]. rewrite app_length. simpl. lia. Qed.

Lemma set_add_all_length ws : forall l, (length l <= length (set_add_all l ws))%nat.
Proof.
  induction ws as [|w ws IH]; intro l; simpl; [lia|].
  unfold set_add_all in *. simpl. specialize (IH (set_add l w)). pose proof (set_add_length l w). lia.
Qed.

(* adding names that are all present changes nothing *)
Lemma set_add_all_same ws : forall l, (forall y, In y ws -> In y l) -> set_add_all l ws = l.
Proof.
  induction ws as [|w ws IH]; intros l H; simpl; [reflexivity|].
  unfold set_add_all in *. simpl.
  assert (E : set_add l w = l).
  { unfold set_add. fold (mem w l). assert (Hm : mem w l = true) by (apply mem_In; apply H; left; reflexivity).
    rewrite Hm. reflexivity. }
  rewrite E. apply IH. intros y Hy. apply H. right. exact Hy.
Qed.

(* adding a new name makes the list longer *)
Lemma set_add_all_grows ws : forall l y, In y ws -> ~ In y l ->
  (length l < length (set_add_all l ws))%nat.
Proof.
  induction ws as [|w ws IH]; intros l y Hin Hn; [destruct Hin|].
  unfold set_add_all in *. simpl. destruct Hin as [E|Hin].
  - subst w. assert (El : length (set_add l y) = S (length l)).
    { unfold set_add. fold (mem y l). destruct (mem y l) eqn:Em.
      - apply mem_In in Em. contradiction.
      - rewrite app_length. simpl. lia. }
    pose proof (set_add_all_length ws (set_add l y)). unfold set_add_all in H. lia.
  - destruct (mem y (set_add l w)) eqn:Em.
    + apply mem_In in Em. apply set_add_spec in Em. destruct Em as [Em|Em]; [contradiction|].
      subst w. assert (El : length (set_add l y) = S (length l)).
      { unfold set_add. fold (mem y l). destruct (mem y l) eqn:Em'.
        - apply mem_In in Em'. contradiction.
        - rewrite app_length. simpl. lia. }
      pose proof (set_add_all_length ws (set_add l y)). unfold set_add_all in H. lia.
    + assert (Hn' : ~ In y (set_add l w)) by (intro Hc; apply mem_In in Hc; congruence).
      specialize (IH (set_add l w) y Hin Hn'). pose proof (set_add_length l w). lia.
Qed.

Definition closed (s : scope) (c : list var) : Prop :=
  forall y, In y (flat_map (refs_of s) c) -> In y c.

Lemma closed_check s c :
  closed s c -> forallb (fun w => existsb (str_eqb w) c) (flat_map (refs_of s) c) = true.
Proof.
  intro H. apply forallb_forall. intros y Hy. apply (mem_In y c). apply H. exact Hy.
Qed.

Lemma closure_rounds_closed s : forall n ws, closed s ws -> closure_rounds n s ws = ws.
Proof.
  induction n as [|n IH]; intros ws H; simpl; [reflexivity|].
  assert (E : closure_step s ws = ws) by (unfold closure_step; apply set_add_all_same; exact H).
  rewrite E. apply IH. exact H.
Qed.

(* U: the known names; the references of known names are known names *)
Lemma closure_rounds_saturate s (U : list var) :
  (forall w, In w U -> forall y, In y (refs_of s w) -> In y U) ->
  forall n ws, NoDup ws -> incl ws U -> (length U - length ws <= n)%nat ->
  closed s (closure_rounds n s ws).
Proof.
  intros HU. induction n as [|n IH]; intros ws Hnd Hinc Hm; simpl.
  - (* ws already contains every known name *)
    assert (Hall : incl U ws).
    { apply NoDup_length_incl; [exact Hnd| |exact Hinc].
      pose proof (NoDup_incl_length Hnd Hinc). lia. }
    intros y Hy. apply in_flat_map in Hy as (w & Hw & Hy). apply Hall. apply (HU w); auto.
  - destruct (forallb (fun y => mem y ws) (flat_map (refs_of s) ws)) eqn:E.
    + (* closed already *)
      assert (Hc : closed s ws).
      { intros y Hy. rewrite forallb_forall in E. apply mem_In. apply E. exact Hy. }
      assert (Es : closure_step s ws = ws) by (unfold closure_step; apply set_add_all_same; exact Hc).
      rewrite Es. rewrite closure_rounds_closed; assumption.
    + (* some reference is new: the set grows *)
      assert (Hex : exists y, In y (flat_map (refs_of s) ws) /\ ~ In y ws).
      { destruct (forallb_false_ex _ _ E) as (y & Hy & Hn).
        exists y. split; [exact Hy|]. intro Hc. apply mem_In in Hc. congruence. }
      destruct Hex as (y & Hy & Hn).
      apply IH.
      * unfold closure_step. apply set_add_all_NoDup. exact Hnd.
      * unfold closure_step. intros z Hz. apply set_add_all_spec in Hz as [Hz|Hz]; [apply Hinc; exact Hz|].
        apply in_flat_map in Hz as (w & Hw & Hz). apply (HU w); auto.
      * pose proof (set_add_all_grows (flat_map (refs_of s) ws) ws y Hy Hn) as Hg.
        unfold closure_step. lia.
Qed.

(* ---------- the invariant: every referenced name is a known name ---------- *)

Definition names_ok (s : scope) : Prop :=
  forall w y, In y (refs_of s w) -> In y (s_names s).

Lemma var_read_refs v : v_refs (var_read v) = v_refs v.
Proof. reflexivity. Qed.

Lemma read_one_refs s w' w : refs_of (read_one s w') w = refs_of s w.
Proof.
  unfold refs_of, read_one. simpl. unfold upd. destruct (str_eqb w' w) eqn:E; [|reflexivity].
  apply str_eqb_spec in E. subst. reflexivity.
Qed.

Lemma read_one_names s w' y : In y (s_names (read_one s w')) <-> In y (s_names s) \/ y = w'.
Proof. unfold read_one. simpl. apply set_add_spec. Qed.

Lemma fold_read_one_refs us : forall s w, refs_of (fold_left read_one us s) w = refs_of s w.
Proof.
  induction us as [|u us IH]; intros s w; simpl; [reflexivity|]. rewrite IH. apply read_one_refs.
Qed.

Lemma fold_read_one_names us : forall s y,
  In y (s_names (fold_left read_one us s)) <-> In y (s_names s) \/ In y us.
Proof.
  induction us as [|u us IH]; intros s y; simpl; [intuition|].
  rewrite IH, read_one_names. intuition.
Qed.

Lemma var_write_refs v idx a :
  v_refs (var_write v idx a false) = set_add_all (v_refs v) (uses (a_val a)).
Proof.
  unfold var_write, var_update_constant. simpl.
  destruct (cstate_eqb (v_state v) C3); [reflexivity|].
  destruct (v_cond v || false); [reflexivity|].
  destruct (a_op a); simpl; try reflexivity.
  - destruct (has_make_vars (a_val a)); reflexivity.
  - destruct (cstate_eqb (v_state v) C0); reflexivity.
Qed.

Lemma handle_varassign_shape s idx a d s' vs :
  handle_varassign s idx a d = Ok (s', vs) ->
  s' = mkScope (upd (s_vars s) (a_var a)
                 (mkInfo (var_write (vi_var (s_vars s (a_var a))) idx a d)
                         (vi_paths (s_vars s (a_var a)) ++ [s_path s]) AWrite))
               (s_path s) (set_add (s_names s) (a_var a)).
Proof.
  unfold handle_varassign.
  repeat match goal with
         | |- context [match ?x with _ => _ end] => destruct x
         end;
    intro H; inversion H; reflexivity.
Qed.

Lemma handle_varassign_total s idx a d : handle_varassign s idx a d <> OutOfFuel.
Proof.
  unfold handle_varassign, constant_value.
  repeat match goal with
         | |- context [match ?x with _ => _ end] => destruct x
         end; discriminate.
Qed.

Lemma handle_expr_total s a :
  (forall w y, In y (refs_of s w) -> In y (s_names s) \/ In y (uses (a_val a))) ->
  handle_expr s a <> OutOfFuel /\
  (forall s', handle_expr s a = Ok s' -> names_ok s').
Proof.
  intro H. unfold handle_expr.
  set (s1 := fold_left read_one (uses (a_val a)) s).
  assert (Hok1 : names_ok s1).
  { intros w y Hy. unfold s1 in *. rewrite fold_read_one_refs in Hy.
    apply fold_read_one_names. apply (H w y Hy). }
  assert (Hcl : closed s1 (closure_rounds (length (s_names s1)) s1 (set_add_all [] (uses (a_val a))))).
  { apply (closure_rounds_saturate s1 (s_names s1)).
    - intros w _ y Hy. apply (Hok1 w y Hy).
    - apply set_add_all_NoDup. constructor.
    - intros y Hy. apply set_add_all_spec in Hy as [[]|Hy].
      unfold s1. apply fold_read_one_names. right. exact Hy.
    - lia. }
  assert (Hc : closure (length (s_names s1)) s1 (set_add_all [] (uses (a_val a)))
               = Ok (closure_rounds (length (s_names s1)) s1 (set_add_all [] (uses (a_val a))))).
  { unfold closure. rewrite (closed_check _ _ Hcl). reflexivity. }
  assert (Hfold : forall c, names_ok (fold_left read_one c s1)).
  { intros c w y Hy. rewrite fold_read_one_refs in Hy. apply fold_read_one_names. left. apply (Hok1 w y Hy). }
  destruct (a_op a); try rewrite Hc; (split; [discriminate|]); intros s' E; inversion E; subst;
    first [exact Hok1 | apply Hfold].
Qed.

Lemma update_include_path_total s l : update_include_path s l <> OutOfFuel.
Proof.
  unfold update_include_path, ipath_pop_until. destruct (l_lineno l =? 1); [discriminate|].
  assert (H : forall r, pop_until_rev r (l_file l) <> OutOfFuel).
  { induction r as [|x r IH]; simpl; [discriminate|]. destruct (x =? l_file l); [discriminate|exact IH]. }
  specialize (H (rev (s_path s))). destruct (pop_until_rev (rev (s_path s)) (l_file l)); try discriminate.
  contradiction.
Qed.

Lemma update_include_path_names s l s1 :
  update_include_path s l = Ok s1 -> s_vars s1 = s_vars s /\ s_names s1 = s_names s.
Proof.
  unfold update_include_path. destruct (l_lineno l =? 1).
  - intro H; inversion H; auto.
  - destruct (ipath_pop_until (s_path s) (l_file l)); intro H; inversion H; auto.
Qed.

Lemma check_line_total s idx l :
  names_ok s ->
  check_line s idx l <> OutOfFuel /\
  (forall s' vs, check_line s idx l = Ok (s', vs) -> names_ok s').
Proof.
  intro Hok. unfold check_line.
  pose proof (update_include_path_total s l) as Hu.
  destruct (update_include_path s l) as [s1| |] eqn:E1; [|split; [discriminate|intros; discriminate]|contradiction].
  apply update_include_path_names in E1 as [Ev En].
  assert (Hok1 : names_ok s1).
  { intros w y Hy. unfold refs_of in Hy. rewrite Ev in Hy. rewrite En. apply (Hok w y Hy). }
  destruct (l_body l) as [a|].
  - pose proof (handle_varassign_total s1 idx a false) as Hv.
    destruct (handle_varassign s1 idx a false) as [[s2 vs2]| |] eqn:E2;
      [|split; [discriminate|intros; discriminate]|contradiction].
    apply handle_varassign_shape in E2.
    assert (H2 : forall w y, In y (refs_of s2 w) -> In y (s_names s2) \/ In y (uses (a_val a))).
    { intros w y Hy. subst s2. unfold refs_of in Hy. simpl in Hy. simpl s_names. unfold upd in Hy.
      destruct (str_eqb (a_var a) w) eqn:Ew.
      - simpl in Hy. rewrite var_write_refs in Hy. apply set_add_all_spec in Hy as [Hy|Hy]; [|right; exact Hy].
        left. apply set_add_spec. left. apply (Hok1 (a_var a) y Hy).
      - left. apply set_add_spec. left. apply (Hok1 w y Hy). }
    destruct (handle_expr_total s2 a H2) as [Hne Hnext].
    destruct (handle_expr s2 a) as [s3| |] eqn:E3; [|split; [discriminate|intros; discriminate]|contradiction].
    split; [discriminate|]. intros s' vs E. inversion E; subst. apply Hnext. reflexivity.
  - split; [discriminate|]. intros s' vs E. inversion E; subst. exact Hok1.
Qed.

Lemma check_from_total : forall ls s idx, names_ok s -> check_from s idx ls <> OutOfFuel.
Proof.
  induction ls as [|l ls IH]; intros s idx Hok; simpl; [discriminate|].
  destruct (check_line_total s idx l Hok) as [Hne Hnext].
  destruct (check_line s idx l) as [[s' vs]| |] eqn:E; [|discriminate|contradiction].
  specialize (IH s' (S idx) (Hnext s' vs eq_refl)).
  destruct (check_from s' (S idx) ls); [discriminate|discriminate|contradiction].
Qed.

Theorem check_never_out_of_fuel : forall p : program, check p <> OutOfFuel.
Proof. intro p. apply check_from_total. intros w y Hy. destruct Hy. Qed.
