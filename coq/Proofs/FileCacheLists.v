(* Helper lemmas for Model/FileCache.v: upd, association lists, swap_remove, sort_desc. *)
From PV Require Import Lib.Bytes Model.FileCache.
From Coq Require Import Permutation Sorting.Sorted Arith.
Open Scope N_scope.

(* ---------- upd / nth ---------- *)

Lemma upd_length {A} n (x : A) l : length (upd n x l) = length l.
Proof. revert n; induction l as [|h t IH]; intros [|n]; simpl; auto. Qed.

Lemma nth_upd_same {A} n (x d : A) l : (n < length l)%nat -> nth n (upd n x l) d = x.
Proof. revert n; induction l as [|h t IH]; intros [|n] H; simpl in *; try lia; auto. apply IH; lia. Qed.

Lemma nth_upd_other {A} n m (x d : A) l : n <> m -> nth m (upd n x l) d = nth m l d.
Proof.
  revert n m; induction l as [|h t IH]; intros [|n] [|m] H; simpl; auto; try congruence.
Qed.

Lemma upd_beyond {A} n (x : A) l : (length l <= n)%nat -> upd n x l = l.
Proof. revert n; induction l as [|h t IH]; intros [|n] H; simpl in *; auto; try lia. f_equal; apply IH; lia. Qed.

Lemma nth_app_l {A} n (l l' : list A) d : (n < length l)%nat -> nth n (l ++ l') d = nth n l d.
Proof. intros; apply app_nth1; auto. Qed.

(* ---------- association lists ---------- *)

Lemma map_get_del_same {V} k (m : list (N * V)) : map_get k (map_del k m) = None.
Proof.
  induction m as [|[k' v] t IH]; simpl; auto.
  destruct (N.eqb_spec k' k); auto. simpl. destruct (N.eqb_spec k' k); congruence.
Qed.

Lemma map_get_del_other {V} k k' (m : list (N * V)) : k <> k' -> map_get k (map_del k' m) = map_get k m.
Proof.
  intros H; induction m as [|[k2 v] t IH]; simpl; auto.
  destruct (N.eqb_spec k2 k'); simpl.
  - destruct (N.eqb_spec k2 k); try congruence; auto.
  - destruct (N.eqb_spec k2 k); auto.
Qed.

Lemma map_get_del {V} k k' (m : list (N * V)) :
  map_get k (map_del k' m) = if k =? k' then None else map_get k m.
Proof.
  destruct (N.eqb_spec k k') as [->|H]; [apply map_get_del_same | apply map_get_del_other; auto].
Qed.

Lemma map_get_del_some {V} k k' (m : list (N * V)) v :
  map_get k (map_del k' m) = Some v -> k <> k' /\ map_get k m = Some v.
Proof. rewrite map_get_del. destruct (N.eqb_spec k k'); [discriminate | auto]. Qed.

Lemma map_get_set_same {V} k (v : V) m : map_get k (map_set k v m) = Some v.
Proof. unfold map_set; simpl. rewrite N.eqb_refl; auto. Qed.

Lemma map_get_set_other {V} k k' (v : V) m : k <> k' -> map_get k (map_set k' v m) = map_get k m.
Proof.
  intros H. unfold map_set; simpl. destruct (N.eqb_spec k' k); try congruence.
  apply map_get_del_other; auto.
Qed.

Lemma map_del_comm {V} a b (m : list (N * V)) : map_del a (map_del b m) = map_del b (map_del a m).
Proof.
  induction m as [|[k v] t IH]; simpl; auto.
  destruct (k =? b) eqn:Eb, (k =? a) eqn:Ea; simpl; rewrite ?Eb, ?Ea; auto. f_equal; auto.
Qed.

Lemma map_del_keys {V} k k' (m : list (N * V)) :
  In k' (map fst (map_del k m)) <-> In k' (map fst m) /\ k' <> k.
Proof.
  induction m as [|[k2 v] t IH]; simpl; [tauto|].
  destruct (N.eqb_spec k2 k); simpl; rewrite IH; intuition congruence.
Qed.

Lemma map_del_nodup {V} k (m : list (N * V)) : NoDup (map fst m) -> NoDup (map fst (map_del k m)).
Proof.
  induction m as [|[k2 v] t IH]; simpl; intros H; auto.
  inversion H; subst. destruct (N.eqb_spec k2 k); simpl; auto.
  constructor; auto. rewrite map_del_keys. tauto.
Qed.

Lemma map_set_nodup {V} k (v : V) m : NoDup (map fst m) -> NoDup (map fst (map_set k v m)).
Proof.
  intros H. unfold map_set; simpl. constructor; [|apply map_del_nodup; auto].
  rewrite map_del_keys. tauto.
Qed.

Lemma map_get_in {V} k (m : list (N * V)) v : map_get k m = Some v -> In k (map fst m).
Proof.
  induction m as [|[k2 v2] t IH]; simpl; [discriminate|].
  destruct (N.eqb_spec k2 k); auto.
Qed.

Lemma map_get_none {V} k (m : list (N * V)) : map_get k m = None <-> ~ In k (map fst m).
Proof.
  induction m as [|[k2 v2] t IH]; simpl; [tauto|].
  destruct (N.eqb_spec k2 k); [split; [discriminate | tauto] | rewrite IH; tauto].
Qed.

(* deleting a list of keys *)
Definition map_dels {V} (ks : list N) (m : list (N * V)) : list (N * V) :=
  fold_left (fun m k => map_del k m) ks m.

Lemma map_dels_del {V} ks k (m : list (N * V)) : map_dels ks (map_del k m) = map_del k (map_dels ks m).
Proof.
  revert m; induction ks as [|a t IH]; intros m; simpl; auto.
  rewrite map_del_comm. apply IH.
Qed.

Lemma map_get_dels {V} ks k (m : list (N * V)) :
  map_get k (map_dels ks m) = if existsb (N.eqb k) ks then None else map_get k m.
Proof.
  revert m; induction ks as [|a t IH]; intros m; simpl; auto.
  rewrite IH, map_get_del. destruct (N.eqb_spec k a); simpl; auto. destruct (existsb _ t); auto.
Qed.

Lemma map_dels_perm {V} ks ks' (m : list (N * V)) : Permutation ks ks' -> map_dels ks m = map_dels ks' m.
Proof.
  intros P; revert m; induction P; intros m; simpl; auto.
  - rewrite map_del_comm; auto.
  - rewrite IHP1; auto.
Qed.

(* ---------- find_idx / swap_remove ---------- *)

Lemma find_idx_split x l i :
  find_idx x l = Some i -> exists l1 l2, l = l1 ++ x :: l2 /\ ~ In x l1 /\ i = length l1.
Proof.
  revert i; induction l as [|y t IH]; simpl; intros i H; [discriminate|].
  destruct (Nat.eqb_spec y x) as [->|Hne].
  - inversion H; subst. exists [], t. simpl; auto.
  - destruct (find_idx x t) as [j|] eqn:E; [|discriminate]. inversion H; subst.
    destruct (IH j eq_refl) as (l1 & l2 & -> & Hn & ->).
    exists (y :: l1), l2. simpl. intuition.
Qed.

Lemma find_idx_none x l : find_idx x l = None -> ~ In x l.
Proof.
  induction l as [|y t IH]; simpl; auto.
  destruct (Nat.eqb_spec y x); [discriminate|].
  destruct (find_idx x t); [discriminate|]. intros _ [H|H]; auto. apply IH; auto.
Qed.

Lemma find_idx_some x l : In x l -> exists i, find_idx x l = Some i.
Proof.
  intros H. destruct (find_idx x l) eqn:E; eauto. apply find_idx_none in E. tauto.
Qed.

Lemma upd_app_mid {A} (l1 : list A) x y l2 : upd (length l1) y (l1 ++ x :: l2) = l1 ++ y :: l2.
Proof. induction l1; simpl; auto. f_equal; auto. Qed.

Lemma last_app_cons {A} (l1 : list A) x l2 d : last (l1 ++ x :: l2) d = last (x :: l2) d.
Proof. induction l1 as [|a t IH]; auto. rewrite <- IH. simpl. destruct (t ++ x :: l2) eqn:E; auto. destruct t; discriminate. Qed.

Lemma removelast_app_cons {A} (l1 : list A) x l2 : removelast (l1 ++ x :: l2) = l1 ++ removelast (x :: l2).
Proof. apply removelast_app. discriminate. Qed.

(* what swap_remove does to a table in which x occurs *)
Lemma swap_remove_split x l1 l2 : ~ In x l1 ->
  swap_remove x (l1 ++ x :: l2) =
  match l2 with [] => l1 | _ => l1 ++ last l2 O :: removelast l2 end.
Proof.
  intros Hn. unfold swap_remove.
  destruct (find_idx x (l1 ++ x :: l2)) as [i|] eqn:E.
  - destruct (find_idx_split _ _ _ E) as (m1 & m2 & Heq & Hn1 & ->).
    assert (m1 = l1 /\ m2 = l2) as [-> ->].
    { clear E. revert m1 Heq Hn1. induction l1 as [|a t IH]; intros [|b m1] Heq Hn1; simpl in *.
      - inversion Heq; auto.
      - inversion Heq; subst. tauto.
      - inversion Heq; subst. tauto.
      - inversion Heq; subst. destruct (IH (fun H => Hn (or_intror H)) m1 H1 (fun H => Hn1 (or_intror H))) as [-> ->]; auto. }
    rewrite last_app_cons, upd_app_mid.
    destruct l2 as [|z l2'].
    + simpl. rewrite removelast_app_cons. simpl. rewrite app_nil_r; auto.
    + rewrite removelast_app_cons. f_equal.
  - apply find_idx_none in E. exfalso; apply E, in_or_app; right; left; auto.
Qed.

Lemma swap_remove_perm x l : In x l -> NoDup l -> Permutation l (x :: swap_remove x l).
Proof.
  intros Hin Hnd. destruct (find_idx_some _ _ Hin) as [i E].
  destruct (find_idx_split _ _ _ E) as (l1 & l2 & -> & Hn & _).
  rewrite swap_remove_split by auto.
  destruct l2 as [|z l2'].
  - apply Permutation_sym, Permutation_cons_append.
  - apply Permutation_sym, Permutation_cons_app.
    apply Permutation_app_head.
    assert (H : z :: l2' <> []) by discriminate.
    eapply Permutation_trans; [apply Permutation_cons_append|].
    rewrite <- app_removelast_last; auto.
Qed.

Lemma swap_remove_notin x l : ~ In x l -> swap_remove x l = l.
Proof.
  intros H. unfold swap_remove. destruct (find_idx x l) eqn:E; auto.
  destruct (find_idx_split _ _ _ E) as (l1 & l2 & -> & _). exfalso; apply H, in_or_app; right; left; auto.
Qed.

Lemma swap_remove_in x l y : NoDup l -> (In y (swap_remove x l) <-> In y l /\ y <> x).
Proof.
  intros Hnd. destruct (in_dec Nat.eq_dec x l) as [Hin|Hn].
  - pose proof (swap_remove_perm x l Hin Hnd) as P.
    assert (Hnd' : NoDup (x :: swap_remove x l)) by (eapply Permutation_NoDup; eauto).
    inversion Hnd'; subst. split.
    + intros H. split; [eapply Permutation_in; [apply Permutation_sym; eauto|right; auto]|]. intros ->; auto.
    + intros [H Hne]. apply (Permutation_in _ P) in H. destruct H; [congruence|auto].
  - rewrite swap_remove_notin by auto. split; [intros H; split; auto; intros ->; auto|tauto].
Qed.

Lemma swap_remove_nodup x l : NoDup l -> NoDup (swap_remove x l).
Proof.
  intros Hnd. destruct (in_dec Nat.eq_dec x l) as [Hin|Hn].
  - pose proof (swap_remove_perm x l Hin Hnd) as P.
    assert (Hnd' : NoDup (x :: swap_remove x l)) by (eapply Permutation_NoDup; eauto).
    inversion Hnd'; auto.
  - rewrite swap_remove_notin; auto.
Qed.

Lemma swap_remove_length x l : In x l -> NoDup l -> S (length (swap_remove x l)) = length l.
Proof. intros Hin Hnd. rewrite (Permutation_length (swap_remove_perm x l Hin Hnd)). auto. Qed.

Lemma removelast_length {A} (l : list A) : length (removelast l) = pred (length l).
Proof.
  destruct l as [|a t]; auto.
  assert (H : a :: t <> []) by discriminate.
  pose proof (f_equal (@length A) (app_removelast_last a H)) as HL.
  rewrite app_length in HL. simpl in *. lia.
Qed.

Lemma swap_remove_length_le x l : (length (swap_remove x l) <= length l)%nat.
Proof.
  unfold swap_remove. destruct (find_idx x l); auto.
  rewrite removelast_length, upd_length. lia.
Qed.

Lemma filter_len_le {A} (f : A -> bool) l : (length (filter f l) <= length l)%nat.
Proof. induction l as [|x t IH]; simpl; auto. destruct (f x); simpl; lia. Qed.
