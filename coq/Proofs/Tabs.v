(* Lemmas about the width arithmetic (Model/Tabs.v). *)
From PV Require Import Lib.Bytes Model.Tabs.
From Coq Require Import ZifyBool ZifyN ZifyNat.
Open Scope Z_scope.

(* ---------- blanks ---------- *)

Lemma blankb_app a b : blankb (a ++ b) = blankb a && blankb b.
Proof. unfold blankb. apply forallb_app. Qed.

Lemma blankb_repeat_tab n : blankb (repeat TAB n) = true.
Proof. induction n; simpl; auto. Qed.
Lemma blankb_repeat_sp n : blankb (repeat SP n) = true.
Proof. induction n; simpl; auto. Qed.
Lemma blankb_tabs n : blankb (tabs n) = true.
Proof. apply blankb_repeat_tab. Qed.
Lemma blankb_spaces n : blankb (spaces n) = true.
Proof. apply blankb_repeat_sp. Qed.

Lemma blankb_firstn n s : blankb s = true -> blankb (firstn n s) = true.
Proof.
  revert n; induction s as [|c s IH]; intros [|n] H; simpl in *; auto.
  apply andb_true_iff in H as [H1 H2]. rewrite H1. simpl. apply IH, H2.
Qed.
Lemma blankb_skipn n s : blankb s = true -> blankb (skipn n s) = true.
Proof.
  revert n; induction s as [|c s IH]; intros [|n] H; simpl in *; auto.
  apply andb_true_iff in H as [H1 H2]. apply IH, H2.
Qed.

Lemma strip_blanks_app a b : strip_blanks (a ++ b) = strip_blanks a ++ strip_blanks b.
Proof. unfold strip_blanks. apply filter_app. Qed.

Lemma strip_blanks_blank s : blankb s = true -> strip_blanks s = [].
Proof.
  induction s as [|c s IH]; simpl; intro H; auto.
  apply andb_true_iff in H as [H1 H2]. rewrite H1. simpl. apply IH, H2.
Qed.

Lemma strip_blanks_nil_blank s : strip_blanks s = [] -> blankb s = true.
Proof.
  induction s as [|c s IH]; simpl; intro H; auto.
  destruct (is_hspace c); simpl in *; [apply IH, H | discriminate].
Qed.

(* ---------- runes ---------- *)

Lemma rune_size_ascii c rest : (c < 128)%N -> rune_size c rest = 1%nat.
Proof.
  intro H. unfold rune_size, lead_info.
  destruct (N.ltb_spec c 194); [reflexivity | lia].
Qed.

(* the bytes stepped over as part of a rune are continuation bytes, never '\n' *)
Lemma lead_info_lo c sz lo hi : lead_info c = Some (sz, lo, hi) -> (128 <= lo)%N /\ (2 <= sz <= 4)%nat.
Proof.
  unfold lead_info.
  repeat match goal with |- context [if ?b then _ else _] => destruct b end;
    intro H; inversion H; subst; lia.
Qed.

Definition no_nl_prefix (k : nat) (s : str) : Prop := has_nl (firstn k s) = false /\ (k <= length s)%nat.

Lemma rune_size_tail c rest : no_nl_prefix (pred (rune_size c rest)) rest.
Proof.
  unfold no_nl_prefix, rune_size.
  destruct (lead_info c) as [[[sz lo] hi]|] eqn:E; [|simpl; split; [reflexivity|lia]].
  apply lead_info_lo in E as [Hlo Hsz].
  destruct rest as [|b1 r1]; [simpl; split; [reflexivity|lia]|].
  destruct (in_rng lo hi b1) eqn:E1; [|simpl; split; [reflexivity|lia]].
  assert (N1 : (b1 =? NL)%N = false) by (unfold in_rng, NL in *; lia).
  destruct sz as [|[|[|[|sz]]]]; try lia.
  - simpl. rewrite N1. split; [reflexivity|lia].
  - destruct r1 as [|b2 r2]; [simpl; split; [reflexivity|lia]|].
    destruct (in_rng 128 191 b2) eqn:E2; [|simpl; split; [reflexivity|lia]].
    assert (N2 : (b2 =? NL)%N = false) by (unfold in_rng, NL in *; lia).
    simpl. rewrite N1, N2. split; [reflexivity|lia].
  - destruct r1 as [|b2 r2]; [simpl; split; [reflexivity|lia]|].
    destruct (in_rng 128 191 b2) eqn:E2; [|simpl; split; [reflexivity|lia]].
    assert (N2 : (b2 =? NL)%N = false) by (unfold in_rng, NL in *; lia).
    destruct sz; [|lia].
    destruct r2 as [|b3 r3]; [simpl; split; [reflexivity|lia]|].
    destruct (in_rng 128 191 b3) eqn:E3; [|simpl; split; [reflexivity|lia]].
    assert (N3 : (b3 =? NL)%N = false) by (unfold in_rng, NL in *; lia).
    simpl. rewrite N1, N2, N3. split; [reflexivity|lia].
Qed.

(* tabWidthAppend panics exactly on strings containing '\n', and otherwise is twa0 *)
Lemma tabWidthAppend_skip_spec s : forall w k, no_nl_prefix k s ->
  tabWidthAppend_skip w k s = if has_nl s then None else Some (twa w k s).
Proof.
  induction s as [|c s IH]; intros w k [Hk Hl]; [reflexivity|].
  destruct k as [|k].
  - cbn [tabWidthAppend_skip twa has_nl existsb].
    destruct (N.eqb_spec c NL) as [->|Hc]; [reflexivity|].
    cbn [orb]. destruct (N.eqb_spec c TAB) as [->|Ht].
    + apply IH. split; [reflexivity|simpl; lia].
    + apply IH. apply rune_size_tail.
  - cbn [tabWidthAppend_skip twa].
    simpl in Hk, Hl. unfold has_nl in *. simpl. simpl in Hk.
    destruct (N.eqb_spec c NL) as [->|Hc]; [discriminate|].
    cbn [orb] in *. apply IH. split; [exact Hk|lia].
Qed.

Lemma tabWidthAppend_spec w s :
  tabWidthAppend w s = if has_nl s then None else Some (twa0 w s).
Proof. apply tabWidthAppend_skip_spec. split; [reflexivity|simpl; lia]. Qed.

(* ---------- twa on blanks ---------- *)

Lemma twa_sp w s : twa w 0 (SP :: s) = twa (w + 1) 0 s.
Proof. reflexivity. Qed.
Lemma twa_tab w s : twa w 0 (TAB :: s) = twa (w / 8 * 8 + 8) 0 s.
Proof. reflexivity. Qed.

Lemma twa_repeat_sp n w s : twa w 0 (repeat SP n ++ s) = twa (w + Z.of_nat n) 0 s.
Proof.
  revert w; induction n as [|n IH]; intro w; simpl repeat; simpl app.
  - f_equal. lia.
  - rewrite twa_sp, IH. f_equal. lia.
Qed.

Lemma twa_repeat_tab n w s : (0 < n)%nat ->
  twa w 0 (repeat TAB n ++ s) = twa ((w / 8 + Z.of_nat n) * 8) 0 s.
Proof.
  revert w; induction n as [|n IH]; intros w Hn; [lia|].
  simpl repeat. simpl app. rewrite twa_tab.
  destruct n as [|n].
  - simpl. f_equal. lia.
  - rewrite IH by lia. f_equal.
    replace ((w / 8 * 8 + 8) / 8) with (w / 8 + 1).
    + lia.
    + replace (w / 8 * 8 + 8) with ((w / 8 + 1) * 8) by lia. rewrite Z.div_mul; lia.
Qed.

Lemma twa0_tabs_spaces a b w : 0 <= a -> 0 <= b ->
  twa0 w (tabs a ++ spaces b) = (if a =? 0 then w else (w / 8 + a) * 8) + b.
Proof.
  intros Ha Hb. unfold twa0, tabs, spaces.
  destruct (Z.eqb_spec a 0) as [->|Hne].
  - simpl. rewrite <- (app_nil_r (repeat SP _)), twa_repeat_sp. simpl. lia.
  - rewrite twa_repeat_tab by lia.
    rewrite <- (app_nil_r (repeat SP _)), twa_repeat_sp. simpl. lia.
Qed.

(* ---------- indent ---------- *)

Definition indent_tot (w : Z) : str := tabs (w / 8) ++ spaces (w mod 8).

Fixpoint upto (n : nat) : list Z := match n with O => [] | S k => upto k ++ [Z.of_nat k] end.
Lemma in_upto n z : 0 <= z < Z.of_nat n -> In z (upto n).
Proof.
  induction n as [|n IH]; intro H; [lia|]. simpl. apply in_or_app.
  destruct (Z.eq_dec z (Z.of_nat n)) as [->|Hne]; [right; left; reflexivity|left; apply IH; lia].
Qed.

Definition opt_str_eqb (a b : option str) : bool :=
  match a, b with Some x, Some y => str_eqb x y | None, None => true | _, _ => false end.

Lemma indent_small_sweep :
  forallb (fun w => opt_str_eqb (indent w) (Some (indent_tot w))) (upto 80) = true.
Proof. vm_compute. reflexivity. Qed.

Lemma indent_nonneg w : 0 <= w -> indent w = Some (indent_tot w).
Proof.
  intro Hw. destruct (Z_le_gt_dec w 79) as [Hs|Hb].
  - pose proof indent_small_sweep as S. rewrite forallb_forall in S.
    specialize (S w (in_upto 80 w ltac:(lia))).
    unfold opt_str_eqb in S. destruct (indent w) as [x|]; [|discriminate].
    apply str_eqb_spec in S. congruence.
  - unfold indent. change (len tabsAndSpaces - 7) with 9.
    destruct (Z.leb_spec w (8 * 9 + 7)); [lia|]. reflexivity.
Qed.

Lemma indent_tot_width w : 0 <= w -> tab_width (indent_tot w) = w.
Proof.
  intro Hw. unfold tab_width, indent_tot.
  rewrite twa0_tabs_spaces.
  - destruct (Z.eqb_spec (w / 8) 0) as [E|E].
    + pose proof (Z.div_mod w 8 ltac:(lia)). lia.
    + change (0 / 8) with 0. pose proof (Z.div_mod w 8 ltac:(lia)). lia.
  - apply Z.div_pos; lia.
  - apply Z.mod_pos_bound. lia.
Qed.

Lemma indent_tot_blank w : blankb (indent_tot w) = true.
Proof. unfold indent_tot. rewrite blankb_app, blankb_tabs, blankb_spaces. reflexivity. Qed.

(* whatever indent returns (also for negative widths) consists of blanks *)
Lemma indent_blank w s : indent w = Some s -> blankb s = true.
Proof.
  unfold indent. change (len tabsAndSpaces - 7) with 9.
  destruct (Z.leb_spec w (8 * 9 + 7)).
  - unfold slice. destruct (_ && _ && _); [|discriminate]. intro E. inversion E; subst.
    apply blankb_firstn, blankb_skipn. reflexivity.
  - intro E. inversion E; subst. apply (indent_tot_blank w).
Qed.

(* indent_width: tabWidth (indent w) = w, for the widths indent is meant for *)
Lemma indent_width w : 0 <= w ->
  exists s, indent w = Some s /\ tabWidth s = Some w /\ blankb s = true.
Proof.
  intro Hw. exists (indent_tot w). split; [apply indent_nonneg, Hw|]. split.
  - unfold tabWidth. rewrite tabWidthAppend_spec.
    assert (N : has_nl (indent_tot w) = false).
    { unfold indent_tot, has_nl, tabs, spaces. rewrite existsb_app.
      assert (R : forall c n, (c =? NL)%N = false -> existsb (fun c0 : N => (c0 =? NL)%N) (repeat c n) = false).
      { intros c n Hc. induction n; simpl; [reflexivity|]. rewrite Hc. exact IHn. }
      rewrite !R by reflexivity. reflexivity. }
    rewrite N. f_equal. apply indent_tot_width, Hw.
  - apply indent_tot_blank.
Qed.

(* ---------- alignmentToWidths ---------- *)

Lemma alignmentToWidths_blank a b s : alignmentToWidths a b = Some s -> blankb s = true.
Proof.
  unfold alignmentToWidths. destruct (b <=? a).
  - intro E; inversion E; reflexivity.
  - apply indent_blank.
Qed.

Lemma twa0_indent_tot sw d : 0 <= d -> (d < 8 \/ sw mod 8 = 0) ->
  twa0 sw (indent_tot d) = sw + d.
Proof.
  intros Hd Hc. unfold indent_tot. rewrite twa0_tabs_spaces.
  - destruct (Z.eqb_spec (d / 8) 0) as [E|E].
    + pose proof (Z.div_mod d 8 ltac:(lia)). lia.
    + destruct Hc as [Hc|Hc].
      * rewrite Z.div_small in E by lia. lia.
      * pose proof (Z.div_mod d 8 ltac:(lia)). pose proof (Z.div_mod sw 8 ltac:(lia)). lia.
  - apply Z.div_pos; lia.
  - apply Z.mod_pos_bound. lia.
Qed.

(* alignment_reaches, on widths: exactly the precondition the code needs is
   0 <= strWidth <= otherWidth (for otherWidth < strWidth the result is "" and the
   column stays at strWidth) *)
Lemma alignment_reaches_w sw w : 0 <= sw <= w ->
  exists a, alignmentToWidths sw w = Some a /\ twa0 sw a = w /\ blankb a = true.
Proof.
  intros [H0 Hle]. unfold alignmentToWidths.
  destruct (Z.leb_spec w sw) as [Hws|Hws].
  - exists []. replace w with sw by lia. repeat split.
  - destruct (Z.eqb_spec (sw / 8 * 8) (w / 8 * 8)) as [Hsame|Hdiff]; cbn [negb].
    + (* same tab stop: spaces only *)
      pose proof (Z.div_mod sw 8 ltac:(lia)). pose proof (Z.div_mod w 8 ltac:(lia)).
      pose proof (Z.mod_pos_bound sw 8 ltac:(lia)). pose proof (Z.mod_pos_bound w 8 ltac:(lia)).
      exists (indent_tot (w - sw)). split; [apply indent_nonneg; lia|]. split.
      * rewrite twa0_indent_tot; lia.
      * apply indent_tot_blank.
    + pose proof (Z.div_mod sw 8 ltac:(lia)). pose proof (Z.div_mod w 8 ltac:(lia)).
      pose proof (Z.mod_pos_bound sw 8 ltac:(lia)). pose proof (Z.mod_pos_bound w 8 ltac:(lia)).
      assert (sw / 8 <= w / 8) by (apply Z.div_le_mono; lia).
      exists (indent_tot (w - sw / 8 * 8)). split; [apply indent_nonneg; lia|]. split.
      * (* the first tab jumps to the next tab stop, so starting at sw or at sw/8*8 is the same *)
        unfold indent_tot. rewrite twa0_tabs_spaces.
        -- replace ((w - sw / 8 * 8) / 8) with (w / 8 - sw / 8).
           ++ replace ((w - sw / 8 * 8) mod 8) with (w mod 8).
              ** destruct (Z.eqb_spec (w / 8 - sw / 8) 0); lia.
              ** replace (w - sw / 8 * 8) with (w + (- (sw / 8)) * 8) by lia.
                 rewrite Z.mod_add; lia.
           ++ replace (w - sw / 8 * 8) with (w + (- (sw / 8)) * 8) by lia.
              rewrite Z.div_add; lia.
        -- apply Z.div_pos; lia.
        -- apply Z.mod_pos_bound; lia.
      * apply indent_tot_blank.
Qed.

(* ---------- twa: bounds, monotonicity, append of blanks ---------- *)

Lemma twa_ge s : forall w k, w <= twa w k s.
Proof.
  induction s as [|c s IH]; intros w k; simpl; [lia|].
  destruct k; [|apply IH].
  destruct (c =? TAB)%N.
  - specialize (IH (w / 8 * 8 + 8) 0%nat).
    pose proof (Z.div_mod w 8 ltac:(lia)). pose proof (Z.mod_pos_bound w 8 ltac:(lia)). lia.
  - specialize (IH (w + 1) (pred (rune_size c s))). lia.
Qed.

Lemma twa_mono s : forall w w' k, w <= w' -> twa w k s <= twa w' k s.
Proof.
  induction s as [|c s IH]; intros w w' k H; simpl; [lia|].
  destruct k; [|apply IH, H].
  destruct (c =? TAB)%N; apply IH; [|lia].
  assert (w / 8 <= w' / 8) by (apply Z.div_le_mono; lia). lia.
Qed.

Lemma twa0_nonneg w s : 0 <= w -> 0 <= twa0 w s.
Proof. intro H. unfold twa0. pose proof (twa_ge s w 0%nat). lia. Qed.

Lemma twa0_pos_nonempty w s : 0 <= w -> s <> [] -> 0 < twa0 w s.
Proof.
  intros H Hs. destruct s as [|c s]; [congruence|]. unfold twa0. simpl.
  destruct (c =? TAB)%N.
  - pose proof (twa_ge s (w / 8 * 8 + 8) 0%nat).
    pose proof (Z.div_mod w 8 ltac:(lia)). pose proof (Z.mod_pos_bound w 8 ltac:(lia)). lia.
  - pose proof (twa_ge s (w + 1) (pred (rune_size c s))). lia.
Qed.

(* looking ahead into appended blanks never completes a rune *)
Lemma rune_size_app_blank c r t : blankb t = true -> rune_size c (r ++ t) = rune_size c r.
Proof.
  intro Ht. unfold rune_size.
  destruct (lead_info c) as [[[sz lo] hi]|] eqn:E; [|reflexivity].
  apply lead_info_lo in E as [Hlo Hsz].
  assert (Hb : forall lo' hi' t', (128 <= lo')%N -> blankb t' = true ->
            match t' with b :: _ => in_rng lo' hi' b = false | [] => True end).
  { intros lo' hi' [|b t'] Hl Hbl; [exact I|]. simpl in Hbl.
    apply andb_true_iff in Hbl as [Hbl _]. unfold is_hspace, in_rng in *. lia. }
  destruct r as [|b1 r1]; cbn [app].
  - pose proof (Hb lo hi t Hlo Ht) as H1. destruct t as [|b t']; [reflexivity|]. rewrite H1. reflexivity.
  - destruct (in_rng lo hi b1); [|reflexivity].
    destruct sz as [|[|[|[|sz]]]]; try lia; try reflexivity.
    + destruct r1 as [|b2 r2]; cbn [app].
      * pose proof (Hb 128%N 191%N t ltac:(lia) Ht) as H1. destruct t as [|b t']; [reflexivity|]. rewrite H1. reflexivity.
      * reflexivity.
    + destruct r1 as [|b2 r2]; cbn [app].
      * pose proof (Hb 128%N 191%N t ltac:(lia) Ht) as H1. destruct t as [|b t']; [reflexivity|]. rewrite H1. reflexivity.
      * destruct (in_rng 128 191 b2); [|reflexivity].
        destruct sz; [|lia].
        destruct r2 as [|b3 r3]; cbn [app].
        -- pose proof (Hb 128%N 191%N t ltac:(lia) Ht) as H1. destruct t as [|b t']; [reflexivity|]. rewrite H1. reflexivity.
        -- reflexivity.
Qed.

Lemma twa_app_blank t : blankb t = true -> forall s w k, (k <= length s)%nat ->
  twa w k (s ++ t) = twa (twa w k s) 0 t.
Proof.
  intros Ht s. induction s as [|c s IH]; intros w k Hk.
  - simpl in Hk. replace k with 0%nat by lia. reflexivity.
  - simpl app. simpl. destruct k as [|k].
    + destruct (c =? TAB)%N.
      * apply IH. lia.
      * rewrite rune_size_app_blank by exact Ht. apply IH.
        pose proof (rune_size_tail c s) as [_ Hl]. exact Hl.
    + apply IH. simpl in Hk. lia.
Qed.

(* alignment_reaches on strings: appending the alignment to s brings it to width w *)
Lemma alignment_reaches s w : tab_width s <= w ->
  exists a, alignmentToWidths (tab_width s) w = Some a /\ tab_width (s ++ a) = w /\ blankb a = true.
Proof.
  intro H.
  assert (H0 : 0 <= tab_width s) by (apply twa0_nonneg; lia).
  destruct (alignment_reaches_w (tab_width s) w ltac:(lia)) as (a & E & R & B).
  exists a. split; [exact E|]. split; [|exact B].
  unfold tab_width, twa0. rewrite twa_app_blank by (auto; lia). exact R.
Qed.

(* ---------- alignmentAfter / alignWith ---------- *)

Lemma alignmentAfter_reaches prefix w : has_nl prefix = false -> tab_width prefix <= w ->
  exists a, alignmentAfter prefix w = Some a /\ tab_width (prefix ++ a) = w /\ blankb a = true.
Proof.
  intros Hn H. unfold alignmentAfter, tabWidth. rewrite tabWidthAppend_spec, Hn.
  fold (tab_width prefix).
  assert (H0 : 0 <= tab_width prefix) by (apply twa0_nonneg; lia).
  destruct (Z.ltb_spec w (tab_width prefix)); [lia|].
  destruct (alignment_reaches prefix w H) as (a & E & R & B).
  unfold alignmentToWidths in E.
  destruct (Z.leb_spec w (tab_width prefix)) as [Hle|Hlt].
  - (* width = pw: indent 0 = "" *)
    assert (tab_width prefix = w) by lia. inversion E; subst a.
    exists []. rewrite H2, Z.eqb_refl. cbn [negb]. rewrite Z.sub_diag. split; [reflexivity|].
    rewrite app_nil_r. split; [exact H2|reflexivity].
  - exists a. split; [exact E|]. split; assumption.
Qed.

Lemma alignWith_spec s other r : alignWith s other = Some r ->
  exists a, r = s ++ a /\ blankb a = true.
Proof.
  unfold alignWith, alignmentTo. destruct (tabWidth s); [|discriminate].
  destruct (tabWidth other); [|discriminate].
  destruct (alignmentToWidths z z0) as [a|] eqn:E; [|discriminate].
  intro H; inversion H; subst. exists a. split; [reflexivity|]. eapply alignmentToWidths_blank, E.
Qed.

Lemma alignWith_reaches s other : has_nl s = false -> has_nl other = false -> tab_width s <= tab_width other ->
  exists a, alignWith s other = Some (s ++ a) /\ tab_width (s ++ a) = tab_width other /\ blankb a = true.
Proof.
  intros Hs Ho H. destruct (alignment_reaches s (tab_width other) H) as (a & E & R & B).
  exists a. unfold alignWith, alignmentTo, tabWidth. rewrite !tabWidthAppend_spec, Hs, Ho.
  fold (tab_width s) (tab_width other). rewrite E. auto.
Qed.

(* ---------- rtrimHspace ---------- *)

Lemma rtrimHspace_split s : exists t, s = rtrimHspace s ++ t /\ blankb t = true.
Proof.
  induction s as [|c s (t & E & B)]; [exists []; auto|].
  simpl. destruct (rtrimHspace s) as [|d r] eqn:R.
  - destruct (is_hspace c) eqn:Hc.
    + exists (c :: s). split; [reflexivity|]. simpl. rewrite Hc. simpl in E. subst s. exact B.
    + exists t. simpl in *. rewrite E at 1. split; [reflexivity|exact B].
  - exists t. rewrite E at 1. split; [reflexivity|exact B].
Qed.

Lemma rtrimHspace_idem s : rtrimHspace (rtrimHspace s) = rtrimHspace s.
Proof.
  induction s as [|c s IH]; [reflexivity|]. simpl.
  destruct (rtrimHspace s) as [|d r] eqn:R.
  - destruct (is_hspace c) eqn:Hc; simpl; [reflexivity|]. rewrite Hc. reflexivity.
  - simpl. simpl in IH. destruct (rtrimHspace r); [destruct (is_hspace d) eqn:Hd; [discriminate|]|];
      inversion IH; subst; try rewrite H0; reflexivity.
Qed.
