(* The invariant of the whole run: the cache is well formed, views own disjoint
   blocks of Line objects, every cache entry holds the Line objects of exactly one
   view (its first view), and an entry is either clean (its lines are what
   convert gives for the file as it is on disk) or one of its lines carries a
   modified fix and that view is pending. *)
From PV Require Import Lib.Bytes Model.FileCache Proofs.FileCacheLists Proofs.FileCacheWf.
From Coq Require Import Permutation Arith.
Open Scope N_scope.
Arguments map_set : simpl never.

Definition val_of (l : line) : lval := (ln_lineno l, ln_text l, ln_raw l).

(* ---------- heap helpers ---------- *)

Lemma line_at_app_l (h nl : heap) a : (a < length h)%nat -> line_at (h ++ nl) a = line_at h a.
Proof. intros; apply app_nth1; auto. Qed.

Lemma line_at_app_r (h nl : heap) i : line_at (h ++ nl) (length h + i) = nth i nl dummy_line.
Proof. unfold line_at. rewrite app_nth2 by lia. f_equal; lia. Qed.

Lemma line_at_upd_same (h : heap) a l : (a < length h)%nat -> line_at (upd a l h) a = l.
Proof. apply nth_upd_same. Qed.

Lemma line_at_upd_other (h : heap) a b l : a <> b -> line_at (upd a l h) b = line_at h b.
Proof. apply nth_upd_other. Qed.

Lemma nth_error_snoc {A} (l : list A) x v y :
  nth_error (l ++ [x]) v = Some y ->
  ((v < length l)%nat /\ nth_error l v = Some y) \/ (v = length l /\ y = x).
Proof.
  intros H. destruct (Nat.lt_ge_cases v (length l)).
  - left. rewrite nth_error_app1 in H; auto.
  - right. rewrite nth_error_app2 in H by auto.
    destruct (v - length l)%nat eqn:E; simpl in H.
    + inversion H. split; auto. lia.
    + destruct n; discriminate.
Qed.

Lemma nth_error_snoc_old {A} (l : list A) x v y :
  nth_error l v = Some y -> nth_error (l ++ [x]) v = Some y.
Proof. intros H. rewrite nth_error_app1; auto. apply nth_error_Some. congruence. Qed.


Lemma map_seq_app {B} (f : line -> B) (nl : heap) : forall h : heap,
  map (fun a => f (line_at (h ++ nl) a)) (seq (length h) (length nl)) = map f nl.
Proof.
  induction nl as [|x t IH]; intros h; simpl; auto. f_equal.
  - replace (length h) with (length h + 0)%nat at 1 by lia. rewrite line_at_app_r. auto.
  - replace (h ++ x :: t) with ((h ++ [x]) ++ t) by (rewrite <- app_assoc; auto).
    replace (S (length h)) with (length (h ++ [x])) by (rewrite app_length; simpl; lia).
    apply IH.
Qed.

(* ---------- Autofix leaves everything but Text and the fix alone ---------- *)

Lemma apply_fixop_props md text fx op text' fx' acted :
  apply_fixop md text fx op = Ok (text', fx', acted) ->
  fx_modified fx' = fx_modified fx /\ (acted = false -> text' = text).
Proof.
  destruct op as [ri ti from to|prefix from to|t|t|]; simpl.
  - destruct (str_eqb from to); [discriminate|].
    destruct (nth_error (fx_texts fx) ri); [|discriminate].
    destruct (negb (ti <? length s)%nat); [discriminate|].
    destruct (negb (has_prefix from (skipn ti s))); [discriminate|].
    intros H; inversion H; subst; simpl. split; auto. discriminate.
  - destruct (negb _).
    + intros H; inversion H; subst; auto.
    + destruct (replace_first _ _ _) as [[ri replaced]|].
      * destruct (is_autofix md); intros H; inversion H; subst; simpl; split; auto; discriminate.
      * intros H; inversion H; subst; auto.
  - intros H; inversion H; subst; simpl; auto.
  - intros H; inversion H; subst; simpl; auto.
  - intros H; inversion H; subst; simpl; auto.
Qed.

Lemma is_modified_autofix_of l : fx_modified (autofix_of l) = is_modified l.
Proof. unfold autofix_of, is_modified. destruct (ln_fix l); auto. Qed.

Lemma fix_line_props md l f l' acted :
  fix_line md l f = Ok (l', acted) ->
  ln_file l' = ln_file l /\ ln_lineno l' = ln_lineno l /\ ln_raw l' = ln_raw l /\
  is_modified l' = (is_modified l || acted)%bool /\ (acted = false -> ln_text l' = ln_text l).
Proof.
  unfold fix_line. destruct (ln_lineno l <? 1); [discriminate|].
  destruct (apply_fixop md (ln_text l) (autofix_of l) f) as [[[text' fx'] a]|w] eqn:E; simpl; [|discriminate].
  intros H; inversion H; subst; clear H. simpl.
  destruct (apply_fixop_props _ _ _ _ _ _ _ E) as [Hm Ht].
  rewrite Hm, is_modified_autofix_of. auto.
Qed.

(* ---------- the invariant ---------- *)

Section Invariant.
Variable convert : str -> N -> list lval.
Variable is_mk : N -> bool.

Definition entry_clean (s : state) (e : entry) : Prop :=
  exists raw, map_get (e_key e) (st_disk s) = Some raw /\
    (is_empty raw && has_opt (e_opts e) NotEmpty)%bool = false /\
    map (fun a => val_of (line_at (st_heap s) a)) (e_lines e) = convert raw (e_opts e).

Record Inv (s : state) : Prop := {
  inv_wf : wf_cache (st_cache s);
  inv_cap : (1 <= c_cap (st_cache s))%nat;
  inv_views : forall v fn addrs a, nth_error (st_views s) v = Some (fn, addrs) -> In a addrs ->
    (a < length (st_heap s))%nat /\ ln_file (line_at (st_heap s) a) = fn;
  inv_disj : forall v w fv av fw aw a,
    nth_error (st_views s) v = Some (fv, av) -> nth_error (st_views s) w = Some (fw, aw) ->
    In a av -> In a aw -> v = w;
  inv_first : forall eid, In eid (c_table (st_cache s)) ->
    exists v fn, nth_error (st_views s) v = Some (fn, e_lines (entry_at (c_store (st_cache s)) eid)) /\
                 key fn = e_key (entry_at (c_store (st_cache s)) eid);
  inv_pending : forall eid a, In eid (c_table (st_cache s)) ->
    In a (e_lines (entry_at (c_store (st_cache s)) eid)) ->
    is_modified (line_at (st_heap s) a) = true ->
    exists v fn addrs, nth_error (st_views s) v = Some (fn, addrs) /\ In a addrs /\ In v (st_pending s);
  inv_clean : forall eid, In eid (c_table (st_cache s)) ->
    (forall a, In a (e_lines (entry_at (c_store (st_cache s)) eid)) -> is_modified (line_at (st_heap s) a) = false) ->
    entry_clean s (entry_at (c_store (st_cache s)) eid)
}.

Lemma Inv_init cap disk : (1 <= cap)%nat -> Inv (init_state cap disk).
Proof.
  intros H. constructor; simpl; try tauto; auto.
  - apply wf_new.
  - intros v fn addrs a Hn. destruct v; discriminate.
  - intros v w fv av fw aw a Hn. destruct v; discriminate.
Qed.

(* The cache loses entries (or only counters change); heap and views stay. *)
Lemma Inv_shrink s c' disk' pend' :
  Inv s -> wf_cache c' -> c_cap c' = c_cap (st_cache s) ->
  (forall eid, In eid (c_table c') -> In eid (c_table (st_cache s)) /\
     shape (entry_at (c_store c') eid) = shape (entry_at (c_store (st_cache s)) eid)) ->
  (forall eid, In eid (c_table c') ->
     map_get (e_key (entry_at (c_store c') eid)) disk' = map_get (e_key (entry_at (c_store c') eid)) (st_disk s)) ->
  (forall eid a, In eid (c_table c') -> In a (e_lines (entry_at (c_store c') eid)) ->
     is_modified (line_at (st_heap s) a) = true ->
     exists v fn addrs, nth_error (st_views s) v = Some (fn, addrs) /\ In a addrs /\ In v pend') ->
  Inv (mkState c' (st_heap s) (st_views s) disk' pend').
Proof.
  intros I W HC HT HD HP. destruct I as [IW ICap IV ID IF IP IC].
  assert (HK : forall eid, In eid (c_table c') ->
           e_key (entry_at (c_store c') eid) = e_key (entry_at (c_store (st_cache s)) eid) /\
           e_opts (entry_at (c_store c') eid) = e_opts (entry_at (c_store (st_cache s)) eid) /\
           e_lines (entry_at (c_store c') eid) = e_lines (entry_at (c_store (st_cache s)) eid)).
  { intros eid H. destruct (HT _ H) as [_ HS]. unfold shape in HS. inversion HS; auto. }
  constructor; simpl; auto.
  - lia.
  - intros eid H. destruct (HT _ H) as [Hin _]. destruct (HK _ H) as (K1 & K2 & K3).
    rewrite K1, K3. auto.
  - intros eid H Hcl. destruct (HT _ H) as [Hin _]. destruct (HK _ H) as (K1 & K2 & K3).
    rewrite K3 in Hcl. destruct (IC _ Hin Hcl) as (raw & R1 & R2 & R3).
    exists raw. unfold entry_clean; simpl. rewrite HD by auto. rewrite K1, K2, K3. auto.
Qed.

(* New Line objects are appended and handed out as a new view; the cache may get
   one entry for exactly this view. *)
Lemma Inv_extend s c' fn (nl : heap) :
  Inv s -> wf_cache c' -> c_cap c' = c_cap (st_cache s) ->
  (forall l, In l nl -> ln_file l = fn /\ ln_fix l = None) ->
  (forall eid, In eid (c_table c') ->
     (In eid (c_table (st_cache s)) /\
      shape (entry_at (c_store c') eid) = shape (entry_at (c_store (st_cache s)) eid)) \/
     (e_lines (entry_at (c_store c') eid) = seq (length (st_heap s)) (length nl) /\
      e_key (entry_at (c_store c') eid) = key fn /\
      exists raw, map_get (key fn) (st_disk s) = Some raw /\
        (is_empty raw && has_opt (e_opts (entry_at (c_store c') eid)) NotEmpty)%bool = false /\
        map val_of nl = convert raw (e_opts (entry_at (c_store c') eid)))) ->
  Inv (mkState c' (st_heap s ++ nl) (st_views s ++ [(fn, seq (length (st_heap s)) (length nl))])
               (st_disk s) (st_pending s)).
Proof.
  intros I W HC HN HT. destruct I as [IW ICap IV ID IF IP IC].
  assert (Hold : forall eid, In eid (c_table (st_cache s)) -> forall a,
            In a (e_lines (entry_at (c_store (st_cache s)) eid)) -> (a < length (st_heap s))%nat).
  { intros eid H a Ha. destruct (IF _ H) as (v & f & Hv & _). destruct (IV _ _ _ _ Hv Ha); auto. }
  assert (Hnew : forall a, In a (seq (length (st_heap s)) (length nl)) ->
            exists l, In l nl /\ line_at (st_heap s ++ nl) a = l).
  { intros a Ha. apply in_seq in Ha. exists (nth (a - length (st_heap s)) nl dummy_line). split.
    - apply nth_In. lia.
    - replace a with (length (st_heap s) + (a - length (st_heap s)))%nat at 1 by lia. apply line_at_app_r. }
  constructor; simpl; auto.
  - lia.
  - intros v f addrs a Hv Ha. rewrite app_length.
    destruct (nth_error_snoc _ _ _ _ Hv) as [[_ Hv']|[_ Heq]].
    + destruct (IV _ _ _ _ Hv' Ha) as [HL HF]. split; [lia|]. rewrite line_at_app_l; auto.
    + inversion Heq; subst. destruct (Hnew _ Ha) as (l & Hl & ->). apply in_seq in Ha.
      split; [lia|]. apply HN; auto.
  - intros v w fv av fw aw a Hv Hw Ha Ha'.
    destruct (nth_error_snoc _ _ _ _ Hv) as [[Lv Hv']|[Ev Heqv]];
      destruct (nth_error_snoc _ _ _ _ Hw) as [[Lw Hw']|[Ew Heqw]].
    + eapply ID; eauto.
    + inversion Heqw; subst. apply in_seq in Ha'. destruct (IV _ _ _ _ Hv' Ha). lia.
    + inversion Heqv; subst. apply in_seq in Ha. destruct (IV _ _ _ _ Hw' Ha'). lia.
    + congruence.
  - intros eid H. destruct (HT _ H) as [[Hin HS]|(HL & HK & _)].
    + unfold shape in HS. inversion HS as [[K1 K2 K3]]. rewrite K1, K3.
      destruct (IF _ Hin) as (v & f & Hv & Hk). exists v, f. split; auto. apply nth_error_snoc_old; auto.
    + exists (length (st_views s)), fn. rewrite HL, HK. split; auto.
      rewrite nth_error_app2, Nat.sub_diag; auto.
  - intros eid a H Ha Hm. destruct (HT _ H) as [[Hin HS]|(HL & _)].
    + unfold shape in HS. inversion HS as [[K1 K2 K3]]. rewrite K3 in Ha.
      rewrite line_at_app_l in Hm by (eapply Hold; eauto).
      destruct (IP _ _ Hin Ha Hm) as (v & f & addrs & Hv & Hia & Hp).
      exists v, f, addrs. split; auto. apply nth_error_snoc_old; auto.
    + rewrite HL in Ha. destruct (Hnew _ Ha) as (l & Hl & E). rewrite E in Hm.
      unfold is_modified in Hm. destruct (HN _ Hl) as [_ Hf]. rewrite Hf in Hm. discriminate.
  - intros eid H Hcl. destruct (HT _ H) as [[Hin HS]|(HL & HK & raw & R1 & R2 & R3)].
    + unfold shape in HS. inversion HS as [[K1 K2 K3]].
      assert (Hcl' : forall a, In a (e_lines (entry_at (c_store (st_cache s)) eid)) ->
                is_modified (line_at (st_heap s) a) = false).
      { intros a Ha. rewrite <- (line_at_app_l _ nl) by (eapply Hold; eauto). apply Hcl. rewrite K3; auto. }
      destruct (IC _ Hin Hcl') as (raw & R1 & R2 & R3).
      exists raw. simpl. rewrite K1, K2, K3. split; auto. split; auto.
      rewrite <- R3. apply map_ext_in. intros a Ha. rewrite line_at_app_l; auto. eapply Hold; eauto.
    + exists raw. simpl. rewrite HK, HL. split; auto. split; auto.
      rewrite <- R3. apply map_seq_app.
Qed.

(* ---------- Get, described ---------- *)

Definition fresh_copy (fn : fname) (h : heap) (a : nat) : line :=
  let l := line_at h a in mkLine fn (ln_lineno l) (ln_text l) (ln_raw l) None.

Lemma get_spec c h fn o c1 h1 r : get c h fn o = (c1, h1, r) ->
  (exists eid, map_get (key fn) (c_map c) = Some eid /\ e_opts (entry_at (c_store c) eid) = o /\
     h1 = h ++ map (fresh_copy fn h) (e_lines (entry_at (c_store c) eid)) /\
     r = Some (seq (length h) (length (e_lines (entry_at (c_store c) eid))))) \/
  (h1 = h /\ r = None /\
   (map_get (key fn) (c_map c) = None \/
    exists eid, map_get (key fn) (c_map c) = Some eid /\ e_opts (entry_at (c_store c) eid) <> o)).
Proof.
  unfold get. destruct (map_get (key fn) (c_map c)) as [eid|] eqn:E.
  - destruct (N.eqb_spec (e_opts (entry_at (c_store c) eid)) o) as [Ho|Ho].
    + intros H; inversion H; subst; clear H. left. exists eid. rewrite map_length. auto.
    + intros H; inversion H; subst; clear H. right. split; auto. split; auto. right. eauto.
  - intros H; inversion H; subst; clear H. right. auto.
Qed.

Lemma val_of_new_line fn v : val_of (new_line fn v) = v.
Proof. destruct v as [[no text] raw]. reflexivity. Qed.

Lemma map_val_of_new_line fn vals : map val_of (map (new_line fn) vals) = vals.
Proof. rewrite map_map. rewrite <- (map_id vals) at 2. apply map_ext. apply val_of_new_line. Qed.

Lemma new_line_props fn v : ln_file (new_line fn v) = fn /\ ln_fix (new_line fn v) = None.
Proof. destruct v as [[no text] raw]. auto. Qed.

(* ---------- Load keeps the invariant ---------- *)

Lemma Inv_cache_counters s c1 :
  Inv s -> wf_cache c1 -> c_cap c1 = c_cap (st_cache s) -> c_table c1 = c_table (st_cache s) ->
  same_shape (c_store (st_cache s)) (c_store c1) ->
  Inv (mkState c1 (st_heap s) (st_views s) (st_disk s) (st_pending s)).
Proof.
  intros I W HC HT [HL HS]. apply Inv_shrink; auto.
  - intros eid H. rewrite HT in H. auto.
  - intros eid a H Ha Hm. rewrite HT in H. specialize (HS eid). unfold shape in HS. inversion HS as [[K1 K2 K3]].
    rewrite K3 in Ha. eapply inv_pending; eauto.
Qed.

Lemma Inv_load s fn o s' r : Inv s -> load convert is_mk s fn o = Ok (s', r) -> Inv s'.
Proof.
  intros I. unfold load.
  destruct (get (st_cache s) (st_heap s) fn o) as [[c1 h1] r0] eqn:G.
  destruct (wf_get _ _ _ _ _ _ _ (inv_wf _ I) G) as (W1 & HC1 & HT1 & HM1 & HS1).
  destruct (get_spec _ _ _ _ _ _ _ G) as [(eid & E & Ho & -> & ->)|(-> & -> & _)].
  - (* hit *)
    intros H; inversion H; subst; clear H.
    rewrite <- (map_length (fresh_copy fn (st_heap s))).
    apply Inv_extend; auto.
    + intros l Hl. apply in_map_iff in Hl. destruct Hl as (a & <- & _). auto.
    + intros eid' H'. left. rewrite HT1 in H'. split; auto. destruct HS1 as [_ HS]. apply HS.
  - (* miss *)
    pose proof (Inv_cache_counters s c1 I W1 HC1 HT1 HS1) as I1.
    destruct (map_get (key fn) (st_disk s)) as [raw|] eqn:D.
    + destruct (is_empty raw && has_opt o NotEmpty)%bool eqn:Emp.
      * destruct (has_opt o MustSucceed); [discriminate|]. intros H; inversion H; subst; auto.
      * set (vals := convert raw o).
        destruct (is_mk (key fn)) eqn:Mk.
        -- destruct (wf_put c1 (key fn) o (seq (length (st_heap s)) (length vals)) W1) as (c2 & eid0 & P & W2 & HC2 & HG2 & HE2 & HO2).
           { rewrite HC1. apply (inv_cap _ I). }
           rewrite P. simpl. intros H; inversion H; subst; clear H.
           rewrite <- (map_length (new_line fn) vals).
           apply (Inv_extend (mkState c1 (st_heap s) (st_views s) (st_disk s) (st_pending s))); simpl; auto.
           ++ intros l Hl. apply in_map_iff in Hl. destruct Hl as (v & <- & _). apply new_line_props.
           ++ intros eid' H'. destruct (Nat.eq_dec eid' eid0) as [->|Hne].
              ** right. rewrite HE2. simpl. rewrite map_length. split; auto. split; auto.
                 exists raw. split; auto. split; auto. apply map_val_of_new_line.
              ** left. apply HO2; auto.
        -- simpl. intros H; inversion H; subst; clear H.
           rewrite <- (map_length (new_line fn) vals).
           apply (Inv_extend (mkState c1 (st_heap s) (st_views s) (st_disk s) (st_pending s))); simpl; auto.
           ++ intros l Hl. apply in_map_iff in Hl. destruct Hl as (v & <- & _). apply new_line_props.
    + destruct (has_opt o MustSucceed); [discriminate|]. intros H; inversion H; subst; auto.
Qed.

(* ---------- a fix through a view ---------- *)

Lemma in_cons_remove_nat v w l : In w l -> In w (v :: remove_nat v l).
Proof.
  intros H. destruct (Nat.eq_dec w v) as [->|Hne]; [left; auto|right].
  unfold remove_nat. apply filter_In. split; auto. destruct (Nat.eqb_spec w v); auto; congruence.
Qed.

Lemma Inv_fix md s v i f s' ob : Inv s -> step convert is_mk md s (OFix v i f) = Ok (s', ob) -> Inv s'.
Proof.
  intros I. simpl.
  destruct (nth_error (st_views s) v) as [[fn addrs]|] eqn:V; [|intros H; inversion H; subst; auto].
  destruct (nth_error addrs i) as [a|] eqn:A; [|intros H; inversion H; subst; auto].
  destruct (fix_line md (line_at (st_heap s) a) f) as [[l' acted]|w] eqn:F; simpl; [|discriminate].
  intros H; inversion H; subst; clear H.
  destruct (fix_line_props _ _ _ _ _ F) as (PF & PN & PR & PM & PT).
  assert (Ha : In a addrs) by (eapply nth_error_In; eauto).
  destruct I as [IW ICap IV ID IF IP IC].
  destruct (IV _ _ _ _ V Ha) as [HaL HaF].
  constructor; simpl; auto.
  - intros v0 fn0 addrs0 a0 Hv0 Ha0. rewrite upd_length.
    destruct (IV _ _ _ _ Hv0 Ha0) as [HL HF]. split; auto.
    destruct (Nat.eq_dec a a0) as [<-|Hne].
    + rewrite line_at_upd_same by auto. congruence.
    + rewrite line_at_upd_other; auto.
  - intros eid a0 Hin Ha0 Hm.
    destruct (Nat.eq_dec a a0) as [<-|Hne].
    + exists v, fn, addrs. split; [auto|split; [auto|simpl; auto]].
    + rewrite line_at_upd_other in Hm by auto.
      destruct (IP _ _ Hin Ha0 Hm) as (w & fw & aw & Hw & Hia & Hp).
      exists w, fw, aw. split; auto. split; auto. apply in_cons_remove_nat; auto.
  - intros eid Hin Hcl.
    assert (Hcl' : forall a0, In a0 (e_lines (entry_at (c_store (st_cache s)) eid)) ->
              is_modified (line_at (st_heap s) a0) = false).
    { intros a0 Ha0. specialize (Hcl a0 Ha0). destruct (Nat.eq_dec a a0) as [<-|Hne].
      - rewrite line_at_upd_same in Hcl by auto. rewrite PM in Hcl. apply orb_false_iff in Hcl. tauto.
      - rewrite line_at_upd_other in Hcl; auto. }
    destruct (IC _ Hin Hcl') as (raw & R1 & R2 & R3). exists raw. simpl. split; auto. split; auto.
    rewrite <- R3. apply map_ext_in. intros a0 Ha0.
    destruct (Nat.eq_dec a a0) as [<-|Hne].
    + rewrite line_at_upd_same by auto. specialize (Hcl a Ha0). rewrite line_at_upd_same in Hcl by auto.
      rewrite PM in Hcl. apply orb_false_iff in Hcl. destruct Hcl as [_ Hact].
      unfold val_of. rewrite PN, PR, (PT Hact). auto.
    + rewrite line_at_upd_other; auto.
Qed.

(* ---------- evicting a list of keys ---------- *)

Definition evicts (ks : list N) (c : cache) : cache := fold_left evict ks c.

Lemma evict_keeps_none c k k' : map_get k (c_map c) = None -> map_get k (c_map (evict c k')) = None.
Proof.
  intros H. unfold evict. destruct (map_get k' (c_map c)); simpl; auto.
  rewrite map_get_del. destruct (k =? k'); auto.
Qed.

Lemma evicts_spec ks : forall c, wf_cache c ->
  wf_cache (evicts ks c) /\ c_cap (evicts ks c) = c_cap c /\ c_store (evicts ks c) = c_store c /\
  (forall eid, In eid (c_table (evicts ks c)) -> In eid (c_table c)) /\
  (forall k, In k ks -> map_get k (c_map (evicts ks c)) = None) /\
  (forall k, map_get k (c_map c) = None -> map_get k (c_map (evicts ks c)) = None).
Proof.
  unfold evicts. induction ks as [|k t IH]; intros c W; simpl.
  - split; auto. split; auto. split; auto. split; auto. split; auto. intros k0 [].
  - destruct (IH (evict c k) (wf_evict c k W)) as (W' & HC & HS & HT & HN & HP).
    split; auto. split; [rewrite HC; apply evict_cap|]. split; [rewrite HS; apply evict_store|].
    split; [intros eid H; eapply evict_table_incl; eauto|]. split.
    + intros k' [Hk|Hk]; auto. subst k'. apply HP. apply evict_no_key; auto.
    + intros k' H. apply HP. apply evict_keeps_none; auto.
Qed.

(* ---------- SaveAutofixChanges, described ---------- *)

Lemma fname_eqb_eq a b : fname_eqb a b = true <-> a = b.
Proof.
  destruct a as [a1 a2], b as [b1 b2]. unfold fname_eqb; simpl.
  rewrite andb_true_iff, !N.eqb_eq. split; [intros [-> ->]; auto|intros H; inversion H; auto].
Qed.

Lemma nodup_fname_in x l : In x l -> In x (nodup_fname l).
Proof.
  induction l as [|y t IH]; simpl; auto. intros [->|H].
  - destruct (existsb (fname_eqb x) t) eqn:E; [|left; auto].
    apply existsb_exists in E. destruct E as (z & Hz & Heq). apply fname_eqb_eq in Heq. subst z. auto.
  - destruct (existsb (fname_eqb y) t); [|right]; auto.
Qed.

Lemma save_fast_lane ls : forall c,
  fold_left (fun c l => if is_modified l then evict c (key (ln_file l)) else c) ls c =
  evicts (map (fun l => key (ln_file l)) (filter is_modified ls)) c.
Proof.
  unfold evicts. induction ls as [|l t IH]; intros c; simpl; auto.
  destruct (is_modified l); simpl; auto.
Qed.

Definition save_one (content : fname -> str) (fail : list N) (d : list (N * str)) (fn : fname) :=
  if key_in (key fn) fail then d else map_set (key fn) (content fn) d.
Definition saved_of (content : fname -> str) (fail : list N) (fn : fname) : list (N * str) :=
  if key_in (key fn) fail then [] else [(key fn, content fn)].

Lemma save_autofix_fold (content : fname -> str) fail changed : forall c d w,
  fold_left (fun '(c, d, w) fn =>
               if key_in (key fn) fail then (evict c (key fn), d, w)
               else (evict c (key fn), map_set (key fn) (content fn) d, w ++ [(key fn, content fn)]))
            changed (c, d, w) =
  (evicts (map key changed) c,
   fold_left (save_one content fail) changed d,
   w ++ flat_map (saved_of content fail) changed).
Proof.
  unfold evicts. induction changed as [|fn t IH]; intros c d w; simpl.
  - rewrite app_nil_r; auto.
  - replace (save_one content fail d fn) with (if key_in (key fn) fail then d else map_set (key fn) (content fn) d) by reflexivity.
    replace (saved_of content fail fn) with (if key_in (key fn) fail then [] else [(key fn, content fn)]) by reflexivity.
    destruct (key_in (key fn) fail); rewrite IH; simpl; [auto|rewrite <- app_assoc; auto].
Qed.

Lemma fold_map_set_other (content : fname -> str) fail changed k : forall d,
  ~ In k (map key changed) ->
  map_get k (fold_left (save_one content fail) changed d) = map_get k d.
Proof.
  induction changed as [|fn t IH]; intros d H; simpl; auto.
  rewrite IH by (intros H'; apply H; right; auto).
  unfold save_one. destruct (key_in (key fn) fail); auto.
  apply map_get_set_other. intros ->. apply H; left; auto.
Qed.

(* a file whose rewrite fails keeps its content *)
Lemma fold_save_one_failed (content : fname -> str) fail changed k : forall d,
  key_in k fail = true ->
  map_get k (fold_left (save_one content fail) changed d) = map_get k d.
Proof.
  induction changed as [|fn t IH]; intros d H; simpl; auto.
  rewrite IH by auto. unfold save_one.
  destruct (key_in (key fn) fail) eqn:E; auto.
  apply map_get_set_other. intros ->. congruence.
Qed.

Lemma saved_of_in (content : fname -> str) fail changed k x :
  In (k, x) (flat_map (saved_of content fail) changed) ->
  In k (map key changed) /\ key_in k fail = false.
Proof.
  intros H. apply in_flat_map in H. destruct H as (fn & Hfn & Hin).
  unfold saved_of in Hin. destruct (key_in (key fn) fail) eqn:E; [destruct Hin|].
  destruct Hin as [Heq|[]]. inversion Heq; subst. split; auto. apply in_map; auto.
Qed.

Lemma save_lines_spec md fail c disk ls c' d' w : save_lines md fail c disk ls = (c', d', w) ->
  exists ks, c' = evicts ks c /\
    (forall l, In l ls -> is_modified l = true -> In (key (ln_file l)) ks) /\
    (forall k, ~ In k ks -> map_get k d' = map_get k disk) /\
    (forall k x, In (k, x) w -> In k ks).
Proof.
  unfold save_lines. destruct (negb (opt_autofix md)).
  - rewrite save_fast_lane. intros H; inversion H; subst; clear H.
    eexists; split; [reflexivity|]. split; [|split; auto].
    + intros l Hl Hm. apply in_map_iff. exists l. split; auto. apply filter_In; auto.
    + intros k x [].
  - rewrite save_autofix_fold. intros H; inversion H; subst; clear H.
    eexists; split; [reflexivity|]. split; [|split].
    + intros l Hl Hm. apply in_map. apply nodup_fname_in. apply in_map_iff. exists l. split; auto. apply filter_In; auto.
    + intros k Hk. apply fold_map_set_other; auto.
    + intros k x Hin. simpl in Hin. apply saved_of_in in Hin. destruct Hin; auto.
Qed.

(* what a failing rewrite leaves behind: nothing reported, the disk as it was *)
Lemma save_lines_failed md fail c disk ls c' d' w : save_lines md fail c disk ls = (c', d', w) ->
  forall k, key_in k fail = true ->
    map_get k d' = map_get k disk /\ ~ In k (map fst w).
Proof.
  unfold save_lines. destruct (negb (opt_autofix md)).
  - intros H; inversion H; subst. intros k _. split; auto.
  - rewrite save_autofix_fold. intros H; inversion H; subst; clear H. intros k Hk. split.
    + apply fold_save_one_failed; auto.
    + simpl. intros Hin. apply in_map_iff in Hin. destruct Hin as ([k' x] & Heq & Hin). simpl in Heq. subst k'.
      apply saved_of_in in Hin. destruct Hin. congruence.
Qed.

Lemma in_remove_nat v w l : In w l -> w <> v -> In w (remove_nat v l).
Proof.
  intros H Hne. unfold remove_nat. apply filter_In. split; auto. destruct (Nat.eqb_spec w v); auto; congruence.
Qed.

Lemma Inv_save md s v fl s' ob : Inv s -> step convert is_mk md s (OSave v fl) = Ok (s', ob) -> Inv s'.
Proof.
  intros I. simpl. unfold view_lines.
  destruct (nth_error (st_views s) v) as [[fn addrs]|] eqn:V; [|intros H; inversion H; subst; auto].
  destruct (save_lines md fl (st_cache s) (st_disk s) (map (line_at (st_heap s)) addrs)) as [[c' d'] w] eqn:S.
  intros H; inversion H; subst; clear H.
  destruct (save_lines_spec _ _ _ _ _ _ _ _ S) as (ks & -> & HK & HD & _).
  destruct (evicts_spec ks _ (inv_wf _ I)) as (W' & HC & HS & HT & HN & _).
  assert (Hnokey : forall eid, In eid (c_table (evicts ks (st_cache s))) ->
             ~ In (e_key (entry_at (c_store (st_cache s)) eid)) ks).
  { intros eid Hin Hk. destruct (wf_in_get _ W' _ Hin) as [_ HG]. rewrite HS in HG.
    rewrite (HN _ Hk) in HG. discriminate. }
  apply Inv_shrink; auto.
  - intros eid Hin. rewrite HS. auto.
  - intros eid Hin. rewrite HS. apply HD. auto.
  - intros eid a Hin Ha Hm. rewrite HS in Ha.
    destruct (inv_pending _ I _ _ (HT _ Hin) Ha Hm) as (u & fu & au & Hu & Hau & Hp).
    exists u, fu, au. split; auto. split; auto. apply in_remove_nat; auto.
    intros ->. rewrite V in Hu. inversion Hu; subst fu au; clear Hu.
    (* the modified line belongs to the saved view: its file was evicted *)
    destruct (inv_views _ I _ _ _ _ V Hau) as [_ HF].
    assert (Hk : In (key fn) ks).
    { rewrite <- HF. apply HK; auto. apply in_map; auto. }
    destruct (inv_first _ I _ (HT _ Hin)) as (u & fu & Hu & Hkey).
    assert (u = v) by (eapply (inv_disj _ I); eauto). subst u.
    rewrite V in Hu. inversion Hu; subst fu. apply (Hnokey _ Hin). rewrite <- Hkey. auto.
Qed.

Lemma Inv_modify md s k x s' ob : Inv s -> step convert is_mk md s (OModify k x) = Ok (s', ob) -> Inv s'.
Proof.
  intros I. simpl. intros H; inversion H; subst; clear H.
  pose proof (wf_evict _ k (inv_wf _ I)) as W'.
  destruct (evict_no_key _ k (inv_wf _ I)) as [_ HNK].
  apply Inv_shrink; auto.
  - apply evict_cap.
  - intros eid Hin. rewrite evict_store. split; auto. eapply evict_table_incl; eauto. apply (inv_wf _ I).
  - intros eid Hin. specialize (HNK _ Hin).
    destruct x; [apply map_get_set_other | apply map_get_del_other]; auto.
  - intros eid a Hin Ha Hm. rewrite evict_store in Ha.
    eapply inv_pending; eauto. eapply evict_table_incl; eauto. apply (inv_wf _ I).
Qed.

Lemma Inv_step md s o s' ob : Inv s -> step convert is_mk md s o = Ok (s', ob) -> Inv s'.
Proof.
  intros I. destruct o as [fn opts|v i f|v fl|k x].
  - simpl. destruct (load convert is_mk s fn opts) as [[s1 r]|w] eqn:L; simpl; [|discriminate].
    intros H; inversion H; subst. eapply Inv_load; eauto.
  - apply Inv_fix; auto.
  - apply Inv_save; auto.
  - apply Inv_modify; auto.
Qed.

(* every state that a history can reach from a fresh G *)
Inductive reach (md : mode) (cap : nat) (disk : list (N * str)) : state -> Prop :=
| reach_init : reach md cap disk (init_state cap disk)
| reach_step s o s' ob : reach md cap disk s -> step convert is_mk md s o = Ok (s', ob) -> reach md cap disk s'.

Lemma reach_Inv md cap disk s : (1 <= cap)%nat -> reach md cap disk s -> Inv s.
Proof. intros Hc R. induction R; [apply Inv_init; auto|eapply Inv_step; eauto]. Qed.

Lemma load_cap s fn o s' r : Inv s -> load convert is_mk s fn o = Ok (s', r) ->
  c_cap (st_cache s') = c_cap (st_cache s).
Proof.
  intros I. unfold load.
  destruct (get (st_cache s) (st_heap s) fn o) as [[c1 h1] r0] eqn:G.
  destruct (wf_get _ _ _ _ _ _ _ (inv_wf _ I) G) as (W1 & HC1 & _).
  destruct r0 as [addrs|].
  - intros H; inversion H; subst; auto.
  - destruct (map_get (key fn) (st_disk s)) as [raw|].
    + destruct (is_empty raw && has_opt o NotEmpty)%bool.
      * destruct (has_opt o MustSucceed); [discriminate|]. intros H; inversion H; subst; auto.
      * destruct (is_mk (key fn)).
        -- destruct (wf_put c1 (key fn) o (seq (length h1) (length (convert raw o))) W1) as (c2 & eid0 & P & _ & HC2 & _).
           { rewrite HC1. apply (inv_cap _ I). }
           rewrite P. simpl. intros H; inversion H; subst; simpl. congruence.
        -- simpl. intros H; inversion H; subst; auto.
    + destruct (has_opt o MustSucceed); [discriminate|]. intros H; inversion H; subst; auto.
Qed.

Lemma step_cap md s o s' ob : Inv s -> step convert is_mk md s o = Ok (s', ob) ->
  c_cap (st_cache s') = c_cap (st_cache s).
Proof.
  intros I. destruct o as [fn opts|v i f|v fl|k x]; simpl.
  - destruct (load convert is_mk s fn opts) as [[s1 r]|w] eqn:L; simpl; [|discriminate].
    intros H; inversion H; subst. eapply load_cap; eauto.
  - destruct (nth_error (st_views s) v) as [[fn addrs]|]; [|intros H; inversion H; subst; auto].
    destruct (nth_error addrs i) as [a|]; [|intros H; inversion H; subst; auto].
    destruct (fix_line md (line_at (st_heap s) a) f) as [[l' acted]|w]; simpl; [|discriminate].
    intros H; inversion H; subst; auto.
  - unfold view_lines. destruct (nth_error (st_views s) v) as [[fn addrs]|]; [|intros H; inversion H; subst; auto].
    destruct (save_lines md fl (st_cache s) (st_disk s) (map (line_at (st_heap s)) addrs)) as [[c' d'] w] eqn:S.
    intros H; inversion H; subst; clear H. simpl.
    destruct (save_lines_spec _ _ _ _ _ _ _ _ S) as (ks & -> & _).
    apply (evicts_spec ks _ (inv_wf _ I)).
  - intros H; inversion H; subst; simpl. apply evict_cap.
Qed.

Lemma reach_Inv_cap md cap disk s : (1 <= cap)%nat -> reach md cap disk s ->
  Inv s /\ c_cap (st_cache s) = cap.
Proof.
  intros Hc R. induction R as [|s o s' ob R [IH1 IH2] S].
  - split; [apply Inv_init; auto|reflexivity].
  - split; [eapply Inv_step; eauto|]. rewrite <- IH2. eapply step_cap; eauto.
Qed.

End Invariant.
