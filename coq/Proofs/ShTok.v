(* Proofs about Model/ShTok.v, part 1: one call of ShAtom.
   Every primitive is advancing; every atom function returns either nothing or an
   atom whose text is a non-empty prefix of the input, the rest being the
   remainder; no Panic, no OutOfFuel. *)
From PV Require Import Lib.Bytes Model.ShTok.
From Coq Require Import ZifyBool ZifyN ZifyNat.
Open Scope N_scope.

(* ---------- Since / Skip ---------- *)

Lemma since_app c r : since (c ++ r) r = Ok c.
Proof.
  unfold since. rewrite app_length.
  replace (length r <=? length c + length r)%nat with true by (symmetry; apply Nat.leb_le; lia).
  replace (length c + length r - length r)%nat with (length c) by lia.
  rewrite firstn_app, Nat.sub_diag, firstn_all. simpl. rewrite app_nil_r. reflexivity.
Qed.

Lemma since_self s : since s s = Ok [].
Proof. exact (since_app [] s). Qed.

Lemma skip_app c r : skip (length c) (c ++ r) = Ok r.
Proof.
  unfold skip. rewrite app_length.
  replace (length c <=? length c + length r)%nat with true by (symmetry; apply Nat.leb_le; lia).
  rewrite skipn_app, Nat.sub_diag, skipn_all. reflexivity.
Qed.

Lemma skip_all s : skip (length s) s = Ok [].
Proof. rewrite <- (app_nil_r s) at 2. apply skip_app. Qed.

(* ---------- advancing ops ---------- *)

(* an op that matched has chopped off a non-empty prefix *)
Definition adv (o : op) : Prop :=
  forall s r, o s = Some r -> exists c, c <> [] /\ s = c ++ r.

(* ... consisting of blanks only, when it is used for an atom of type space *)
Definition adv_t (t : atype) (o : op) : Prop :=
  forall s r, o s = Some r ->
  exists c, c <> [] /\ s = c ++ r /\ (t = ShtSpace -> forallb is_hspace c = true).

Lemma adv_t_of_adv t o : t <> ShtSpace -> adv o -> adv_t t o.
Proof.
  intros Ht Ha s r H. destruct (Ha s r H) as (c & Hc & ->).
  exists c. split; [exact Hc|]. split; [reflexivity|]. intro; contradiction.
Qed.

Lemma adv_byte b : adv (op_byte b).
Proof.
  intros [|c s] r H; simpl in H; [discriminate|].
  destruct (c =? b); [|discriminate]. injection H as ->.
  exists [c]. split; [discriminate|reflexivity].
Qed.

Lemma adv_string p : p <> [] -> adv (op_string p).
Proof.
  intros Hp s r H. unfold op_string in H. apply strip_prefix_some in H. exists p. auto.
Qed.

Lemma span_eq f s a r : span f s = (a, r) -> s = a ++ r.
Proof. intro H. pose proof (span_app f s) as E. rewrite H in E. simpl in E. auto. Qed.

Lemma op_span_some f s r :
  op_span f s = Some r -> exists c, c <> [] /\ s = c ++ r /\ forallb f c = true.
Proof.
  unfold op_span. destruct (span f s) as [a b] eqn:E.
  destruct a as [|x a]; [discriminate|]. intro H; injection H as <-.
  exists (x :: a). split; [discriminate|]. split; [exact (span_eq _ _ _ _ E)|].
  pose proof (span_all f s) as A. rewrite E in A. exact A.
Qed.

Lemma adv_span f : adv (op_span f).
Proof. intros s r H. destruct (op_span_some _ _ _ H) as (c & ? & ? & _). eauto. Qed.

Lemma adv_t_hspace t : adv_t t op_hspace.
Proof.
  intros s r H. destruct (op_span_some _ _ _ H) as (c & ? & ? & ?). exists c. auto.
Qed.

Lemma adv_re_text : adv re_text.  Proof. apply adv_span. Qed.
Lemma adv_re_dq : adv re_dq.      Proof. apply adv_span. Qed.
Lemma adv_re_sq : adv re_sq.      Proof. apply adv_span. Qed.

Lemma skipn_suffix n (t : str) : exists c, t = c ++ skipn n t /\ length c = Nat.min n (length t).
Proof.
  exists (firstn n t). split; [symmetry; apply firstn_skipn|apply firstn_length].
Qed.

Lemma utf8_width_pos c t : (1 <= utf8_width (c :: t))%nat.
Proof.
  unfold utf8_width.
  repeat match goal with
         | |- context [if ?b then _ else _] => destruct b
         | |- context [match ?l with [] => _ | _ :: _ => _ end] => destruct l
         end; lia.
Qed.

Lemma adv_re_bs_any : adv re_bs_any.
Proof.
  intros s r H. unfold re_bs_any in H.
  destruct s as [|c0 [|c t]]; try discriminate.
  destruct (c0 =? 92); [|discriminate]. destruct (c =? 36); [discriminate|].
  injection H as <-.
  destruct (skipn_suffix (utf8_width (c :: t)) (c :: t)) as (x & E & _).
  exists (c0 :: x). split; [discriminate|]. simpl. f_equal. exact E.
Qed.

Lemma snd_span_suffix f (t : str) : exists c, t = c ++ snd (span f t).
Proof. exists (fst (span f t)). symmetry. apply span_app. Qed.

Lemma adv_re_comment_until stop : adv (re_comment_until stop).
Proof.
  intros [|c t] r H; unfold re_comment_until in H; [discriminate|].
  destruct (c =? 35); [|discriminate]. injection H as <-.
  destruct (snd_span_suffix (fun c => negb (c =? stop)) t) as (x & E).
  exists (c :: x). split; [discriminate|]. simpl. f_equal. exact E.
Qed.

Lemma first_prefix_some ps s r :
  first_prefix ps s = Some r -> exists p, In p ps /\ s = p ++ r.
Proof.
  induction ps as [|p ps IH]; simpl; [discriminate|].
  destruct (strip_prefix p s) as [r'|] eqn:E.
  - intro H; injection H as ->. apply strip_prefix_some in E. exists p. auto.
  - intro H. destruct (IH H) as (p' & ? & ?). exists p'. auto.
Qed.

Lemma adv_re_redirect : adv re_redirect.
Proof.
  intros s r H. unfold re_redirect in H.
  destruct (first_prefix_some _ _ _ H) as (p & Hin & E).
  destruct (snd_span_suffix is_digit s) as (d & Ed).
  exists (d ++ p). split.
  - intro Z. apply app_eq_nil in Z as [_ Z]. subst p.
    simpl in Hin. repeat (destruct Hin as [Hin|Hin]; [discriminate|]). exact Hin.
  - rewrite <- app_assoc, <- E. exact Ed.
Qed.

Lemma adv_re_shvarname : adv re_shvarname.
Proof.
  intros [|c t] r H; unfold re_shvarname in H; [discriminate|].
  destruct (in_set _ c).
  { injection H as <-. exists [c]. split; [discriminate|reflexivity]. }
  destruct (c =? 36).
  { destruct t as [|c1 t1]; [discriminate|]. destruct (c1 =? 36); [|discriminate].
    injection H as <-. exists [c; c1]. split; [discriminate|reflexivity]. }
  destruct (is_alpha c || (c =? 95)).
  { injection H as <-. destruct (snd_span_suffix is_word_byte t) as (x & E).
    exists (c :: x). split; [discriminate|]. simpl. f_equal. exact E. }
  destruct (is_digit c); [|discriminate].
  injection H as <-. destruct (snd_span_suffix is_digit t) as (x & E).
  exists (c :: x). split; [discriminate|]. simpl. f_equal. exact E.
Qed.

Lemma op_byte_opt_suffix b (t : str) :
  exists c, t = c ++ (match op_byte b t with Some t' => t' | None => t end).
Proof.
  destruct (op_byte b t) as [t'|] eqn:E.
  - destruct (adv_byte b t t' E) as (c & _ & ->). eauto.
  - exists []. reflexivity.
Qed.

Lemma adv_re_shmodifier : adv re_shmodifier.
Proof.
  intros [|c t] r H; unfold re_shmodifier in H; cbv zeta in H; [discriminate|].
  assert (T : forall pre u, t = pre ++ u -> Some (snd (span is_shmod_byte u)) = Some r ->
              exists x, x <> [] /\ c :: t = x ++ r).
  { intros pre u -> E. injection E as <-.
    destruct (snd_span_suffix is_shmod_byte u) as (y & Ey).
    exists (c :: pre ++ y). split; [discriminate|]. simpl. f_equal. rewrite <- app_assoc. f_equal. exact Ey. }
  destruct (c =? 35).
  { destruct (op_byte_opt_suffix 35 t) as (pre & E). exact (T pre _ E H). }
  destruct (c =? 37).
  { destruct (op_byte_opt_suffix 37 t) as (pre & E). exact (T pre _ E H). }
  destruct (c =? 58).
  { destruct t as [|c1 t1]; [discriminate|]. destruct (is_shmod_op c1); [|discriminate].
    exact (T [c1] t1 eq_refl H). }
  destruct (is_shmod_op c); [|discriminate].
  exact (T [] t eq_refl H).
Qed.

(* ---------- what a good atom is ---------- *)

Definition atom_good (s : str) (a : atom) (r : str) : Prop :=
  s = a_text a ++ r /\ a_text a <> [] /\
  (a_type a = ShtSpace -> forallb is_hspace (a_text a) = true).

(* result of shOperator / shExpr / a switch of alternatives *)
Definition step_ok (s : str) (x : res (option (atom * str))) : Prop :=
  match x with
  | Ok None => True
  | Ok (Some (a, r)) => atom_good s a r
  | _ => False
  end.

(* result of an atom function on the tokenizer state *)
Definition atom_ok (s : str) (x : res (option atom * state)) : Prop :=
  match x with
  | Ok (None, _) => True
  | Ok (Some a, (_, r)) => atom_good s a r
  | _ => False
  end.

Definition alt_adv (a : alt) : Prop := adv_t (snd (fst a)) (fst (fst a)).

Lemma first_alt_ok alts s : Forall alt_adv alts -> step_ok s (first_alt alts s).
Proof.
  induction 1 as [|[[o t] q] alts Ha _ IH]; simpl; [exact I|].
  destruct (o s) as [r|] eqn:E; [|exact IH].
  destruct (Ha s r E) as (c & Hc & -> & Hs). simpl in Hs.
  rewrite since_app. simpl. repeat split; auto.
Qed.

Ltac adv_alts :=
  repeat (apply Forall_cons; [unfold alt_adv; simpl;
    first [ apply adv_t_hspace
          | apply adv_t_of_adv; [discriminate|
              first [apply adv_byte | apply adv_string; discriminate | apply adv_span
                    | apply adv_re_comment_until | apply adv_re_redirect ]]] |]);
  apply Forall_nil.

Lemma sh_operator_ok q s : step_ok s (sh_operator q s).
Proof. unfold sh_operator. apply first_alt_ok. adv_alts. Qed.

Lemma sh_expr_ok q s : step_ok s (sh_expr q s).
Proof.
  unfold sh_expr.
  destruct (op_string dollars s) as [s1|] eqn:E1; [|exact I].
  apply strip_prefix_some in E1. subst s.
  assert (G : forall r x, s1 = x ++ r ->
     step_ok (dollars ++ s1) (bind (since (dollars ++ s1) r) (fun text => Ok (Some (mk_atom ShtShExpr text q, r))))).
  { intros r x ->. rewrite app_assoc, since_app. simpl.
    repeat split; try discriminate. }
  destruct (match s1 with [] => false | c :: _ => is_digit c end) eqn:D.
  - destruct s1 as [|c t]; [discriminate|].
    change (skip 1 (c :: t)) with (skip (length [c]) ([c] ++ t)). rewrite skip_app. simpl bind.
    change (since (36 :: 36 :: c :: t) t) with (since ([36; 36; c] ++ t) t).
    rewrite since_app. simpl. repeat split; discriminate.
  - destruct (op_byte 123 s1) as [s2|] eqn:E2.
    + destruct (adv_byte _ _ _ E2) as (c2 & _ & ->).
      destruct (re_shvarname s2) as [s3|] eqn:E3; [|exact I].
      destruct (adv_re_shvarname _ _ E3) as (c3 & _ & ->).
      remember (match re_shmodifier s3 with Some r => r | None => s3 end) as s4 eqn:Hs4.
      assert (M : exists c4, s3 = c4 ++ s4).
      { subst s4. destruct (re_shmodifier s3) as [r|] eqn:E4.
        - destruct (adv_re_shmodifier _ _ E4) as (c4 & _ & E4'). eauto.
        - exists []. reflexivity. }
      destruct M as (c4 & M).
      destruct (op_byte 125 s4) as [s5|] eqn:E5; [|exact I].
      destruct (adv_byte _ _ _ E5) as (c5 & _ & E5').
      apply (G s5 (c2 ++ c3 ++ c4 ++ c5)). rewrite M, E5'. rewrite <- !app_assoc. reflexivity.
    + destruct (re_shvarname s1) as [s3|] eqn:E3; [|exact I].
      destruct (adv_re_shvarname _ _ E3) as (c3 & _ & E3').
      exact (G s3 c3 E3').
Qed.

(* ---------- shAtomInternal ---------- *)

Definition istep_ok (s : str) (x : res (option str)) : Prop :=
  match x with
  | Ok None => True
  | Ok (Some r) => exists c, c <> [] /\ s = c ++ r
  | _ => False
  end.

Lemma str_eqb_eq a b : str_eqb a b = true -> a = b.
Proof. apply str_eqb_spec. Qed.

Lemma internal_step_ok dq sq s : istep_ok s (internal_step dq sq s).
Proof.
  unfold internal_step.
  destruct (re_text s) as [r|] eqn:E0; [exact (adv_re_text _ _ E0)|].
  destruct (if dq then re_dq s else None) as [r|] eqn:E1.
  { destruct dq; [|discriminate]. exact (adv_re_dq _ _ E1). }
  destruct (if sq then op_byte 96 s else None) as [r|] eqn:E2.
  { destruct sq; [|discriminate]. exact (adv_byte _ _ _ E2). }
  destruct (if sq then re_sq s else None) as [r|] eqn:E3.
  { destruct sq; [|discriminate]. exact (adv_re_sq _ _ E3). }
  destruct (if sq then op_string dollars s else None) as [r|] eqn:E4.
  { destruct sq; [|discriminate]. refine (adv_string _ _ _ _ E4). discriminate. }
  destruct sq; [exact I|].
  destruct (op_string bs_dollars s) as [r|] eqn:E5.
  { refine (adv_string _ _ _ _ E5). discriminate. }
  destruct (re_bs_any s) as [r|] eqn:E6; [exact (adv_re_bs_any _ _ E6)|].
  destruct (re_dollars_other s) eqn:E7.
  { unfold re_dollars_other in E7. destruct s as [|a [|b [|c t]]]; try discriminate.
    apply andb_true_iff in E7 as [E7 _]. apply andb_true_iff in E7 as [Ea Eb].
    apply N.eqb_eq in Ea, Eb. subst a b. simpl.
    exists [36; 36]. split; [discriminate|reflexivity]. }
  destruct (str_eqb s dollars) eqn:E8.
  { apply str_eqb_eq in E8. subst s. simpl. exists dollars. split; [discriminate|reflexivity]. }
  destruct (str_eqb s [36]) eqn:E9.
  { apply str_eqb_eq in E9. subst s. simpl. exists [36]. split; [discriminate|reflexivity]. }
  exact I.
Qed.

Lemma internal_loop_ok dq sq fuel : forall s, (length s < fuel)%nat ->
  exists c r, internal_loop fuel dq sq s = Ok r /\ s = c ++ r.
Proof.
  induction fuel as [|f IH]; intros s Hf; [lia|]. simpl.
  pose proof (internal_step_ok dq sq s) as H.
  destruct (internal_step dq sq s) as [[r|]| |]; simpl in *; try contradiction.
  - destruct H as (c & Hc & ->). rewrite app_length in Hf.
    destruct c; [congruence|]. simpl in Hf.
    destruct (IH r ltac:(lia)) as (c' & r' & E & ->).
    exists ((n :: c) ++ c'), r'. split; [exact E|]. rewrite <- app_assoc. reflexivity.
  - exists [], s. auto.
Qed.

Lemma sh_atom_internal_ok q dq sq iw s : atom_ok s (sh_atom_internal q dq sq (iw, s)).
Proof.
  unfold sh_atom_internal.
  pose proof (sh_expr_ok q s) as H.
  destruct (sh_expr q s) as [[[a r]|]| |]; cbn [bind step_ok atom_ok] in *; try contradiction; [exact H|].
  destruct (internal_loop_ok dq sq (S (length s)) s ltac:(lia)) as (c & r & E & Es).
  rewrite E. cbn [bind]. subst s. rewrite since_app. cbn [bind].
  destruct c as [|x c]; cbn [atom_ok]; [exact I|].
  repeat split; discriminate.
Qed.

Lemma alts_then_internal_ok alts q dq sq iw s :
  Forall alt_adv alts -> atom_ok s (alts_then_internal alts q dq sq (iw, s)).
Proof.
  intro Ha. unfold alts_then_internal.
  pose proof (first_alt_ok alts s Ha) as H.
  destruct (first_alt alts s) as [[[a r]|]| |]; cbn [bind step_ok atom_ok] in *; try contradiction; [exact H|].
  apply sh_atom_internal_ok.
Qed.

(* ---------- the 13 quoting states ---------- *)

Lemma sh_atom_plain_ok iw s : atom_ok s (sh_atom_plain (iw, s)).
Proof.
  unfold sh_atom_plain.
  pose proof (sh_operator_ok QPlain s) as H.
  destruct (sh_operator QPlain s) as [[[a r]|]| |]; cbn [bind step_ok atom_ok] in *; try contradiction; [exact H|].
  match goal with |- context [first_alt ?l s] =>
    assert (H1 : step_ok s (first_alt l s)) by (apply first_alt_ok; adv_alts);
    destruct (first_alt l s) as [[[a r]|]| |]; cbn [bind step_ok atom_ok] in *; try contradiction; [exact H1|]
  end.
  destruct ((match s with [] => false | c :: _ => c =? 35 end) && negb iw) eqn:C.
  - rewrite skip_all. simpl. destruct s; [discriminate|].
    repeat split; try discriminate. simpl. rewrite app_nil_r. reflexivity.
  - apply alts_then_internal_ok. adv_alts.
Qed.

Lemma sh_atom_backt_ok iw s : atom_ok s (sh_atom_backt (iw, s)).
Proof.
  unfold sh_atom_backt.
  pose proof (sh_operator_ok QBackt s) as H.
  destruct (sh_operator QBackt s) as [[[a r]|]| |]; cbn [bind step_ok atom_ok] in *; try contradiction; [exact H|].
  apply alts_then_internal_ok. adv_alts.
Qed.

Lemma sh_atom_dquot_backt_ok iw s : atom_ok s (sh_atom_dquot_backt (iw, s)).
Proof.
  unfold sh_atom_dquot_backt.
  pose proof (sh_operator_ok QDquotBackt s) as H.
  destruct (sh_operator QDquotBackt s) as [[[a r]|]| |]; cbn [bind step_ok atom_ok] in *; try contradiction; [exact H|].
  apply alts_then_internal_ok. adv_alts.
Qed.

Lemma sh_atom_subsh_ok iw s : atom_ok s (sh_atom_subsh (iw, s)).
Proof.
  unfold sh_atom_subsh.
  match goal with |- context [first_alt ?l s] =>
    assert (H1 : step_ok s (first_alt l s)) by (apply first_alt_ok; adv_alts);
    destruct (first_alt l s) as [[[a r]|]| |]; cbn [bind step_ok atom_ok] in *; try contradiction; [exact H1|]
  end.
  pose proof (sh_operator_ok QSubsh s) as H.
  destruct (sh_operator QSubsh s) as [[[a r]|]| |]; cbn [bind step_ok atom_ok] in *; try contradiction; [exact H|].
  apply sh_atom_internal_ok.
Qed.

Lemma sh_atom_dispatch_ok q iw s : atom_ok s (sh_atom_dispatch q (iw, s)).
Proof.
  destruct q; cbn [sh_atom_dispatch];
    first [ apply sh_atom_plain_ok | apply sh_atom_backt_ok | apply sh_atom_dquot_backt_ok
          | apply sh_atom_subsh_ok
          | (unfold sh_atom_dquot, sh_atom_squot, sh_atom_backt_dquot, sh_atom_backt_squot,
               sh_atom_subsh_dquot, sh_atom_subsh_squot, sh_atom_subsh_backt,
               sh_atom_dquot_backt_dquot, sh_atom_dquot_backt_squot;
             apply alts_then_internal_ok; adv_alts) ].
Qed.

(* ---------- ShAtom ---------- *)

Section WithExpr.

Variable expr : str -> option (str * str).

(* the advance contract of MkLexer.Expr *)
Definition expr_contract : Prop :=
  forall s t r, expr s = Some (t, r) -> s = t ++ r /\ t <> [].

Hypothesis Hexpr : expr_contract.

(* one call of ShAtom: nothing (and the lexer is where it was), or an atom whose
   text is a non-empty prefix of the input, the rest being the remainder *)
Definition shatom_result (q : quoting) (iw : bool) (s : str) : Prop :=
  exists iw',
    sh_atom expr q (iw, s) = Ok (None, (iw', s)) \/
    exists a r, sh_atom expr q (iw, s) = Ok (Some a, (iw', r)) /\ atom_good s a r.

Lemma sh_atom_spec q iw s : shatom_result q iw s.
Proof.
  unfold shatom_result, sh_atom.
  destruct s as [|c s]; [exists iw; left; reflexivity|].
  destruct (expr (c :: s)) as [[t r]|] eqn:E.
  - destruct (Hexpr _ _ _ E) as [E1 E2]. exists true. right. exists (mk_atom ShtExpr t q), r.
    split; [reflexivity|]. repeat split; auto. discriminate.
  - match goal with |- context [bind ?X _] =>
      assert (H : atom_ok (c :: s) X) by apply sh_atom_dispatch_ok;
      destruct X as [[[a|] [iw' r]]| |]
    end; cbn [bind step_ok atom_ok] in *; try contradiction.
    + exists iw'. right. exists a, r. auto.
    + exists iw'. left. reflexivity.
Qed.

End WithExpr.
