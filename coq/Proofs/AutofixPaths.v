(* C02: the path PRINTED in an AUTOFIX line denotes the file that is WRITTEN.

   Included makefiles are loaded and saved under their raw path
   (dirname.JoinNoClean(includedFile), Package.loadIncluded; SaveAutofixChanges
   uses line.Filename()), while every diagnostic, the AUTOFIX lines included,
   prints what Logger.Logf makes of the file name:

       if !filename.IsEmpty() { filename = filename.CleanPath() }
       if filename == "." { filename = NewCurrPath("") }

   [printed_path] is exactly that; the run model (Model/Autofix.v) records in
   [g_file] the raw name [l_file] of the line.  This file composes the C02
   theorem "every operation concerns a file with a printed AUTOFIX line"
   (Proofs/AutofixFs.v) with the C19 theorem "CleanPath keeps the denotation"
   (Proofs/PathsClean.v). *)
From PV Require Import Lib.Bytes Model.Paths Spec.PathDenote Proofs.PathsClean
  Model.Autofix Proofs.Autofix Proofs.AutofixFs.

(* Logger.Logf, the file name part of a diagnostic *)
Definition printed_path (f : str) : str :=
  if is_empty f then f
  else let c := clean_path f in
       if str_eqb c dotstr then [] else c.

(* for every working directory the printed path denotes the file that the raw
   path denotes (lexical denotation, Spec/PathDenote.v) *)
Lemma printed_path_denotes cwd f : denote cwd (printed_path f) = denote cwd f.
Proof.
  unfold printed_path. destruct (is_empty f); [reflexivity|]. cbv zeta.
  destruct (str_eqb (clean_path f) dotstr) eqn:E.
  - apply str_eqb_spec in E. rewrite <- (clean_path_denotes cwd f), E. reflexivity.
  - apply clean_path_denotes.
Qed.

(* an AUTOFIX line was printed whose path, read relative to cwd, denotes the file
   that the path f (as given to the operating system, relative to cwd) denotes *)
Definition printed_names (cwd : str) (log : list logline) (f : str) : Prop :=
  exists g, In g log /\ denote cwd (printed_path (g_file g)) = denote cwd f.

Lemma logged_printed_names cwd log f : logged log f -> printed_names cwd log f.
Proof. intros (g & Hin & E). exists g. split; [exact Hin|]. rewrite E. apply printed_path_denotes. Qed.

(* [op_justified] with the printed path in the place of the logged raw name *)
Definition op_named (cwd : str) (log : list logline) (op : fsop) : Prop :=
  match op with
  | OpCreateExcl p => exists f, p = f ++ tmp_suffix /\ printed_names cwd log f
  | OpWrite p _ => exists f, p = f ++ tmp_suffix /\ printed_names cwd log f
  | OpChmodLike p like => exists f, p = f ++ tmp_suffix /\ like = f /\ printed_names cwd log f
  | OpRename a b => exists f, a = f ++ tmp_suffix /\ b = f /\ printed_names cwd log f
  | OpRemove p => exists f, p = f ++ tmp_suffix /\ printed_names cwd log f
  | OpChmod p => exists g, In g log /\ g_descr g = DChmod
                           /\ denote cwd (printed_path (g_file g)) = denote cwd p
  end.

Lemma op_justified_named cwd log op : op_justified log op -> op_named cwd log op.
Proof.
  destruct op; cbn.
  - intros (f & E & L). exists f. split; [exact E|]. apply logged_printed_names; exact L.
  - intros (f & E & L). exists f. split; [exact E|]. apply logged_printed_names; exact L.
  - intros (f & E1 & E2 & L). exists f. split; [exact E1|]. split; [exact E2|].
    apply logged_printed_names; exact L.
  - intros (f & E1 & E2 & L). exists f. split; [exact E1|]. split; [exact E2|].
    apply logged_printed_names; exact L.
  - intros (f & E & L). exists f. split; [exact E|]. apply logged_printed_names; exact L.
  - intros (g & Hin & E & D). exists g. split; [exact Hin|]. split; [exact D|].
    rewrite E. apply printed_path_denotes.
Qed.

Theorem autofix_ops_named o keys evs st st' :
  o_autofix o = true -> fresh st -> run o keys evs st = Ok st' ->
  forall cwd, Forall (op_named cwd (s_log st')) (s_ops st').
Proof.
  intros Ha F R cwd. eapply Forall_impl; [|exact (autofix_touches_only_changed o keys evs st st' Ha F R)].
  intros op. apply op_justified_named.
Qed.

(* the file that an operation replaces or whose mode it changes, apart from the
   temporary files f.pkglint.tmp: the target of the rename, the file whose
   executable bits are cleared *)
Definition op_target (op : fsop) : option str :=
  match op with
  | OpRename _ b => Some b
  | OpChmod p => Some p
  | _ => None
  end.

Theorem printed_path_denotes_written o keys evs st st' :
  o_autofix o = true -> fresh st -> run o keys evs st = Ok st' ->
  forall cwd,
  Forall (fun op => forall f, op_target op = Some f ->
            exists g, In g (s_log st') /\ denote cwd (printed_path (g_file g)) = denote cwd f)
         (s_ops st').
Proof.
  intros Ha F R cwd. eapply Forall_impl; [|exact (autofix_ops_named o keys evs st st' Ha F R cwd)].
  intros op N f T. destruct op; cbn in T; try discriminate; inversion T; subst; cbn in N.
  - destruct N as (f0 & _ & E & P). subst. exact P.
  - destruct N as (g & Hin & _ & E). exists g. split; assumption.
Qed.
