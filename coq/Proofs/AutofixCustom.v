(* C03/C02: Autofix.Custom and --only.  The fixer passed to Custom has an effect outside
   the line (checkExecutable: chmod).  It runs only when the diagnostic of the fix is
   selected by --only, and whenever it had its effect the AUTOFIX line was printed. *)
From PV Require Import Lib.Bytes Model.Autofix Proofs.Autofix Proofs.AutofixFs.
Open Scope Z_scope.

(* Custom as coded: `if fix.skip() { return }; fixer(ShowAutofix, Autofix)` -- the fixer
   runs iff the diagnostic format is selected; otherwise nothing at all happens *)
Lemma custom_runs_iff_selected o ri d l l' ran f :
  l_fix l = Some f -> custom o ri d l = Ok (l', ran) ->
  ran = shall_be_logged o (f_diag f) /\ (ran = false -> l' = l).
Proof.
  intros Hf. unfold custom, the_fix, bind. rewrite Hf. unfold skip.
  destruct (f_diag f) eqn:D; [discriminate|]. cbn [bind].
  destruct (shall_be_logged o (n :: s)); cbn [negb]; intro H; inversion H; subst; split; auto; discriminate.
Qed.

(* the executable-bit fix: if the chmod was done, then --autofix was given, the
   diagnostic "Should not be executable." is selected by --only, and exactly the line
   "Clearing executable bits" was printed for the file *)
Lemma custom_effect_implies_logged o file x c printed ops :
  check_executable o file x c = Ok (printed, ops) -> ops <> [] ->
  ops = [OpChmod file] /\ printed = [(DChmod, 0)] /\ o_autofix o = true /\
  shall_be_logged o not_executable_format = true.
Proof.
  unfold check_executable. destruct x; cbn [negb]; [|intros H N; inversion H; subst; contradiction].
  destruct c; [intros H N; inversion H; subst; contradiction|].
  unfold bind, autofix, set_diag, the_fix, custom, bind, skip, apply, the_fix, bind.
  cbn -[shall_be_logged is_autofix not_executable_format].
  assert (Hne : not_executable_format <> []) by discriminate.
  destruct not_executable_format as [|n0 s0] eqn:Efmt; [contradiction|]. rewrite <- Efmt in *.
  destruct (shall_be_logged o not_executable_format) eqn:S;
    cbn -[shall_be_logged is_autofix not_executable_format].
  - rewrite Efmt. cbn -[shall_be_logged is_autofix]. rewrite <- Efmt. rewrite S.
    unfold is_autofix. destruct (o_autofix o) eqn:A, (o_show o); cbn.
    all: intros H N; inversion H; subst; try contradiction.
    all: repeat split; reflexivity.
  - rewrite Efmt. cbn -[shall_be_logged is_autofix]. rewrite <- Efmt. rewrite ?S. cbn.
    intros H N; inversion H; subst; contradiction.
Qed.

(* deselected by --only: no chmod, no line, whatever the other options *)
Lemma custom_skipped_no_effect o file x c :
  shall_be_logged o not_executable_format = false ->
  check_executable o file x c = Ok ([], []).
Proof.
  intro S. unfold check_executable. destruct x; cbn [negb]; [|reflexivity].
  destruct c; [reflexivity|].
  unfold bind, autofix, set_diag, the_fix, custom, bind, skip, apply, the_fix, bind.
  cbn -[shall_be_logged is_autofix not_executable_format].
  assert (Hne : not_executable_format <> []) by discriminate.
  destruct not_executable_format as [|n0 s0] eqn:Efmt; [contradiction|]. rewrite <- Efmt in *.
  rewrite S. cbn -[shall_be_logged is_autofix not_executable_format].
  rewrite Efmt. cbn -[shall_be_logged is_autofix]. rewrite <- Efmt. rewrite ?S. cbn. reflexivity.
Qed.

(* whole histories: every mode change the run performs has its AUTOFIX line *)
Lemma mode_change_implies_logged o keys evs st st' :
  o_autofix o = true -> fresh st -> run o keys evs st = Ok st' ->
  forall p, In (OpChmod p) (s_ops st') ->
    exists g, In g (s_log st') /\ g_file g = p /\ g_descr g = DChmod.
Proof.
  intros A F R p Hin.
  pose proof (autofix_touches_only_changed o keys evs st st' A F R) as J.
  rewrite Forall_forall in J. exact (J _ Hin).
Qed.
