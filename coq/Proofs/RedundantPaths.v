(* C17: the verdicts do not depend on how the files are spelled. *)
From PV Require Import Lib.Bytes Model.Redundant Model.RedundantPaths Spec.MakeEval Spec.VerdictSound
  Spec.PathDenote Spec.SpellingIndep Proofs.RedundantSound.

Lemma list_eqb_spec a b : list_eqb a b = true <-> a = b.
Proof.
  revert b; induction a as [|x a IH]; intros [|y b]; simpl; split; intro H; try congruence; try reflexivity.
  - apply andb_true_iff in H as [H1 H2]. apply str_eqb_spec in H1. apply IH in H2. congruence.
  - inversion H; subst. apply andb_true_iff; split; [apply str_eqb_refl | apply IH; reflexivity].
Qed.

Lemma same_denotation_spec cwd a b : same_denotation cwd a b = true <-> denote cwd a = denote cwd b.
Proof. apply list_eqb_spec. Qed.

Lemma bool_ext (a b : bool) : (a = true <-> b = true) -> a = b.
Proof. destruct a, b; intros [H1 H2]; try reflexivity; [symmetry; apply H1 | apply H2]; reflexivity. Qed.

(* first_index only looks at the relation between the key and the keys *)
Lemma first_index_ext e1 e2 k keys :
  (forall k', In k' keys -> e1 k' k = e2 k' k) ->
  first_index e1 k keys = first_index e2 k keys.
Proof.
  induction keys as [|k0 r IH]; simpl; intro H; [reflexivity|].
  rewrite (H k0 (or_introl eq_refl)). destruct (e2 k0 k); [reflexivity|].
  f_equal. apply IH. intros k' Hin. apply H. right; exact Hin.
Qed.

Lemma first_index_denote cwd k k' keys keys' :
  map (denote cwd) keys = map (denote cwd) keys' -> denote cwd k = denote cwd k' ->
  first_index (same_denotation cwd) k keys = first_index (same_denotation cwd) k' keys'.
Proof.
  revert keys'; induction keys as [|a r IH]; intros [|b r'] Hm Hk; simpl in *; try discriminate; [reflexivity|].
  inversion Hm as [[Ha Hr]].
  assert (E : same_denotation cwd a k = same_denotation cwd b k').
  { apply bool_ext. rewrite !same_denotation_spec. rewrite Ha, Hk. tauto. }
  rewrite E. destruct (same_denotation cwd b k'); [reflexivity|]. f_equal. apply IH; assumption.
Qed.

Lemma same_shape_paths cwd p q :
  same_shape cwd p q -> map (denote cwd) (map pl_path p) = map (denote cwd) (map pl_path q).
Proof. induction 1 as [|a b p q [Hd _] _ IH]; simpl; [reflexivity|]. rewrite Hd, IH. reflexivity. Qed.

Lemma map_Forall2 {A B C} (R : A -> B -> Prop) (g : A -> C) (h : B -> C) p q :
  Forall2 R p q -> (forall a b, R a b -> g a = h b) -> map g p = map h q.
Proof. induction 1; simpl; intro H'; [reflexivity|]. f_equal; [apply H'; assumption | apply IHForall2; exact H']. Qed.

Lemma intern_denoted_same cwd p q :
  same_shape cwd p q -> intern_by (same_denotation cwd) p = intern_by (same_denotation cwd) q.
Proof.
  intro H. unfold intern_by. apply (map_Forall2 (same_line cwd)); [exact H|].
  intros a b (Hd & Hn & Hb). unfold intern_line. rewrite Hn, Hb. do 2 f_equal.
  apply first_index_denote; [apply same_shape_paths; exact H | exact Hd].
Qed.

(* all spellings with equal denotations give the same verdicts: for ALL programs *)
Theorem denoted_spelling_independent cwd p q :
  same_shape cwd p q -> check_denoted cwd p = check_denoted cwd q.
Proof. intro H. unfold check_denoted. rewrite (intern_denoted_same cwd p q H). reflexivity. Qed.

Lemma intern_one_spelling cwd p :
  one_spelling cwd p -> intern_by str_eqb p = intern_by (same_denotation cwd) p.
Proof.
  intro H. unfold intern_by. apply map_ext_in. intros a Ha. unfold intern_line. do 2 f_equal.
  apply first_index_ext. intros k' Hk'. apply in_map_iff in Hk' as (b & <- & Hb).
  apply bool_ext. rewrite str_eqb_spec, same_denotation_spec. split.
  - intros ->. reflexivity.
  - intro Hd. apply H; assumption.
Qed.

(* the Go code compares names; under the loader's guarantee this is the analysis on denotations *)
Theorem spelled_is_denoted cwd p :
  one_spelling cwd p -> check_spelled p = check_denoted cwd p.
Proof. intro H. unfold check_spelled, check_denoted. rewrite (intern_one_spelling cwd p H). reflexivity. Qed.

Theorem verdict_spelling_independent cwd p q :
  same_shape cwd p q -> one_spelling cwd p -> one_spelling cwd q ->
  check_spelled p = check_spelled q.
Proof.
  intros Hs Hp Hq. rewrite (spelled_is_denoted cwd p Hp), (spelled_is_denoted cwd q Hq).
  apply denoted_spelling_independent; exact Hs.
Qed.

Lemma one_spelling_b_spec cwd p : one_spelling_b cwd p = true -> one_spelling cwd p.
Proof.
  unfold one_spelling_b, one_spelling. intros H a b Ha Hb Hd.
  rewrite forallb_forall in H. specialize (H a Ha). rewrite forallb_forall in H. specialize (H b Hb).
  apply same_denotation_spec in Hd. rewrite Hd in H. simpl in H. apply str_eqb_spec; exact H.
Qed.

(* without the loader's guarantee the Go code does depend on the spelling:
   inc.mk:1 VA= a / ./inc.mk:1 (other) / inc.mk:2 VA= a *)
Definition pp_two_ways : pprogram :=
  let a := mkAssign [86;65]%N OpAssign [Lit [97]%N] in
  let i := [99;97;116;47;112;97;47;105;110;99;46;109;107]%N in       (* cat/pa/inc.mk *)
  let j := [99;97;116;47;112;97;47;46;47;105;110;99;46;109;107]%N in (* cat/pa/./inc.mk *)
  [mkPLine i 1 (Some a); mkPLine j 1 None; mkPLine i 2 (Some a)].
Definition pp_one_way : pprogram :=
  let a := mkAssign [86;65]%N OpAssign [Lit [97]%N] in
  let i := [99;97;116;47;112;97;47;105;110;99;46;109;107]%N in
  [mkPLine i 1 (Some a); mkPLine i 1 None; mkPLine i 2 (Some a)].

Lemma spelling_independent_needs_one_spelling :
  ~ (forall cwd p q, same_shape cwd p q -> check_spelled p = check_spelled q).
Proof.
  intro H. specialize (H [47; 114]%N pp_two_ways pp_one_way).
  assert (S : same_shape [47; 114]%N pp_two_ways pp_one_way).
  { unfold pp_two_ways, pp_one_way. repeat constructor. }
  specialize (H S). vm_compute in H. discriminate H.
Qed.

(* ----- soundness does not look at the names ----- *)

Definition pspec_line (l : pline) : option sassign := option_map spec_assign (pl_body l).

Lemma to_spec_intern e p : to_spec (intern_by e p) = map pspec_line p.
Proof. unfold to_spec, intern_by. rewrite map_map. apply map_ext. intros a. reflexivity. Qed.

Lemma delete_nth_map {A B} (f : A -> B) i l : delete_nth i (map f l) = map f (delete_nth i l).
Proof. revert i; induction l as [|x l IH]; intros [|i]; simpl; try reflexivity. rewrite IH. reflexivity. Qed.

Lemma to_spec_delete i p : to_spec (delete_nth i p) = delete_nth i (to_spec p).
Proof. unfold to_spec. symmetry. apply delete_nth_map. Qed.

Lemma same_shape_spec cwd p q : same_shape cwd p q -> map pspec_line p = map pspec_line q.
Proof.
  intro H. apply (map_Forall2 (same_line cwd)); [exact H|].
  intros a b (_ & _ & Hb). unfold pspec_line. rewrite Hb. reflexivity.
Qed.

Theorem deletable_spelling_independent cwd e1 e2 p q i :
  same_shape cwd p q -> deletable (intern_by e1 p) i -> deletable (intern_by e2 q) i.
Proof.
  intros Hs Hd fuel x. specialize (Hd fuel x).
  rewrite to_spec_delete, to_spec_intern in *. rewrite <- (same_shape_spec cwd p q Hs). exact Hd.
Qed.

(* the partial theorem for programs whose files are spelled arbitrarily: the
   analysis as the Go code does it (names compared as strings) ... *)
Theorem verdict_sound_spelled (p : pprogram) (vs : list verdict) (vd : verdict) :
  wf_program (forget p) = true -> check_spelled p = Ok vs -> In vd vs ->
  guard (forget p) vd = true -> deletable (forget p) (vd_flagged vd).
Proof. intros Hw Hc Hi Hg. exact (verdict_sound_partial (forget p) vs vd Hw Hc Hi Hg). Qed.

(* ... and the analysis on denotations; in both cases "deletable" is a
   statement about the lines alone (deletable_spelling_independent) *)
Theorem verdict_sound_denoted cwd (p : pprogram) (vs : list verdict) (vd : verdict) :
  wf_program (forget p) = true -> check_denoted cwd p = Ok vs -> In vd vs ->
  guard (intern_by (same_denotation cwd) p) vd = true -> deletable (forget p) (vd_flagged vd).
Proof.
  intros Hw Hc Hi Hg.
  assert (Hs : same_shape cwd p p).
  { clear. induction p; constructor; [repeat split | assumption]. }
  apply (deletable_spelling_independent cwd (same_denotation cwd) str_eqb p p _ Hs).
  apply (verdict_sound_partial (intern_by (same_denotation cwd) p) vs vd); try assumption.
  revert Hw. unfold forget, wf_program, intern_by. rewrite !forallb_forall.
  intros Hw l Hl. apply in_map_iff in Hl as (a & <- & Ha).
  specialize (Hw (intern_line str_eqb (map pl_path p) a)). apply Hw. apply in_map_iff. exists a; split; [reflexivity|assumption].
Qed.

(* ----- which fragments are analysed on their own does not depend on the spelling of the .include lines ----- *)

Definition inc_denotes (cwd : str) (i : str * str) : list str := denote cwd (join_path (fst i) (snd i)).

Lemma existsb_Forall2 {A} (R : A -> A -> Prop) (f : A -> bool) l l' :
  Forall2 R l l' -> (forall a b, R a b -> f a = f b) -> existsb f l = existsb f l'.
Proof. induction 1; simpl; intro H'; [reflexivity|]. rewrite (H' _ _ H). f_equal. apply IHForall2. exact H'. Qed.

Theorem analysed_alone_spelling_independent cwd pkgdir fragdir fragbase incs incs' :
  Forall2 (fun i j => inc_denotes cwd i = inc_denotes cwd j) incs incs' ->
  analysed_alone cwd pkgdir fragdir fragbase incs = analysed_alone cwd pkgdir fragdir fragbase incs'.
Proof.
  intro H. unfold analysed_alone. f_equal. f_equal.
  apply (existsb_Forall2 _ _ _ _ H). intros a b Hab. unfold inc_denotes in Hab.
  apply bool_ext. rewrite !same_denotation_spec. rewrite Hab. tauto.
Qed.

(* a fragment that some .include line of the package denotes is never analysed on its own *)
Theorem included_fragment_not_alone cwd pkgdir fragdir fragbase incs i :
  In i incs -> inc_denotes cwd i = denote cwd (join_path fragdir fragbase) ->
  analysed_alone cwd pkgdir fragdir fragbase incs = false.
Proof.
  intros Hin Hd. unfold analysed_alone.
  assert (E : existsb (fun i0 => same_denotation cwd (join_path (fst i0) (snd i0)) (join_path fragdir fragbase)) incs = true).
  { apply existsb_exists. exists i. split; [exact Hin|]. apply same_denotation_spec. exact Hd. }
  rewrite E. apply Bool.andb_false_r.
Qed.
