(* match_is_strmatch: for a pattern without the "x-]" quirk, bmake's Str_Match
   computes the matching of the element list; hence Compile + Match = Str_Match. *)
From PV Require Import Lib.Bytes Lib.ByteRange Gen.NumberAutomaton Model.Makepat Spec.StrMatch
  Proofs.MakepatBasics Proofs.MakepatNFA Proofs.MakepatChain Proofs.MakepatChainSem
  Proofs.MakepatClass Proofs.MakepatRefute.
From Coq Require Import ZifyBool ZifyN ZifyNat.
Open Scope N_scope.

(* ---------- the star loop ---------- *)

Definition star_try (f : nat) (pat' : str) : str -> option bool :=
  fix try (s : str) : option bool :=
    match s with
    | [] => Some false
    | _ :: s' => match str_match_fuel f s pat' with
                 | Some true => Some true
                 | Some false => try s'
                 | None => None
                 end
    end.

Lemma smf_star f s pat1 :
  str_match_fuel (S f) s (42 :: pat1)
  = match skip_stars pat1 with [] => Some true | x :: l => star_try f (x :: l) s end.
Proof. reflexivity. Qed.

Lemma smf_nil f s : str_match_fuel (S f) s [] = Some (match s with [] => true | _ => false end).
Proof. reflexivity. Qed.

Fixpoint any_suffix (g : str -> bool) (s : str) : bool :=
  match s with [] => false | _ :: s' => g s || any_suffix g s' end.

Lemma is_bytes_tail c s : is_bytes (c :: s) -> is_bytes s.
Proof. intro H. inversion H; assumption. Qed.

Lemma star_try_spec f pat' g : (forall s, is_bytes s -> str_match_fuel f s pat' = Some (g s)) ->
  forall s, is_bytes s -> star_try f pat' s = Some (any_suffix g s).
Proof.
  intros H. induction s as [|c s IH]; intro Hs; [reflexivity|].
  cbn [star_try any_suffix]. rewrite (H _ Hs). destruct (g (c :: s)); [reflexivity|].
  apply IH. exact (is_bytes_tail _ _ Hs).
Qed.

Lemma gmatch_star_suffix es s : gmatch (EStar :: es) s = any_suffix (gmatch es) s || gmatch es [].
Proof.
  induction s as [|c s IH].
  - rewrite gmatch_star. cbn [any_suffix]. rewrite orb_false_r. reflexivity.
  - rewrite gmatch_star, IH. cbn [any_suffix]. rewrite orb_assoc. reflexivity.
Qed.

(* ---------- the theorem on element lists ---------- *)

Lemma rb_top_step c rest : c <> 92 -> c <> 91 ->
  range_to_rbracket_from PTop (c :: rest) = range_to_rbracket_from PTop rest.
Proof.
  intros H1 H2. cbn [range_to_rbracket_from pnext orb].
  destruct (N.eqb_spec c 92); [contradiction|]. destruct (N.eqb_spec c 91); [contradiction|]. reflexivity.
Qed.

Lemma neqb c d : c <> d -> (c =? d) = false.
Proof. intro H. apply N.eqb_neq. exact H. Qed.

Lemma smf_cons f s pc pat1 : pc <> 42 ->
  str_match_fuel (S f) s (pc :: pat1)
  = match s with
    | [] => Some false
    | sc :: s1 =>
      if pc =? 63 then str_match_fuel f s1 pat1
      else if pc =? 91 then
        let neg := match pat1 with c :: _ => c =? 94 | [] => false end in
        let pat2 := if neg then tl pat1 else pat1 in
        match list_scan neg sc pat2 with
        | LNoMatch => Some false
        | LReturn b => Some b
        | LMatch rest => str_match_fuel f s1 rest
        end
      else if pc =? 92 then
        match pat1 with
        | [] => Some false
        | q :: pat2 => if q =? sc then str_match_fuel f s1 pat2 else Some false
        end
      else if pc =? sc then str_match_fuel f s1 pat1
      else Some false
    end.
Proof. intro H. cbn [str_match_fuel]. rewrite (neqb _ _ H). reflexivity. Qed.

Lemma in_ranges_single lo hi c : in_ranges [(lo, hi)] c = (lo <=? c) && (c <=? hi).
Proof. unfold in_ranges. cbn [existsb fst snd]. apply orb_false_r. Qed.

Lemma parses_head_star l es : parses (42 :: l) es -> exists es', es = EStar :: es' /\ parses l es'.
Proof. intro P. inversion P; subst; try congruence. eauto. Qed.

Lemma parses_head_nonstar x l es : parses (x :: l) es -> x <> 42 -> exists rs es', es = ERanges rs :: es'.
Proof. intros P Hx. inversion P; subst; try congruence; eauto. Qed.

Lemma strmatch_gmatch pat es : parses pat es ->
  range_to_rbracket_from PTop pat = false ->
  forall fuel s, (length pat < fuel)%nat -> is_bytes s ->
  str_match_fuel fuel s pat = Some (gmatch es s).
Proof.
  induction 1 as [|rest es P IH|rest es P IH|c rest es P IH|rest neg r1 chars rest2 es Hsk Hcl P IH
                  |c rest es H42 H63 H92 H91 P IH];
    intros G fuel s Hf Hs; (destruct fuel as [|f]; [cbn [length] in Hf; lia|]); cbn [length] in Hf.
  - (* end of the pattern *) rewrite smf_nil. reflexivity.
  - (* star *)
    rewrite rb_top_step in G by discriminate. rewrite smf_star.
    destruct rest as [|x l].
    + inversion P; subst. cbn [skip_stars]. rewrite gmatch_star_nil_true. reflexivity.
    + destruct (N.eqb_spec x 42) as [->|Hx].
      * (* another star follows: the same loop with the same fuel *)
        destruct (parses_head_star _ _ P) as (es' & -> & P').
        cbn [skip_stars]. change (42 =? 42) with true. cbn iota.
        rewrite gmatch_star_star. rewrite <- smf_star.
        apply IH; [exact G|cbn [length] in *; lia|exact Hs].
      * destruct (parses_head_nonstar _ _ _ P Hx) as (rs & es' & ->).
        cbn [skip_stars]. rewrite (neqb _ _ Hx).
        rewrite star_try_spec with (g := gmatch (ERanges rs :: es')).
        -- rewrite gmatch_star_suffix. cbn [gmatch]. rewrite orb_false_r. reflexivity.
        -- intros s0 Hs0. apply IH; [exact G|cbn [length] in *; lia|exact Hs0].
        -- exact Hs.
  - (* ? *)
    rewrite rb_top_step in G by discriminate. rewrite smf_cons by discriminate.
    destruct s as [|sc s1]; [reflexivity|]. change (63 =? 63) with true. cbn iota.
    rewrite (IH G f s1) by (try lia; exact (is_bytes_tail _ _ Hs)).
    cbn [gmatch]. rewrite in_ranges_single. inversion Hs; subst.
    assert (E : (0 <=? sc) && (sc <=? 255) = true) by lia. rewrite E. reflexivity.
  - (* backslash *)
    assert (G' : range_to_rbracket_from PTop rest = false).
    { cbn [range_to_rbracket_from pnext orb] in G. change (92 =? 92) with true in G. cbn iota in G.
      cbn [range_to_rbracket_from pnext orb] in G. exact G. }
    rewrite smf_cons by discriminate.
    destruct s as [|sc s1]; [reflexivity|].
    change (92 =? 63) with false. change (92 =? 91) with false. change (92 =? 92) with true. cbn iota.
    cbn [gmatch]. rewrite in_ranges_single.
    destruct (N.eqb_spec c sc) as [->|Hc].
    + rewrite (IH G' f s1) by (cbn [length] in *; try lia; exact (is_bytes_tail _ _ Hs)).
      assert (E : (sc <=? sc) && (sc <=? sc) = true) by lia. rewrite E. reflexivity.
    + assert (E : (c <=? sc) && (sc <=? c) = false) by lia. rewrite E. reflexivity.
  - (* character list *)
    assert (G' : range_to_rbracket_from PList0 rest = false).
    { cbn [range_to_rbracket_from pnext orb] in G. change (91 =? 92) with false in G.
      change (91 =? 91) with true in G. cbn iota in G. exact G. }
    rewrite smf_cons by discriminate.
    destruct s as [|sc s1]; [reflexivity|].
    change (91 =? 63) with false. change (91 =? 91) with true. cbn iota. cbv zeta.
    pose proof (skip_caret rest) as Hc. rewrite Hsk in Hc. injection Hc as <- <-.
    inversion Hs as [|? ? Hsc Hs1]; subst.
    destruct (list_scan_class rest neg r1 chars rest2 sc Hsk Hcl G' Hsc) as (G2 & Hl).
    rewrite Hl. cbn [gmatch].
    destruct (in_ranges (runs (if neg then map negb chars else chars)) sc); [|reflexivity].
    apply IH; [exact G2| |exact Hs1].
    pose proof (skip_byte_length _ _ _ _ Hsk). pose proof (class_loop_length _ _ _ _ _ (le_n _) Hcl). lia.
  - (* an ordinary byte *)
    rewrite rb_top_step in G by assumption. rewrite smf_cons by assumption.
    destruct s as [|sc s1]; [reflexivity|].
    rewrite (neqb _ _ H63), (neqb _ _ H91), (neqb _ _ H92).
    cbn [gmatch]. rewrite in_ranges_single.
    destruct (N.eqb_spec c sc) as [->|Hc].
    + rewrite (IH G f s1) by (try lia; exact (is_bytes_tail _ _ Hs)).
      assert (E : (sc <=? sc) && (sc <=? sc) = true) by lia. rewrite E. reflexivity.
    + assert (E : (c <=? sc) && (sc <=? c) = false) by lia. rewrite E. reflexivity.
Qed.

(* ---------- Compile + Match = Str_Match ---------- *)

Theorem match_is_strmatch_partial : forall (p : str) (a : pattern) (s : str),
  is_bytes s -> range_to_rbracket p = false ->
  compile p = Ok (Some a) ->
  exists b, matchp a s = Ok b /\ str_match p s = Some b.
Proof.
  intros p a s Hs G Hc.
  destruct (compile_chain p a Hc) as (es & P & ->).
  exists (gmatch es s). split; [apply matchp_chain; exact Hs|].
  unfold str_match. apply (strmatch_gmatch p es P G); [lia|exact Hs].
Qed.
