(* C18: the CVS gate in front of checkPatchSha1 (checkUncommittedPatch) never
   changes the verdict about the hash; it only decides about one extra warning. *)
From Coq Require Import Lia.
From PV Require Import Lib.Bytes Model.Lines Model.PatchSum Spec.PatchSumSpec Proofs.LinesLoop Proofs.PatchSum.
Open Scope N_scope.

Lemma load_texts_total raw : exists ts, load_texts raw = Ok ts.
Proof.
  unfold load_texts. destruct (convert_total raw false) as [ls Hc]. rewrite Hc. eauto.
Qed.

Lemma load_cvs_entries_total d : exists es, load_cvs_entries d = Ok es.
Proof.
  unfold load_cvs_entries. destruct (cvs_entries d) as [raw|]; [|eauto].
  destruct (load_texts_total raw) as [ts ->].
  destruct (cvs_entries_log d) as [lraw|]; [|eauto].
  destruct (load_texts_total lraw) as [lts ->]. eauto.
Qed.

Lemma is_committed_total d b : exists c, is_committed d b = Ok c.
Proof.
  unfold is_committed. destruct (load_cvs_entries_total d) as [[es|] ->]; eauto.
Qed.

(* without a readable CVS/Entries nothing is committed, whatever Entries.Log says *)
Lemma is_committed_no_entries l b : is_committed (mk_cvs_dir None l) b = Ok false.
Proof. reflexivity. Qed.

Section WithHash.
Variable H : str -> str.

Definition sha1_verdict (alg : str) (p : option str) (d : str) : option verdict :=
  if str_eqb alg sha1_name then Some (check_patch_sha1 H p d) else None.

Lemma check_uncommitted_shape dc pd name alg p d :
  exists c, is_committed pd name = Ok c /\
  check_uncommitted_patch H dc pd name alg p d = Ok (dc && negb c, sha1_verdict alg p d).
Proof.
  destruct (is_committed_total pd name) as [c Hc]. exists c. split; [exact Hc|].
  unfold check_uncommitted_patch, sha1_verdict. destruct dc; [rewrite Hc|]; reflexivity.
Qed.

(* the gate as one equation: the warning is distinfo-committed && not patch-committed,
   the verdict is checkPatchSha1's, untouched *)
Theorem gate_shape pkg pd name alg p d :
  exists dc c, is_committed pkg distinfo_name = Ok dc /\ is_committed pd name = Ok c /\
  check_entry_cvs H pkg pd name alg p d = Ok (dc && negb c, sha1_verdict alg p d).
Proof.
  destruct (is_committed_total pkg distinfo_name) as [dc Hdc].
  destruct (check_uncommitted_shape dc pd name alg p d) as [c [Hc Hu]].
  exists dc, c. repeat split; try assumption.
  unfold check_entry_cvs. rewrite Hdc. exact Hu.
Qed.

Theorem gate_total pkg pd name alg p d :
  exists w v, check_entry_cvs H pkg pd name alg p d = Ok (w, v).
Proof. destruct (gate_shape pkg pd name alg p d) as [dc [c [_ [_ E]]]]. eauto. Qed.

Theorem gate_verdict_is_check pkg pd name p d :
  exists w, check_entry_cvs H pkg pd name sha1_name p d = Ok (w, Some (check_patch_sha1 H p d)).
Proof.
  destruct (gate_shape pkg pd name sha1_name p d) as [dc [c [_ [_ E]]]].
  exists (dc && negb c). rewrite E. unfold sha1_verdict. rewrite str_eqb_refl. reflexivity.
Qed.

Theorem verdict_independent_of_cvs pkg1 pd1 pkg2 pd2 name alg p d :
  exists w1 w2 v,
    check_entry_cvs H pkg1 pd1 name alg p d = Ok (w1, v) /\
    check_entry_cvs H pkg2 pd2 name alg p d = Ok (w2, v).
Proof.
  destruct (gate_shape pkg1 pd1 name alg p d) as [dc1 [c1 [_ [_ E1]]]].
  destruct (gate_shape pkg2 pd2 name alg p d) as [dc2 [c2 [_ [_ E2]]]].
  exists (dc1 && negb c1), (dc2 && negb c2), (sha1_verdict alg p d). split; assumption.
Qed.

Theorem accept_iff_equal_all_cvs pkg pd name s d :
  (exists w, check_entry_cvs H pkg pd name sha1_name (Some s) d = Ok (w, Some Silent))
  <-> d = makepatchsum H s.
Proof.
  destruct (gate_verdict_is_check pkg pd name (Some s) d) as [w0 E]. split.
  - intros [w Hw]. rewrite E in Hw. injection Hw as _ Hv. apply (accept_iff_equal H). exact Hv.
  - intros Hd. exists w0. rewrite E. apply (accept_iff_equal H) in Hd. rewrite Hd. reflexivity.
Qed.

Theorem reject_reports_digest_all_cvs pkg pd name s d :
  d <> makepatchsum H s ->
  exists w, check_entry_cvs H pkg pd name sha1_name (Some s) d
            = Ok (w, Some (Differs d (makepatchsum H s))).
Proof.
  intros Hd. destruct (gate_verdict_is_check pkg pd name (Some s) d) as [w0 E].
  exists w0. rewrite E. rewrite (reject_reports_digest H s d Hd). reflexivity.
Qed.

Theorem uncommitted_warning_exact pkg pd name alg p d w v :
  check_entry_cvs H pkg pd name alg p d = Ok (w, v) ->
  (w = true <-> is_committed pkg distinfo_name = Ok true /\ is_committed pd name = Ok false).
Proof.
  destruct (gate_shape pkg pd name alg p d) as [dc [c [Hdc [Hc E]]]].
  rewrite E. intros Hw. injection Hw as Hw _. subst w. rewrite Hdc, Hc.
  destruct dc, c; cbn; split; try discriminate; try tauto;
    intros [A B]; try discriminate A; try discriminate B; reflexivity.
Qed.
End WithHash.
